// C09 correspondence harness.
// one-channel mode: a real ola::rpc::RpcChannel on one end of a socketpair, the harness on the other end
//   writing raw bytes in the generated chunking and driving DescriptorReady() level-triggered (as the
//   select server does); ASan watches the message buffer.
// two-channel mode (token "2"): two real RpcChannels back to back over a pipe pair; A is the client
//   (calls methods of TestService and of OlaServerService), B serves TestService only, answers when the
//   script says so (asynchronously, in any order).
#include <errno.h>
#include <fcntl.h>
#include <poll.h>
#include <pthread.h>
#include <stdint.h>
#include <sys/ioctl.h>
#include <sys/socket.h>
#include <unistd.h>
#include <map>
#include <memory>
#include <sstream>
#include <string>
#include <vector>
#include "vh.h"

#define private public
#define protected public
#include "ola/util/SequenceNumber.h"
#include "common/rpc/RpcChannel.h"
#undef private
#undef protected
#include "common/protocol/Ola.pb.h"
#include "common/protocol/OlaService.pb.h"
#include "common/rpc/Rpc.pb.h"
#include "common/rpc/RpcController.h"
#include "common/rpc/RpcServer.h"
#include "common/rpc/RpcSession.h"
#include "ola/Clock.h"
#include "ola/io/SelectServer.h"
#include "ola/rpc/RpcSessionHandler.h"
#include "common/rpc/TestService.pb.h"
#include "common/rpc/TestServiceService.pb.h"
#include "ola/Callback.h"
#include "ola/ExportMap.h"
#include "ola/Logging.h"
#include "ola/io/Descriptor.h"

using ola::rpc::EchoReply;
using ola::rpc::EchoRequest;
using ola::rpc::RpcChannel;
using ola::rpc::RpcController;
using ola::rpc::RpcMessage;
using std::string;
using std::vector;

extern "C" size_t __sanitizer_get_allocated_size(const volatile void *p);

namespace {

// hex for reporting: long strings are reported as #<length>.<adler32-style digest>
string lhex(const string &v) {
  if (v.size() <= 100) return vh::hex(v);
  unsigned a = 1, b = 0;
  for (size_t i = 0; i < v.size(); i++) {
    a = (a + static_cast<uint8_t>(v[i])) % 65521;
    b = (b + a) % 65521;
  }
  std::ostringstream o;
  o << "#" << v.size() << "." << (b * 65536u + a);
  return o.str();
}

struct Ctx {
  std::ostringstream done, svc;
  unsigned handler_runs[2];
  Ctx() { handler_runs[0] = handler_runs[1] = 0; }
};
Ctx *g_ctx = NULL;

// The service behind the channel.  Synchronous like TestServiceImpl, or (async) it keeps the
// completion callback and runs it when the script says so.
class Service : public ola::rpc::TestService {
 public:
  struct Pending {
    RpcController *controller;
    EchoReply *response;
    CompletionCallback *done;
  };
  bool async;
  unsigned nreq;
  std::map<unsigned, Pending> pending;
  // server mode: one service behind many channels; requests are numbered per client
  bool per_client;
  std::map<unsigned, unsigned> nreq_of;
  unsigned Number(RpcController *controller) {
    if (!per_client) return nreq++;
    unsigned client = static_cast<unsigned>(reinterpret_cast<uintptr_t>(controller->Session()->GetData())) - 1;
    g_ctx->svc << "@" << client;
    return (client << 16) | nreq_of[client]++;
  }

  Service() : async(false), nreq(0), per_client(false) {}

  void Note(const char *name, const EchoRequest *request) {
    g_ctx->svc << "|V" << vh::hex(string(name)) << ":" << lhex(request->SerializePartialAsString());
  }
  void Echo(RpcController *controller, const EchoRequest *request, EchoReply *response,
            CompletionCallback *done) {
    Note("Echo", request);
    unsigned q = Number(controller);
    if (async) {
      Pending p = {controller, response, done};
      pending[q] = p;
      return;
    }
    // a request may ask for a reply longer than itself: session_ptr = 2^50 + number of padding bytes
    if (request->has_session_ptr() && request->session_ptr() >= (1LL << 50) &&
        request->session_ptr() < (1LL << 50) + 4000000)
      response->set_data(request->data() + string(request->session_ptr() - (1LL << 50), 'y'));
    else
      response->set_data(request->data());
    done->Run();
  }
  void FailedEcho(RpcController *controller, const EchoRequest *request, EchoReply *response,
                  CompletionCallback *done) {
    Note("FailedEcho", request);
    unsigned q = Number(controller);
    if (async) {
      Pending p = {controller, response, done};
      pending[q] = p;
      return;
    }
    controller->SetFailed(request->data().empty() ? string("Error") : request->data());
    done->Run();
  }
  void Stream(RpcController *controller, const EchoRequest *request, ola::rpc::STREAMING_NO_RESPONSE*,
              CompletionCallback *done) {
    Note("Stream", request);
    if (done) {   // called through a plain REQUEST: reply with the empty message
      Number(controller);
      done->Run();
    } else if (per_client) {
      g_ctx->svc << "@" << (static_cast<unsigned>(reinterpret_cast<uintptr_t>(controller->Session()->GetData())) - 1);
    }
  }
  // the script completes request q
  void Complete(unsigned q, bool fail) {
    std::map<unsigned, Pending>::iterator it = pending.find(q);
    if (it == pending.end()) return;
    Pending p = it->second;
    pending.erase(it);
    if (fail)
      p.controller->SetFailed("Error");
    else
      p.response->set_data("r");
    p.done->Run();
  }
};

// A second service with a different descriptor (for SetService): three methods of OlaServerService.
class OtherService : public ola::proto::OlaServerService {
 public:
  void GetPlugins(RpcController*, const ola::proto::PluginListRequest *request, ola::proto::PluginListReply*,
                  CompletionCallback *done) {
    g_ctx->svc << "|V" << vh::hex(string("GetPlugins")) << ":" << lhex(request->SerializePartialAsString());
    done->Run();
  }
  void GetDmx(RpcController*, const ola::proto::UniverseRequest *request, ola::proto::DmxData *response,
              CompletionCallback *done) {
    g_ctx->svc << "|V" << vh::hex(string("GetDmx")) << ":" << lhex(request->SerializePartialAsString());
    response->set_universe(1);
    response->set_data("d");
    done->Run();
  }
  void StreamDmxData(RpcController*, const ola::proto::DmxData *request, ola::proto::STREAMING_NO_RESPONSE*,
                     CompletionCallback *done) {
    g_ctx->svc << "|V" << vh::hex(string("StreamDmxData")) << ":" << lhex(request->SerializePartialAsString());
    if (done) done->Run();
  }
};

struct Call {
  RpcController controller;
  EchoReply reply;
  google::protobuf::Message *out;   // the reply object given to CallMethod (own, or one the caller reuses)
  unsigned k;
  Call **slot;                      // where the caller keeps this call (cleared when the call completes)
  Call() : out(&reply), k(0), slot(NULL) {}
};

void OnDone(Call *c) {
  g_ctx->done << "|D" << c->k << ":";
  if (c->controller.Failed())
    g_ctx->done << "F:" << lhex(c->controller.ErrorText());
  else
    g_ctx->done << "R:" << lhex(c->out->SerializePartialAsString());
  // like OlaClientCore, the application frees the per-call controller (and reply) in its completion
  // callback: the channel must not touch them afterwards
  if (c->slot) *c->slot = NULL;
  delete c;
}

void OnChannelCloseA(ola::rpc::RpcSession*) { g_ctx->handler_runs[0]++; }
void OnChannelCloseB(ola::rpc::RpcSession*) { g_ctx->handler_runs[1]++; }

// poller: while the descriptor is open and readable call DescriptorReady
bool Drain(RpcChannel *channel, ola::io::ConnectedDescriptor *sock) {
  bool any = false;
  for (unsigned guard = 0; guard < 5000000; guard++) {
    if (!sock->ValidReadDescriptor()) return any;
    int before = sock->DataRemaining();
    if (before <= 0) return any;
    channel->DescriptorReady();
    any = true;
    if (sock->ValidReadDescriptor() && sock->DataRemaining() == before) return any;  // no progress
  }
  return any;
}

// the application calls a method through the channel
struct Caller {
  std::vector<Call*> calls;
  unsigned ncalls;
  EchoRequest echo_request;
  ola::proto::PluginListRequest plugin_request;
  ola::proto::DmxData dmx;
  ola::proto::UniverseRequest universe_request;
  // reply objects the application keeps and hands to every GetDmx / GetUIDs call (optional and
  // repeated fields: the reply delivered must be the decoded answer, not a blend with earlier ones)
  ola::proto::DmxData shared_dmx;
  ola::proto::UIDListReply shared_uids;
  Caller() : ncalls(0) {
    calls.reserve(8192);   // the slots handed to the calls must not move
    echo_request.set_data("x");
    dmx.set_universe(1);
    dmx.set_data("d");
    universe_request.set_universe(1);
  }
  ~Caller() { for (size_t i = 0; i < calls.size(); i++) delete calls[i]; }
  // code: a letter, optionally followed by the length of the request's data ("e1005")
  bool Do(RpcChannel *channel, const string &code_and_size) {
    string code = code_and_size;
    size_t digits = code.find_first_of("0123456789");
    if (digits != string::npos) {
      echo_request.set_data(string(vh::num(code.substr(digits)), 'x'));
      code = code.substr(0, digits);
    } else {
      echo_request.set_data("x");
    }
    const google::protobuf::ServiceDescriptor *ts = ola::rpc::TestService::descriptor();
    const google::protobuf::ServiceDescriptor *os = ola::proto::OlaServerService::descriptor();
    unsigned k = ncalls++;
    if (code == "t") {
      channel->CallMethod(ts->FindMethodByName("Stream"), NULL, &echo_request, NULL, NULL);
      return true;
    }
    if (code == "d") {
      channel->CallMethod(os->FindMethodByName("StreamDmxData"), NULL, &dmx, NULL, NULL);
      return true;
    }
    Call *call = new Call();
    call->k = k;
    calls.push_back(call);
    call->slot = &calls.back();
    if (code == "" || code == "e") {
      channel->CallMethod(ts->FindMethodByName("Echo"), &call->controller, &echo_request, &call->reply,
                          ola::NewSingleCallback(&OnDone, call));
    } else if (code == "f") {
      channel->CallMethod(ts->FindMethodByName("FailedEcho"), &call->controller, &echo_request, &call->reply,
                          ola::NewSingleCallback(&OnDone, call));
    } else if (code == "x") {
      call->out = &shared_dmx;
      channel->CallMethod(os->FindMethodByName("GetDmx"), &call->controller, &universe_request, call->out,
                          ola::NewSingleCallback(&OnDone, call));
    } else if (code == "u") {
      call->out = &shared_uids;
      channel->CallMethod(os->FindMethodByName("GetUIDs"), &call->controller, &universe_request, call->out,
                          ola::NewSingleCallback(&OnDone, call));
    } else if (code == "g") {
      // the channel parses whatever reply arrives into the message it is given; use an EchoReply so
      // that the completion's payload can be reported like the others
      channel->CallMethod(os->FindMethodByName("GetPlugins"), &call->controller, &plugin_request,
                          &call->reply, ola::NewSingleCallback(&OnDone, call));
    } else {
      return false;
    }
    return true;
  }
};

string Counters(ola::ExportMap *export_map) {
  std::ostringstream out;
  ola::UIntMap *types = export_map->GetUIntMapVar("rpc-received-type", "type");
  out << "|rx" << export_map->GetCounterVar("rpc-received")->Get()
      << "/" << (*types)["request"] << "/" << (*types)["response"] << "/" << (*types)["cancelled"]
      << "/" << (*types)["failed"] << "/" << (*types)["not-implemented"] << "/" << (*types)["stream_request"];
  return out.str();
}

string HandleTwo(const vector<string> &toks) {
  Ctx ctx;
  g_ctx = &ctx;
  ola::ExportMap map_a, map_b;
  Service service;
  ola::io::PipeDescriptor pa;
  if (!pa.Init()) return "harness-error=pipe";
  std::auto_ptr<ola::io::PipeDescriptor> pb(pa.OppositeEnd());
  Caller caller;
  std::ostringstream out;
  {
    RpcChannel a(NULL, &pa, &map_a);
    RpcChannel b(&service, pb.get(), &map_b);
    a.SetChannelCloseHandler(ola::NewSingleCallback(&OnChannelCloseA));
    b.SetChannelCloseHandler(ola::NewSingleCallback(&OnChannelCloseB));
    unsigned idx = 0;
    for (size_t t = 0; t < toks.size(); t++) {
      const string &tok = toks[t];
      if (tok.empty()) continue;
      char c = tok[0];
      string rest = tok.substr(1);
      if (c == '@' || c == 'T' || c == 'Q' || c == '2') continue;
      if (c == 'A') { service.async = true; continue; }
      if (c == 'q') { a.m_sequence.m_sequence_number = static_cast<uint32_t>(vh::num(rest)); continue; }
      std::ostringstream svc_b;
      if (c == 'm') {
        if (!caller.Do(&a, rest)) return "harness-error=call";
      } else if (c == 'k') {
        service.Complete(vh::num(rest.substr(0, rest.size() - 1)), rest[rest.size() - 1] == 'F');
      } else {
        return "harness-error=token";
      }
      // deliver everything in flight, B first, until quiet
      for (unsigned guard = 0; guard < 1000; guard++) {
        bool any = Drain(&b, pb.get());
        any = Drain(&a, &pa) || any;
        if (!any) break;
      }
      out << "o" << idx << "=x" << (pa.ValidReadDescriptor() ? 0 : 1) << (a.m_descriptor ? 0 : 1)
          << Counters(&map_a) << ctx.done.str() << "|H" << ctx.handler_runs[0]
          << "#x" << (pb->ValidReadDescriptor() ? 0 : 1) << (b.m_descriptor ? 0 : 1)
          << Counters(&map_b) << ctx.svc.str() << "|H" << ctx.handler_runs[1] << ";";
      ctx.done.str("");
      ctx.svc.str("");
      idx++;
    }
    // requests the service never completed: their callbacks (and OutstandingRequests) are dropped
  }
  out << "oversize_accepted=0;hazard=none";
  g_ctx = NULL;
  return out.str();
}

// oracle mode "P <hex> <hex> ...": what the real RpcMessage parser makes of each body
// (used by the generator to fill the decode table for arbitrary bodies)
string HandleParse(const vector<string> &toks) {
  std::ostringstream out;
  for (size_t t = 1; t < toks.size(); t++) {
    vector<uint8_t> b = vh::unhex(toks[t]);
    RpcMessage m;
    out << "p" << (t - 1) << "=";
    if (!m.ParseFromArray(b.data(), b.size()))
      out << "none;";
    else
      out << m.type() << "," << m.id() << "," << vh::hex(m.name()) << "," << vh::hex(m.buffer()) << ";";
    // does its buffer parse as the test service's request, and what would Echo reply
    EchoRequest rq;
    out << "q" << (t - 1) << "=";
    if (m.has_buffer() && rq.ParseFromString(m.buffer())) {
      EchoReply rp;
      rp.set_data(rq.data());
      out << vh::hex(rp.SerializeAsString()) << ";";
    } else {
      out << "none;";
    }
    // would a reply with this buffer be reported back unchanged by a completion (EchoReply round trip)
    EchoReply back;
    back.ParsePartialFromString(m.buffer());
    out << "r" << (t - 1) << "=" << (back.SerializePartialAsString() == m.buffer() ? "1" : "0") << ";";
  }
  out << "hazard=none";
  return out.str();
}

// One real RpcChannel on one end of a socketpair with everything that belongs to it; the harness is the
// peer.  Several of these live side by side in multi-channel mode.
struct Endpoint {
  ola::ExportMap export_map;
  Service service;
  OtherService other_service;
  // the channel's descriptor: one end of a socketpair, or (big mode) of a pipe pair whose write side
  // blocks, with a thread emptying the peer side so that sends of any size go through
  ola::io::UnixSocket usock;
  ola::io::PipeDescriptor psock;
  ola::io::ConnectedDescriptor *sock, *peer;
  int pwfd, prfd, cfd;
  bool big;
  pthread_t reader;
  pthread_mutex_t mu;
  volatile bool stop;
  Caller caller;
  string pending_out;   // bytes the channel sent that do not form a whole frame yet
  bool jam;
  unsigned handler_runs;
  RpcChannel *channel;

  static void OnClose(Endpoint *self, ola::rpc::RpcSession*) { self->handler_runs++; }

  bool no_export;
  static void *ReaderMain(void *arg) {
    Endpoint *e = static_cast<Endpoint*>(arg);
    while (!e->stop) {
      struct pollfd p = {e->prfd, POLLIN, 0};
      poll(&p, 1, 5);
      e->ReadPeer();
    }
    return NULL;
  }
  void ReadPeer() {
    pthread_mutex_lock(&mu);
    char buf[65536];
    ssize_t n;
    while ((n = read(prfd, buf, sizeof(buf))) > 0) pending_out.append(buf, n);
    pthread_mutex_unlock(&mu);
  }
  Endpoint(bool no_service, bool async, bool no_export_map, bool big_mode)
      : sock(NULL), peer(NULL), pwfd(-1), prfd(-1), cfd(-1), big(big_mode), stop(false), jam(false),
        handler_runs(0), channel(NULL), no_export(no_export_map) {
    pthread_mutex_init(&mu, NULL);
    service.async = async;
    if (big) {
      if (!psock.Init()) return;
      sock = &psock;
      peer = psock.OppositeEnd();
    } else {
      if (!usock.Init()) return;
      sock = &usock;
      peer = usock.OppositeEnd();
    }
    pwfd = peer->WriteDescriptor();
    prfd = peer->ReadDescriptor();
    cfd = sock->WriteDescriptor();
    fcntl(pwfd, F_SETFL, fcntl(pwfd, F_GETFL) | O_NONBLOCK);
    fcntl(prfd, F_SETFL, fcntl(prfd, F_GETFL) | O_NONBLOCK);
    channel = new RpcChannel(no_service ? NULL : &service, sock, no_export ? NULL : &export_map);
    if (big) pthread_create(&reader, NULL, &Endpoint::ReaderMain, this);
    channel->SetChannelCloseHandler(ola::NewSingleCallback(&Endpoint::OnClose, this));
  }
  ~Endpoint() {
    if (big && channel) {
      stop = true;
      pthread_join(reader, NULL);
    }
    delete channel;
    delete peer;
  }
  bool StillOpen() { return sock->ValidReadDescriptor(); }

  // returns false for an unknown token; `emit` says whether the op produces an output record
  bool Apply(const string &tok, bool *emit, std::ostringstream *out) {
    *emit = false;
    char c = tok[0];
    string rest = tok.substr(1);
    if (c == 'z') {
      // fill the channel's send direction so that every later Send() fails; stop reading our end
      char junk[4096];
      memset(junk, 0, sizeof(junk));
      while (write(cfd, junk, sizeof(junk)) > 0) {}
      while (write(cfd, junk, 1) > 0) {}
      jam = true;
      return true;
    }
    if (c == 'q') {
      channel->m_sequence.m_sequence_number = static_cast<uint32_t>(vh::num(rest));
      return true;
    }
    if (c == 'v') {
      // the application installs another service (or none) in mid-history
      unsigned k = vh::num(rest);
      channel->SetService(k == 0 ? NULL : k == 1 ? static_cast<ola::rpc::RpcService*>(&service)
                                                 : static_cast<ola::rpc::RpcService*>(&other_service));
    } else
    if (c == 'w') {
      // bytes arrive but the poller has not run yet
      vector<uint8_t> bytes = vh::unhex(rest);
      if (!bytes.empty() && write(pwfd, bytes.data(), bytes.size()) != static_cast<ssize_t>(bytes.size()))
        return false;
      return true;
    }
    if (c == 'p') {
      // the peer goes away: what it wrote stays readable, every later write to it fails
      peer->Close();
      jam = true;
      return true;
    }
    if (c == 'c') {
      vector<uint8_t> bytes = vh::unhex(rest);
      size_t off = 0;
      while (off < bytes.size() && sock->ValidReadDescriptor() && peer->ValidReadDescriptor()) {
        ssize_t w = write(pwfd, bytes.data() + off, bytes.size() - off);
        if (w > 0) off += w;
        else if (w < 0 && errno != EAGAIN && errno != EINTR) break;
        int before = sock->ValidReadDescriptor() ? sock->DataRemaining() : 0;
        Drain(channel, sock);
        if (w <= 0 && sock->ValidReadDescriptor() && sock->DataRemaining() == before) break;  // stuck
      }
      Drain(channel, sock);
    } else if (c == 'm') {
      if (!caller.Do(channel, rest)) return false;
    } else if (c == 'k') {
      service.Complete(vh::num(rest.substr(0, rest.size() - 1)), rest[rest.size() - 1] == 'F');
    } else if (c != 'v') {
      return false;
    }
    *emit = true;
    // what the channel wrote to us
    std::ostringstream sent;
    if (!jam) {
      ReadPeer();
      pthread_mutex_lock(&mu);
      while (pending_out.size() >= 4) {
        uint32_t header;
        memcpy(&header, pending_out.data(), 4);
        unsigned size = header & 0x0fffffff;
        if (pending_out.size() < 4 + size) break;
        RpcMessage m;
        if (!m.ParseFromArray(pending_out.data() + 4, size)) {
          sent << "|Sunparsable";
        } else {
          sent << "|S" << m.type() << ":" << m.id() << ":" << vh::hex(m.name()) << ":" << lhex(m.buffer());
          if ((header >> 28) != 1) sent << "!version";
        }
        pending_out.erase(0, 4 + size);
      }
      pthread_mutex_unlock(&mu);
    }
    *out << "x" << (sock->ValidReadDescriptor() ? 0 : 1) << (channel->m_descriptor ? 0 : 1)
         << (no_export ? string("|rx-") : Counters(&export_map)) << g_ctx->done.str() << sent.str() << g_ctx->svc.str() << "|H"
         << handler_runs;
    g_ctx->done.str("");
    g_ctx->svc.str("");
    return true;
  }
  string Internal() {
    std::ostringstream o;
    o << "e" << channel->m_expected_size << "c" << channel->m_current_size
      << "b" << channel->m_buffer_size << "a"
      << (channel->m_buffer ? __sanitizer_get_allocated_size(channel->m_buffer) : 0);
    return o.str();
  }
};

// server mode (token "S<n>"): a real RpcServer with n clients on injected socketpairs, one service and one
// ExportMap behind all of them, a real SelectServer running the event loop.  Clients come and go
// (p = the client hangs up) while requests of theirs may still be with the asynchronous service.
class SessionCounter : public ola::rpc::RpcSessionHandlerInterface {
 public:
  unsigned added, removed;
  SessionCounter() : added(0), removed(0) {}
  void NewClient(ola::rpc::RpcSession *session) {
    session->SetData(reinterpret_cast<void*>(static_cast<uintptr_t>(++added)));
  }
  void ClientRemoved(ola::rpc::RpcSession *session) {
    removed++;
    g_ctx->done << "|R" << (reinterpret_cast<uintptr_t>(session->GetData()) - 1);
  }
};

string HandleServer(const vector<string> &toks, unsigned nclients, bool async) {
  Ctx ctx;
  g_ctx = &ctx;
  std::ostringstream out;
  {
    ola::ExportMap export_map;
    Service service;
    service.async = async;
    service.per_client = true;
    SessionCounter sessions;
    ola::io::SelectServer ss;
    ola::rpc::RpcServer::Options options;
    options.export_map = &export_map;
    std::vector<ola::io::UnixSocket*> peers;
    std::vector<string> pending_out(nclients);
    std::vector<bool> gone(nclients, false);
    {
      ola::rpc::RpcServer server(&ss, &service, &sessions, options);
      for (unsigned i = 0; i < nclients; i++) {
        ola::io::UnixSocket *sock = new ola::io::UnixSocket();
        if (!sock->Init()) return "harness-error=socketpair";
        peers.push_back(sock->OppositeEnd());
        server.AddClient(sock);   // the server owns the descriptor from here
      }
      unsigned cur = 0, idx = 0;
      for (size_t t = 0; t < toks.size(); t++) {
        const string &tok = toks[t];
        if (tok.empty()) continue;
        char c = tok[0];
        string rest = tok.substr(1);
        if (c == '@' || c == 'T' || c == 'Q' || c == 'A' || c == 'S') continue;
        if (c == 'i') {
          cur = vh::num(rest);
          if (cur >= nclients) return "harness-error=client-index";
          continue;
        }
        if (c == 'c') {
          vector<uint8_t> bytes = vh::unhex(rest);
          // writing fails once the server side has closed this connection
          if (!gone[cur] && !bytes.empty() &&
              write(peers[cur]->WriteDescriptor(), bytes.data(), bytes.size()) != static_cast<ssize_t>(bytes.size()))
            ctx.done << "|!";
        } else if (c == 'p') {
          if (!gone[cur]) peers[cur]->Close();
          gone[cur] = true;
        } else if (c == 'k') {
          service.Complete((cur << 16) | vh::num(rest.substr(0, rest.size() - 1)), rest[rest.size() - 1] == 'F');
        } else {
          return "harness-error=token";
        }
        // run the event loop until it has nothing more to do: every byte the clients wrote has been
        // consumed (or dropped by a close), plus a few rounds for close handlers and deferred clean-up
        for (int round = 0, quiet = 0; round < 100000 && quiet < 4; round++) {
          ss.RunOnce(ola::TimeInterval(0, 200));
          bool unread = false;
          for (unsigned i = 0; i < nclients; i++) {
            int queued = 0;
            if (!gone[i] && ioctl(peers[i]->WriteDescriptor(), TIOCOUTQ, &queued) == 0 && queued > 0) unread = true;
          }
          quiet = unread ? 0 : quiet + 1;
        }
        std::ostringstream sent;
        if (!gone[cur]) {
          char buf[65536];
          ssize_t n;
          while ((n = read(peers[cur]->ReadDescriptor(), buf, sizeof(buf))) > 0) pending_out[cur].append(buf, n);
          string &po = pending_out[cur];
          while (po.size() >= 4) {
            uint32_t header;
            memcpy(&header, po.data(), 4);
            unsigned size = header & 0x0fffffff;
            if (po.size() < 4 + size) break;
            RpcMessage m;
            if (!m.ParseFromArray(po.data() + 4, size)) sent << "|Sunparsable";
            else sent << "|S" << m.type() << ":" << m.id() << ":" << vh::hex(m.name()) << ":" << lhex(m.buffer());
            po.erase(0, 4 + size);
          }
        }
        out << "o" << idx << "=#" << cur << "#n" << export_map.GetIntegerVar("clients-connected")->Get()
            << "+" << sessions.added << "-" << sessions.removed
            << Counters(&export_map) << ctx.done.str() << sent.str() << ctx.svc.str() << ";";
        ctx.done.str("");
        ctx.svc.str("");
        idx++;
      }
      // the server goes away with clients still connected: it closes them all
    }
    out << "end=+" << sessions.added << "-" << sessions.removed << ";";
    for (size_t i = 0; i < peers.size(); i++) delete peers[i];
    // requests the service still holds belong to channels that no longer exist: completing them now
    // must not touch anything freed
    std::vector<unsigned> left;
    for (std::map<unsigned, Service::Pending>::iterator it = service.pending.begin(); it != service.pending.end(); ++it)
      left.push_back(it->first);
    for (size_t i = 0; i < left.size(); i++) service.Complete(left[i], false);
    (void) left.size();
  }
  out << "oversize_accepted=0;hazard=none";
  g_ctx = NULL;
  return out.str();
}

string Handle(const string &payload) {
  vector<string> toks = vh::split(payload);
  if (!toks.empty() && toks[0] == "P") return HandleParse(toks);
  bool no_service = false, async = false, oversize_script = false, no_export = false, big = false;
  unsigned nchan = 1;
  for (size_t t = 0; t < toks.size(); t++) {
    if (toks[t] == "2") return HandleTwo(toks);
    if (toks[t] == "N") no_service = true;
    if (toks[t] == "E") no_export = true;   // the channel gets no ExportMap
    if (toks[t] == "A") async = true;
    if (toks[t] == "B") big = true;   // big mode: sends of about 1 MB go through (blocking pipe + draining reader)
    if (toks[t] == "X") oversize_script = true;
    if (toks[t].size() > 1 && toks[t][0] == 'M') nchan = vh::num(toks[t].substr(1));   // multi-channel mode
  }
  for (size_t t = 0; t < toks.size(); t++)
    if (toks[t].size() > 1 && toks[t][0] == 'S') return HandleServer(toks, vh::num(toks[t].substr(1)), async);
  if (nchan < 1 || nchan > 16) return "harness-error=channels";
  Ctx ctx;
  g_ctx = &ctx;
  std::ostringstream out;
  bool still_open = false;
  {
    // all channels live side by side for the whole script
    std::vector<Endpoint*> eps;
    for (unsigned i = 0; i < nchan; i++) {
      eps.push_back(new Endpoint(no_service, async, no_export, big));
      if (!eps.back()->channel) return "harness-error=socketpair";
    }
    unsigned cur = 0, idx = 0;
    for (size_t t = 0; t < toks.size(); t++) {
      const string &tok = toks[t];
      if (tok.empty()) continue;
      char c = tok[0];
      if (c == '@' || c == 'T' || c == 'Q' || c == 'X' || c == 'N' || c == 'A' || c == 'M' || c == 'E' || c == 'B') continue;
      if (c == 'i') {   // the following ops belong to channel <k>
        cur = vh::num(tok.substr(1));
        if (cur >= nchan) return "harness-error=channel-index";
        continue;
      }
      bool emit = false;
      std::ostringstream rec;
      if (!eps[cur]->Apply(tok, &emit, &rec)) return "harness-error=token";
      if (!emit) continue;
      out << "o" << idx << "=";
      if (nchan > 1) out << "#" << cur << "#";
      out << rec.str() << ";i" << idx << "=" << eps[cur]->Internal() << ";";
      idx++;
    }
    still_open = eps[0]->StillOpen();
    for (size_t i = 0; i < eps.size(); i++) delete eps[i];
  }
  // needs no model: after such a header the channel must have been closed
  out << "oversize_accepted=" << (nchan == 1 && oversize_script && still_open ? 1 : 0) << ";";
  out << "hazard=none";
  g_ctx = NULL;
  return out.str();
}
}  // namespace

int main(int argc, char **argv) {
  ola::InitLogging(ola::OLA_LOG_NONE, ola::OLA_LOG_NULL);
  return vh::run(argc, argv, Handle, 60);
}
