ID = 'C09'
GROUPS = ['common']
CXX_SOURCES = ['common/rpc/TestServiceService.pb.cpp']   # RpcServer.cpp is part of the common group

def gen_consts(v):
    import os
    ents = [(n, 'ola::rpc::' + n) for n in (
        'REQUEST RESPONSE RESPONSE_CANCEL RESPONSE_FAILED RESPONSE_NOT_IMPLEMENTED STREAM_REQUEST').split()]
    ents += [('PROTOCOL_VERSION', 'ola::rpc::RpcChannel::PROTOCOL_VERSION'),
             ('INITIAL_BUFFER_SIZE', 'ola::rpc::RpcChannel::INITIAL_BUFFER_SIZE'),
             ('MAX_BUFFER_SIZE', 'ola::rpc::RpcChannel::MAX_BUFFER_SIZE'),
             ('VERSION_MASK', 'ola::rpc::RpcHeader::VERSION_MASK'),
             ('SIZE_MASK', 'ola::rpc::RpcHeader::SIZE_MASK'),
             ('HEADER_BYTES', 'sizeof(uint32_t)'),
             ('LE_PROBE', 'le_probe()')]
    prelude = ('#include <string.h>\nstatic unsigned le_probe() { unsigned char b[4] = {1, 2, 3, 4}; '
               'uint32_t h; memcpy(&h, b, 4); return h; }')
    err = v.gen_consts_cpp(ID, ['common/rpc/RpcChannel.h', 'common/rpc/RpcHeader.h', 'common/rpc/Rpc.pb.h'],
                           ents, os.path.join(v.VERIF, 'props', ID, 'coq', 'Gen.v'), prelude=prelude)
    if err:
        return err
    # the failure texts: string literals of RpcChannel.cpp, located by the code around them
    import re
    src = open(v.repo_path('common/rpc/RpcChannel.cpp')).read()
    pats = [('SRC_SEND_FAILED', r'if \(!r\) \{.*?SetFailed\("([^"]*)"\)'),
            ('SRC_DUPLICATE', r'already pending.*?SetFailed\("([^"]*)"\)'),
            ('SRC_NOT_IMPLEMENTED',
             r'HandleNotImplemented\(RpcMessage \*msg\) \{.*?(?:SetFailed|FailCall)\((?:[^")]*, *)?"([^"]*)"\)')]
    out = ['(* REGENERATED from common/rpc/RpcChannel.cpp on every run. Do not edit. *)',
           'From Coq Require Import NArith List.', 'Import ListNotations.', 'Local Open Scope N_scope.']
    for name, pat in pats:
        m = re.search(pat, src, re.S)
        if not m:
            # the code was reorganised beyond what these patterns find: keep the last generated file; the texts
            # are still compared on every completion by the correspondence
            return None
        out.append('Definition %s : list N := [%s].' % (name, '; '.join(str(b) for b in m.group(1).encode())))
    new = '\n'.join(out) + '\n'
    path = os.path.join(v.VERIF, 'props', ID, 'coq', 'GenTxt.v')
    if not os.path.exists(path) or open(path).read() != new:
        open(path, 'w').write(new)
    return None

RULE = ('one-channel scripts of chunks/calls/completions: byte streams built from real RpcMessage encodings (requests for '
        'known/unknown/streaming methods, all response kinds for outstanding/unknown/duplicate ids, ignored types), '
        'zero-size, wrong-version, oversize (1 MB, 1 MB+1, 2^28-1, bits 24-27 set with small low bits) and undecodable frames, body sizes around the 2 kB '
        'initial buffer and shrinking/growing sequences, noise, arbitrary/mutated protobuf bodies whose decoding is taken '
        'from the real parser; each stream cut whole / per byte / at every header offset / randomly; calls (ordinary, '
        'streaming, to methods of another service) and service completions interleaved at any offset, also while a frame is '
        'partly received; sequence numbers near 2^32 and forced id '
        'reuse; jammed send direction; requests queued and then served when the reply cannot be written (peer gone / send '
        'buffer full); calls that reuse one reply object with optional and repeated fields; asynchronous service completing requests later, out of order, with duplicate '
        'request ids.  two-channel scripts: two real RpcChannels back to back over a pipe pair, the server lacking '
        'methods and answering when told.  multi-channel scripts: 2-4 independent real channels alive in one process, '
        'their scripts interleaved op by op (partial frames of one connection with reads of the others in between).  '
        'outgoing messages (calls and replies) whose serialized size is swept over 1 MB-70 .. 1 MB+8 (quick: -6 .. +3) '
        'with a draining reader on the peer side.  SetService in mid-history (TestService / an OlaServerService mock / none) with requests for the methods of both services '
        'before and after.  outgoing sizes: calls, service replies and failure texts whose payload length is swept byte by byte over '
        '880-1160, 2020-2070, 4070-4110 (thorough: also 0-40, 100-300, around 8 kB and 64 kB), each followed by ordinary traffic.  '
        'server scripts: a real RpcServer + SelectServer with 1-4 clients on injected socketpairs, requests in pieces, '
        'hang-ups at any time (also with requests still at the asynchronous service, completed afterwards), one shared '
        'ExportMap.  non-trivial = at least one message dispatched by the model; distinct = '
        'distinct model output line')
ASSUMPTIONS = ['realloc does not fail', 'little-endian host (header word is read with the host byte order; LE_PROBE obligation)',
               'ConnectedDescriptor::Receive(buf, n) returns the first min(n, available) bytes (level-triggered poller); '
               'its multi-read cursor defect is C10\'s subject',
               'the service runs each completion callback at most once (it is a SingleUseCallback)',
               'the error text of a superseded request is empty (the service had not called SetFailed on it yet)']
TRUSTED = ['modelled rather than verified: RpcChannel.cpp DescriptorReady/ReadHeader/AllocateMsgBuffer/HandleNewMsg/'
           'HandleRequest/HandleStreamRequest/RequestComplete/SendRequestFailed/SendNotImplemented/Handle*Response/'
           'CallMethod (incl. streaming)/SendMsg, RpcHeader::DecodeHeader; constants regenerated into Gen.v',
           'protobuf parsing of RpcMessage/EchoRequest is a Section function in the theorems; in the correspondence it is '
           'instantiated by a table: computed by the generator (hand encoder in prop.py) for the frames it constructs, and '
           'by the real parser (oracle mode of the harness built from the tree under test) for arbitrary bodies',
           'two-channel mode: the model driver uses its own wire encoding between its two model instances (only decoded '
           'messages are compared; buffer-size internals are not compared in this mode)',
           'harness reads private members (m_expected_size, m_current_size, m_buffer_size, m_sequence) via '
           '#define private public; ASan __sanitizer_get_allocated_size for the real block size']

SPEC_KEYS = set(['hazard', 'oversize_accepted'] + ['o%d' % i for i in range(4096)])
PROC_TIMEOUT = 1200

MAXB = 1 << 20

def hx(bs):
    return bytes(bs).hex() if bs else '-'

def varint(v):
    out = []
    while True:
        b = v & 0x7f
        v >>= 7
        if v:
            out.append(b | 0x80)
        else:
            out.append(b)
            return out

def enc_msg(ty, mid=None, name=None, buf=None):
    b = [0x08] + varint(ty)
    if mid is not None: b += [0x10] + varint(mid)
    if name is not None: b += [0x1a] + varint(len(name)) + list(name)
    if buf is not None: b += [0x22] + varint(len(buf)) + list(buf)
    return b

def header(version, size):
    w = ((version & 15) << 28) | (size & 0x0fffffff)
    return [w & 255, (w >> 8) & 255, (w >> 16) & 255, (w >> 24) & 255]

def echo_req(data, sess=None):
    b = [0x0a] + varint(len(data)) + list(data)
    if sess is not None: b += [0x10] + varint(sess)
    return b

class Script:
    def __init__(self, rng, tag):
        self.rng, self.tag = rng, tag
        self.T, self.Q = {}, {}
        self.stream = []         # bytes
        self.marks = []          # (stream offset, token): calls / completions made at that point
        self.flags = []          # mode tokens (A)
        self.nreq = 0            # requests handed to the service so far (simulated)
        self.pending = []        # request numbers the async service still holds
        self.pre = []            # tokens before anything (q..)
        self.post = []           # tokens after the stream
        self.ids = []            # ids of calls planned so far
        self.codes = {}          # id -> call code
        self.seq = 0
    def setseq(self, v):
        self.pre.append('q%d' % v); self.seq = v
    def call(self, code=''):
        self.marks.append((len(self.stream), 'm' + code))
        if code not in ('t', 'd'): self.ids.append(self.seq); self.codes[self.seq] = code
        self.seq = (self.seq + 1) & 0xffffffff
    def mark(self, tok):
        self.marks.append((len(self.stream), tok))
    def served_request(self, mid, name=b'Echo'):
        """a REQUEST that reaches the service (known method, valid request); returns its number"""
        data = bytes(self.rng.randrange(32, 127) for _ in range(self.rng.choice([0, 1, 3])))
        rq = echo_req(data)
        self.Q[hx(rq)] = hx(rq)
        self.frame(1, mid, name, rq)
        q = self.nreq; self.nreq += 1
        return q
    def frame(self, ty, mid=None, name=None, buf=None, version=1):
        body = enc_msg(ty, mid, name, buf)
        self.T[hx(body)] = '%d,%d,%s,%s' % (ty, mid or 0, hx(name or []), hx(buf or []))
        self.stream += header(version, len(body)) + body
    def raw(self, bs):
        self.stream += bs
    def request(self, mid=None):
        rng = self.rng
        name = rng.choice([b'Echo', b'Echo', b'FailedEcho', b'Stream', b'Nope', b''])
        kind = rng.random()
        data = bytes(rng.randrange(32, 127) for _ in range(rng.choice([0, 1, 3, 20])))
        if kind < 0.75:
            rq = echo_req(data, rng.choice([None, None, 0, 77, 1 << 40]))
            self.Q[hx(rq)] = hx(echo_req(data))
        elif kind < 0.9:
            rq = [0x00] + list(data)            # invalid tag
        else:
            rq = []                              # required field missing
        ty = rng.choice([1, 1, 1, 10])
        self.frame(ty, mid if mid is not None else rng.choice([0, 1, 7, 0xffffffff, rng.randrange(1 << 32)]), name, rq)
    def response(self, mid):
        rng = self.rng
        ty = rng.choice([2, 2, 2, 3, 4, 5])
        if ty == 2:
            buf = echo_req(bytes(rng.randrange(32, 127) for _ in range(rng.choice([0, 1, 5, 40]))))
        elif ty == 5:
            buf = rng.choice([None, list(b'zz')])
        else:
            buf = list(bytes(rng.randrange(32, 127) for _ in range(rng.choice([0, 3, 12]))))
        self.frame(ty, mid, None, buf)
    def other_type(self):
        self.frame(self.rng.choice([6, 7, 8, 9]), self.rng.choice([None, 3]), None, None)
    def sized(self, size):
        """a valid RESPONSE frame whose body is exactly `size` bytes (size >= 8)"""
        for pad in range(size, max(size - 8, -1), -1):
            body = enc_msg(2, 9, None, [0x41] * pad)
            if len(body) == size:
                self.T[hx(body)] = '2,9,-,%s' % hx([0x41] * pad)
                self.stream += header(1, size) + body
                return True
        return False
    def body_only(self, body, buf):
        self.T[hx(body)] = '2,9,-,%s' % hx(buf)
        self.stream += body
    def bad(self, what):
        rng = self.rng
        if what == 'zero':
            self.raw(header(rng.choice([0, 1, 1, 2, 15]), 0))
        elif what == 'badver':
            self.raw(header(rng.choice([0, 2, 3, 9, 15]), rng.choice([1, 5, 60000, 2047, 2048, 2049, MAXB, MAXB + 1])))
            self.raw([rng.randrange(256) for _ in range(rng.choice([0, 1, 5, 300]))])
        elif what == 'oversize':
            self.raw(header(1, rng.choice([MAXB + 1, MAXB + 1, MAXB + 2, 0x0fffffff, 1 << 21, 1 << 27])))
            self.raw([rng.randrange(256) for _ in range(rng.choice([0, 1, 5, 300]))])
        elif what == 'maxexact':
            self.raw(header(1, rng.choice([MAXB, MAXB, MAXB - 1])))
            self.raw([0x08, 0x02] + [rng.randrange(256) for _ in range(rng.choice([0, 3, 3000]))])
        elif what == 'undecodable':
            body = rng.choice([[0x00], [0x00, 0x08, 0x02], [0x10, 0x05], [0x10, 0x05, 0x1a, 0x00],
                               [0x00] + [rng.randrange(256) for _ in range(rng.choice([1, 7, 100, 2047, 2048, 2500]))]])
            self.raw(header(1, len(body)) + body)
        elif what == 'noise':
            n = rng.choice([1, 2, 3, 4, 5, 8, 30])
            bs = [rng.randrange(256) for _ in range(n)]
            if n >= 4 and rng.random() < 0.5:
                bs[3] = 0x10 | (bs[3] & 0x0f if rng.random() < 0.3 else 0)   # version 1
                if rng.random() < 0.7: bs[2] = 0; bs[1] &= 0x03
                if len(bs) > 4: bs[4] = 0x00
            self.raw(bs)
    def tokens(self, mode):
        rng = self.rng
        n = len(self.stream)
        # calls / completions were planned at frame boundaries; half of the time move them by a few bytes so
        # that the channel sends (a new request, a service reply) while a frame is only partly received
        # (inside its header or its body).  Order is kept; ids stay what they were.
        marks_j = list(self.marks)
        if marks_j and rng.random() < 0.5:
            prev, out_m = 0, []
            for off, tok in sorted(marks_j, key=lambda x: x[0]):
                o2 = min(n, max(prev, off + rng.choice([-7, -5, -3, -2, -1, 0, 1, 2, 3, 4, 5, 6, 9, 15])))
                out_m.append((o2, tok)); prev = o2
            marks_j = out_m
        cuts = set(o for o, _ in marks_j)
        if mode == 'whole':
            pass
        elif mode == 'bytes':
            cuts |= set(range(1, n))
        elif mode == 'random':
            for _ in range(rng.choice([1, 2, 4, 8, 16])):
                if n > 1: cuts.add(rng.randrange(1, n))
        elif mode == 'hdr':
            # cut around every plausible header: walk the stream as frames
            p = 0
            while p + 4 <= n:
                for d in (0, 1, 2, 3, 4, 5):
                    if rng.random() < 0.6: cuts.add(p + d)
                w = self.stream[p] | self.stream[p + 1] << 8 | self.stream[p + 2] << 16 | self.stream[p + 3] << 24
                sz = w & 0x0fffffff
                if sz > n: break
                if rng.random() < 0.5: cuts.add(p + 4 + sz - 1)
                p += 4 + sz
        cuts = sorted(c for c in cuts if 0 <= c <= n)
        toks = ['@' + self.tag] + self.flags
        toks += ['T%s:%s' % kv for kv in self.T.items()]
        toks += ['Q%s:%s' % kv for kv in self.Q.items()]
        toks += self.pre
        pos = 0
        marks = sorted(marks_j, key=lambda x: x[0])   # stable: keeps the order of equal offsets
        ci = 0
        while ci < len(marks) and marks[ci][0] == 0:
            toks.append(marks[ci][1]); ci += 1
        bounds = cuts + [n]
        for b in bounds:
            if b > pos:
                toks.append('c' + hx(self.stream[pos:b]))
                pos = b
            while ci < len(marks) and marks[ci][0] == pos:
                toks.append(marks[ci][1]); ci += 1
        while ci < len(marks):
            toks.append(marks[ci][1]); ci += 1
        toks += self.post
        return ' '.join(toks)

MODES = ['whole', 'bytes', 'random', 'hdr']

def gen_script(rng, kind):
    s = Script(rng, kind)
    if kind == 'valid':
        if rng.random() < 0.15: s.flags.append('N')     # the channel has no service: requests are dropped
        for _ in range(rng.choice([1, 2, 3, 6])):
            r = rng.random()
            if r < 0.5: s.request()
            elif r < 0.8: s.response(rng.choice([0, 1, 5]))
            else: s.other_type()
    elif kind in ('zero', 'badver', 'oversize', 'maxexact', 'undecodable', 'noise'):
        for _ in range(rng.choice([0, 1, 1, 2])):
            if rng.random() < 0.7: s.request()
            else: s.bad('zero')
        s.bad(kind)
        for _ in range(rng.choice([0, 1, 2])):
            s.request()
        if rng.random() < 0.3: s.bad(rng.choice(['badver', 'oversize', 'noise', 'undecodable']))
    elif kind == 'bufsize':
        sizes = [rng.choice([8, 9, 10, 50, 100, 2039, 2040, 2047, 2048, 2049, 2060, 3000, 4096, 5000])
                 for _ in range(rng.choice([2, 3, 4, 5]))]
        if rng.random() < 0.08: sizes.append(rng.choice([65535, 65536, 70001]))
        for z in sizes:
            s.sized(z)
            if rng.random() < 0.2: s.bad('zero')
        if rng.random() < 0.4: s.bad(rng.choice(['badver', 'oversize', 'undecodable']))
        if rng.random() < 0.5: s.sized(rng.choice([8, 300, 2048]))
    elif kind in ('calls', 'wrap', 'dupid', 'jam'):
        if kind == 'wrap':
            s.setseq(rng.choice([0xffffffff, 0xfffffffe, 0xfffffffd]))
        elif rng.random() < 0.3:
            s.setseq(rng.choice([1, 127, 128, 300, 0x7fffffff, 0x80000000]))
        ncall = rng.choice([1, 2, 3, 5, 8])
        for _ in range(ncall):
            s.call(rng.choice(['', '', '', 'e', 'f', 'g', 't', 'd']))
            if not s.ids: s.call()
            if rng.random() < 0.3 and s.ids:
                s.response(rng.choice(s.ids))
            if rng.random() < 0.15: s.request()
        ids = list(s.ids)
        answers = []
        for i in ids:
            r = rng.random()
            if r < 0.7: answers.append(i)
            elif r < 0.85: answers += [i, i]
        rng.shuffle(answers)
        for i in answers:
            if rng.random() < 0.15: s.response(rng.choice([i + 1000, (i - 1) & 0xffffffff, 0xdeadbeef]))
            s.response(i)
            if rng.random() < 0.2: s.call(rng.choice(['', 't', 'd']))
        if kind == 'dupid':
            # force the sequence back: a later call reuses the id of a call that is still outstanding
            base = s.ids[0]
            toks_mid = ['q%d' % base, 'm']
            body = enc_msg(2, base, None, echo_req(b'late'))
            s.T[hx(body)] = '2,%d,-,%s' % (base, hx(echo_req(b'late')))
            fr = header(1, len(body)) + body
            toks_mid += ['c' + hx(fr)] * rng.choice([1, 2])
            s.post += toks_mid
        if kind == 'jam':
            s.post.append('z')
            for _ in range(rng.choice([1, 2, 3])): s.post.append('m')
            if rng.random() < 0.7:
                body = enc_msg(2, s.ids[0], None, echo_req(b'j'))
                s.T[hx(body)] = '2,%d,-,%s' % (s.ids[0], hx(echo_req(b'j')))
                s.post.append('c' + hx(header(1, len(body)) + body))
                s.post.append('m')
        elif rng.random() < 0.3:
            s.bad(rng.choice(['badver', 'oversize', 'undecodable']))
            s.post += ['m', 'm']        # calls on a closed channel fail at once
    elif kind == 'bigmask':
        # right version, length field with bits 24-27 set: above 1 MB whatever the low bits say.  Followed by as
        # many bytes of valid messages as the low bits announce, so a tree that drops the high bits dispatches them.
        s.flags.append('X')
        for _ in range(rng.choice([0, 0, 1, 2])):
            s.request()
        hi = rng.choice([1, 1, 2, 8, 15])
        low = rng.choice([0, 7, 7, 2048, 2048, MAXB - 1, MAXB, MAXB + 1, 0xffffff])
        s.raw(header(1, (hi << 24) | low))
        if low == 7:
            s.body_only(enc_msg(2, 9, None, [0x41]), [0x41])
        elif low == 2048:
            s.body_only(enc_msg(2, 9, None, [0x41] * 2041), [0x41] * 2041)
        elif low:
            s.raw([0x08, 0x02] + [rng.randrange(256) for _ in range(rng.choice([0, 5, 3000]))])
        for _ in range(rng.choice([1, 2])):
            s.request()
    elif kind == 'srvfail':
        # serving side: requests are queued, then the reply cannot be written (peer gone / send buffer full)
        if rng.random() < 0.3: s.flags.append('A')
        nreq = rng.choice([1, 2, 3, 5])
        for _ in range(nreq):
            r = rng.random()
            if r < 0.7: s.served_request(rng.choice([0, 1, 7]), rng.choice([b'Echo', b'FailedEcho', b'Stream']))
            elif r < 0.85: s.frame(rng.choice([1, 10]), 3, b'Nope', echo_req(b'n'))     # NOT_IMPLEMENTED reply
            else: s.response(0)
        hold = hx(s.stream)
        s.stream = []
        how = rng.choice(['p', 'p', 'z'])
        pre = ['w' + hold, how] if rng.random() < 0.7 else [how, 'w' + hold]
        if how == 'p': pre = ['w' + hold, 'p']      # nothing can be written once the peer is gone
        s.post += pre + ['c-']
        if 'A' in s.flags:
            for q in range(nreq):
                if rng.random() < 0.6: s.post.append('k%d%s' % (q, rng.choice('RF')))
        if rng.random() < 0.5: s.post.append('m')
        if rng.random() < 0.5: s.post.append('c-')
    elif kind == 'reuse':
        # the application reuses one reply object (optional + repeated fields) across calls
        code = rng.choice(['x', 'u'])
        n = rng.choice([2, 2, 3, 4])
        for _ in range(n):
            s.call(code)
            if rng.random() < 0.2: s.call(rng.choice(['x', 'u', 'e']))
        ids = list(s.ids)
        order = list(reversed(ids)) if rng.random() < 0.6 else rng.sample(ids, len(ids))
        for j, i in enumerate(order):
            if rng.random() < 0.15:
                s.frame(rng.choice([4, 5, 3]), i, None, list(b'no'))
                continue
            if s.codes.get(i) not in ('x', 'u'):
                s.frame(2, i, None, echo_req(b'e'))
                continue
            elif s.codes.get(i) == 'x':
                # DmxData: optional priority present in earlier answers, absent later
                buf = [0x08, rng.choice([1, 2, 300 & 0x7f])] + [0x12] + varint(3 - min(j, 3)) + [0x44] * (3 - min(j, 3))
                if j == 0 or rng.random() < 0.3: buf += [0x18, rng.choice([1, 100])]
            else:
                # UIDListReply: fewer UIDs in later answers
                buf = [0x08, 1]
                for u in range(max(0, 2 - j) + rng.choice([0, 0, 1])):
                    buf += [0x12, 0x07, 0x08, 0x7a, 0x15, u, 0, 0, 1]
            s.frame(2, i, None, buf)
    elif kind == 'types':
        # every message type of Rpc.proto, also the ones the channel has no handler for (DISCONNECT,
        # DESCRIPTOR_REQUEST/RESPONSE, REQUEST_CANCEL), stream requests naming ordinary methods and
        # requests naming streaming ones; with and without an ExportMap
        if rng.random() < 0.5: s.flags.append('E')
        if rng.random() < 0.15: s.flags.append('N')
        for _ in range(rng.choice([1, 2, 3, 5])):
            r = rng.random()
            name = rng.choice([b'Echo', b'FailedEcho', b'Stream', b'Nope', None])
            rq = rng.choice([echo_req(b'a'), echo_req(b''), [0x00, 0x01], [], None])
            if rq is not None and rq[:1] == [0x0a]: s.Q[hx(rq)] = hx(rq)
            mid = rng.choice([None, 0, 1, 7, 0xffffffff])
            if r < 0.45:
                s.frame(rng.choice([6, 7, 8, 9]), mid, name, rq)
            elif r < 0.75:
                s.frame(10, mid, name, rq)
            elif r < 0.9:
                s.frame(1, mid, name, rq)
            else:
                ty = rng.choice([2, 3, 4, 5])
                s.call(); s.frame(ty, s.ids[-1], name, echo_req(b'r') if ty == 2 else (rq if rq is not None else []))
        if rng.random() < 0.3:
            body = [0x08, rng.choice([0, 11, 12, 127])]        # not a value of the Type enum: not parsable
            s.raw(header(1, len(body)) + body)
            s.request()
    elif kind == 'setsvc':
        # the application swaps the service (SetService) in mid-history: dispatch must go by the descriptor of the
        # service installed at that moment (TestService, three methods of OlaServerService, or none)
        def one_request():
            r = rng.random()
            mid = rng.choice([0, 1, 7, 300])
            if r < 0.4:
                s.request(mid)
            elif r < 0.6:
                s.frame(1, mid, b'GetPlugins', rng.choice([None, [], [0x08, 0x01]]))
            elif r < 0.8:
                s.frame(1, mid, b'GetDmx', [0x08, 0x01])
            elif r < 0.9:
                s.frame(10, mid, b'StreamDmxData', [0x08, 0x01, 0x12, 0x01, 0x64])
            else:
                s.frame(rng.choice([1, 10]), mid, b'Nope', [0x08, 0x01])
        if rng.random() < 0.2: s.flags.append('N')
        for _ in range(rng.choice([1, 2, 3])):
            one_request()
        for _ in range(rng.choice([1, 2, 3])):
            s.mark('v%d' % rng.choice([0, 1, 2, 2, 2]))
            for _ in range(rng.choice([1, 2, 3])):
                one_request()
            if rng.random() < 0.2:
                s.call(); s.response(s.ids[-1])
    elif kind == 'async':
        # the service answers later and out of order; ids reused while a request is outstanding
        s.flags.append('A')
        todo = []
        for _ in range(rng.choice([1, 2, 3, 5])):
            mid = rng.choice([0, 1, 2, 7, 0xffffffff])
            q = s.served_request(mid, rng.choice([b'Echo', b'Echo', b'FailedEcho']))
            todo.append(q)
            r = rng.random()
            if r < 0.3 and todo:
                q2 = todo.pop(rng.randrange(len(todo)))
                s.mark('k%d%s' % (q2, rng.choice('RRF')))
            elif r < 0.45:
                s.response(rng.choice([0, 1, 5]))   # anything else in between
            if rng.random() < 0.1: s.bad('zero')
        if rng.random() < 0.15:
            s.bad(rng.choice(['badver', 'undecodable']))   # completions arrive after the channel closed
        rng.shuffle(todo)
        for q in todo:
            if rng.random() < 0.85: s.mark('k%d%s' % (q, rng.choice('RRF')))
    return s

def gen_two(rng):
    """two real channels back to back: client calls, the server answers when told, in any order"""
    toks = ['@two', '2']
    if rng.random() < 0.85: toks.append('A')
    asyncm = 'A' in toks
    if rng.random() < 0.3: toks.append('q%d' % rng.choice([1, 0xffffffff, 0xfffffffe, 0x7fffffff]))
    nreq = 0
    pending = []
    for _ in range(rng.choice([2, 3, 5, 8, 12])):
        r = rng.random()
        if r < 0.6 or not pending:
            code = rng.choice(['e', 'e', 'e', 'f', 'g', 't', 'd', 'd'])
            toks.append('m' + code)
            if code in ('e', 'f'):
                if asyncm: pending.append(nreq)
                nreq += 1
        else:
            q = pending.pop(rng.randrange(len(pending)))
            toks.append('k%d%s' % (q, rng.choice('RRF')))
    rng.shuffle(pending)
    for q in pending:
        if rng.random() < 0.8: toks.append('k%d%s' % (q, rng.choice('RRF')))
    return ' '.join(toks)

def real_parse(bodies):
    """Run the real RpcMessage parser (oracle mode of the harness just built from the tree under
    test) on a list of bodies; returns {bodyhex: 'type,id,name,buf' or None}.  Empty if unavailable."""
    import os, subprocess, sys, tempfile
    v = sys.modules.get('vlib')
    if v is None or not bodies:
        return {}
    exe = os.path.join(v.BUILD, ID, 'harness')
    if not os.path.exists(exe):
        return {}
    out = {}
    try:
        with tempfile.NamedTemporaryFile('w', suffix='.in', dir=os.path.join(v.BUILD, ID), delete=False) as f:
            for i in range(0, len(bodies), 50):
                f.write('b%d P %s\n' % (i, ' '.join(hx(b) for b in bodies[i:i + 50])))
            name = f.name
        p = subprocess.run([exe, name], stdout=subprocess.PIPE, stderr=subprocess.DEVNULL, timeout=300)
        os.unlink(name)
        for line in p.stdout.decode(errors='replace').split('\n'):
            if not line.startswith('R b'):
                continue
            parts = line.split(' ', 2)
            base = int(parts[1][1:])
            for kv in parts[2].split(';'):
                if kv[:1] in ('p', 'q', 'r') and '=' in kv:
                    k, val = kv.split('=', 1)
                    out[(k[0], hx(bodies[base + int(k[1:])]))] = None if val == 'none' else val
    except Exception:
        return {}
    return out

def random_body(rng):
    """arbitrary bytes shaped like protobuf so that a fair share of them parse"""
    r = rng.random()
    if r < 0.35:
        return [rng.randrange(256) for _ in range(rng.choice([1, 2, 3, 5, 9, 20, 60]))]
    b = enc_msg(rng.choice([0, 1, 2, 3, 4, 5, 6, 10, 11, 200]), rng.choice([None, 0, 5, 1 << 31, (1 << 32) - 1, 1 << 33]),
                rng.choice([None, b'Echo', b'Nope', bytes([0xff, 0xfe])]),
                rng.choice([None, [], [0x0a, 0x01, 0x61], [rng.randrange(256) for _ in range(6)]]))
    if r < 0.6:
        # mutate: flip a byte, truncate, append an unknown field, repeat a field
        m = rng.choice(['flip', 'trunc', 'unknown', 'dup', 'group'])
        if m == 'flip' and b: b[rng.randrange(len(b))] = rng.randrange(256)
        elif m == 'trunc': b = b[:rng.randrange(len(b) + 1)]
        elif m == 'unknown': b += rng.choice([[0x28, 0x07], [0x32, 0x02, 0x41, 0x42], [0x3d, 1, 2, 3, 4], [0x41, 1, 2, 3, 4, 5, 6, 7, 8]])
        elif m == 'dup': b += [0x08, rng.choice([1, 2, 4]), 0x10, 0x05]
        elif m == 'group': b += rng.choice([[0x2b, 0x2c], [0x2b], [0x2c]])
    return b

def gen_random_bodies(rng, n):
    """streams of frames with arbitrary bodies; what each body decodes to comes from the real parser"""
    bodies = [b for b in (random_body(rng) for _ in range(n * 3)) if b]
    table = real_parse(bodies)
    if not table:
        return
    for i in range(n):
        s = Script(rng, 'randbody')
        for _ in range(rng.choice([1, 2, 3])):
            if rng.random() < 0.3: s.call()
            b = rng.choice(bodies)
            val = table.get(('p', hx(b)))
            if val is not None and val.split(',')[0] == '2' and table.get(('r', hx(b))) != '1':
                continue     # a reply whose payload the completion could not report back verbatim
            if val is not None:
                s.T[hx(b)] = val
                rep = table.get(('q', hx(b)))
                if rep is not None:
                    s.Q[val.split(',')[3]] = rep      # its buffer is a valid EchoRequest
            s.stream += header(1, len(b)) + b
        yield s.tokens(rng.choice(MODES))

def out_sizes(tier):
    """lengths of the data carried by OUTGOING messages, swept byte by byte around every size at which a send path
    could change (small-buffer / heap, the 2 kB initial buffer, pages, 64 kB)"""
    r = list(range(880, 1161)) + list(range(2020, 2071)) + list(range(4070, 4111))
    if tier != 'quick':
        r += list(range(0, 40)) + list(range(100, 300)) + list(range(8170, 8200)) + list(range(65500, 65560))
    return r

def gen_outsize(rng, what, n):
    """one outgoing message whose payload is n bytes (a call, a service reply or a failure text), then ordinary
    traffic, so that any damage the send did to the channel's state shows"""
    s = Script(rng, 'outsize')
    data = bytes([0x78]) * n
    if what == 'call':
        s.call(rng.choice(['e', 'e', 'f', 't']) + str(n))
        s.call('e')
        for i in reversed(s.ids):
            s.response(i)
    else:
        rq = echo_req(data)
        s.Q[hx(rq)] = hx(rq)
        s.frame(1, rng.choice([0, 5, 300, 0xffffffff]), b'Echo' if what == 'reply' else b'FailedEcho', rq)
        s.request()
        s.call('e'); s.response(s.ids[-1])
    return s.tokens(rng.choice(['whole', 'random', 'hdr']))

def gen_bigout(rng, what, size):
    """an OUTGOING message whose serialized RpcMessage is exactly `size` bytes (around the 1 MB limit the
    receiver applies): a call, or a service reply made longer than its request; then ordinary traffic"""
    s = Script(rng, 'bigout')
    s.flags.append('B')
    if what == 'call':
        over = len(enc_msg(1, 0, b'Echo', echo_req(b'x' * 1000000))) - 1000000
        n = size - over
        assert len(enc_msg(1, 0, b'Echo', echo_req(b'x' * n))) == size
        s.call('e%d' % n)
        s.response(0)
        s.call('e'); s.response(1)
    else:
        mid = 5
        over = len(enc_msg(2, mid, None, echo_req(b'x' * 1000000))) - 1000000
        n = size - over                      # length of the reply's data
        data = b'q' * 100
        rq = echo_req(data, (1 << 50) + (n - 100))
        reply = echo_req(data + b'y' * (n - 100))
        assert len(enc_msg(2, mid, None, reply)) == size
        s.Q[hx(rq)] = hx(reply)
        s.frame(1, mid, b'Echo', rq)
        s.request()
        s.call('e'); s.response(s.ids[-1])
    return s.tokens('whole')

def gen_multi(rng):
    """several independent channels alive in one process, their scripts interleaved op by op (so a frame of
    one connection is split over reads with whole or partial frames of the others in between)"""
    n = rng.choice([2, 2, 3, 4])
    kinds = ['valid', 'valid', 'calls', 'bufsize', 'bufsize', 'zero', 'badver', 'undecodable', 'wrap', 'dupid',
             'jam', 'srvfail', 'reuse', 'noise']
    head, ops = [], []
    seen = set()
    for k in range(n):
        while True:
            s = gen_script(rng, rng.choice(kinds))
            if not s.flags and len(s.stream) <= 9000:
                break
        toks = s.tokens(rng.choice(['random', 'random', 'hdr', 'bytes'] if len(s.stream) < 400 else ['random', 'hdr'])).split(' ')
        mine = []
        for t in toks:
            if t[0] in '@':
                continue
            if t[0] in 'TQ':
                if t not in seen:
                    seen.add(t); head.append(t)
            else:
                mine.append(t)
        ops.append(mine)
    out = ['@multi', 'M%d' % n] + head
    cur = None
    pos = [0] * n
    live = [k for k in range(n) if ops[k]]
    while live:
        k = rng.choice(live)
        # a short burst from this channel
        for _ in range(rng.choice([1, 1, 1, 2, 3])):
            if pos[k] >= len(ops[k]):
                break
            if cur != k:
                out.append('i%d' % k); cur = k
            out.append(ops[k][pos[k]]); pos[k] += 1
        live = [j for j in range(n) if pos[j] < len(ops[j])]
    return ' '.join(out)

def gen_server(rng):
    """a real RpcServer with several clients: requests arrive in pieces, interleaved between clients; clients
    hang up at any time, also with requests still at the (asynchronous) service, which completes them later"""
    n = rng.choice([1, 2, 2, 3, 4])
    asyncm = rng.random() < 0.75
    head, ops = [], []
    seen = set()
    for k in range(n):
        s = Script(rng, 'server')
        served = []
        for _ in range(rng.choice([1, 2, 3, 4])):
            r = rng.random()
            if r < 0.6:
                served.append(s.served_request(rng.choice([0, 1, 5, 7]), rng.choice([b'Echo', b'Echo', b'FailedEcho'])))
            elif r < 0.75:
                s.frame(rng.choice([1, 10]), 3, b'Nope', echo_req(b'n'))
            elif r < 0.9:
                rq = echo_req(b's'); s.Q[hx(rq)] = hx(rq)
                s.frame(10, 4, b'Stream', rq)
            else:
                s.other_type()
            if asyncm and served and rng.random() < 0.4:
                s.mark('k%d%s' % (served.pop(rng.randrange(len(served))), rng.choice('RRF')))
        if rng.random() < 0.12:
            s.bad(rng.choice(['badver', 'oversize', 'undecodable']))
        mine = []
        for t in s.tokens(rng.choice(['whole', 'random', 'random', 'hdr'])).split(' '):
            if t[0] == '@':
                continue
            if t[0] in 'TQ':
                if t not in seen:
                    seen.add(t); head.append(t)
            else:
                mine.append(t)
        # the hang-up: anywhere, often with requests still at the service; they are completed afterwards
        if rng.random() < 0.7:
            mine.insert(rng.randrange(len(mine) + 1), 'p')
        if asyncm:
            for q in served:
                if rng.random() < 0.8: mine.append('k%d%s' % (q, rng.choice('RRF')))
        ops.append(mine)
    out = ['@server', 'S%d' % n] + (['A'] if asyncm else []) + head
    cur = None
    pos = [0] * n
    live = [k for k in range(n) if ops[k]]
    while live:
        k = rng.choice(live)
        for _ in range(rng.choice([1, 1, 2, 3])):
            if pos[k] >= len(ops[k]):
                break
            if cur != k:
                out.append('i%d' % k); cur = k
            out.append(ops[k][pos[k]]); pos[k] += 1
        live = [j for j in range(n) if pos[j] < len(ops[j])]
    return ' '.join(out)

def gen_cases(rng, tier):
    n = 130 if tier == 'quick' else 8000
    kinds = ['valid', 'zero', 'badver', 'oversize', 'maxexact', 'undecodable', 'noise', 'bufsize',
             'calls', 'calls', 'wrap', 'dupid', 'jam', 'async', 'async', 'bigmask', 'srvfail', 'reuse', 'types', 'setsvc', 'setsvc']
    for c in gen_random_bodies(rng, 300 if tier == 'quick' else 20000):
        yield c
    for sz in (range(MAXB - 6, MAXB + 4) if tier == 'quick' else range(MAXB - 70, MAXB + 9)):
        for what in ('call', 'reply'):
            yield gen_bigout(rng, what, sz)
    for sz in out_sizes(tier):
        for what in ('call', 'reply', 'failure'):
            yield gen_outsize(rng, what, sz)
    for i in range(n):
        for _ in range(3):
            yield gen_two(rng)
        for _ in range(3):
            yield gen_multi(rng)
        for _ in range(3):
            yield gen_server(rng)
        for kind in kinds:
            s = gen_script(rng, kind)
            modes = MODES if (i % 4 == 0) else [rng.choice(MODES)]
            if len(s.stream) > 6000: modes = [m for m in modes if m != 'bytes'] or ['random']
            for m in modes:
                yield s.tokens(m)

def nontrivial(payload, md):
    import re
    last = None
    for k, v in md.items():
        if k.startswith('o'):
            mm = re.search(r'\|rx(\d+)/', v)
            if mm:
                c = int(mm.group(1))
                last = c if last is None else max(last, c)
            elif '|rx-' in v and ('|D' in v or '|V' in v or '|S' in v):
                last = 1      # no ExportMap: judge by the effects
    return bool(last)

LEVEL_TEXT = ('Coq theorems, for all byte streams, all segmentations into reads and all interleavings of calls and service '
              'completions, over an executable model of RpcChannel (with the six fixes of props/C09/fixes): every buffer '
              'write is inside m_buffer_size <= real block <= 1 MB and the channel is never left expecting more bytes than its '
              'buffer holds (wrong-version / oversize headers close it and reset the message state); the dispatched message '
              'sequence equals a reference framer applied to the whole stream, independent of chunking; every call (streaming '
              'calls draw ids like any other and are never registered) completes at most once, exactly once when answered or '
              'when the send failed, only through a message carrying its own id, also across sequence-number wrap and id '
              'reuse; the serving side only writes replies carrying the id of a request it received, also with duplicate '
              'request ids and asynchronous out-of-order completion; every server-side request object is outstanding, superseded '
              'or deleted exactly once (only inside its own completion); reads of the buffer and writes of the header array '
              'are in bounds; any number of channels in one process, under any interleaving, each behave as if alone, also '
              'under an RpcServer whose clients hang up at any time (a deleted channel is never touched again, late service '
              'completions included; needs fix 06); message types without a handler and stream requests to ordinary '
              'methods never reach the service; SetService in mid-history switches dispatch to the new service.  realloc failure is not modelled; calls outstanding when the channel closes are never completed '
              'by the code (outside the property: healthy connections).')
LEVEL_NOTE = ('Trusted: Coq kernel, extraction (ExtrOcamlBasic), OCaml/C++ glue, generator coverage; model = code is validated '
              'by differential testing (real RpcChannel on a socketpair under ASan/UBSan, raw bytes in generated chunkings, '
              'level-triggered DescriptorReady, state compared after every operation; two real channels back to back), not '
              'proved.  Protobuf decoding is an arbitrary function in the theorems; ConnectedDescriptor::Receive is assumed to '
              'return the first min(n, available) bytes (its internals belong to C10); little-endian host.')
TECHNIQUE = 'Coq proof on hand-written executable model + extracted-model/implementation differential correspondence'
DESIGN_REF = 'DESIGN.md §4 C09'
