ID = 'C09'
GROUPS = ['common']
CXX_SOURCES = ['common/rpc/TestServiceService.pb.cpp']

def gen_consts(v):
    import os
    ents = [(n, 'ola::rpc::' + n) for n in (
        'REQUEST RESPONSE RESPONSE_CANCEL RESPONSE_FAILED RESPONSE_NOT_IMPLEMENTED STREAM_REQUEST').split()]
    ents += [('PROTOCOL_VERSION', 'ola::rpc::RpcChannel::PROTOCOL_VERSION'),
             ('INITIAL_BUFFER_SIZE', 'ola::rpc::RpcChannel::INITIAL_BUFFER_SIZE'),
             ('MAX_BUFFER_SIZE', 'ola::rpc::RpcChannel::MAX_BUFFER_SIZE'),
             ('VERSION_MASK', 'ola::rpc::RpcHeader::VERSION_MASK'),
             ('SIZE_MASK', 'ola::rpc::RpcHeader::SIZE_MASK'),
             ('HEADER_BYTES', 'sizeof(uint32_t)'),
             ('LE_PROBE', 'le_probe()')]
    prelude = ('#include <string.h>\nstatic unsigned le_probe() { unsigned char b[4] = {1, 2, 3, 4}; '
               'uint32_t h; memcpy(&h, b, 4); return h; }')
    return v.gen_consts_cpp(ID, ['common/rpc/RpcChannel.h', 'common/rpc/RpcHeader.h', 'common/rpc/Rpc.pb.h'],
                            ents, os.path.join(v.VERIF, 'props', ID, 'coq', 'Gen.v'), prelude=prelude)

RULE = ('scripts of chunks/calls: byte streams built from real RpcMessage encodings (requests for known/unknown/'
        'streaming methods, all response kinds for outstanding/unknown/duplicate ids, ignored types), zero-size, '
        'wrong-version, oversize (1 MB, 1 MB+1, 2^28-1) and undecodable frames, body sizes around the 2 kB initial '
        'buffer and shrinking/growing sequences, noise; each stream cut whole / per byte / at every header offset / '
        'randomly, calls interleaved at any offset; sequence numbers near 2^32 and forced id reuse; jammed send '
        'direction.  non-trivial = at least one message dispatched by the model; distinct = distinct model output line')
ASSUMPTIONS = ['realloc does not fail', 'little-endian host (header word is read with the host byte order; LE_PROBE obligation)',
               'ConnectedDescriptor::Receive(buf, n) returns the first min(n, available) bytes (level-triggered poller); '
               'its multi-read cursor defect is C10\'s subject',
               'the service completes requests synchronously (deferred server-side completion and duplicate request '
               'ids on the server side are not modelled)']
TRUSTED = ['modelled rather than verified: RpcChannel.cpp DescriptorReady/ReadHeader/AllocateMsgBuffer/HandleNewMsg/'
           'HandleRequest/HandleStreamRequest/RequestComplete/SendRequestFailed/SendNotImplemented/Handle*Response/'
           'CallMethod/SendMsg, RpcHeader::DecodeHeader; constants regenerated into Gen.v',
           'protobuf parsing of RpcMessage/EchoRequest is a Section function in the theorems; in the correspondence it is '
           'instantiated by a table the generator computes (hand encoder in prop.py) for the bodies it emits',
           'harness reads private members (m_expected_size, m_current_size, m_buffer_size, m_sequence) via '
           '#define private public; ASan __sanitizer_get_allocated_size for the real block size']

SPEC_KEYS = set(['hazard'] + ['o%d' % i for i in range(4096)])
PROC_TIMEOUT = 1200

MAXB = 1 << 20

def hx(bs):
    return bytes(bs).hex() if bs else '-'

def varint(v):
    out = []
    while True:
        b = v & 0x7f
        v >>= 7
        if v:
            out.append(b | 0x80)
        else:
            out.append(b)
            return out

def enc_msg(ty, mid=None, name=None, buf=None):
    b = [0x08] + varint(ty)
    if mid is not None: b += [0x10] + varint(mid)
    if name is not None: b += [0x1a] + varint(len(name)) + list(name)
    if buf is not None: b += [0x22] + varint(len(buf)) + list(buf)
    return b

def header(version, size):
    w = ((version & 15) << 28) | (size & 0x0fffffff)
    return [w & 255, (w >> 8) & 255, (w >> 16) & 255, (w >> 24) & 255]

def echo_req(data, sess=None):
    b = [0x0a] + varint(len(data)) + list(data)
    if sess is not None: b += [0x10] + varint(sess)
    return b

class Script:
    def __init__(self, rng, tag):
        self.rng, self.tag = rng, tag
        self.T, self.Q = {}, {}
        self.stream = []         # bytes
        self.calls = []          # stream offsets at which a call is made
        self.pre = []            # tokens before anything (q..)
        self.post = []           # tokens after the stream
        self.ids = []            # ids of calls planned so far
        self.seq = 0
    def setseq(self, v):
        self.pre.append('q%d' % v); self.seq = v
    def call(self):
        self.calls.append(len(self.stream)); self.ids.append(self.seq); self.seq = (self.seq + 1) & 0xffffffff
    def frame(self, ty, mid=None, name=None, buf=None, version=1):
        body = enc_msg(ty, mid, name, buf)
        self.T[hx(body)] = '%d,%d,%s,%s' % (ty, mid or 0, hx(name or []), hx(buf or []))
        self.stream += header(version, len(body)) + body
    def raw(self, bs):
        self.stream += bs
    def request(self, mid=None):
        rng = self.rng
        name = rng.choice([b'Echo', b'Echo', b'FailedEcho', b'Stream', b'Nope', b''])
        kind = rng.random()
        data = bytes(rng.randrange(32, 127) for _ in range(rng.choice([0, 1, 3, 20])))
        if kind < 0.75:
            rq = echo_req(data, rng.choice([None, None, 0, 77, 1 << 40]))
            self.Q[hx(rq)] = hx(echo_req(data))
        elif kind < 0.9:
            rq = [0x00] + list(data)            # invalid tag
        else:
            rq = []                              # required field missing
        ty = rng.choice([1, 1, 1, 10])
        self.frame(ty, mid if mid is not None else rng.choice([0, 1, 7, 0xffffffff, rng.randrange(1 << 32)]), name, rq)
    def response(self, mid):
        rng = self.rng
        ty = rng.choice([2, 2, 2, 3, 4, 5])
        if ty == 2:
            buf = echo_req(bytes(rng.randrange(32, 127) for _ in range(rng.choice([0, 1, 5, 40]))))
        elif ty == 5:
            buf = rng.choice([None, list(b'zz')])
        else:
            buf = list(bytes(rng.randrange(32, 127) for _ in range(rng.choice([0, 3, 12]))))
        self.frame(ty, mid, None, buf)
    def other_type(self):
        self.frame(self.rng.choice([6, 7, 8, 9]), self.rng.choice([None, 3]), None, None)
    def sized(self, size):
        """a valid RESPONSE frame whose body is exactly `size` bytes (size >= 8)"""
        for pad in range(size, max(size - 8, -1), -1):
            body = enc_msg(2, 9, None, [0x41] * pad)
            if len(body) == size:
                self.T[hx(body)] = '2,9,-,%s' % hx([0x41] * pad)
                self.stream += header(1, size) + body
                return True
        return False
    def bad(self, what):
        rng = self.rng
        if what == 'zero':
            self.raw(header(rng.choice([0, 1, 1, 2, 15]), 0))
        elif what == 'badver':
            self.raw(header(rng.choice([0, 2, 3, 9, 15]), rng.choice([1, 5, 60000, 2047, 2048, 2049, MAXB, MAXB + 1])))
            self.raw([rng.randrange(256) for _ in range(rng.choice([0, 1, 5, 300]))])
        elif what == 'oversize':
            self.raw(header(1, rng.choice([MAXB + 1, MAXB + 1, MAXB + 2, 0x0fffffff, 1 << 21, 1 << 27])))
            self.raw([rng.randrange(256) for _ in range(rng.choice([0, 1, 5, 300]))])
        elif what == 'maxexact':
            self.raw(header(1, rng.choice([MAXB, MAXB, MAXB - 1])))
            self.raw([0x08, 0x02] + [rng.randrange(256) for _ in range(rng.choice([0, 3, 3000]))])
        elif what == 'undecodable':
            body = rng.choice([[0x00], [0x00, 0x08, 0x02], [0x10, 0x05], [0x10, 0x05, 0x1a, 0x00],
                               [0x00] + [rng.randrange(256) for _ in range(rng.choice([1, 7, 100, 2047, 2048, 2500]))]])
            self.raw(header(1, len(body)) + body)
        elif what == 'noise':
            n = rng.choice([1, 2, 3, 4, 5, 8, 30])
            bs = [rng.randrange(256) for _ in range(n)]
            if n >= 4 and rng.random() < 0.5:
                bs[3] = 0x10 | (bs[3] & 0x0f if rng.random() < 0.3 else 0)   # version 1
                if rng.random() < 0.7: bs[2] = 0; bs[1] &= 0x03
                if len(bs) > 4: bs[4] = 0x00
            self.raw(bs)
    def tokens(self, mode):
        rng = self.rng
        n = len(self.stream)
        cuts = set(self.calls)
        if mode == 'whole':
            pass
        elif mode == 'bytes':
            cuts |= set(range(1, n))
        elif mode == 'random':
            for _ in range(rng.choice([1, 2, 4, 8, 16])):
                if n > 1: cuts.add(rng.randrange(1, n))
        elif mode == 'hdr':
            # cut around every plausible header: walk the stream as frames
            p = 0
            while p + 4 <= n:
                for d in (0, 1, 2, 3, 4, 5):
                    if rng.random() < 0.6: cuts.add(p + d)
                w = self.stream[p] | self.stream[p + 1] << 8 | self.stream[p + 2] << 16 | self.stream[p + 3] << 24
                sz = w & 0x0fffffff
                if sz > n: break
                if rng.random() < 0.5: cuts.add(p + 4 + sz - 1)
                p += 4 + sz
        cuts = sorted(c for c in cuts if 0 <= c <= n)
        toks = ['@' + self.tag]
        toks += ['T%s:%s' % kv for kv in self.T.items()]
        toks += ['Q%s:%s' % kv for kv in self.Q.items()]
        toks += self.pre
        pos = 0
        callpos = sorted(self.calls)
        ci = 0
        bounds = cuts + [n]
        for b in bounds:
            if b > pos:
                toks.append('c' + hx(self.stream[pos:b]))
                pos = b
            while ci < len(callpos) and callpos[ci] == pos:
                toks.append('m'); ci += 1
        while ci < len(callpos):
            toks.append('m'); ci += 1
        toks += self.post
        return ' '.join(toks)

MODES = ['whole', 'bytes', 'random', 'hdr']

def gen_script(rng, kind):
    s = Script(rng, kind)
    if kind == 'valid':
        for _ in range(rng.choice([1, 2, 3, 6])):
            r = rng.random()
            if r < 0.5: s.request()
            elif r < 0.8: s.response(rng.choice([0, 1, 5]))
            else: s.other_type()
    elif kind in ('zero', 'badver', 'oversize', 'maxexact', 'undecodable', 'noise'):
        for _ in range(rng.choice([0, 1, 1, 2])):
            if rng.random() < 0.7: s.request()
            else: s.bad('zero')
        s.bad(kind)
        for _ in range(rng.choice([0, 1, 2])):
            s.request()
        if rng.random() < 0.3: s.bad(rng.choice(['badver', 'oversize', 'noise', 'undecodable']))
    elif kind == 'bufsize':
        sizes = [rng.choice([8, 9, 10, 50, 100, 2039, 2040, 2047, 2048, 2049, 2060, 3000, 4096, 5000])
                 for _ in range(rng.choice([2, 3, 4, 5]))]
        if rng.random() < 0.08: sizes.append(rng.choice([65535, 65536, 70001]))
        for z in sizes:
            s.sized(z)
            if rng.random() < 0.2: s.bad('zero')
        if rng.random() < 0.4: s.bad(rng.choice(['badver', 'oversize', 'undecodable']))
        if rng.random() < 0.5: s.sized(rng.choice([8, 300, 2048]))
    elif kind in ('calls', 'wrap', 'dupid', 'jam'):
        if kind == 'wrap':
            s.setseq(rng.choice([0xffffffff, 0xfffffffe, 0xfffffffd]))
        elif rng.random() < 0.3:
            s.setseq(rng.choice([1, 127, 128, 300, 0x7fffffff, 0x80000000]))
        ncall = rng.choice([1, 2, 3, 5, 8])
        for _ in range(ncall):
            s.call()
            if rng.random() < 0.3 and s.ids:
                s.response(rng.choice(s.ids))
            if rng.random() < 0.15: s.request()
        ids = list(s.ids)
        answers = []
        for i in ids:
            r = rng.random()
            if r < 0.7: answers.append(i)
            elif r < 0.85: answers += [i, i]
        rng.shuffle(answers)
        for i in answers:
            if rng.random() < 0.15: s.response(rng.choice([i + 1000, (i - 1) & 0xffffffff, 0xdeadbeef]))
            s.response(i)
            if rng.random() < 0.2: s.call()
        if kind == 'dupid':
            # force the sequence back: a later call reuses the id of a call that is still outstanding
            base = s.ids[0]
            toks_mid = ['q%d' % base, 'm']
            body = enc_msg(2, base, None, echo_req(b'late'))
            s.T[hx(body)] = '2,%d,-,%s' % (base, hx(echo_req(b'late')))
            fr = header(1, len(body)) + body
            toks_mid += ['c' + hx(fr)] * rng.choice([1, 2])
            s.post += toks_mid
        if kind == 'jam':
            s.post.append('z')
            for _ in range(rng.choice([1, 2, 3])): s.post.append('m')
            if rng.random() < 0.7:
                body = enc_msg(2, s.ids[0], None, echo_req(b'j'))
                s.T[hx(body)] = '2,%d,-,%s' % (s.ids[0], hx(echo_req(b'j')))
                s.post.append('c' + hx(header(1, len(body)) + body))
                s.post.append('m')
        elif rng.random() < 0.3:
            s.bad(rng.choice(['badver', 'oversize', 'undecodable']))
            s.post += ['m', 'm']        # calls on a closed channel fail at once
    return s

def gen_cases(rng, tier):
    n = 150 if tier == 'quick' else 9000
    kinds = ['valid', 'zero', 'badver', 'oversize', 'maxexact', 'undecodable', 'noise', 'bufsize',
             'calls', 'calls', 'wrap', 'dupid', 'jam']
    for i in range(n):
        for kind in kinds:
            s = gen_script(rng, kind)
            modes = MODES if (i % 4 == 0) else [rng.choice(MODES)]
            if len(s.stream) > 6000: modes = [m for m in modes if m != 'bytes'] or ['random']
            for m in modes:
                yield s.tokens(m)

def nontrivial(payload, md):
    import re
    last = None
    for k, v in md.items():
        if k.startswith('o'):
            mm = re.search(r'\|rx(\d+)/', v)
            if mm:
                c = int(mm.group(1))
                last = c if last is None else max(last, c)
    return bool(last)

LEVEL_TEXT = ('Coq theorems, for all byte streams, all segmentations into reads and all interleavings of calls, over an '
              'executable model of RpcChannel (with the four fixes of props/C09/fixes): every buffer write is inside '
              'm_buffer_size <= real block <= 1 MB and the channel is never left expecting more bytes than its buffer holds '
              '(wrong-version / oversize headers close it and reset the message state); the dispatched message sequence equals '
              'a reference framer applied to the whole stream, independent of chunking (headers split across reads included); '
              'every call completes at most once, exactly once when answered or when the send failed, with the outcome of a '
              'message carrying its own id, also across sequence-number wrap and id reuse.  Server-side deferred completion '
              '(OutstandingRequest lifetime, duplicate request ids) and realloc failure are not modelled.')
LEVEL_NOTE = ('Trusted: Coq kernel, extraction (ExtrOcamlBasic), OCaml/C++ glue, generator coverage; model = code is validated '
              'by differential testing (real RpcChannel on a socketpair under ASan/UBSan, raw bytes in generated chunkings, '
              'level-triggered DescriptorReady, state compared after every operation), not proved.  Protobuf decoding is an '
              'arbitrary function in the theorems; ConnectedDescriptor::Receive is assumed to return the first min(n, available) '
              'bytes (its internals belong to C10); little-endian host.')
TECHNIQUE = 'Coq proof on hand-written executable model + extracted-model/implementation differential correspondence'
DESIGN_REF = 'DESIGN.md §4 C09'
