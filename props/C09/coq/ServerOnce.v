(* C09 — serving side bookkeeping: every request handed to the service is, at any time, exactly one of
   outstanding (in m_requests under its id), superseded (held by the service only) or deleted, and its
   OutstandingRequest object is deleted exactly once: when the service completes it. *)
From OlaBase Require Import Bytes.
From C09 Require Import Gen Model FrameProofs Generic ServerProofs.
Local Open Scope N_scope.

Definition keys (l : list (N * N)) : list N := map fst l.
Definition vals (l : list (N * N)) : list N := map snd l.

Lemma cntN_app x a b : cntN x (a ++ b) = (cntN x a + cntN x b)%nat.
Proof. unfold cntN. rewrite filter_app, app_length. reflexivity. Qed.
Lemma cntN_one x y : cntN x [y] = if y =? x then 1%nat else 0%nat.
Proof. unfold cntN. cbn. destruct (y =? x); reflexivity. Qed.
Lemma freed_app a b : freed (a ++ b) = freed a ++ freed b.
Proof. unfold freed. apply flat_map_app. Qed.

Lemma memN_In x l : memN x l = true <-> In x l.
Proof.
  induction l as [|y l IH]; cbn; [split; [discriminate|tauto]|].
  rewrite orb_true_iff, IH, N.eqb_eq. tauto.
Qed.
Lemma delN_In x y l : In y (delN x l) <-> In y l /\ y <> x.
Proof.
  induction l as [|z l IH]; cbn; [tauto|].
  destruct (z =? x) eqn:E.
  - apply N.eqb_eq in E. subst z. rewrite IH. split; [tauto|]. intros [[H|H] Hn]; [congruence|tauto].
  - apply N.eqb_neq in E. cbn. rewrite IH. split; [intros [H|H]; [subst; tauto|tauto]|tauto].
Qed.
Lemma delN_NoDup x l : NoDup l -> NoDup (delN x l).
Proof.
  induction 1 as [|z l Hn Hl IH]; cbn; [constructor|].
  destruct (z =? x); [exact IH|]. constructor; [|exact IH]. rewrite delN_In. tauto.
Qed.

Lemma remove_keep id l i k : In (i, k) l -> i <> id -> In (i, k) (remove id l).
Proof.
  induction l as [|[j q] l IH]; cbn; [tauto|]. intros [H|H] Hne.
  - inversion H; subst. destruct (i =? id) eqn:E; [apply N.eqb_eq in E; congruence|left; reflexivity].
  - destruct (j =? id); [auto|right; auto].
Qed.
Lemma remove_key_gone id l k : ~ In (id, k) (remove id l).
Proof.
  induction l as [|[j q] l IH]; cbn; [tauto|].
  destruct (j =? id) eqn:E; [exact IH|]. apply N.eqb_neq in E. intros [H|H]; [inversion H; congruence|auto].
Qed.
Lemma in_keys i k l : In (i, k) l -> In i (keys l).
Proof. intros H. apply (in_map fst) in H. exact H. Qed.
Lemma in_vals i k l : In (i, k) l -> In k (vals l).
Proof. intros H. apply (in_map snd) in H. exact H. Qed.
Lemma keys_in i l : In i (keys l) -> exists k, In (i, k) l.
Proof. unfold keys. rewrite in_map_iff. intros [[a b] [H1 H2]]. cbn in H1. subst. eauto. Qed.
Lemma vals_in k l : In k (vals l) -> exists i, In (i, k) l.
Proof. unfold vals. rewrite in_map_iff. intros [[a b] [H1 H2]]. cbn in H1. subst. eauto. Qed.

Lemma remove_NoDup_keys id l : NoDup (keys l) -> NoDup (keys (remove id l)).
Proof.
  induction l as [|[j q] l IH]; cbn; [auto|]. intros H. inversion H; subst.
  destruct (j =? id); [auto|]. cbn. constructor; [|auto].
  intros Hi. apply keys_in in Hi as [k Hk]. apply remove_In in Hk. apply in_keys in Hk. auto.
Qed.
Lemma remove_NoDup_vals id l : NoDup (vals l) -> NoDup (vals (remove id l)).
Proof.
  induction l as [|[j q] l IH]; cbn; [auto|]. intros H. inversion H; subst.
  destruct (j =? id); [auto|]. cbn. constructor; [|auto].
  intros Hi. apply vals_in in Hi as [k Hk]. apply remove_In in Hk. apply in_vals in Hk. auto.
Qed.
Lemma keys_functional l i a b : NoDup (keys l) -> In (i, a) l -> In (i, b) l -> a = b.
Proof.
  induction l as [|[j q] l IH]; cbn; [tauto|]. intros H. inversion H; subst.
  intros [Ha|Ha] [Hb|Hb].
  - congruence.
  - inversion Ha; subst. apply in_keys in Hb. tauto.
  - inversion Hb; subst. apply in_keys in Ha. tauto.
  - auto.
Qed.
Lemma vals_functional l q i j : NoDup (vals l) -> In (i, q) l -> In (j, q) l -> i = j.
Proof.
  induction l as [|[k p] l IH]; cbn; [tauto|]. intros H. inversion H; subst.
  intros [Ha|Ha] [Hb|Hb].
  - congruence.
  - inversion Ha; subst. apply in_vals in Hb. tauto.
  - inversion Hb; subst. apply in_vals in Ha. tauto.
  - auto.
Qed.
Lemma lookup_None_keys id l : lookup id l = None -> ~ In id (keys l).
Proof.
  induction l as [|[j q] l IH]; cbn; [tauto|].
  destruct (j =? id) eqn:E; [discriminate|]. apply N.eqb_neq in E. intros H [Hx|Hx]; [congruence|].
  exact (IH H Hx).
Qed.

(* rq = m_requests, cn = superseded requests, n = requests handed out so far, fr = deleted objects *)
Definition W (rq : list (N * N)) (cn : list N) (n : N) (fr : list N) : Prop :=
  NoDup (keys rq) /\ NoDup (vals rq) /\ NoDup cn /\
  (forall q, In q (vals rq) -> q < n /\ ~ In q cn /\ cntN q fr = 0%nat) /\
  (forall q, In q cn -> q < n /\ cntN q fr = 0%nat) /\
  (forall q, q < n -> ~ In q (vals rq) -> ~ In q cn -> cntN q fr = 1%nat) /\
  (forall q, n <= q -> cntN q fr = 0%nat).

Lemma W_init : W [] [] 0 [].
Proof. unfold W; cbn. repeat split; try constructor; try tauto; intros; lia. Qed.

(* the duplicate-id branch *)
Lemma W_supersede rq cn n fr id qo :
  W rq cn n fr -> lookup id rq = Some qo -> W (remove id rq) (qo :: cn) n fr.
Proof.
  intros (K & V & C & D & E & F & G) Hl. apply lookup_In in Hl.
  assert (Hqo : In qo (vals rq)) by (eapply in_vals; eauto).
  destruct (D qo Hqo) as (Q1 & Q2 & Q3).
  unfold W. split; [apply remove_NoDup_keys; exact K|]. split; [apply remove_NoDup_vals; exact V|].
  split; [constructor; assumption|].
  assert (Hgone : ~ In qo (vals (remove id rq))).
  { intros Hi. apply vals_in in Hi as [i Hi]. pose proof (remove_In _ _ _ Hi) as Hi2.
    assert (i = id) by (eapply vals_functional; eauto). subst i. eapply remove_key_gone; eauto. }
  split; [|split; [|split]].
  - intros q Hi. apply vals_in in Hi as [i Hi]. pose proof (remove_In _ _ _ Hi) as Hi2.
    apply in_vals in Hi2. destruct (D q Hi2) as (A1 & A2 & A3). split; [exact A1|]. split; [|exact A3].
    intros [Hx|Hx]; [|tauto]. subst q. apply Hgone. eapply in_vals; eauto.
  - intros q [Hx|Hx]; [subst; auto|auto].
  - intros q Hq Hv Hc. apply F; [exact Hq| |intros Hx; apply Hc; right; exact Hx].
    intros Hi. apply vals_in in Hi as [i Hi].
    destruct (N.eq_dec i id) as [->|Hne].
    + assert (q = qo) by (eapply keys_functional; eauto). subst q. apply Hc. left. reflexivity.
    + apply Hv. eapply in_vals. apply remove_keep; eauto.
  - exact G.
Qed.

(* m_requests[id] = new request n *)
Lemma W_register rq cn n fr id :
  W rq cn n fr -> ~ In id (keys rq) -> W ((id, n) :: rq) cn (n + 1) fr.
Proof.
  intros (K & V & C & D & E & F & G) Hid.
  assert (Hn : ~ In n (vals rq)) by (intros Hi; apply D in Hi; lia).
  assert (Hc : ~ In n cn) by (intros Hi; apply E in Hi; lia).
  unfold W; cbn. split; [constructor; assumption|]. split; [constructor; assumption|]. split; [exact C|].
  split; [|split; [|split]].
  - intros q [Hx|Hx].
    + subst q. split; [lia|]. split; [exact Hc|]. apply G. lia.
    + destruct (D q Hx) as (A1 & A2 & A3). split; [lia|auto].
  - intros q Hi. destruct (E q Hi). split; [lia|auto].
  - intros q Hq Hv Hcq. apply F; [|tauto|exact Hcq].
    destruct (N.eq_dec q n); [subst; tauto|lia].
  - intros q Hq. apply G. lia.
Qed.

(* the service completes request q *)
Lemma W_complete_cancelled rq cn n fr q :
  W rq cn n fr -> In q cn -> W rq (delN q cn) n (fr ++ [q]).
Proof.
  intros (K & V & C & D & E & F & G) Hi. destruct (E q Hi) as [Q1 Q2].
  unfold W. split; [exact K|]. split; [exact V|]. split; [apply delN_NoDup; exact C|].
  split; [|split; [|split]].
  - intros p Hp. destruct (D p Hp) as (A1 & A2 & A3). split; [exact A1|]. split.
    + rewrite delN_In. tauto.
    + rewrite cntN_app, cntN_one, A3. destruct (q =? p) eqn:Ex; [|reflexivity].
      apply N.eqb_eq in Ex. subst p. tauto.
  - intros p Hp. apply delN_In in Hp as [Hp Hne]. destruct (E p Hp) as [A1 A2]. split; [exact A1|].
    rewrite cntN_app, cntN_one, A2. destruct (q =? p) eqn:Ex; [apply N.eqb_eq in Ex; congruence|reflexivity].
  - intros p Hp Hv Hc. rewrite cntN_app, cntN_one. rewrite delN_In in Hc.
    destruct (q =? p) eqn:Ex.
    + apply N.eqb_eq in Ex. subst p. rewrite Q2. reflexivity.
    + apply N.eqb_neq in Ex. rewrite F; [reflexivity|exact Hp|exact Hv|]. intros Hx. apply Hc. split; [exact Hx|congruence].
  - intros p Hp. rewrite cntN_app, cntN_one, G by exact Hp.
    destruct (q =? p) eqn:Ex; [apply N.eqb_eq in Ex; lia|reflexivity].
Qed.

Lemma W_complete_outstanding rq cn n fr q id :
  W rq cn n fr -> key_of q rq = Some id -> W (remove id rq) cn n (fr ++ [q]).
Proof.
  intros (K & V & C & D & E & F & G) Hk. apply key_of_In in Hk.
  assert (Hq : In q (vals rq)) by (eapply in_vals; eauto).
  destruct (D q Hq) as (Q1 & Q2 & Q3).
  assert (Hgone : ~ In q (vals (remove id rq))).
  { intros Hi. apply vals_in in Hi as [i Hi]. pose proof (remove_In _ _ _ Hi) as Hi2.
    assert (i = id) by (eapply vals_functional; eauto). subst i. eapply remove_key_gone; eauto. }
  unfold W. split; [apply remove_NoDup_keys; exact K|]. split; [apply remove_NoDup_vals; exact V|].
  split; [exact C|]. split; [|split; [|split]].
  - intros p Hp. assert (Hp2 : In p (vals rq)).
    { apply vals_in in Hp as [i Hi]. apply remove_In in Hi. eapply in_vals; eauto. }
    destruct (D p Hp2) as (A1 & A2 & A3). split; [exact A1|]. split; [exact A2|].
    rewrite cntN_app, cntN_one, A3. destruct (q =? p) eqn:Ex; [|reflexivity].
    apply N.eqb_eq in Ex. subst p. tauto.
  - intros p Hp. destruct (E p Hp) as [A1 A2]. split; [exact A1|].
    rewrite cntN_app, cntN_one, A2. destruct (q =? p) eqn:Ex; [|reflexivity].
    apply N.eqb_eq in Ex. subst p. tauto.
  - intros p Hp Hv Hc. rewrite cntN_app, cntN_one.
    destruct (q =? p) eqn:Ex.
    + apply N.eqb_eq in Ex. subst p. rewrite Q3. reflexivity.
    + apply N.eqb_neq in Ex. rewrite F; [reflexivity|exact Hp| |exact Hc].
      intros Hi. apply vals_in in Hi as [i Hi].
      destruct (N.eq_dec i id) as [->|Hne].
      * assert (p = q) by (eapply keys_functional; eauto). congruence.
      * apply Hv. eapply in_vals. apply remove_keep; eauto.
  - intros p Hp. rewrite cntN_app, cntN_one, G by exact Hp.
    destruct (q =? p) eqn:Ex; [apply N.eqb_eq in Ex; lia|reflexivity].
Qed.

Lemma send_msg_srv cl ok r m r' evs b :
  send_msg cl ok r m = (r', evs, b) ->
  requests r' = requests r /\ nreq r' = nreq r /\ cancelled r' = cancelled r /\ freed evs = [].
Proof.
  unfold send_msg. intros H. destruct (dead r || cl); [inversion H; subst; auto|].
  destruct ok; inversion H; subst; cbn; auto.
Qed.

Definition WR (r : rpc) (fr : list N) : Prop := W (requests r) (cancelled r) (nreq r) fr.

Lemma request_complete_W cl ok r q res r' evs fr :
  request_complete cl ok r q res = (r', evs) -> WR r fr -> WR r' (fr ++ freed evs).
Proof.
  unfold request_complete, WR. intros H HW.
  destruct (memN q (cancelled r)) eqn:Em.
  { inversion H; subst; cbn. apply W_complete_cancelled; [exact HW|]. apply memN_In. exact Em. }
  destruct (key_of q (requests r)) as [id|] eqn:Ek; [|inversion H; subst; cbn; rewrite app_nil_r; exact HW].
  destruct (send_msg _ _ _ _) as [[r1 e1] b1] eqn:E. inversion H; subst. cbn.
  apply send_msg_srv in E as (R1 & R2 & R3 & R4). rewrite freed_app, R4, R1, R2, R3. cbn.
  apply W_complete_outstanding; assumption.
Qed.

Section Server.
Variable decode : list N -> option msg.
Variable method_kind : N -> list N -> N.
Variable req_ok : N -> list N -> bool.
Variable service : N -> list N -> list N -> option sres.
Notation dispatch := (dispatch method_kind req_ok service).
Notation run := (run decode method_kind req_ok service).

Lemma supersede_W cl ok r id r' evs fr :
  supersede cl ok r id = (r', evs) -> WR r fr ->
  WR r' fr /\ freed evs = [] /\ ~ In id (keys (requests r')) /\ nreq r' = nreq r.
Proof.
  unfold supersede, WR. intros H HW. destruct (lookup id (requests r)) as [qo|] eqn:El.
  2:{ inversion H; subst; cbn. split; [exact HW|]. split; [reflexivity|]. split; [|reflexivity].
      apply lookup_None_keys. exact El. }
  destruct (send_msg _ _ _ _) as [[r1 e1] b1] eqn:E. inversion H; subst. cbn.
  apply send_msg_srv in E as (R1 & R2 & R3 & R4). rewrite R1, R2, R3.
  split; [apply W_supersede; assumption|]. split; [exact R4|]. split; [|reflexivity].
  intros Hi. apply keys_in in Hi as [k Hk]. eapply remove_key_gone; eauto.
Qed.

Lemma dispatch_W cl ok r m r' evs fr :
  dispatch cl ok r m = (r', evs) -> WR r fr -> WR r' (fr ++ freed evs).
Proof.
  unfold Model.dispatch. intros H HW.
  destruct (m_type m =? REQUEST).
  - unfold handle_request in H.
    destruct (method_kind (svc r) (m_name m) =? 3); [inversion H; subst; cbn; rewrite app_nil_r; exact HW|].
    destruct (method_kind (svc r) (m_name m) =? 0).
    + destruct (send_msg _ _ _ _) as [[r1 e1] b1] eqn:E. inversion H; subst.
      apply send_msg_srv in E as (R1 & R2 & R3 & R4). rewrite R4, app_nil_r. unfold WR in *.
      rewrite R1, R2, R3. exact HW.
    + destruct (negb (req_ok (svc r) (m_buf m))); [inversion H; subst; cbn; rewrite app_nil_r; exact HW|].
      destruct (supersede cl ok r (m_id m)) as [r1 evs1] eqn:E1.
      eapply supersede_W in E1; [|exact HW]. destruct E1 as (W1 & F1 & Hk & Hn).
      set (r2 := set_server r1 (nreq r1 + 1) ((m_id m, nreq r) :: requests r1) (cancelled r1)) in *.
      assert (W2 : WR r2 fr).
      { unfold WR, r2; cbn. rewrite <- Hn. apply W_register; assumption. }
      destruct (service (svc r) (m_name m) (m_buf m)) as [res|].
      * destruct (request_complete _ _ _ _ _) as [r3 evs3] eqn:E3. inversion H; subst.
        eapply request_complete_W in E3; [|exact W2].
        rewrite freed_app, F1. cbn [app]. unfold freed at 1. cbn [flat_map app]. fold (freed evs3). exact E3.
      * inversion H; subst. rewrite freed_app, F1. cbn. rewrite app_nil_r. exact W2.
  - destruct (resp_outcome m) as [o|].
    + unfold handle_response in H. destruct (lookup _ _); inversion H; subst; cbn; rewrite app_nil_r; exact HW.
    + destruct (m_type m =? STREAM_REQUEST); [|inversion H; subst; cbn; rewrite app_nil_r; exact HW].
      unfold handle_stream_request in H.
      destruct (method_kind (svc r) (m_name m) =? 3); [inversion H; subst; cbn; rewrite app_nil_r; exact HW|].
      destruct (method_kind (svc r) (m_name m) =? 0).
      * destruct (send_msg _ _ _ _) as [[r1 e1] b1] eqn:E. inversion H; subst.
        apply send_msg_srv in E as (R1 & R2 & R3 & R4). rewrite R4, app_nil_r. unfold WR in *.
        rewrite R1, R2, R3. exact HW.
      * destruct (negb (method_kind (svc r) (m_name m) =? 2));
          [inversion H; subst; cbn; rewrite app_nil_r; exact HW|].
        destruct (negb (req_ok (svc r) (m_buf m))); inversion H; subst; cbn; rewrite app_nil_r; exact HW.
Qed.

Lemma call_method_W cl ok st nm rq r r' evs fr :
  call_method cl ok st nm rq r = (r', evs) -> WR r fr -> WR r' (fr ++ freed evs).
Proof.
  unfold call_method. intros H HW.
  destruct (send_msg _ _ _ _) as [[r2 evs2] b] eqn:Es.
  apply send_msg_srv in Es as (R1 & R2 & R3 & R4). cbn in R1, R2, R3.
  assert (HW2 : WR r2 fr) by (unfold WR in *; rewrite R1, R2, R3; exact HW).
  assert (Hf : forall x, freed (x ++ evs2) = freed x) by (intros; rewrite freed_app, R4, app_nil_r; reflexivity).
  destruct st; [inversion H; subst; cbn; fold (freed evs2); rewrite R4, app_nil_r; exact HW2|].
  destruct (negb b).
  - inversion H; subst. cbn. rewrite freed_app, R4. cbn. rewrite app_nil_r. exact HW2.
  - destruct (lookup _ _); inversion H; subst; cbn.
    + rewrite freed_app, R4. cbn. rewrite app_nil_r. exact HW2.
    + fold (freed evs2). rewrite R4, app_nil_r. exact HW2.
Qed.

Definition WT (r : rpc) (tr : list event) : Prop := WR r (freed tr).

Lemma run_W r0 ops f r tr :
  WR r0 [] -> run init_frame r0 ops = (f, r, tr) -> WR r (freed tr).
Proof.
  intros H0 H.
  apply (run_invariant decode method_kind req_ok service WT) with (r0 := r0) (ops := ops) (f := f); auto.
  - intros r1 tr1 evs HP Hf. unfold WT in *. rewrite freed_app, (frame_only_freed _ Hf), app_nil_r. exact HP.
  - intros cl ok r1 tr1 m r' evs HP _ Hd. unfold WT in *. rewrite freed_app. eapply dispatch_W; eauto.
  - intros cl ok st nm rq r1 tr1 r' evs HP Hc. unfold WT in *. rewrite freed_app. eapply call_method_W; eauto.
  - intros cl ok r1 tr1 q res r' evs HP Hc. unfold WT in *. rewrite freed_app. eapply request_complete_W; eauto.
Qed.

End Server.
