(* C09 — call completion: every call completes at most once, exactly once when answered or when
   the send failed, and with the reply that carries its own id. *)
From OlaBase Require Import Bytes.
From C09 Require Import Gen Model FrameProofs.
Local Open Scope N_scope.

Lemma cnt_app k a b : cnt k (a ++ b) = (cnt k a + cnt k b)%nat.
Proof. unfold cnt. rewrite filter_app, app_length. reflexivity. Qed.
Lemma cnt_nil k : cnt k [] = 0%nat.
Proof. reflexivity. Qed.
Lemma cnt_one k k' o : cnt k [(k', o)] = if k' =? k then 1%nat else 0%nat.
Proof. unfold cnt. cbn. destruct (k' =? k); reflexivity. Qed.

Lemma dones_app a b : dones (a ++ b) = dones a ++ dones b.
Proof. unfold dones. apply flat_map_app. Qed.
Lemma dispatched_app a b : dispatched (a ++ b) = dispatched a ++ dispatched b.
Proof. unfold dispatched. apply flat_map_app. Qed.

Lemma lookup_remove_same id l : lookup id (remove id l) = None.
Proof.
  induction l as [|[i k] l IH]; [reflexivity|]. cbn.
  destruct (i =? id) eqn:E; [exact IH|]. cbn. rewrite E. exact IH.
Qed.
Lemma lookup_remove_other id id' l : id' <> id -> lookup id' (remove id l) = lookup id' l.
Proof.
  intros Hne. induction l as [|[i k] l IH]; [reflexivity|]. cbn.
  destruct (i =? id) eqn:E.
  - apply N.eqb_eq in E. subst i. destruct (id =? id') eqn:E2; [apply N.eqb_eq in E2; congruence|].
    exact IH.
  - cbn. rewrite IH. reflexivity.
Qed.

Lemma u32_succ a : u32 (u32 a + 1) = u32 (a + 1).
Proof. unfold u32. rewrite N.add_mod_idemp_l by lia. reflexivity. Qed.

Section Once.
Variable s0 : N.   (* the sequence number the channel starts with *)

Definition idof (k : N) : N := u32 (s0 + k).

Definition own (ms : list msg) (p : N * outcome) : Prop :=
  snd p = OFailed TXT_SEND_FAILED \/ snd p = OFailed TXT_DUPLICATE \/
  exists m, In m ms /\ m_id m = idof (fst p) /\ resp_outcome m = Some (snd p).

Definition J (r : rpc) (ds : list (N * outcome)) (ms : list msg) : Prop :=
  (forall id k, lookup id (responses r) = Some k -> k < ncalls r /\ id = idof k) /\
  (forall k, k < ncalls r ->
     (cnt k ds = 1%nat /\ lookup (idof k) (responses r) <> Some k) \/
     (cnt k ds = 0%nat /\ lookup (idof k) (responses r) = Some k)) /\
  (forall k, ncalls r <= k -> cnt k ds = 0%nat) /\
  seq r = idof (ncalls r) /\
  (forall p, In p ds -> own ms p).

Lemma own_mono ms ms' p : own ms p -> own (ms ++ ms') p.
Proof.
  intros [H|[H|(m & Hi & H1 & H2)]]; [left; exact H|right; left; exact H|].
  right; right. exists m. split; [apply in_or_app; left; exact Hi|auto].
Qed.

Lemma J_mono r ds ms ms' : J r ds ms -> J r ds (ms ++ ms').
Proof.
  intros (A & B & C & D & E). repeat split; auto.
  - apply A in H. tauto.
  - apply A in H. tauto.
  - intros p Hp. apply own_mono. auto.
Qed.

(* changing only the dead flag does not matter *)
Lemma J_dead r ds ms b : J r ds ms -> J (mkRpc b (seq r) (ncalls r) (responses r)) ds ms.
Proof. intros H. exact H. Qed.

Lemma J_handle_response r ds ms m o r' evs :
  J r ds ms -> In m ms -> resp_outcome m = Some o ->
  handle_response r m o = (r', evs) ->
  J r' (ds ++ dones evs) ms.
Proof.
  intros (A & B & C & D & E) Hin Ho H. unfold handle_response in H.
  destruct (lookup (m_id m) (responses r)) as [k|] eqn:El.
  2:{ inversion H; subst. cbn. rewrite app_nil_r. repeat split; auto; apply A in H0; tauto. }
  inversion H; subst r' evs; clear H. cbn [dones flat_map app].
  destruct (A _ _ El) as [Hk Hid].
  unfold J; cbn [responses ncalls seq]. split; [|split; [|split; [|split]]].
  - intros id k' Hl. destruct (N.eq_dec id (m_id m)) as [->|Hne].
    + rewrite lookup_remove_same in Hl. discriminate.
    + rewrite lookup_remove_other in Hl by exact Hne. auto.
  - intros k' Hk'. rewrite cnt_app, cnt_one.
    destruct (k =? k') eqn:Ek.
    + apply N.eqb_eq in Ek. subst k'. left.
      destruct (B k Hk) as [[_ Hn]|[Hc _]]; [rewrite <- Hid in Hn; congruence|].
      rewrite Hc. split; [reflexivity|]. rewrite <- Hid, lookup_remove_same. discriminate.
    + apply N.eqb_neq in Ek. rewrite Nat.add_0_r.
      destruct (N.eq_dec (idof k') (m_id m)) as [He|Hne].
      * left. rewrite He, lookup_remove_same.
        destruct (B k' Hk') as [[Hc _]|[_ Hl]].
        -- split; [exact Hc|discriminate].
        -- rewrite He, El in Hl. congruence.
      * rewrite lookup_remove_other by exact Hne. apply B. exact Hk'.
  - intros k' Hk'. rewrite cnt_app, cnt_one. rewrite (C k' Hk').
    destruct (k =? k') eqn:Ek; [apply N.eqb_eq in Ek; lia|reflexivity].
  - exact D.
  - intros p Hp. apply in_app_or in Hp as [Hp|[<-|[]]]; [auto|].
    right; right. exists m. cbn. rewrite <- Hid. auto.
Qed.

Lemma send_msg_rpc cl ok r m r' evs b :
  send_msg cl ok r m = (r', evs, b) ->
  seq r' = seq r /\ ncalls r' = ncalls r /\ responses r' = responses r /\ dones evs = [].
Proof.
  unfold send_msg. intros H. destruct (dead r || cl); [inversion H; subst; auto|].
  destruct ok; inversion H; subst; cbn; auto.
Qed.

Lemma J_same r r' ds ms :
  seq r' = seq r -> ncalls r' = ncalls r -> responses r' = responses r -> J r ds ms -> J r' ds ms.
Proof. unfold J. intros -> -> ->. auto. Qed.

Variable method_kind : list N -> N.
Variable req_ok : list N -> bool.
Variable service : list N -> list N -> sres.
Variable call_name call_req : list N.
Notation dispatch := (dispatch method_kind req_ok service).

Lemma J_dispatch cl ok r ds ms m r' evs :
  J r ds ms -> In m ms -> dispatch cl ok r m = (r', evs) -> J r' (ds ++ dones evs) ms.
Proof.
  intros HJ Hin H. unfold Model.dispatch in H.
  destruct (m_type m =? REQUEST).
  - unfold handle_request in H.
    destruct (method_kind (m_name m) =? 0).
    + destruct (send_msg _ _ _ _) as [[r1 e1] b1] eqn:E. inversion H; subst.
      apply send_msg_rpc in E as (S1 & S2 & S3 & S4). rewrite S4, app_nil_r.
      eapply J_same; eauto.
    + destruct (negb (req_ok (m_buf m))); [inversion H; subst; cbn; rewrite app_nil_r; exact HJ|].
      destruct (send_msg _ _ _ _) as [[r1 e1] b1] eqn:E. inversion H; subst.
      apply send_msg_rpc in E as (S1 & S2 & S3 & S4).
      unfold dones in *. cbn [flat_map app]. rewrite S4, app_nil_r.
      eapply J_same; eauto.
  - destruct (resp_outcome m) as [o|] eqn:Eo.
    + eapply J_handle_response; eauto.
    + destruct (m_type m =? STREAM_REQUEST); [|inversion H; subst; cbn; rewrite app_nil_r; exact HJ].
      unfold handle_stream_request in H.
      destruct (method_kind (m_name m) =? 0).
      * destruct (send_msg _ _ _ _) as [[r1 e1] b1] eqn:E. inversion H; subst.
        apply send_msg_rpc in E as (S1 & S2 & S3 & S4). rewrite S4, app_nil_r.
        eapply J_same; eauto.
      * destruct (negb (method_kind (m_name m) =? 2));
          [inversion H; subst; cbn; rewrite app_nil_r; exact HJ|].
        destruct (negb (req_ok (m_buf m))); inversion H; subst; cbn; rewrite app_nil_r; exact HJ.
Qed.

Lemma idof_succ k : u32 (idof k + 1) = idof (k + 1).
Proof. unfold idof. rewrite u32_succ. f_equal. lia. Qed.

Lemma J_call cl ok r ds ms r' evs :
  J r ds ms -> call_method call_name call_req cl ok r = (r', evs) -> J r' (ds ++ dones evs) ms.
Proof.
  intros (A & B & C & D & E) H. unfold call_method in H.
  destruct (send_msg _ _ _ _) as [[r2 evs2] b] eqn:Es.
  apply send_msg_rpc in Es as (S1 & S2 & S3 & S4). cbn [seq ncalls responses] in S1, S2, S3.
  assert (Hfresh : forall id, lookup id (responses r) <> Some (ncalls r)).
  { intros id Hl. apply A in Hl. lia. }
  destruct (negb b).
  - (* the send failed: completed at once, never registered *)
    inversion H; subst r' evs; clear H.
    unfold dones at 1. cbn [flat_map]. fold (dones (evs2 ++ [EvDone (ncalls r) (OFailed TXT_SEND_FAILED)])).
    rewrite dones_app, S4. cbn [dones flat_map app].
    unfold J. rewrite S1, S2, S3. split; [|split; [|split; [|split]]].
    + intros id k Hl. apply A in Hl. split; [lia|tauto].
    + intros k Hk. rewrite cnt_app, cnt_one.
      destruct (ncalls r =? k) eqn:Ek.
      * apply N.eqb_eq in Ek. subst k. left. rewrite (C (ncalls r)) by lia. split; [reflexivity|apply Hfresh].
      * apply N.eqb_neq in Ek. rewrite Nat.add_0_r. apply B. lia.
    + intros k Hk. rewrite cnt_app, cnt_one. rewrite C by lia.
      destruct (ncalls r =? k) eqn:Ek; [apply N.eqb_eq in Ek; lia|reflexivity].
    + rewrite D. apply idof_succ.
    + intros p Hp. apply in_app_or in Hp as [Hp|[<-|[]]]; [auto|]. left. reflexivity.
  - rewrite S3 in H.
    assert (Hnew : forall id k, lookup id ((seq r, ncalls r) :: remove (seq r) (responses r)) = Some k ->
                   k < ncalls r + 1 /\ id = idof k).
    { intros id k Hl. cbn in Hl. destruct (seq r =? id) eqn:Ei.
      - apply N.eqb_eq in Ei. inversion Hl; subst. split; [lia|exact D].
      - apply N.eqb_neq in Ei. rewrite lookup_remove_other in Hl by congruence.
        apply A in Hl. split; [lia|tauto]. }
    assert (Hseq : seq r2 = idof (ncalls r + 1)) by (rewrite S1, D; apply idof_succ).
    assert (Hlk : forall k, k < ncalls r ->
              lookup (idof k) ((seq r, ncalls r) :: remove (seq r) (responses r)) =
              if seq r =? idof k then Some (ncalls r) else lookup (idof k) (responses r)).
    { intros k Hk. cbn. destruct (seq r =? idof k) eqn:Ei; [reflexivity|].
      apply N.eqb_neq in Ei. apply lookup_remove_other. congruence. }
    assert (Hself : lookup (idof (ncalls r)) ((seq r, ncalls r) :: remove (seq r) (responses r)) = Some (ncalls r)).
    { cbn. rewrite D, N.eqb_refl. reflexivity. }
    destruct (lookup (seq r) (responses r)) as [ko|] eqn:Eold.
    + (* id reuse: the superseded call is failed, the new one stays registered *)
      inversion H; subst r' evs; clear H.
      destruct (A _ _ Eold) as [Hko Hkoid].
      unfold dones at 1. cbn [flat_map]. fold (dones (evs2 ++ [EvDone ko (OFailed TXT_DUPLICATE)])).
      rewrite dones_app, S4. cbn [dones flat_map app].
      unfold J; cbn [responses ncalls seq]. rewrite S2. split; [exact Hnew|]. split; [|split; [|split]].
      * intros k Hk. rewrite cnt_app, cnt_one.
        destruct (N.eq_dec k (ncalls r)) as [->|Hne].
        -- right. rewrite C by lia. destruct (ko =? ncalls r) eqn:Ex; [apply N.eqb_eq in Ex; lia|].
           split; [reflexivity|exact Hself].
        -- assert (Hk2 : k < ncalls r) by lia. rewrite (Hlk k Hk2).
           destruct (ko =? k) eqn:Eko.
           ++ apply N.eqb_eq in Eko. subst k. left.
              destruct (B ko Hk2) as [[_ Hn]|[Hc _]]; [rewrite <- Hkoid in Hn; congruence|].
              rewrite Hc. split; [reflexivity|]. rewrite Hkoid, N.eqb_refl. intros Hx. inversion Hx. lia.
           ++ rewrite Nat.add_0_r. apply N.eqb_neq in Eko.
              destruct (seq r =? idof k) eqn:Ei.
              ** apply N.eqb_eq in Ei. left.
                 destruct (B k Hk2) as [[Hc _]|[_ Hl]].
                 --- split; [exact Hc|]. intros Hx. inversion Hx. lia.
                 --- rewrite <- Ei, Eold in Hl. congruence.
              ** apply B. exact Hk2.
      * intros k Hk. rewrite cnt_app, cnt_one. rewrite C by lia.
        destruct (ko =? k) eqn:Ex; [apply N.eqb_eq in Ex; lia|reflexivity].
      * exact Hseq.
      * intros p Hp. apply in_app_or in Hp as [Hp|[<-|[]]]; [auto|]. right; left. reflexivity.
    + inversion H; subst r' evs; clear H.
      unfold dones at 1. cbn [flat_map]. fold (dones evs2). rewrite S4, app_nil_r.
      unfold J; cbn [responses ncalls seq]. rewrite S2. split; [exact Hnew|]. split; [|split; [|split]].
      * intros k Hk.
        destruct (N.eq_dec k (ncalls r)) as [->|Hne].
        -- right. rewrite C by lia. split; [reflexivity|exact Hself].
        -- assert (Hk2 : k < ncalls r) by lia. rewrite (Hlk k Hk2).
           destruct (seq r =? idof k) eqn:Ei.
           ++ apply N.eqb_eq in Ei. left.
              destruct (B k Hk2) as [[Hc _]|[_ Hl]].
              ** split; [exact Hc|]. intros Hx. inversion Hx. lia.
              ** rewrite <- Ei, Eold in Hl. congruence.
           ++ apply B. exact Hk2.
      * intros k Hk. apply C. lia.
      * exact Hseq.
      * exact E.
Qed.

(* ---------- threading J through the framing layer ---------- *)
Variable decode : list N -> option msg.
Notation body_phase := (body_phase decode method_kind req_ok service).
Notation descriptor_ready := (descriptor_ready decode method_kind req_ok service).
Notation feed := (feed decode method_kind req_ok service).
Notation step := (step decode method_kind req_ok service call_name call_req).
Notation run := (run decode method_kind req_ok service call_name call_req).

Definition JT (r : rpc) (tr : list event) : Prop := J r (dones tr) (dispatched tr).

Lemma JT_frame r tr evs : JT r tr -> dones evs = [] -> JT r (tr ++ evs).
Proof.
  unfold JT. intros H Hd. rewrite dones_app, dispatched_app, Hd, app_nil_r. apply J_mono. exact H.
Qed.

Lemma body_phase_J ok f r avail f' r' rest evs tr :
  JT r tr -> body_phase ok f r avail = (f', r', rest, evs) -> JT r' (tr ++ evs).
Proof.
  intros HJ H. unfold Model.body_phase in H.
  destruct (recv _ avail) as [got rs].
  destruct (_ =? expected f).
  - destruct (decode _) as [m|].
    + destruct (dispatch (closed f) ok r m) as [r1 evs1] eqn:Ed.
      inversion H; subst f' r' rest evs; clear H.
      pose proof Ed as Ed2. apply (dispatch_events method_kind req_ok service) in Ed2.
      apply rpc_only_dispatched in Ed2.
      unfold JT in *. rewrite dones_app, dispatched_app.
      unfold dones at 2. unfold dispatched at 2. cbn [flat_map app].
      fold (dones evs1). fold (dispatched evs1). rewrite Ed2.
      eapply J_dispatch; [apply J_mono; exact HJ| |exact Ed].
      apply in_or_app. right. left. reflexivity.
    + inversion H; subst. apply JT_frame; [exact HJ|reflexivity].
  - inversion H; subst. apply JT_frame; [exact HJ|reflexivity].
Qed.

Lemma descriptor_ready_J ok f r avail f' r' rest evs tr :
  JT r tr -> descriptor_ready ok f r avail = (f', r', rest, evs) -> JT r' (tr ++ evs).
Proof.
  intros HJ H. unfold Model.descriptor_ready in H.
  destruct (dead r); [inversion H; subst; rewrite app_nil_r; exact HJ|].
  destruct (expected f =? 0); [|eapply body_phase_J; eauto].
  destruct (read_header f avail) as [[[f1 rs] ver] size].
  destruct (size =? 0); [inversion H; subst; rewrite app_nil_r; exact HJ|].
  destruct (negb _); [inversion H; subst; apply JT_frame; [exact HJ|reflexivity]|].
  destruct (MAX_BUFFER_SIZE <? size); [inversion H; subst; apply JT_frame; [exact HJ|reflexivity]|].
  destruct (allocate_msg_buffer _ size) as [f4 ret].
  destruct (ret <? size); [inversion H; subst; apply JT_frame; [exact HJ|reflexivity]|].
  eapply body_phase_J; eauto.
Qed.

Lemma feed_J fuel : forall ok f r avail f' r' evs tr,
  JT r tr -> feed fuel ok f r avail = (f', r', evs) -> JT r' (tr ++ evs).
Proof.
  induction fuel as [|fuel IH]; intros ok f r avail f' r' evs tr HJ H; cbn [Model.feed] in H.
  - destruct avail; [inversion H; subst; rewrite app_nil_r; exact HJ|].
    destruct (closed f || dead r); inversion H; subst; [rewrite app_nil_r; exact HJ|].
    apply JT_frame; [exact HJ|reflexivity].
  - destruct avail as [|a av]; [inversion H; subst; rewrite app_nil_r; exact HJ|].
    destruct (closed f || dead r); [inversion H; subst; rewrite app_nil_r; exact HJ|].
    destruct (descriptor_ready ok f r (a :: av)) as [[[f1 r1] rest] evs1] eqn:Edr.
    destruct (feed fuel ok f1 r1 rest) as [[f2 r2] evs2] eqn:Ef.
    inversion H; subst. rewrite app_assoc.
    eapply IH; [|exact Ef]. eapply descriptor_ready_J; eauto.
Qed.

Lemma step_J f r o f' r' evs tr :
  JT r tr -> step f r o = (f', r', evs) -> JT r' (tr ++ evs).
Proof.
  intros HJ H. destruct o as [bs ok|ok]; cbn [Model.step] in H.
  - eapply feed_J; eauto.
  - destruct (call_method _ _ _ _ _) as [r1 evs1] eqn:Ec. inversion H; subst.
    pose proof Ec as Ec2. apply call_method_events in Ec2. apply rpc_only_dispatched in Ec2.
    unfold JT in *. rewrite dones_app, dispatched_app, Ec2, app_nil_r.
    eapply J_call; eauto.
Qed.

Lemma run_J ops : forall f r f' r' evs tr,
  JT r tr -> run f r ops = (f', r', evs) -> JT r' (tr ++ evs).
Proof.
  induction ops as [|o ops IH]; intros f r f' r' evs tr HJ H; cbn [Model.run] in H.
  - inversion H; subst. rewrite app_nil_r. exact HJ.
  - destruct (step f r o) as [[f1 r1] evs1] eqn:Es.
    destruct (run f1 r1 ops) as [[f2 r2] evs2] eqn:Er.
    inversion H; subst. rewrite app_assoc.
    eapply IH; [|exact Er]. eapply step_J; eauto.
Qed.

Lemma JT_init : s0 < 4294967296 -> JT (mkRpc false s0 0 []) [].
Proof.
  intros Hs. unfold JT, J; cbn. repeat split; try discriminate; try lia; try contradiction.
  unfold idof. rewrite N.add_0_r. symmetry. apply u32_id. exact Hs.
Qed.

Lemma run_once ops f r tr :
  s0 < 4294967296 ->
  run init_frame (mkRpc false s0 0 []) ops = (f, r, tr) ->
  J r (dones tr) (dispatched tr).
Proof.
  intros Hs H. apply (run_J ops _ _ _ _ _ [] (JT_init Hs)) in H. exact H.
Qed.

(* the step-level facts: an answer completes exactly the registered call of that id, once *)
Lemma dispatch_answer cl ok r m o r' evs :
  resp_outcome m = Some o -> dispatch cl ok r m = (r', evs) ->
  lookup (m_id m) (responses r') = None /\
  match lookup (m_id m) (responses r) with
  | Some k => dones evs = [(k, o)]
  | None => dones evs = [] /\ r' = r
  end.
Proof.
  intros Ho H. unfold Model.dispatch in H.
  assert (Hreq : (m_type m =? REQUEST) = false).
  { unfold resp_outcome in Ho.
    destruct (m_type m =? RESPONSE) eqn:E1; [apply N.eqb_eq in E1; rewrite E1; reflexivity|].
    destruct (m_type m =? RESPONSE_CANCEL) eqn:E2; [apply N.eqb_eq in E2; rewrite E2; reflexivity|].
    destruct (m_type m =? RESPONSE_FAILED) eqn:E3; [apply N.eqb_eq in E3; rewrite E3; reflexivity|].
    destruct (m_type m =? RESPONSE_NOT_IMPLEMENTED) eqn:E4; [apply N.eqb_eq in E4; rewrite E4; reflexivity|].
    discriminate. }
  rewrite Hreq, Ho in H. unfold handle_response in H.
  destruct (lookup (m_id m) (responses r)) as [k|] eqn:El; inversion H; subst; cbn.
  - split; [apply lookup_remove_same|reflexivity].
  - auto.
Qed.

Lemma call_send_failed_closed cl ok r r' evs :
  dead r || cl = true ->
  call_method call_name call_req cl ok r = (r', evs) ->
  dones evs = [(ncalls r, OFailed TXT_SEND_FAILED)] /\ responses r' = responses r.
Proof.
  unfold call_method, send_msg; cbn [dead seq ncalls responses].
  intros ->; cbn; intros H; inversion H; subst; cbn; auto.
Qed.

Lemma call_send_failed cl r r' evs :
  call_method call_name call_req cl false r = (r', evs) ->
  dones evs = [(ncalls r, OFailed TXT_SEND_FAILED)] /\ responses r' = responses r.
Proof.
  unfold call_method, send_msg; cbn [dead seq ncalls responses].
  destruct (dead r || cl); cbn; intros H; inversion H; subst; cbn; auto.
Qed.

End Once.
