(* C09 — call completion: every call completes at most once, exactly once when answered or when
   the send failed, and with the reply that carries its own id. *)
From OlaBase Require Import Bytes.
From C09 Require Import Gen Model FrameProofs Generic.
Local Open Scope N_scope.

Lemma cnt_app k a b : cnt k (a ++ b) = (cnt k a + cnt k b)%nat.
Proof. unfold cnt. rewrite filter_app, app_length. reflexivity. Qed.
Lemma cnt_nil k : cnt k [] = 0%nat.
Proof. reflexivity. Qed.
Lemma cnt_one k k' o : cnt k [(k', o)] = if k' =? k then 1%nat else 0%nat.
Proof. unfold cnt. cbn. destruct (k' =? k); reflexivity. Qed.

Lemma dones_app a b : dones (a ++ b) = dones a ++ dones b.
Proof. unfold dones. apply flat_map_app. Qed.
Lemma dispatched_app a b : dispatched (a ++ b) = dispatched a ++ dispatched b.
Proof. unfold dispatched. apply flat_map_app. Qed.

Lemma lookup_remove_same id l : lookup id (remove id l) = None.
Proof.
  induction l as [|[i k] l IH]; [reflexivity|]. cbn.
  destruct (i =? id) eqn:E; [exact IH|]. cbn. rewrite E. exact IH.
Qed.
Lemma lookup_remove_other id id' l : id' <> id -> lookup id' (remove id l) = lookup id' l.
Proof.
  intros Hne. induction l as [|[i k] l IH]; [reflexivity|]. cbn.
  destruct (i =? id) eqn:E.
  - apply N.eqb_eq in E. subst i. destruct (id =? id') eqn:E2; [apply N.eqb_eq in E2; congruence|].
    exact IH.
  - cbn. rewrite IH. reflexivity.
Qed.

Lemma u32_succ a : u32 (u32 a + 1) = u32 (a + 1).
Proof. unfold u32. rewrite N.add_mod_idemp_l by lia. reflexivity. Qed.

Lemma streams_app a b : streams (a ++ b) = streams a ++ streams b.
Proof. unfold streams. apply flat_map_app. Qed.

(* events of the serving side and of message handling: no call bookkeeping *)
Definition srv_only (e : event) : Prop :=
  match e with EvSend _ | EvService _ _ | EvDone _ _ | EvChanClose => True | _ => False end.
Lemma srv_only_streams evs : Forall srv_only evs -> streams evs = [].
Proof.
  induction 1 as [|e l He Hl IH]; [reflexivity|].
  unfold streams in *. cbn [flat_map]. rewrite IH.
  destruct e; cbn in *; try reflexivity; contradiction.
Qed.
Lemma srv_only_nodone_dones evs : Forall srv_only evs -> (forall k o, ~ In (EvDone k o) evs) -> dones evs = [].
Proof.
  induction 1 as [|e l He Hl IH]; intros Hn; [reflexivity|].
  unfold dones in *. cbn [flat_map]. rewrite IH.
  - destruct e; cbn in *; try reflexivity. exfalso. eapply Hn. left. reflexivity.
  - intros k o Hi. eapply Hn. right. exact Hi.
Qed.

Section Once.
Variable s0 : N.   (* the sequence number the channel starts with *)

Definition idof (k : N) : N := u32 (s0 + k).

Definition own (ms : list msg) (p : N * outcome) : Prop :=
  snd p = OFailed TXT_SEND_FAILED \/ snd p = OFailed TXT_DUPLICATE \/
  exists m, In m ms /\ m_id m = idof (fst p) /\ resp_outcome m = Some (snd p).

(* r: call state; ds: completions so far; ms: messages dispatched so far; ss: streaming calls so far *)
Definition J (r : rpc) (ds : list (N * outcome)) (ms : list msg) (ss : list N) : Prop :=
  (forall id k, lookup id (responses r) = Some k -> k < ncalls r /\ id = idof k) /\
  (forall k, k < ncalls r ->
     (In k ss /\ cnt k ds = 0%nat /\ lookup (idof k) (responses r) <> Some k) \/
     (~ In k ss /\
      ((cnt k ds = 1%nat /\ lookup (idof k) (responses r) <> Some k) \/
       (cnt k ds = 0%nat /\ lookup (idof k) (responses r) = Some k)))) /\
  (forall k, ncalls r <= k -> cnt k ds = 0%nat) /\
  seq r = idof (ncalls r) /\
  (forall p, In p ds -> own ms p) /\
  (forall k, In k ss -> k < ncalls r).

Lemma own_mono ms ms' p : own ms p -> own (ms ++ ms') p.
Proof.
  intros [H|[H|(m & Hi & H1 & H2)]]; [left; exact H|right; left; exact H|].
  right; right. exists m. split; [apply in_or_app; left; exact Hi|auto].
Qed.

Lemma J_mono r ds ms ms' ss : J r ds ms ss -> J r ds (ms ++ ms') ss.
Proof.
  intros (A & B & C & D & E & F). split; [exact A|]. split; [exact B|]. split; [exact C|].
  split; [exact D|]. split; [|exact F]. intros p Hp. apply own_mono. auto.
Qed.

Lemma J_same r r' ds ms ss :
  seq r' = seq r -> ncalls r' = ncalls r -> responses r' = responses r -> J r ds ms ss -> J r' ds ms ss.
Proof. unfold J. intros -> -> ->. auto. Qed.

Lemma J_handle_response r ds ms ss m o r' evs :
  J r ds ms ss -> In m ms -> resp_outcome m = Some o ->
  handle_response r m o = (r', evs) ->
  J r' (ds ++ dones evs) ms ss.
Proof.
  intros (A & B & C & D & E & F) Hin Ho H. unfold handle_response in H.
  destruct (lookup (m_id m) (responses r)) as [k|] eqn:El.
  2:{ inversion H; subst. cbn. rewrite app_nil_r. unfold J. auto 10. }
  inversion H; subst r' evs; clear H. cbn [dones flat_map app].
  destruct (A _ _ El) as [Hk Hid].
  unfold J; cbn [responses ncalls seq set_responses]. split; [|split; [|split; [|split; [|split]]]].
  - intros id k' Hl. destruct (N.eq_dec id (m_id m)) as [->|Hne].
    + rewrite lookup_remove_same in Hl. discriminate.
    + rewrite lookup_remove_other in Hl by exact Hne. auto.
  - intros k' Hk'. rewrite cnt_app, cnt_one.
    destruct (k =? k') eqn:Ek.
    + apply N.eqb_eq in Ek. subst k'.
      destruct (B k Hk) as [(Hs & Hc & Hn)|(Hs & [[Hc Hn]|[Hc Hl]])];
        [rewrite <- Hid in Hn; congruence|rewrite <- Hid in Hn; congruence|].
      right. split; [exact Hs|]. left. rewrite Hc. split; [reflexivity|].
      rewrite <- Hid, lookup_remove_same. discriminate.
    + apply N.eqb_neq in Ek. rewrite Nat.add_0_r.
      destruct (N.eq_dec (idof k') (m_id m)) as [He|Hne].
      * rewrite He, lookup_remove_same.
        destruct (B k' Hk') as [(Hs & Hc & Hn)|(Hs & [[Hc Hn]|[Hc Hl]])].
        -- left. split; [exact Hs|]. split; [exact Hc|discriminate].
        -- right. split; [exact Hs|]. left. split; [exact Hc|discriminate].
        -- rewrite He, El in Hl. congruence.
      * rewrite lookup_remove_other by exact Hne. apply B. exact Hk'.
  - intros k' Hk'. rewrite cnt_app, cnt_one. rewrite (C k' Hk').
    destruct (k =? k') eqn:Ek; [apply N.eqb_eq in Ek; lia|reflexivity].
  - exact D.
  - intros p Hp. apply in_app_or in Hp as [Hp|[<-|[]]]; [auto|].
    right; right. exists m. cbn. rewrite <- Hid. auto.
  - exact F.
Qed.

Lemma send_msg_rpc cl ok r m r' evs b :
  send_msg cl ok r m = (r', evs, b) ->
  seq r' = seq r /\ ncalls r' = ncalls r /\ responses r' = responses r /\ dones evs = [] /\
  streams evs = [].
Proof.
  unfold send_msg. intros H. destruct (dead r || cl); [inversion H; subst; auto 10|].
  destruct ok; inversion H; subst; cbn; auto 10.
Qed.

Variable method_kind : N -> list N -> N.
Variable req_ok : N -> list N -> bool.
Variable service : N -> list N -> list N -> option sres.
Notation dispatch := (dispatch method_kind req_ok service).

Lemma request_complete_rpc cl ok r q res r' evs :
  request_complete cl ok r q res = (r', evs) ->
  seq r' = seq r /\ ncalls r' = ncalls r /\ responses r' = responses r /\ dones evs = [] /\
  streams evs = [].
Proof.
  unfold request_complete. intros H.
  destruct (memN q (cancelled r)); [inversion H; subst; cbn; auto 10|].
  destruct (key_of q (requests r)); [|inversion H; subst; cbn; auto 10].
  destruct (send_msg _ _ _ _) as [[r1 e1] b1] eqn:E. inversion H; subst. cbn.
  apply send_msg_rpc in E. destruct E as (S1 & S2 & S3 & S4 & S5).
  rewrite dones_app, streams_app, S4, S5. cbn. auto 10.
Qed.

Lemma supersede_rpc cl ok r id r' evs :
  supersede cl ok r id = (r', evs) ->
  seq r' = seq r /\ ncalls r' = ncalls r /\ responses r' = responses r /\ dones evs = [] /\
  streams evs = [].
Proof.
  unfold supersede. intros H. destruct (lookup id (requests r)); [|inversion H; subst; cbn; auto 10].
  destruct (send_msg _ _ _ _) as [[r1 e1] b1] eqn:E. inversion H; subst. cbn.
  apply send_msg_rpc in E. exact E.
Qed.

Lemma handle_request_rpc cl ok r m r' evs :
  handle_request method_kind req_ok service cl ok r m = (r', evs) ->
  seq r' = seq r /\ ncalls r' = ncalls r /\ responses r' = responses r /\ dones evs = [] /\
  streams evs = [].
Proof.
  unfold handle_request. intros H.
  destruct (method_kind (svc r) (m_name m) =? 3); [inversion H; subst; cbn; auto 10|].
  destruct (method_kind (svc r) (m_name m) =? 0).
  - destruct (send_msg _ _ _ _) as [[r1 e1] b1] eqn:E. inversion H; subst.
    apply send_msg_rpc in E. exact E.
  - destruct (negb (req_ok (svc r) (m_buf m))); [inversion H; subst; cbn; auto 10|].
    destruct (supersede cl ok r (m_id m)) as [r1 evs1] eqn:E1.
    apply supersede_rpc in E1 as (S1 & S2 & S3 & S4 & S5).
    destruct (service (svc r) (m_name m) (m_buf m)) as [res|].
    + destruct (request_complete _ _ _ _ _) as [r3 evs3] eqn:E3. inversion H; subst.
      apply request_complete_rpc in E3 as (T1 & T2 & T3 & T4 & T5). cbn in T1, T2, T3.
      rewrite dones_app, streams_app, S4, S5.
      unfold dones at 1, streams at 1. cbn [flat_map app]. fold (dones evs3). fold (streams evs3).
      rewrite T4, T5. repeat split; congruence.
    + inversion H; subst. cbn. rewrite dones_app, streams_app, S4, S5. cbn. auto 10.
Qed.

Lemma J_dispatch cl ok r ds ms ss m r' evs :
  J r ds ms ss -> In m ms -> dispatch cl ok r m = (r', evs) ->
  J r' (ds ++ dones evs) ms ss /\ streams evs = [].
Proof.
  intros HJ Hin H. unfold Model.dispatch in H.
  destruct (m_type m =? REQUEST).
  - apply handle_request_rpc in H as (S1 & S2 & S3 & S4 & S5). rewrite S4, app_nil_r.
    split; [eapply J_same; eauto|exact S5].
  - destruct (resp_outcome m) as [o|] eqn:Eo.
    + split; [eapply J_handle_response; eauto|].
      unfold handle_response in H. destruct (lookup _ _); inversion H; subst; reflexivity.
    + destruct (m_type m =? STREAM_REQUEST);
        [|inversion H; subst; cbn; rewrite app_nil_r; split; [exact HJ|reflexivity]].
      unfold handle_stream_request in H.
      destruct (method_kind (svc r) (m_name m) =? 3);
        [inversion H; subst; cbn; rewrite app_nil_r; split; [exact HJ|reflexivity]|].
      destruct (method_kind (svc r) (m_name m) =? 0).
      * destruct (send_msg _ _ _ _) as [[r1 e1] b1] eqn:E. inversion H; subst.
        apply send_msg_rpc in E as (S1 & S2 & S3 & S4 & S5). rewrite S4, app_nil_r.
        split; [eapply J_same; eauto|exact S5].
      * destruct (negb (method_kind (svc r) (m_name m) =? 2));
          [inversion H; subst; cbn; rewrite app_nil_r; split; [exact HJ|reflexivity]|].
        destruct (negb (req_ok (svc r) (m_buf m))); inversion H; subst; cbn; rewrite app_nil_r;
          (split; [exact HJ|reflexivity]).
Qed.

Lemma idof_succ k : u32 (idof k + 1) = idof (k + 1).
Proof. unfold idof. rewrite u32_succ. f_equal. lia. Qed.

Lemma J_call cl ok st nm rq r ds ms ss r' evs :
  J r ds ms ss -> call_method cl ok st nm rq r = (r', evs) ->
  J r' (ds ++ dones evs) ms (ss ++ streams evs).
Proof.
  intros (A & B & C & D & E & F) H. unfold call_method in H.
  destruct (send_msg _ _ _ _) as [[r2 evs2] b] eqn:Es.
  apply send_msg_rpc in Es as (S1 & S2 & S3 & S4 & S5). cbn [seq ncalls responses next_call] in S1, S2, S3.
  assert (Hfresh : forall id, lookup id (responses r) <> Some (ncalls r)).
  { intros id Hl. apply A in Hl. lia. }
  assert (Hnotin : ~ In (ncalls r) ss) by (intros Hi; apply F in Hi; lia).
  assert (Hseq : seq r2 = idof (ncalls r + 1)) by (rewrite S1, D; apply idof_succ).
  destruct st.
  { (* a streaming call: draws an id, is never registered and never completed *)
    inversion H; subst r' evs; clear H.
    unfold dones, streams. cbn [flat_map]. fold (dones evs2). fold (streams evs2).
    rewrite S4, S5, app_nil_r. cbn [app].
    unfold J. rewrite S2, S3. split; [|split; [|split; [|split; [|split]]]].
    - intros id k Hl. apply A in Hl. split; [lia|tauto].
    - intros k Hk. destruct (N.eq_dec k (ncalls r)) as [->|Hne].
      + left. split; [apply in_or_app; right; left; reflexivity|]. split; [apply C; lia|apply Hfresh].
      + assert (Hk2 : k < ncalls r) by lia.
        destruct (B k Hk2) as [(Hs & Hc)|(Hs & Hc)].
        * left. split; [apply in_or_app; left; exact Hs|exact Hc].
        * right. split; [|exact Hc]. intros Hi. apply in_app_or in Hi as [Hi|[Hi|[]]]; [tauto|congruence].
    - intros k Hk. apply C. lia.
    - exact Hseq.
    - exact E.
    - intros k Hi. apply in_app_or in Hi as [Hi|[<-|[]]]; [apply F in Hi; lia|lia]. }
  assert (Hstr : forall x, streams (EvCall (ncalls r) (seq r) :: evs2 ++ x) = streams x).
  { intros x. unfold streams. cbn [flat_map]. rewrite flat_map_app. fold (streams evs2). rewrite S5. reflexivity. }
  assert (Hss : forall k, k < ncalls r + 1 -> k <> ncalls r -> k < ncalls r) by (intros; lia).
  destruct (negb b).
  - (* the send failed: completed at once, never registered *)
    inversion H; subst r' evs; clear H.
    rewrite Hstr. cbn [streams flat_map]. rewrite app_nil_r.
    unfold dones at 1. cbn [flat_map]. fold (dones (evs2 ++ [EvDone (ncalls r) (OFailed TXT_SEND_FAILED)])).
    rewrite dones_app, S4. cbn [dones flat_map app].
    unfold J. rewrite S2, S3. split; [|split; [|split; [|split; [|split]]]].
    + intros id k Hl. apply A in Hl. split; [lia|tauto].
    + intros k Hk. rewrite cnt_app, cnt_one.
      destruct (ncalls r =? k) eqn:Ek.
      * apply N.eqb_eq in Ek. subst k. right. split; [exact Hnotin|]. left.
        rewrite (C (ncalls r)) by lia. split; [reflexivity|apply Hfresh].
      * apply N.eqb_neq in Ek. rewrite Nat.add_0_r. apply B. lia.
    + intros k Hk. rewrite cnt_app, cnt_one. rewrite C by lia.
      destruct (ncalls r =? k) eqn:Ek; [apply N.eqb_eq in Ek; lia|reflexivity].
    + exact Hseq.
    + intros p Hp. apply in_app_or in Hp as [Hp|[<-|[]]]; [auto|]. left. reflexivity.
    + intros k Hi. apply F in Hi. lia.
  - rewrite S3 in H. unfold set_responses in H.
    assert (Hnew : forall id k, lookup id ((seq r, ncalls r) :: remove (seq r) (responses r)) = Some k ->
                   k < ncalls r + 1 /\ id = idof k).
    { intros id k Hl. cbn in Hl. destruct (seq r =? id) eqn:Ei.
      - apply N.eqb_eq in Ei. inversion Hl; subst. split; [lia|exact D].
      - apply N.eqb_neq in Ei. rewrite lookup_remove_other in Hl by congruence.
        apply A in Hl. split; [lia|tauto]. }
    assert (Hlk : forall k, k < ncalls r ->
              lookup (idof k) ((seq r, ncalls r) :: remove (seq r) (responses r)) =
              if seq r =? idof k then Some (ncalls r) else lookup (idof k) (responses r)).
    { intros k Hk. cbn. destruct (seq r =? idof k) eqn:Ei; [reflexivity|].
      apply N.eqb_neq in Ei. apply lookup_remove_other. congruence. }
    assert (Hself : lookup (idof (ncalls r)) ((seq r, ncalls r) :: remove (seq r) (responses r)) = Some (ncalls r)).
    { cbn. rewrite D, N.eqb_refl. reflexivity. }
    (* what happens to an older call k whose id is not being superseded *)
    assert (Hold : forall k, k < ncalls r -> lookup (seq r) (responses r) <> Some k ->
              (In k ss /\ cnt k ds = 0%nat /\
               lookup (idof k) ((seq r, ncalls r) :: remove (seq r) (responses r)) <> Some k) \/
              (~ In k ss /\
               ((cnt k ds = 1%nat /\
                 lookup (idof k) ((seq r, ncalls r) :: remove (seq r) (responses r)) <> Some k) \/
                (cnt k ds = 0%nat /\
                 lookup (idof k) ((seq r, ncalls r) :: remove (seq r) (responses r)) = Some k)))).
    { intros k Hk2 Hno. rewrite (Hlk k Hk2).
      destruct (seq r =? idof k) eqn:Ei.
      - apply N.eqb_eq in Ei.
        assert (Hx : Some (ncalls r) <> Some k) by (intros Hx; inversion Hx; lia).
        destruct (B k Hk2) as [(Hs & Hc & Hn)|(Hs & [[Hc Hn]|[Hc Hl]])].
        + left. auto.
        + right. split; [exact Hs|]. left. auto.
        + rewrite <- Ei in Hl. congruence.
      - apply B. exact Hk2. }
    destruct (lookup (seq r) (responses r)) as [ko|] eqn:Eold.
    + (* id reuse: the superseded call is failed, the new one stays registered *)
      inversion H; subst r' evs; clear H.
      destruct (A _ _ Eold) as [Hko Hkoid].
      rewrite Hstr. cbn [streams flat_map]. rewrite app_nil_r.
      unfold dones at 1. cbn [flat_map]. fold (dones (evs2 ++ [EvDone ko (OFailed TXT_DUPLICATE)])).
      rewrite dones_app, S4. cbn [dones flat_map app].
      unfold J; cbn [responses ncalls seq]. rewrite S2. split; [exact Hnew|]. split; [|split; [|split; [|split]]].
      * intros k Hk. rewrite cnt_app, cnt_one.
        destruct (N.eq_dec k (ncalls r)) as [->|Hne].
        -- right. split; [exact Hnotin|]. right. rewrite C by lia.
           destruct (ko =? ncalls r) eqn:Ex; [apply N.eqb_eq in Ex; lia|].
           split; [reflexivity|exact Hself].
        -- assert (Hk2 : k < ncalls r) by lia.
           destruct (ko =? k) eqn:Eko.
           ++ apply N.eqb_eq in Eko. subst k.
              destruct (B ko Hk2) as [(Hs & Hc & Hn)|(Hs & [[Hc Hn]|[Hc Hl]])];
                [rewrite <- Hkoid in Hn; congruence|rewrite <- Hkoid in Hn; congruence|].
              right. split; [exact Hs|]. left. rewrite Hc. split; [reflexivity|].
              rewrite (Hlk ko Hk2), Hkoid, N.eqb_refl. intros Hx. inversion Hx. lia.
           ++ rewrite Nat.add_0_r. apply N.eqb_neq in Eko. apply Hold; [exact Hk2|congruence].
      * intros k Hk. rewrite cnt_app, cnt_one. rewrite C by lia.
        destruct (ko =? k) eqn:Ex; [apply N.eqb_eq in Ex; lia|reflexivity].
      * exact Hseq.
      * intros p Hp. apply in_app_or in Hp as [Hp|[<-|[]]]; [auto|]. right; left. reflexivity.
      * intros k Hi. apply F in Hi. lia.
    + inversion H; subst r' evs; clear H.
      replace (EvCall (ncalls r) (seq r) :: evs2) with (EvCall (ncalls r) (seq r) :: evs2 ++ []) by (rewrite app_nil_r; reflexivity).
      rewrite Hstr. cbn [streams flat_map]. rewrite !app_nil_r.
      unfold dones at 1. cbn [flat_map]. fold (dones evs2). rewrite S4, app_nil_r.
      unfold J; cbn [responses ncalls seq]. rewrite S2. split; [exact Hnew|]. split; [|split; [|split; [|split]]].
      * intros k Hk.
        destruct (N.eq_dec k (ncalls r)) as [->|Hne].
        -- right. split; [exact Hnotin|]. right. rewrite C by lia. split; [reflexivity|exact Hself].
        -- apply Hold; [lia|discriminate].
      * intros k Hk. apply C. lia.
      * exact Hseq.
      * exact E.
      * intros k Hi. apply F in Hi. lia.
Qed.

(* ---------- threading J through the framing layer ---------- *)
Variable decode : list N -> option msg.
Notation body_phase := (body_phase decode method_kind req_ok service).
Notation descriptor_ready := (descriptor_ready decode method_kind req_ok service).
Notation feed := (feed decode method_kind req_ok service).
Notation step := (step decode method_kind req_ok service).
Notation run := (run decode method_kind req_ok service).

Definition JT (r : rpc) (tr : list event) : Prop := J r (dones tr) (dispatched tr) (streams tr).

Lemma JT_frame r tr evs : JT r tr -> Forall frame_only evs -> JT r (tr ++ evs).
Proof.
  unfold JT. intros H Hf. rewrite dones_app, dispatched_app, streams_app.
  rewrite (frame_only_dones _ Hf), (frame_only_streams _ Hf), !app_nil_r.
  apply J_mono. exact H.
Qed.

Lemma JT_dispatch cl ok r tr m r' evs :
  JT r tr -> In (EvDispatch m) tr -> dispatch cl ok r m = (r', evs) -> JT r' (tr ++ evs).
Proof.
  intros HJ Hin Ed. unfold JT in *.
  pose proof Ed as Ed2. apply (dispatch_events method_kind req_ok service) in Ed2.
  apply rpc_only_dispatched in Ed2.
  rewrite dones_app, dispatched_app, streams_app, Ed2, app_nil_r.
  eapply J_dispatch in Ed; [|exact HJ|apply in_dispatched; exact Hin].
  destruct Ed as [Ed Es]. rewrite Es, app_nil_r. exact Ed.
Qed.

Lemma JT_call cl ok st nm rq r tr r' evs :
  JT r tr -> call_method cl ok st nm rq r = (r', evs) -> JT r' (tr ++ evs).
Proof.
  intros HJ Ec. pose proof Ec as Ec2. apply call_method_events in Ec2. apply rpc_only_dispatched in Ec2.
  unfold JT in *. rewrite dones_app, dispatched_app, streams_app, Ec2, app_nil_r.
  eapply J_call; eauto.
Qed.

Lemma JT_complete cl ok r tr q res r' evs :
  JT r tr -> request_complete cl ok r q res = (r', evs) -> JT r' (tr ++ evs).
Proof.
  intros HJ Ec. pose proof Ec as Ec2. apply request_complete_events in Ec2. apply rpc_only_dispatched in Ec2.
  apply request_complete_rpc in Ec as (S1 & S2 & S3 & S4 & S5).
  unfold JT in *. rewrite dones_app, dispatched_app, streams_app, Ec2, S4, S5, !app_nil_r.
  eapply J_same; eauto.
Qed.

Lemma run_J ops : forall f r f' r' evs tr,
  JT r tr -> run f r ops = (f', r', evs) -> JT r' (tr ++ evs).
Proof.
  refine (run_P decode method_kind req_ok service JT JT_frame JT_dispatch JT_call JT_complete _ ops).
  intros r tr k H. exact H.
Qed.

Lemma JT_init : s0 < 4294967296 -> JT (mkRpc false s0 0 [] 0 [] [] 0) [].
Proof.
  intros Hs. unfold JT, J; cbn. repeat split; try discriminate; try lia; try contradiction.
  unfold idof. rewrite N.add_0_r. symmetry. apply u32_id. exact Hs.
Qed.

Lemma run_once ops f r tr :
  s0 < 4294967296 ->
  run init_frame (mkRpc false s0 0 [] 0 [] [] 0) ops = (f, r, tr) ->
  J r (dones tr) (dispatched tr) (streams tr).
Proof.
  intros Hs H. apply (run_J ops _ _ _ _ _ [] (JT_init Hs)) in H. exact H.
Qed.

(* the step-level facts: an answer completes exactly the registered call of that id, once *)
Lemma dispatch_answer cl ok r m o r' evs :
  resp_outcome m = Some o -> dispatch cl ok r m = (r', evs) ->
  lookup (m_id m) (responses r') = None /\
  match lookup (m_id m) (responses r) with
  | Some k => dones evs = [(k, o)]
  | None => dones evs = [] /\ r' = r
  end.
Proof.
  intros Ho H. unfold Model.dispatch in H.
  assert (Hreq : (m_type m =? REQUEST) = false).
  { unfold resp_outcome in Ho.
    destruct (m_type m =? RESPONSE) eqn:E1; [apply N.eqb_eq in E1; rewrite E1; reflexivity|].
    destruct (m_type m =? RESPONSE_CANCEL) eqn:E2; [apply N.eqb_eq in E2; rewrite E2; reflexivity|].
    destruct (m_type m =? RESPONSE_FAILED) eqn:E3; [apply N.eqb_eq in E3; rewrite E3; reflexivity|].
    destruct (m_type m =? RESPONSE_NOT_IMPLEMENTED) eqn:E4; [apply N.eqb_eq in E4; rewrite E4; reflexivity|].
    discriminate. }
  rewrite Hreq, Ho in H. unfold handle_response in H.
  destruct (lookup (m_id m) (responses r)) as [k|] eqn:El; inversion H; subst; cbn.
  - split; [apply lookup_remove_same|reflexivity].
  - auto.
Qed.

Lemma call_send_failed_closed cl ok nm rq r r' evs :
  dead r || cl = true ->
  call_method cl ok false nm rq r = (r', evs) ->
  dones evs = [(ncalls r, OFailed TXT_SEND_FAILED)] /\ responses r' = responses r.
Proof.
  unfold call_method, send_msg; cbn [dead seq ncalls responses next_call].
  intros ->; cbn; intros H; inversion H; subst; cbn; auto.
Qed.

Lemma call_send_failed cl nm rq r r' evs :
  call_method cl false false nm rq r = (r', evs) ->
  dones evs = [(ncalls r, OFailed TXT_SEND_FAILED)] /\ responses r' = responses r.
Proof.
  unfold call_method, send_msg; cbn [dead seq ncalls responses next_call].
  destruct (dead r || cl); cbn; intros H; inversion H; subst; cbn; auto.
Qed.

(* a streaming call puts its own sequence number on the wire, completes nothing, registers nothing *)
Lemma call_streaming cl ok nm rq r r' evs :
  call_method cl ok true nm rq r = (r', evs) ->
  dones evs = [] /\ responses r' = responses r /\ ncalls r' = ncalls r + 1 /\
  seq r' = u32 (seq r + 1) /\
  forall m, In (EvSend m) evs -> m = mkMsg STREAM_REQUEST (seq r) nm rq.
Proof.
  unfold call_method, send_msg; cbn [dead seq ncalls responses next_call].
  destruct (dead r || cl); cbn.
  - intros H; inversion H; subst; cbn. repeat split; auto. intros m [Hx|[]]. discriminate.
  - destruct ok; intros H; inversion H; subst; cbn; repeat split; auto.
    + intros m [Hx|[Hx|[]]]; [discriminate|inversion Hx; reflexivity].
    + intros m [Hx|[Hx|[]]]; discriminate.
Qed.

(* within 2^32 draws two calls never share an id *)
Lemma ids_distinct k k' : k' < k -> k < k' + 4294967296 -> idof k <> idof k'.
Proof.
  unfold idof, u32. intros H1 H2 He.
  assert (Hk : s0 + k = s0 + k' + (k - k')) by lia.
  rewrite Hk in He.
  rewrite <- N.add_mod_idemp_l in He by lia.
  remember ((s0 + k') mod 4294967296) as a.
  assert (Ha : a < 4294967296) by (subst a; apply N.mod_lt; lia).
  assert (Hd : 0 < k - k' < 4294967296) by lia.
  destruct (N.lt_ge_cases (a + (k - k')) 4294967296) as [Hlt|Hge].
  - rewrite N.mod_small in He by exact Hlt. lia.
  - assert (Hm : (a + (k - k')) mod 4294967296 = a + (k - k') - 4294967296).
    { symmetry. apply N.mod_unique with (q := 1); lia. }
    rewrite Hm in He. lia.
Qed.

End Once.
