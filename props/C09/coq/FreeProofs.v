(* C09 — a request object is deleted only by the completion of that very request. *)
From OlaBase Require Import Bytes.
From C09 Require Import Gen Model FrameProofs.
Local Open Scope N_scope.

Lemma send_msg_nofree cl ok r m r' evs b q :
  send_msg cl ok r m = (r', evs, b) -> ~ In (EvFreeReq q) evs.
Proof.
  unfold send_msg. intros H Hi. destruct (dead r || cl); [inversion H; subst; exact Hi|].
  destruct ok; inversion H; subst; destruct Hi as [Hx|[]]; discriminate.
Qed.
Lemma send_msg_nreq cl ok r m r' evs b : send_msg cl ok r m = (r', evs, b) -> nreq r' = nreq r.
Proof.
  unfold send_msg. intros H. destruct (dead r || cl); [inversion H; subst; reflexivity|].
  destruct ok; inversion H; subst; reflexivity.
Qed.

(* RequestComplete(q0) deletes q0 and nothing else *)
Lemma request_complete_frees cl ok r q0 res r' evs q :
  request_complete cl ok r q0 res = (r', evs) -> In (EvFreeReq q) evs -> q = q0.
Proof.
  unfold request_complete. intros H Hi.
  destruct (memN q0 (cancelled r)).
  { inversion H; subst. destruct Hi as [Hx|[]]. inversion Hx. reflexivity. }
  destruct (key_of q0 (requests r)); [|inversion H; subst; contradiction].
  destruct (send_msg _ _ _ _) as [[r1 e1] b1] eqn:E. inversion H; subst.
  apply in_app_or in Hi as [Hi|[Hx|[]]].
  - exfalso. eapply send_msg_nofree; eauto.
  - inversion Hx. reflexivity.
Qed.
Lemma request_complete_nreq cl ok r q0 res r' evs :
  request_complete cl ok r q0 res = (r', evs) -> nreq r' = nreq r.
Proof.
  unfold request_complete. intros H.
  destruct (memN q0 (cancelled r)); [inversion H; subst; reflexivity|].
  destruct (key_of q0 (requests r)); [|inversion H; subst; reflexivity].
  destruct (send_msg _ _ _ _) as [[r1 e1] b1] eqn:E. inversion H; subst. cbn.
  eapply send_msg_nreq; eauto.
Qed.

Section Free.
Variable decode : list N -> option msg.
Variable method_kind : N -> list N -> N.
Variable req_ok : N -> list N -> bool.
Variable service : N -> list N -> list N -> option sres.
Notation dispatch := (dispatch method_kind req_ok service).
Notation body_phase := (body_phase decode method_kind req_ok service).
Notation descriptor_ready := (descriptor_ready decode method_kind req_ok service).
Notation feed := (feed decode method_kind req_ok service).
Notation step := (step decode method_kind req_ok service).
Notation run := (run decode method_kind req_ok service).

(* handling a message deletes at most the request it has just handed to a service that answered at
   once; in particular not the request a duplicate id supersedes, and nothing on any other message *)
Lemma dispatch_frees cl ok r m r' evs :
  dispatch cl ok r m = (r', evs) ->
  nreq r <= nreq r' /\
  forall q, In (EvFreeReq q) evs ->
    q = nreq r /\ m_type m = REQUEST /\ service (svc r) (m_name m) (m_buf m) <> None.
Proof.
  unfold Model.dispatch. intros H.
  destruct (m_type m =? REQUEST) eqn:Et.
  - apply N.eqb_eq in Et. unfold handle_request in H.
    destruct (method_kind (svc r) (m_name m) =? 3); [inversion H; subst; split; [lia|contradiction]|].
    destruct (method_kind (svc r) (m_name m) =? 0).
    + destruct (send_msg _ _ _ _) as [[r1 e1] b1] eqn:E. inversion H; subst.
      split; [rewrite (send_msg_nreq _ _ _ _ _ _ _ E); lia|]. intros q Hi. exfalso. eapply send_msg_nofree; eauto.
    + destruct (negb (req_ok (svc r) (m_buf m))); [inversion H; subst; split; [lia|contradiction]|].
      destruct (supersede cl ok r (m_id m)) as [r1 evs1] eqn:E1.
      assert (S1 : nreq r1 = nreq r /\ forall q, ~ In (EvFreeReq q) evs1).
      { unfold supersede in E1. destruct (lookup _ _); [|inversion E1; subst; auto].
        destruct (send_msg _ _ _ _) as [[r2 e2] b2] eqn:E. inversion E1; subst. cbn.
        split; [eapply send_msg_nreq; eauto|]. intros q Hi. eapply send_msg_nofree; eauto. }
      destruct S1 as [N1 F1].
      destruct (service (svc r) (m_name m) (m_buf m)) as [res|] eqn:Es.
      * destruct (request_complete _ _ _ _ _) as [r3 evs3] eqn:E3. inversion H; subst.
        split; [rewrite (request_complete_nreq _ _ _ _ _ _ _ E3); cbn; lia|].
        intros q Hi. apply in_app_or in Hi as [Hi|[Hx|Hi]]; [exfalso; eapply F1; eauto|discriminate|].
        apply (request_complete_frees _ _ _ _ _ _ _ _ E3) in Hi. split; [exact Hi|]. split; [exact Et|discriminate].
      * inversion H; subst. split; [cbn; lia|]. intros q Hi.
        apply in_app_or in Hi as [Hi|[Hx|[]]]; [exfalso; eapply F1; eauto|discriminate].
  - destruct (resp_outcome m) as [o|].
    + unfold handle_response in H. destruct (lookup _ _); inversion H; subst; (split; [cbn; lia|]);
        intros q Hi; [destruct Hi as [Hx|[]]; discriminate|contradiction].
    + destruct (m_type m =? STREAM_REQUEST); [|inversion H; subst; split; [lia|contradiction]].
      unfold handle_stream_request in H.
      destruct (method_kind (svc r) (m_name m) =? 3); [inversion H; subst; split; [lia|contradiction]|].
      destruct (method_kind (svc r) (m_name m) =? 0).
      * destruct (send_msg _ _ _ _) as [[r1 e1] b1] eqn:E. inversion H; subst.
        split; [rewrite (send_msg_nreq _ _ _ _ _ _ _ E); lia|]. intros q Hi. exfalso. eapply send_msg_nofree; eauto.
      * destruct (negb (method_kind (svc r) (m_name m) =? 2)); [inversion H; subst; split; [lia|contradiction]|].
        destruct (negb (req_ok (svc r) (m_buf m))); inversion H; subst; (split; [lia|]);
          intros q Hi; [contradiction|destruct Hi as [Hx|[]]; discriminate].
Qed.

(* bytes arriving (any number of messages, rejected headers, Close()) never delete a request that was
   outstanding before they arrived *)
Lemma body_phase_frees ok f r avail f' r' rest evs :
  body_phase ok f r avail = (f', r', rest, evs) ->
  nreq r <= nreq r' /\ forall q, In (EvFreeReq q) evs -> nreq r <= q.
Proof.
  intros H. unfold Model.body_phase in H.
  destruct (recv _ avail) as [got rs].
  destruct (_ =? expected f).
  - destruct (decode _) as [m|].
    + destruct (dispatch (closed f) ok r m) as [r1 evs1] eqn:Ed. inversion H; subst.
      apply dispatch_frees in Ed as [Hn Hf]. split; [exact Hn|].
      intros q [Hx|[Hx|[Hx|Hi]]]; try discriminate. apply Hf in Hi. lia.
    + inversion H; subst. split; [lia|]. intros q [Hx|[Hx|[Hx|[]]]]; discriminate.
  - inversion H; subst. split; [lia|]. intros q [Hx|[]]; discriminate.
Qed.

Lemma descriptor_ready_frees ok f r avail f' r' rest evs :
  descriptor_ready ok f r avail = (f', r', rest, evs) ->
  nreq r <= nreq r' /\ forall q, In (EvFreeReq q) evs -> nreq r <= q.
Proof.
  intros H. unfold Model.descriptor_ready in H.
  destruct (dead r); [inversion H; subst; split; [lia|contradiction]|].
  destruct (expected f =? 0); [|eapply body_phase_frees; eauto].
  cbv zeta in H.
  destruct (read_header f avail) as [[[f1 rs] ver] size].
  destruct (size =? 0); [inversion H; subst; split; [lia|]; intros q [Hx|[]]; discriminate|].
  destruct (negb _); [inversion H; subst; split; [lia|]; intros q [Hx|[Hx|[]]]; discriminate|].
  destruct (MAX_BUFFER_SIZE <? size); [inversion H; subst; split; [lia|]; intros q [Hx|[Hx|[]]]; discriminate|].
  destruct (allocate_msg_buffer _ size) as [f4 ret].
  destruct (ret <? size); [inversion H; subst; split; [lia|]; intros q [Hx|[Hx|[]]]; discriminate|].
  destruct (body_phase ok _ r rs) as [[[f6 r6] rest6] evs6] eqn:Eb.
  inversion H; subst. apply body_phase_frees in Eb as [Hn Hf]. split; [exact Hn|].
  intros q [Hx|Hi]; [discriminate|auto].
Qed.

Lemma feed_frees fuel : forall ok f r avail f' r' evs,
  feed fuel ok f r avail = (f', r', evs) ->
  nreq r <= nreq r' /\ forall q, In (EvFreeReq q) evs -> nreq r <= q.
Proof.
  induction fuel as [|fuel IH]; intros ok f r avail f' r' evs H; cbn [Model.feed] in H.
  - destruct avail; [inversion H; subst; split; [lia|contradiction]|].
    destruct (closed f || dead r); inversion H; subst; (split; [lia|]); intros q Hi;
      [contradiction|destruct Hi as [Hx|[]]; discriminate].
  - destruct avail as [|a av]; [inversion H; subst; split; [lia|contradiction]|].
    destruct (closed f || dead r); [inversion H; subst; split; [lia|contradiction]|].
    destruct (descriptor_ready ok f r (a :: av)) as [[[f1 r1] rest] evs1] eqn:Edr.
    destruct (feed fuel ok f1 r1 rest) as [[f2 r2] evs2] eqn:Ef.
    inversion H; subst.
    apply descriptor_ready_frees in Edr as [N1 F1]. apply IH in Ef as [N2 F2].
    split; [lia|]. intros q Hi. apply in_app_or in Hi as [Hi|Hi]; [auto|]. apply F2 in Hi. lia.
Qed.

Lemma call_method_nofree cl ok st nm rq r r' evs q :
  call_method cl ok st nm rq r = (r', evs) -> ~ In (EvFreeReq q) evs.
Proof.
  unfold call_method. intros H Hi.
  destruct (send_msg _ _ _ _) as [[r2 evs2] b] eqn:Es.
  assert (Hs : ~ In (EvFreeReq q) evs2) by (eapply send_msg_nofree; eauto).
  destruct st; [inversion H; subst; destruct Hi as [Hx|Hi]; [discriminate|tauto]|].
  destruct (negb b).
  - inversion H; subst. destruct Hi as [Hx|Hi]; [discriminate|].
    apply in_app_or in Hi as [Hi|[Hx|[]]]; [tauto|discriminate].
  - destruct (lookup _ _); inversion H; subst; destruct Hi as [Hx|Hi]; try discriminate.
    + apply in_app_or in Hi as [Hi|[Hx|[]]]; [tauto|discriminate].
    + tauto.
Qed.

(* one step, any state *)
Lemma step_frees f r o f' r' evs q :
  step f r o = (f', r', evs) -> In (EvFreeReq q) evs ->
  (exists res ok, o = OpComplete q res ok) \/ (exists bs ok, o = OpChunk bs ok /\ nreq r <= q).
Proof.
  intros H Hi. destruct o as [bs ok|st nm rq ok|q0 res ok|k]; cbn [Model.step] in H.
  - right. exists bs, ok. split; [reflexivity|]. apply feed_frees in H as [_ Hf]. auto.
  - destruct (call_method _ _ _ _ _ _) as [r1 evs1] eqn:Ec. inversion H; subst.
    exfalso. eapply call_method_nofree; eauto.
  - destruct (request_complete _ _ _ _ _) as [r1 evs1] eqn:Ec. inversion H; subst.
    apply (request_complete_frees _ _ _ _ _ _ _ _ Ec) in Hi. subst. left. eauto.
  - inversion H; subst. contradiction.
Qed.

(* histories, with a service that never answers from inside CallMethod: every deletion of a request
   object is the completion of that request by the service *)
Hypothesis service_async : forall sv nm rq, service sv nm rq = None.

Lemma feed_nofree fuel : forall ok f r avail f' r' evs q,
  feed fuel ok f r avail = (f', r', evs) -> ~ In (EvFreeReq q) evs.
Proof.
  induction fuel as [|fuel IH]; intros ok f r avail f' r' evs q H Hi; cbn [Model.feed] in H.
  - destruct avail; [inversion H; subst; exact Hi|].
    destruct (closed f || dead r); inversion H; subst; [exact Hi|destruct Hi as [Hx|[]]; discriminate].
  - destruct avail as [|a av]; [inversion H; subst; exact Hi|].
    destruct (closed f || dead r); [inversion H; subst; exact Hi|].
    destruct (descriptor_ready ok f r (a :: av)) as [[[f1 r1] rest] evs1] eqn:Edr.
    destruct (feed fuel ok f1 r1 rest) as [[f2 r2] evs2] eqn:Ef.
    inversion H; subst. apply in_app_or in Hi as [Hi|Hi]; [|eapply IH; eauto].
    clear Ef IH. unfold Model.descriptor_ready in Edr.
    destruct (dead r); [inversion Edr; subst; exact Hi|].
    assert (Hb : forall f0 av0 f3 r3 rs3 e3, body_phase ok f0 r av0 = (f3, r3, rs3, e3) -> ~ In (EvFreeReq q) e3).
    { intros f0 av0 f3 r3 rs3 e3 Hb Hin. unfold Model.body_phase in Hb.
      destruct (recv _ av0) as [got rs]. destruct (_ =? expected f0).
      - destruct (decode _) as [m|].
        + destruct (dispatch (closed f0) ok r m) as [r4 e4] eqn:Ed. inversion Hb; subst.
          destruct Hin as [Hx|[Hx|[Hx|Hin]]]; try discriminate.
          apply dispatch_frees in Ed as [_ Hf]. apply Hf in Hin as (_ & _ & Hs). apply Hs. apply service_async.
        + inversion Hb; subst. destruct Hin as [Hx|[Hx|[Hx|[]]]]; discriminate.
      - inversion Hb; subst. destruct Hin as [Hx|[]]; discriminate. }
    destruct (expected f =? 0); [|eapply Hb; eauto].
    cbv zeta in Edr.
    destruct (read_header f (a :: av)) as [[[f3 rs] ver] size].
    destruct (size =? 0); [inversion Edr; subst; destruct Hi as [Hx|[]]; discriminate|].
    destruct (negb _); [inversion Edr; subst; destruct Hi as [Hx|[Hx|[]]]; discriminate|].
    destruct (MAX_BUFFER_SIZE <? size); [inversion Edr; subst; destruct Hi as [Hx|[Hx|[]]]; discriminate|].
    destruct (allocate_msg_buffer _ size) as [f4 ret].
    destruct (ret <? size); [inversion Edr; subst; destruct Hi as [Hx|[Hx|[]]]; discriminate|].
    destruct (body_phase ok _ r rs) as [[[f6 r6] rest6] evs6] eqn:Eb.
    inversion Edr; subst. destruct Hi as [Hx|Hi]; [discriminate|]. eapply Hb; eauto.
Qed.

Lemma run_frees ops : forall f r f' r' tr q,
  run f r ops = (f', r', tr) -> In (EvFreeReq q) tr -> exists res ok, In (OpComplete q res ok) ops.
Proof.
  induction ops as [|o ops IH]; intros f r f' r' tr q H Hi; cbn [Model.run] in H.
  - inversion H; subst. contradiction.
  - destruct (step f r o) as [[f1 r1] evs1] eqn:Es.
    destruct (run f1 r1 ops) as [[f2 r2] evs2] eqn:Er.
    inversion H; subst. apply in_app_or in Hi as [Hi|Hi].
    + destruct o as [bs ok|st nm rq ok|q0 res ok|k]; cbn [Model.step] in Es.
      * exfalso. eapply feed_nofree; eauto.
      * destruct (call_method _ _ _ _ _ _) as [r3 evs3] eqn:Ec. inversion Es; subst.
        exfalso. eapply call_method_nofree; eauto.
      * destruct (request_complete _ _ _ _ _) as [r3 evs3] eqn:Ec. inversion Es; subst.
        apply (request_complete_frees _ _ _ _ _ _ _ _ Ec) in Hi. subst. exists res, ok. left. reflexivity.
      * inversion Es; subst. contradiction.
    + destruct (IH _ _ _ _ _ _ Er Hi) as (res & ok & Hin). exists res, ok. right. exact Hin.
Qed.

End Free.
