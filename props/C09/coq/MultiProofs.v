(* C09 — N channels in one process: under any interleaving of per-channel steps every channel behaves
   exactly as if it were alone. *)
From OlaBase Require Import Bytes.
From C09 Require Import Gen Model.
Local Open Scope N_scope.

Lemma nth_upd_same {A} i (x : A) l : (i < length l)%nat -> nth_error (upd i x l) i = Some x.
Proof.
  revert i. induction l as [|y l IH]; intros [|i] H; cbn in *; try lia; [reflexivity|]. apply IH. lia.
Qed.
Lemma nth_upd_other {A} i j (x : A) l : i <> j -> nth_error (upd i x l) j = nth_error l j.
Proof.
  revert i j. induction l as [|y l IH]; intros [|i] [|j] H; cbn; try reflexivity; try congruence.
  apply IH. congruence.
Qed.
Lemma proj_app {A} i (a b : list (nat * A)) : proj i (a ++ b) = proj i a ++ proj i b.
Proof. unfold proj. rewrite filter_app, map_app. reflexivity. Qed.
Lemma proj_tag_same {A} i (l : list A) : proj i (map (pair i) l) = l.
Proof.
  unfold proj. induction l as [|x l IH]; cbn; [reflexivity|]. rewrite Nat.eqb_refl. cbn. f_equal. exact IH.
Qed.
Lemma proj_tag_other {A} i j (l : list A) : j <> i -> proj i (map (pair j) l) = [].
Proof.
  intros H. unfold proj. induction l as [|x l IH]; cbn; [reflexivity|].
  destruct (Nat.eqb j i) eqn:E; [apply Nat.eqb_eq in E; congruence|exact IH].
Qed.

Section Multi.
Variable decode : list N -> option msg.
Variable method_kind : N -> list N -> N.
Variable req_ok : N -> list N -> bool.
Variable service : N -> list N -> list N -> option sres.
Notation step := (step decode method_kind req_ok service).
Notation run := (run decode method_kind req_ok service).
Notation mstep := (mstep decode method_kind req_ok service).
Notation mrun := (mrun decode method_kind req_ok service).

Lemma mrun_proj ops : forall s s' tr i f r,
  mrun s ops = (s', tr) -> nth_error s i = Some (f, r) ->
  exists f' r' tri,
    run f r (proj i ops) = (f', r', tri) /\ nth_error s' i = Some (f', r') /\ proj i tr = tri.
Proof.
  induction ops as [|[j o] ops IH]; intros s s' tr i f r H Hi; cbn [Model.mrun] in H.
  - inversion H; subst. exists f, r, []. cbn. auto.
  - destruct (mstep s (j, o)) as [s1 evs] eqn:Es.
    destruct (mrun s1 ops) as [s2 evs2] eqn:Er.
    inversion H; subst s' tr; clear H.
    unfold Model.mstep in Es. cbn [fst snd] in Es.
    unfold proj at 1. cbn [filter fst]. fold (@proj op i ops).
    destruct (Nat.eqb j i) eqn:Eji.
    + apply Nat.eqb_eq in Eji. subst j. rewrite Hi in Es.
      destruct (step f r o) as [[f1 r1] e1] eqn:Est. inversion Es; subst s1 evs; clear Es.
      assert (Hlen : (i < length s)%nat) by (apply nth_error_Some; congruence).
      pose proof (nth_upd_same i (f1, r1) s Hlen) as Hn.
      destruct (IH _ _ _ i f1 r1 Er Hn) as (f' & r' & tri & R & Nn & P).
      cbn [map snd Model.run]. change (map snd (filter (fun p => Nat.eqb (fst p) i) ops)) with (proj i ops).
      rewrite Est, R. exists f', r', (e1 ++ tri). split; [reflexivity|]. split; [exact Nn|].
      rewrite proj_app, proj_tag_same, P. reflexivity.
    + apply Nat.eqb_neq in Eji.
      assert (Hs1 : nth_error s1 i = Some (f, r) /\ proj i evs = []).
      { destruct (nth_error s j) as [[fj rj]|].
        - destruct (step fj rj o) as [[f1 r1] e1]. inversion Es; subst.
          split; [rewrite nth_upd_other by exact Eji; exact Hi|apply proj_tag_other; exact Eji].
        - inversion Es; subst. auto. }
      destruct Hs1 as [Hn Hp].
      destruct (IH _ _ _ i f r Er Hn) as (f' & r' & tri & R & Nn & P).
      exists f', r', tri. split; [exact R|]. split; [exact Nn|].
      rewrite proj_app, Hp, P. reflexivity.
Qed.

Notation sstep := (sstep decode method_kind req_ok service).
Notation srun := (srun decode method_kind req_ok service).

(* a deleted channel is never stepped again and nothing is attributed to it *)
Lemma srun_gone ops : forall s s' tr i,
  srun s ops = (s', tr) -> nth_error s i = Some None ->
  nth_error s' i = Some None /\ proj i tr = [].
Proof.
  induction ops as [|x ops IH]; intros s s' tr i H Hi; cbn [Model.srun] in H.
  - inversion H; subst. auto.
  - destruct (sstep s x) as [s1 evs] eqn:Es. destruct (srun s1 ops) as [s2 evs2] eqn:Er.
    inversion H; subst s' tr; clear H.
    assert (Hlen : (i < length s)%nat) by (apply nth_error_Some; congruence).
    assert (H1 : nth_error s1 i = Some None /\ proj i evs = []).
    { destruct x as [j o|j]; cbn [Model.sstep] in Es.
      - destruct (Nat.eq_dec j i) as [->|Hne].
        + rewrite Hi in Es. inversion Es; subst. auto.
        + destruct (nth_error s j) as [[[fj rj]|]|]; try (inversion Es; subst; auto; fail).
          destruct (step fj rj o) as [[f1 r1] e1]. inversion Es; subst.
          split; [rewrite nth_upd_other by exact Hne; exact Hi|apply proj_tag_other; exact Hne].
      - inversion Es; subst. split; [|reflexivity].
        destruct (Nat.eq_dec j i) as [->|Hne]; [apply nth_upd_same; exact Hlen|].
        rewrite nth_upd_other by exact Hne. exact Hi. }
    destruct H1 as [Hn Hp]. destruct (IH _ _ _ i Er Hn) as [A B].
    split; [exact A|]. rewrite proj_app, Hp, B. reflexivity.
Qed.

Lemma srun_proj ops : forall s s' tr i f r,
  srun s ops = (s', tr) -> nth_error s i = Some (Some (f, r)) ->
  exists f' r' tri,
    run f r (own_ops i ops) = (f', r', tri) /\ proj i tr = tri /\
    nth_error s' i = Some (if hangs_up i ops then None else Some (f', r')).
Proof.
  induction ops as [|x ops IH]; intros s s' tr i f r H Hi; cbn [Model.srun] in H.
  - inversion H; subst. exists f, r, []. cbn. auto.
  - destruct (sstep s x) as [s1 evs] eqn:Es. destruct (srun s1 ops) as [s2 evs2] eqn:Er.
    inversion H; subst s' tr; clear H.
    assert (Hlen : (i < length s)%nat) by (apply nth_error_Some; congruence).
    destruct x as [j o|j]; cbn [Model.sstep] in Es; cbn [own_ops hangs_up].
    + destruct (Nat.eqb j i) eqn:Eji.
      * apply Nat.eqb_eq in Eji. subst j. rewrite Hi in Es.
        destruct (step f r o) as [[f1 r1] e1] eqn:Est. inversion Es; subst s1 evs; clear Es.
        pose proof (nth_upd_same i (Some (f1, r1)) s Hlen) as Hn.
        destruct (IH _ _ _ i f1 r1 Er Hn) as (f' & r' & tri & R & P & Nn).
        cbn [Model.run]. rewrite Est, R. exists f', r', (e1 ++ tri). split; [reflexivity|].
        split; [rewrite proj_app, proj_tag_same, P; reflexivity|exact Nn].
      * apply Nat.eqb_neq in Eji.
        assert (Hs1 : nth_error s1 i = Some (Some (f, r)) /\ proj i evs = []).
        { destruct (nth_error s j) as [[[fj rj]|]|]; try (inversion Es; subst; auto; fail).
          destruct (step fj rj o) as [[f1 r1] e1]. inversion Es; subst.
          split; [rewrite nth_upd_other by exact Eji; exact Hi|apply proj_tag_other; exact Eji]. }
        destruct Hs1 as [Hn Hp].
        destruct (IH _ _ _ i f r Er Hn) as (f' & r' & tri & R & P & Nn).
        exists f', r', tri. split; [exact R|]. split; [rewrite proj_app, Hp, P; reflexivity|exact Nn].
    + inversion Es; subst s1 evs; clear Es. cbn [app].
      destruct (Nat.eqb j i) eqn:Eji.
      * apply Nat.eqb_eq in Eji. subst j. cbn [orb].
        pose proof (nth_upd_same i (@None (frame * rpc)) s Hlen) as Hn.
        destruct (srun_gone _ _ _ _ i Er Hn) as [A B].
        exists f, r, []. cbn. auto.
      * apply Nat.eqb_neq in Eji. cbn [orb].
        assert (Hn : nth_error (upd j None s) i = Some (Some (f, r)))
          by (rewrite nth_upd_other by exact Eji; exact Hi).
        exact (IH _ _ _ i f r Er Hn).
Qed.

End Multi.
