(* REGENERATED from the repository headers on every run. Do not edit.  *)
From Coq Require Import NArith.
Local Open Scope N_scope.
Definition REQUEST : N := 1.
Definition RESPONSE : N := 2.
Definition RESPONSE_CANCEL : N := 3.
Definition RESPONSE_FAILED : N := 4.
Definition RESPONSE_NOT_IMPLEMENTED : N := 5.
Definition STREAM_REQUEST : N := 10.
Definition PROTOCOL_VERSION : N := 1.
Definition INITIAL_BUFFER_SIZE : N := 2048.
Definition MAX_BUFFER_SIZE : N := 1048576.
Definition VERSION_MASK : N := 4026531840.
Definition SIZE_MASK : N := 268435455.
Definition HEADER_BYTES : N := 4.
Definition LE_PROBE : N := 67305985.
