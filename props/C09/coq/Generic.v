(* C09 — one induction over histories for every invariant of the call / request state:
   an invariant of (rpc state, trace) that is kept by the framing events, by dispatching a message
   that is in the trace, by CallMethod and by a service completion holds after every history. *)
From OlaBase Require Import Bytes.
From C09 Require Import Gen Model FrameProofs.
Local Open Scope N_scope.

Definition frame_only (e : event) : Prop :=
  match e with
  | EvWrite _ _ _ _ | EvHdrWrite _ _ | EvParse _ _ | EvClose | EvDispatch _ | EvOutOfFuel => True
  | _ => False
  end.

Section Generic.
Variable decode : list N -> option msg.
Variable method_kind : N -> list N -> N.
Variable req_ok : N -> list N -> bool.
Variable service : N -> list N -> list N -> option sres.
Notation dispatch := (dispatch method_kind req_ok service).
Notation body_phase := (body_phase decode method_kind req_ok service).
Notation descriptor_ready := (descriptor_ready decode method_kind req_ok service).
Notation feed := (feed decode method_kind req_ok service).
Notation step := (step decode method_kind req_ok service).
Notation run := (run decode method_kind req_ok service).

Variable P : rpc -> list event -> Prop.
Hypothesis P_frame : forall r tr evs, P r tr -> Forall frame_only evs -> P r (tr ++ evs).
Hypothesis P_dispatch : forall cl ok r tr m r' evs,
  P r tr -> In (EvDispatch m) tr -> dispatch cl ok r m = (r', evs) -> P r' (tr ++ evs).
Hypothesis P_call : forall cl ok st nm rq r tr r' evs,
  P r tr -> call_method cl ok st nm rq r = (r', evs) -> P r' (tr ++ evs).
Hypothesis P_complete : forall cl ok r tr q res r' evs,
  P r tr -> request_complete cl ok r q res = (r', evs) -> P r' (tr ++ evs).
Hypothesis P_setsvc : forall r tr k, P r tr -> P (set_svc r k) tr.

Lemma body_phase_P ok f r avail f' r' rest evs tr :
  P r tr -> body_phase ok f r avail = (f', r', rest, evs) -> P r' (tr ++ evs).
Proof.
  intros HP H. unfold Model.body_phase in H.
  destruct (recv _ avail) as [got rs].
  destruct (_ =? expected f).
  - destruct (decode _) as [m|].
    + destruct (dispatch (closed f) ok r m) as [r1 evs1] eqn:Ed.
      inversion H; subst f' r' rest evs; clear H.
      change (?a :: ?b :: EvDispatch m :: evs1) with ([a; b; EvDispatch m] ++ evs1).
      rewrite app_assoc. eapply P_dispatch; [|  |exact Ed].
      * apply P_frame; [exact HP|]. repeat constructor.
      * apply in_or_app. right. right. right. left. reflexivity.
    + inversion H; subst. apply P_frame; [exact HP|repeat constructor].
  - inversion H; subst. apply P_frame; [exact HP|repeat constructor].
Qed.

Lemma descriptor_ready_P ok f r avail f' r' rest evs tr :
  P r tr -> descriptor_ready ok f r avail = (f', r', rest, evs) -> P r' (tr ++ evs).
Proof.
  intros HP H. unfold Model.descriptor_ready in H.
  destruct (dead r); [inversion H; subst; rewrite app_nil_r; exact HP|].
  destruct (expected f =? 0); [|eapply body_phase_P; eauto].
  cbv zeta in H.
  destruct (read_header f avail) as [[[f1 rs] ver] size].
  destruct (size =? 0); [inversion H; subst; apply P_frame; [exact HP|repeat constructor]|].
  destruct (negb _); [inversion H; subst; apply P_frame; [exact HP|repeat constructor]|].
  destruct (MAX_BUFFER_SIZE <? size); [inversion H; subst; apply P_frame; [exact HP|repeat constructor]|].
  destruct (allocate_msg_buffer _ size) as [f4 ret].
  destruct (ret <? size); [inversion H; subst; apply P_frame; [exact HP|repeat constructor]|].
  destruct (body_phase ok _ r rs) as [[[f6 r6] rest6] evs6] eqn:Eb.
  inversion H; subst f' r' rest evs; clear H.
  change (?a :: evs6) with ([a] ++ evs6). rewrite app_assoc.
  eapply body_phase_P; [|exact Eb]. apply P_frame; [exact HP|repeat constructor].
Qed.

Lemma feed_P fuel : forall ok f r avail f' r' evs tr,
  P r tr -> feed fuel ok f r avail = (f', r', evs) -> P r' (tr ++ evs).
Proof.
  induction fuel as [|fuel IH]; intros ok f r avail f' r' evs tr HP H; cbn [Model.feed] in H.
  - destruct avail; [inversion H; subst; rewrite app_nil_r; exact HP|].
    destruct (closed f || dead r); inversion H; subst; [rewrite app_nil_r; exact HP|].
    apply P_frame; [exact HP|repeat constructor].
  - destruct avail as [|a av]; [inversion H; subst; rewrite app_nil_r; exact HP|].
    destruct (closed f || dead r); [inversion H; subst; rewrite app_nil_r; exact HP|].
    destruct (descriptor_ready ok f r (a :: av)) as [[[f1 r1] rest] evs1] eqn:Edr.
    destruct (feed fuel ok f1 r1 rest) as [[f2 r2] evs2] eqn:Ef.
    inversion H; subst. rewrite app_assoc.
    eapply IH; [|exact Ef]. eapply descriptor_ready_P; eauto.
Qed.

Lemma step_P f r o f' r' evs tr :
  P r tr -> step f r o = (f', r', evs) -> P r' (tr ++ evs).
Proof.
  intros HP H. destruct o as [bs ok|st nm rq ok|q res ok|k]; cbn [Model.step] in H.
  - eapply feed_P; eauto.
  - destruct (call_method _ _ _ _ _ _) as [r1 evs1] eqn:Ec. inversion H; subst. eapply P_call; eauto.
  - destruct (request_complete _ _ _ _ _) as [r1 evs1] eqn:Ec. inversion H; subst. eapply P_complete; eauto.
  - inversion H; subst. rewrite app_nil_r. apply P_setsvc. exact HP.
Qed.

Lemma run_P ops : forall f r f' r' evs tr,
  P r tr -> run f r ops = (f', r', evs) -> P r' (tr ++ evs).
Proof.
  induction ops as [|o ops IH]; intros f r f' r' evs tr HP H; cbn [Model.run] in H.
  - inversion H; subst. rewrite app_nil_r. exact HP.
  - destruct (step f r o) as [[f1 r1] evs1] eqn:Es.
    destruct (run f1 r1 ops) as [[f2 r2] evs2] eqn:Er.
    inversion H; subst. rewrite app_assoc.
    eapply IH; [|exact Er]. eapply step_P; eauto.
Qed.

Lemma run_invariant r0 ops f r tr :
  P r0 [] -> run init_frame r0 ops = (f, r, tr) -> P r tr.
Proof. intros H0 H. exact (run_P ops _ _ _ _ _ [] H0 H). Qed.

End Generic.

(* projections of framing events *)
Lemma frame_only_dones evs : Forall frame_only evs -> dones evs = [].
Proof.
  induction 1 as [|e l He Hl IH]; [reflexivity|]. unfold dones in *. cbn [flat_map]. rewrite IH.
  destruct e; cbn in *; try reflexivity; contradiction.
Qed.
Lemma frame_only_streams evs : Forall frame_only evs -> streams evs = [].
Proof.
  induction 1 as [|e l He Hl IH]; [reflexivity|]. unfold streams in *. cbn [flat_map]. rewrite IH.
  destruct e; cbn in *; try reflexivity; contradiction.
Qed.
Lemma frame_only_sends evs : Forall frame_only evs -> sends evs = [].
Proof.
  induction 1 as [|e l He Hl IH]; [reflexivity|]. unfold sends in *. cbn [flat_map]. rewrite IH.
  destruct e; cbn in *; try reflexivity; contradiction.
Qed.
Lemma frame_only_freed evs : Forall frame_only evs -> freed evs = [].
Proof.
  induction 1 as [|e l He Hl IH]; [reflexivity|]. unfold freed in *. cbn [flat_map]. rewrite IH.
  destruct e; cbn in *; try reflexivity; contradiction.
Qed.
Lemma in_dispatched m tr : In (EvDispatch m) tr -> In m (dispatched tr).
Proof.
  unfold dispatched. intros H. apply in_flat_map. exists (EvDispatch m). split; [exact H|left; reflexivity].
Qed.
