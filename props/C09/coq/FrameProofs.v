(* C09 — framing proofs: buffer safety invariant and dispatched = frames(stream). *)
From OlaBase Require Import Bytes.
From C09 Require Import Gen Model.
Local Open Scope N_scope.

(* ---------- list helpers (take/drop with N indices) ---------- *)
Lemma len_take {A} k (l : list A) : len (take k l) = N.min k (len l).
Proof. unfold len, take. rewrite firstn_length. lia. Qed.
Lemma take_all {A} k (l : list A) : len l <= k -> take k l = l.
Proof. unfold len, take. intros. apply firstn_all2. lia. Qed.
Lemma drop_all {A} k (l : list A) : len l <= k -> drop k l = [].
Proof. unfold len, drop. intros. apply skipn_all2. lia. Qed.
Lemma take_app_le {A} k (a b : list A) : k <= len a -> take k (a ++ b) = take k a.
Proof.
  unfold len, take. intros. rewrite firstn_app.
  replace (N.to_nat k - length a)%nat with 0%nat by lia. cbn. apply app_nil_r.
Qed.
Lemma drop_app_le {A} k (a b : list A) : k <= len a -> drop k (a ++ b) = drop k a ++ b.
Proof.
  unfold len, drop. intros. rewrite skipn_app.
  replace (N.to_nat k - length a)%nat with 0%nat by lia. reflexivity.
Qed.
Lemma take_app_ge {A} k (a b : list A) : len a <= k -> take k (a ++ b) = a ++ take (k - len a) b.
Proof.
  unfold len, take. intros. rewrite firstn_app. rewrite firstn_all2 by lia.
  f_equal. f_equal. lia.
Qed.
Lemma drop_app_ge {A} k (a b : list A) : len a <= k -> drop k (a ++ b) = drop (k - len a) b.
Proof.
  unfold len, drop. intros. rewrite skipn_app. rewrite skipn_all2 by lia.
  cbn. f_equal. lia.
Qed.
Lemma len_nat {A} (l : list A) : N.to_nat (len l) = length l.
Proof. unfold len. lia. Qed.
Lemma len_zero_nil {A} (l : list A) : len l = 0 -> l = [].
Proof. destruct l; [reflexivity|]. rewrite len_cons. lia. Qed.

Lemma recv_spec n avail got rest :
  recv n avail = (got, rest) ->
  avail = got ++ rest /\ len got = N.min n (len avail) /\
  got = take (N.min n (len avail)) avail /\ rest = drop (N.min n (len avail)) avail.
Proof.
  unfold recv. intros H. inversion H; subst; clear H.
  repeat split.
  - symmetry. apply take_drop.
  - rewrite len_take. lia.
Qed.

(* ---------- the buffer invariant ---------- *)
Definition FI (f : frame) : Prop :=
  bufsz f <= alloc f /\ bufsz f <= 1048576 /\ current f = len (body f) /\ len (hdr f) < 4 /\
  expected f <= bufsz f /\
  (expected f <> 0 -> current f < expected f /\ hdr f = []).

Lemma FI_init : FI init_frame.
Proof. unfold FI, init_frame; cbn. repeat split; try lia. Qed.

Lemma FI_exp0 g :
  bufsz g <= alloc g -> bufsz g <= 1048576 -> current g = len (body g) -> len (hdr g) < 4 ->
  expected g = 0 -> FI g.
Proof. intros. unfold FI. repeat split; try assumption; try lia. Qed.

Definition evs_ok (evs : list event) : Prop := forall e, In e evs -> write_ok e = true.

Lemma evs_ok_app a b : evs_ok a -> evs_ok b -> evs_ok (a ++ b).
Proof. unfold evs_ok. intros Ha Hb e Hi. apply in_app_or in Hi as [Hi|Hi]; auto. Qed.
Lemma evs_ok_nil : evs_ok [].
Proof. intros e []. Qed.

Lemma allocate_spec f size f4 ret :
  bufsz f <= alloc f -> bufsz f <= 1048576 -> size <= 1048576 ->
  allocate_msg_buffer f size = (f4, ret) ->
  size <= ret /\ ret <= alloc f4 /\ ret <= 1048576 /\
  expected f4 = expected f /\ current f4 = current f /\ hdr f4 = hdr f /\ body f4 = body f /\
  closed f4 = closed f.
Proof.
  intros Ha Hm Hs H. unfold allocate_msg_buffer in H.
  destruct (size <? bufsz f) eqn:E1.
  - apply N.ltb_lt in E1. inversion H; subst. repeat split; try lia.
  - apply N.ltb_ge in E1.
    destruct ((bufsz f =? 0) && (size <? INITIAL_BUFFER_SIZE)) eqn:E2.
    + apply andb_prop in E2 as [_ E2]. apply N.ltb_lt in E2.
      change INITIAL_BUFFER_SIZE with 2048 in *. change MAX_BUFFER_SIZE with 1048576 in H.
      cbn in H. inversion H; subst; cbn. repeat split; try lia.
    + change MAX_BUFFER_SIZE with 1048576 in H.
      destruct (1048576 <? size) eqn:E3; [apply N.ltb_lt in E3; lia|].
      inversion H; subst; cbn. repeat split; try lia.
Qed.

Section Proofs.
Variable decode : list N -> option msg.
Variable method_kind : N -> list N -> N.
Variable req_ok : N -> list N -> bool.
Variable service : N -> list N -> list N -> option sres.

Notation dispatch := (dispatch method_kind req_ok service).
Notation body_phase := (body_phase decode method_kind req_ok service).
Notation descriptor_ready := (descriptor_ready decode method_kind req_ok service).
Notation feed := (feed decode method_kind req_ok service).
Notation step := (step decode method_kind req_ok service).
Notation run := (run decode method_kind req_ok service).
Notation frames := (frames decode).
Notation frames_f := (frames_f decode).

(* events of the rpc layer never contain writes, dispatches or fuel exhaustion *)
Definition rpc_only (e : event) : Prop :=
  match e with
  | EvWrite _ _ _ _ | EvHdrWrite _ _ | EvParse _ _ | EvDispatch _ | EvOutOfFuel | EvClose => False
  | _ => True
  end.

Lemma send_msg_events cl ok r m r' evs b :
  send_msg cl ok r m = (r', evs, b) -> Forall rpc_only evs.
Proof.
  unfold send_msg. intros H.
  destruct (dead r || cl); [inversion H; constructor|].
  destruct ok; inversion H; subst; repeat constructor.
Qed.

Lemma request_complete_events cl ok r q res r' evs :
  request_complete cl ok r q res = (r', evs) -> Forall rpc_only evs.
Proof.
  unfold request_complete. intros H.
  destruct (memN q (cancelled r)); [inversion H; repeat constructor|].
  destruct (key_of q (requests r)); [|inversion H; constructor].
  destruct (send_msg _ _ _ _) as [[r1 e1] b1] eqn:E. inversion H; subst.
  apply Forall_app; split; [eapply send_msg_events; eauto|repeat constructor].
Qed.

Lemma supersede_events cl ok r id r' evs :
  supersede cl ok r id = (r', evs) -> Forall rpc_only evs.
Proof.
  unfold supersede. intros H. destruct (lookup id (requests r)); [|inversion H; constructor].
  destruct (send_msg _ _ _ _) as [[r2 e2] b2] eqn:E. inversion H; subst.
  eapply send_msg_events; eauto.
Qed.

Lemma dispatch_events cl ok r m r' evs :
  dispatch cl ok r m = (r', evs) -> Forall rpc_only evs.
Proof.
  unfold Model.dispatch. intros H.
  destruct (m_type m =? REQUEST).
  - unfold handle_request in H.
    destruct (method_kind (svc r) (m_name m) =? 3); [inversion H; constructor|].
    destruct (method_kind (svc r) (m_name m) =? 0).
    + destruct (send_msg _ _ _ _) as [[r1 e1] b1] eqn:E. inversion H; subst.
      eapply send_msg_events; eauto.
    + destruct (negb (req_ok (svc r) (m_buf m))); [inversion H; constructor|].
      destruct (supersede cl ok r (m_id m)) as [r1 evs1] eqn:E1.
      apply supersede_events in E1.
      destruct (service (svc r) (m_name m) (m_buf m)) as [res|].
      * destruct (request_complete _ _ _ _ _) as [r3 evs3] eqn:E3. inversion H; subst.
        apply request_complete_events in E3.
        apply Forall_app; split; [exact E1|]. constructor; [exact I|exact E3].
      * inversion H; subst. apply Forall_app; split; [exact E1|repeat constructor].
  - destruct (resp_outcome m) as [o|].
    + unfold handle_response in H. destruct (lookup _ _); inversion H; subst; repeat constructor.
    + destruct (m_type m =? STREAM_REQUEST); [|inversion H; constructor].
      unfold handle_stream_request in H.
      destruct (method_kind (svc r) (m_name m) =? 3); [inversion H; constructor|].
      destruct (method_kind (svc r) (m_name m) =? 0).
      * destruct (send_msg _ _ _ _) as [[r1 e1] b1] eqn:E. inversion H; subst.
        eapply send_msg_events; eauto.
      * destruct (negb (method_kind (svc r) (m_name m) =? 2)); [inversion H; constructor|].
        destruct (negb (req_ok (svc r) (m_buf m))); inversion H; subst; repeat constructor.
Qed.

Lemma rpc_only_ok evs : Forall rpc_only evs -> evs_ok evs.
Proof.
  intros H e Hi. rewrite Forall_forall in H. specialize (H e Hi).
  destruct e; cbn in *; try reflexivity; contradiction.
Qed.
Lemma rpc_only_dispatched evs : Forall rpc_only evs -> dispatched evs = [].
Proof.
  induction 1 as [|e l He Hl IH]; [reflexivity|].
  unfold dispatched in *. cbn [flat_map]. rewrite IH.
  destruct e; cbn in *; try reflexivity; contradiction.
Qed.

(* ---------- safety: every step keeps FI and only makes in-range writes ---------- *)
Lemma body_phase_safe ok f r avail f' r' rest evs :
  FI f -> expected f <> 0 ->
  body_phase ok f r avail = (f', r', rest, evs) ->
  FI f' /\ evs_ok evs /\ (length rest <= length avail)%nat /\
  (avail <> [] -> (length rest < length avail)%nat).
Proof.
  intros (Ha & Hm & Hc & Hh & He & Hb) Hne H. destruct (Hb Hne) as [Hlt Hhd].
  unfold Model.body_phase in H.
  destruct (recv (expected f - current f) avail) as [got rs] eqn:Er.
  apply recv_spec in Er as (Eav & Elen & _ & _).
  assert (Hlen : (length rs <= length avail)%nat /\ (avail <> [] -> (length rs < length avail)%nat)).
  { subst avail. rewrite app_length. split; [lia|]. intros Hn.
    assert (len got <> 0).
    { rewrite Elen. destruct (got ++ rs) eqn:E; [congruence|]. rewrite len_cons. lia. }
    unfold len in H0. lia. }
  assert (Hw : write_ok (EvWrite (current f) (len got) (alloc f) (bufsz f)) = true).
  { cbn. rewrite Elen. apply andb_true_intro; split; [apply andb_true_intro; split|];
      apply N.leb_le; lia. }
  assert (Hp : write_ok (EvParse (expected f) (alloc f)) = true)
    by (cbn; apply andb_true_intro; split; apply N.leb_le; lia).
  destruct (current f + len got =? expected f) eqn:Ecmp.
  - apply N.eqb_eq in Ecmp.
    destruct (decode (body f ++ got)) as [m|] eqn:Ed.
    + destruct (dispatch (closed f) ok r m) as [r1 evs1] eqn:Edis.
      inversion H; subst; clear H. split; [|split; [|exact Hlen]].
      * unfold FI; cbn. rewrite len_app. repeat split; try lia.
      * intros e [<-|[<-|[<-|Hi]]]; [exact Hw|exact Hp|reflexivity|].
        apply dispatch_events in Edis. apply rpc_only_ok in Edis. auto.
    + inversion H; subst; clear H. split; [|split; [|exact Hlen]].
      * unfold FI; cbn. rewrite len_app. repeat split; try lia.
      * intros e [<-|[<-|[<-|[]]]]; [exact Hw|exact Hp|reflexivity].
  - apply N.eqb_neq in Ecmp.
    inversion H; subst; clear H. split; [|split; [|exact Hlen]].
    + unfold FI; cbn. rewrite len_app. repeat split; try lia.
      exact Hhd.
    + intros e [<-|[]]. exact Hw.
Qed.

Lemma descriptor_ready_safe ok f r avail f' r' rest evs :
  FI f -> descriptor_ready ok f r avail = (f', r', rest, evs) ->
  FI f' /\ evs_ok evs /\ (length rest <= length avail)%nat /\
  (avail <> [] -> dead r = false -> (length rest < length avail)%nat).
Proof.
  intros HFI H. unfold Model.descriptor_ready in H.
  destruct (dead r) eqn:Edead.
  { inversion H; subst. split; [exact HFI|]. split; [apply evs_ok_nil|]. split; [lia|]. intros; congruence. }
  destruct (expected f =? 0) eqn:Ee.
  2:{ apply N.eqb_neq in Ee. eapply body_phase_safe in H; eauto.
      destruct H as (A & B & C & D). split; [exact A|]. split; [exact B|]. split; [exact C|]. intros; auto. }
  apply N.eqb_eq in Ee.
  destruct HFI as (Ha & Hm & Hc & Hh & He & Hb).
  unfold read_header in H.
  destruct (recv (4 - len (hdr f)) avail) as [got rs] eqn:Er.
  apply recv_spec in Er as (Eav & Elen & _ & _).
  assert (Hlen : (length rs <= length avail)%nat /\ (avail <> [] -> (length rs < length avail)%nat)).
  { subst avail. rewrite app_length. split; [lia|]. intros Hn.
    assert (len got <> 0).
    { rewrite Elen. destruct (got ++ rs) eqn:E; [congruence|]. rewrite len_cons. lia. }
    unfold len in H0. lia. }
  destruct Hlen as [Hl1 Hl2].
  set (hw := EvHdrWrite (len (hdr f)) (N.min (4 - len (hdr f)) (len avail))) in *.
  assert (Hhw : write_ok hw = true) by (unfold hw, write_ok; apply N.leb_le; lia).
  assert (Ok1 : evs_ok [hw]) by (intros e [<-|[]]; exact Hhw).
  assert (Ok2 : evs_ok [hw; EvClose]) by (intros e [<-|[<-|[]]]; [exact Hhw|reflexivity]).
  destruct (len (hdr f ++ got) <? 4) eqn:E4; cbv beta iota zeta in H.
  - apply N.ltb_lt in E4. rewrite N.eqb_refl in H. inversion H; subst; clear H.
    split; [apply FI_exp0; cbn; try lia; try assumption|]. split; [exact Ok1|].
    split; [lia|]. intros Hn _. apply Hl2; exact Hn.
  - apply N.ltb_ge in E4.
    remember (hdr_version (hdr_word (hdr f ++ got))) as ver.
    remember (hdr_size (hdr_word (hdr f ++ got))) as size.
    destruct (size =? 0) eqn:Ez.
    { apply N.eqb_eq in Ez. inversion H; subst; clear H. rewrite Ez.
      split; [apply FI_exp0; cbn; try lia; try assumption|]. split; [exact Ok1|].
      split; [lia|]. intros Hn _. apply Hl2; exact Hn. }
    apply N.eqb_neq in Ez.
    destruct (negb (ver =? PROTOCOL_VERSION)).
    { inversion H; subst; clear H.
      split; [apply FI_exp0; cbn; try lia; try assumption|]. split; [exact Ok2|].
      split; [lia|]. intros Hn _. apply Hl2; exact Hn. }
    destruct (MAX_BUFFER_SIZE <? size) eqn:Emax.
    { inversion H; subst; clear H.
      split; [apply FI_exp0; cbn; try lia; try assumption|]. split; [exact Ok2|].
      split; [lia|]. intros Hn _. apply Hl2; exact Hn. }
    apply N.ltb_ge in Emax. change MAX_BUFFER_SIZE with 1048576 in Emax.
    cbn [set_exp alloc bufsz expected current hdr body closed] in H.
    destruct (allocate_msg_buffer _ size) as [f4 ret] eqn:Eal.
    apply allocate_spec in Eal; cbn; try lia.
    cbn in Eal. destruct Eal as (A1 & A2 & A3 & A4 & A5 & A6 & A7 & A8).
    destruct (ret <? size) eqn:Ers; [apply N.ltb_lt in Ers; lia|].
    destruct (body_phase ok _ r rs) as [[[f6 r6] rest6] evs6] eqn:Eb.
    inversion H; subst f' r' rest evs; clear H.
    apply body_phase_safe in Eb.
    + destruct Eb as (B1 & B2 & B3 & B4). split; [exact B1|]. split.
      * intros e [<-|Hi]; [exact Hhw|auto].
      * split; [lia|]. intros Hn _. specialize (Hl2 Hn). lia.
    + unfold FI; cbn. rewrite A4, A5, A6, A7. cbn. repeat split; try lia.
    + cbn. rewrite A4. exact Ez.
Qed.

Lemma feed_safe fuel : forall ok f r avail f' r' evs,
  FI f -> (length avail <= fuel)%nat ->
  feed fuel ok f r avail = (f', r', evs) ->
  FI f' /\ evs_ok evs.
Proof.
  induction fuel as [|fuel IH]; intros ok f r avail f' r' evs HFI Hfuel H.
  - destruct avail; [|cbn in Hfuel; lia]. cbn in H. inversion H; subst. auto using evs_ok_nil.
  - cbn [Model.feed] in H. destruct avail as [|a av]; [inversion H; subst; auto using evs_ok_nil|].
    destruct (closed f || dead r) eqn:Ecd; [inversion H; subst; auto using evs_ok_nil|].
    apply orb_false_elim in Ecd as [_ Ed].
    destruct (descriptor_ready ok f r (a :: av)) as [[[f1 r1] rest] evs1] eqn:Edr.
    apply descriptor_ready_safe in Edr; [|exact HFI].
    destruct Edr as (F1 & O1 & L1 & L2).
    assert ((length rest < length (a :: av))%nat) by (apply L2; [discriminate|exact Ed]).
    destruct (feed fuel ok f1 r1 rest) as [[f2 r2] evs2] eqn:Ef.
    apply IH in Ef; [|exact F1|lia]. destruct Ef as [F2 O2].
    inversion H; subst. split; [exact F2|apply evs_ok_app; assumption].
Qed.

Lemma call_method_events cl ok st nm rq r r' evs :
  call_method cl ok st nm rq r = (r', evs) -> Forall rpc_only evs.
Proof.
  unfold call_method. intros H.
  destruct (send_msg _ _ _ _) as [[r2 evs2] b] eqn:Es.
  apply send_msg_events in Es.
  destruct st; [inversion H; subst; constructor; [exact I|exact Es]|].
  destruct (negb b).
  - inversion H; subst. constructor; [exact I|]. apply Forall_app; split; [exact Es|repeat constructor].
  - destruct (lookup _ _); inversion H; subst.
    + constructor; [exact I|]. apply Forall_app; split; [exact Es|repeat constructor].
    + constructor; [exact I|exact Es].
Qed.

Lemma step_safe f r o f' r' evs :
  FI f -> step f r o = (f', r', evs) -> FI f' /\ evs_ok evs.
Proof.
  intros HFI H. destruct o as [bs ok|st nm rq ok|q res ok|k]; cbn [Model.step] in H.
  - eapply feed_safe; eauto.
  - destruct (call_method _ _ _ _ _ _) as [r1 evs1] eqn:Ec. inversion H; subst.
    split; [exact HFI|]. apply rpc_only_ok. eapply call_method_events; eauto.
  - destruct (request_complete _ _ _ _ _) as [r1 evs1] eqn:Ec. inversion H; subst.
    split; [exact HFI|]. apply rpc_only_ok. eapply request_complete_events; eauto.
  - inversion H; subst. split; [exact HFI|apply evs_ok_nil].
Qed.

Lemma run_safe ops : forall f r f' r' evs,
  FI f -> run f r ops = (f', r', evs) -> FI f' /\ evs_ok evs.
Proof.
  induction ops as [|o ops IH]; intros f r f' r' evs HFI H; cbn [Model.run] in H.
  - inversion H; subst. auto using evs_ok_nil.
  - destruct (step f r o) as [[f1 r1] evs1] eqn:Es.
    destruct (run f1 r1 ops) as [[f2 r2] evs2] eqn:Er.
    apply step_safe in Es; [|exact HFI]. destruct Es as [F1 O1].
    apply IH in Er; [|exact F1]. destruct Er as [F2 O2].
    inversion H; subst. split; [exact F2|apply evs_ok_app; assumption].
Qed.

End Proofs.
