From Coq Require Extraction.
From Coq Require Import ExtrOcamlBasic.
From OlaBase Require Import Bytes.
From C09 Require Import Gen Model.
Extraction Language OCaml.
Extraction "model.ml" io_witness N.div_eucl init_frame init_rpc step frames write_ok oob hdr_word hdr_size.
