(* C09 — the property statements, proved from the invariants of the other proof files. *)
From OlaBase Require Import Bytes.
From C09 Require Import Gen Model FrameProofs Generic DispatchProofs OnceProofs ServerProofs ServerOnce.
Local Open Scope N_scope.

Lemma write_ok_write off n al bs :
  write_ok (EvWrite off n al bs) = true -> off + n <= bs /\ bs <= al /\ bs <= 1048576.
Proof.
  cbn. intros H. apply andb_prop in H as [H H3]. apply andb_prop in H as [H1 H2].
  apply N.leb_le in H1, H2, H3. auto.
Qed.

Lemma remove_absent id l : lookup id l = None -> remove id l = l.
Proof.
  induction l as [|[j q] l IH]; cbn; [reflexivity|].
  destruct (j =? id); [discriminate|]. intros H. rewrite IH by exact H. reflexivity.
Qed.

Section Final.
Variable decode : list N -> option msg.
Variable method_kind : N -> list N -> N.
Variable req_ok : N -> list N -> bool.
Variable service : N -> list N -> list N -> option sres.
Notation run := (run decode method_kind req_ok service).
Notation descriptor_ready := (descriptor_ready decode method_kind req_ok service).

Lemma frame_safe r0 ops f r tr :
  run init_frame r0 ops = (f, r, tr) ->
  (forall off n al bs, In (EvWrite off n al bs) tr -> off + n <= bs /\ bs <= al /\ bs <= 1048576) /\
  (forall e, In e tr -> oob e = false) /\
  ~ In EvOutOfFuel tr /\
  bufsz f <= alloc f /\ bufsz f <= 1048576 /\ expected f <= bufsz f /\
  (expected f <> 0 -> current f < expected f).
Proof.
  intros H. apply run_safe in H; [|apply FI_init]. destruct H as [(Ha & Hm & Hc & Hh & He & Hb) Hok].
  split; [|split; [|split]].
  - intros off n al bs Hi. apply write_ok_write. apply Hok. exact Hi.
  - intros e Hi. specialize (Hok e Hi). destruct e; try reflexivity.
    + apply write_ok_write in Hok. cbn. apply N.ltb_ge. lia.
    + cbn in *. apply N.leb_le in Hok. apply N.ltb_ge. lia.
    + cbn in *. apply andb_prop in Hok as [H1 _]. apply N.leb_le in H1. apply N.ltb_ge. lia.
  - intros Hi. specialize (Hok _ Hi). discriminate.
  - repeat split; auto. intros Hne. apply Hb in Hne. tauto.
Qed.

(* reads of the message buffer (HandleNewMsg parses [0, n)) and writes of the 4-byte header array *)
Lemma reads_safe r0 ops f r tr :
  run init_frame r0 ops = (f, r, tr) ->
  (forall n al, In (EvParse n al) tr -> n <= al /\ n <= 1048576) /\
  (forall off n, In (EvHdrWrite off n) tr -> off + n <= 4).
Proof.
  intros H. apply run_safe in H; [|apply FI_init]. destruct H as [_ Hok].
  split.
  - intros n al Hi. specialize (Hok _ Hi). cbn in Hok. apply andb_prop in Hok as [H1 H2].
    apply N.leb_le in H1, H2. auto.
  - intros off n Hi. specialize (Hok _ Hi). cbn in Hok. apply N.leb_le in Hok. exact Hok.
Qed.

(* a complete header with a wrong version or an oversize length closes the channel and leaves the
   message state, whatever the state of the buffer *)
Lemma reject_closes ok f r avail f' r' rest evs :
  dead r = false -> expected f = 0 ->
  let h := hdr f ++ take (N.min (4 - len (hdr f)) (len avail)) avail in
  len h = 4 -> hdr_size (hdr_word h) <> 0 ->
  (hdr_version (hdr_word h) <> PROTOCOL_VERSION \/ 1048576 < hdr_size (hdr_word h)) ->
  descriptor_ready ok f r avail = (f', r', rest, evs) ->
  closed f' = true /\ expected f' = 0 /\
  evs = [EvHdrWrite (len (hdr f)) (N.min (4 - len (hdr f)) (len avail)); EvClose] /\ r' = r /\
  alloc f' = alloc f /\ bufsz f' = bufsz f.
Proof.
  intros Hd He h Hl Hs Hbad H. unfold Model.descriptor_ready in H. rewrite Hd, He, N.eqb_refl in H.
  cbv beta iota in H. unfold read_header, recv in H. fold h in H.
  assert (E4 : (len h <? 4) = false) by (apply N.ltb_ge; lia). rewrite E4 in H.
  assert (Ez : (hdr_size (hdr_word h) =? 0) = false) by (apply N.eqb_neq; exact Hs). rewrite Ez in H.
  destruct (hdr_version (hdr_word h) =? PROTOCOL_VERSION) eqn:Ev; cbn [negb] in H.
  - apply N.eqb_eq in Ev. destruct Hbad as [Hb|Hb]; [congruence|].
    change MAX_BUFFER_SIZE with 1048576 in H.
    assert (Em : (1048576 <? hdr_size (hdr_word h)) = true) by (apply N.ltb_lt; exact Hb).
    rewrite Em in H. inversion H; subst; cbn. auto 10.
  - inversion H; subst; cbn. auto 10.
Qed.

Lemma dispatch_frames r0 ops f r tr :
  dead r0 = false -> forallb healthy ops = true ->
  run init_frame r0 ops = (f, r, tr) ->
  dispatched tr = frames decode (stream ops).
Proof. intros. eapply run_dispatch; eauto. Qed.

Lemma once s0 ops f r tr :
  s0 < 4294967296 ->
  run init_frame (mkRpc false s0 0 [] 0 [] [] 0) ops = (f, r, tr) ->
  (forall k, k < ncalls r ->
     (In k (streams tr) /\ cnt k (dones tr) = 0%nat /\ lookup (u32 (s0 + k)) (responses r) <> Some k) \/
     (~ In k (streams tr) /\
      ((cnt k (dones tr) = 1%nat /\ lookup (u32 (s0 + k)) (responses r) <> Some k) \/
       (cnt k (dones tr) = 0%nat /\ lookup (u32 (s0 + k)) (responses r) = Some k)))) /\
  (forall k, ncalls r <= k -> cnt k (dones tr) = 0%nat) /\
  (forall id k, lookup id (responses r) = Some k -> k < ncalls r /\ id = u32 (s0 + k)) /\
  (forall k o, In (k, o) (dones tr) ->
     o = OFailed TXT_SEND_FAILED \/ o = OFailed TXT_DUPLICATE \/
     exists m, In m (dispatched tr) /\ m_id m = u32 (s0 + k) /\ resp_outcome m = Some o) /\
  seq r = u32 (s0 + ncalls r) /\
  (forall k, In k (streams tr) -> k < ncalls r).
Proof.
  intros Hs H. apply run_once in H; [|exact Hs]. destruct H as (A & B & C & D & E & F).
  split; [exact B|]. split; [exact C|]. split; [exact A|]. split; [|split; [exact D|exact F]].
  intros k o Hi. apply (E (k, o)) in Hi. exact Hi.
Qed.

(* what a call puts on the wire: its own sequence number; a streaming call completes and registers nothing *)
Lemma call_wire cl ok st nm rq r r' evs :
  call_method cl ok st nm rq r = (r', evs) ->
  (forall m, In m (sends evs) -> m = mkMsg (if st then STREAM_REQUEST else REQUEST) (seq r) nm rq) /\
  ncalls r' = ncalls r + 1 /\ seq r' = u32 (seq r + 1) /\
  (st = true -> dones evs = [] /\ responses r' = responses r).
Proof.
  unfold call_method, send_msg; cbn [dead seq ncalls responses next_call].
  assert (Fin : forall (P : Prop), P -> P) by auto.
  destruct (dead r || cl); destruct ok; destruct st; cbn;
    try destruct (lookup (seq r) (responses r)); intros H; inversion H; subst; cbn;
    (split; [intros m Hm; cbn in Hm; repeat (destruct Hm as [Hm|Hm]; [subst; reflexivity|]); contradiction|]);
    repeat split; auto; discriminate.
Qed.

Lemma stream_ids s0 k k' :
  k' < k -> k < k' + 4294967296 -> u32 (s0 + k) <> u32 (s0 + k').
Proof. exact (ids_distinct s0 method_kind req_ok service k k'). Qed.

(* no reply completes a call other than the one whose id it carries *)
Lemma no_cross s0 ops f r tr :
  s0 < 4294967296 ->
  run init_frame (mkRpc false s0 0 [] 0 [] [] 0) ops = (f, r, tr) ->
  forall m k k', lookup (m_id m) (responses r) = Some k' -> m_id m = u32 (s0 + k) ->
  k < k' + 4294967296 -> k' < k + 4294967296 -> k' = k.
Proof.
  intros Hs H m k k' Hl Hid H1 H2. apply run_once in H; [|exact Hs]. destruct H as (A & _).
  apply A in Hl. destruct Hl as [_ Hid']. unfold idof in Hid'.
  destruct (N.lt_trichotomy k k') as [Hlt|[He|Hgt]]; [|auto|].
  - exfalso. apply (ids_distinct s0 method_kind req_ok service k' k Hlt H2). unfold idof. congruence.
  - exfalso. apply (ids_distinct s0 method_kind req_ok service k k' Hgt H1). unfold idof. congruence.
Qed.

(* serving side: every reply written carries the id of a request that was dispatched *)
Lemma reply_ids r0 ops f r tr :
  requests r0 = [] ->
  run init_frame r0 ops = (f, r, tr) ->
  forall m', In m' (sends tr) -> is_reply m' = true ->
  exists m, In m (dispatched tr) /\ m_id m = m_id m' /\ is_request m = true.
Proof. exact (run_replies decode method_kind req_ok service r0 ops f r tr). Qed.

Lemma send_failed cl ok nm rq r r' evs :
  ok = false \/ dead r || cl = true ->
  call_method cl ok false nm rq r = (r', evs) ->
  dones evs = [(ncalls r, OFailed TXT_SEND_FAILED)] /\ responses r' = responses r.
Proof.
  intros [->|H].
  - exact (OnceProofs.call_send_failed cl nm rq r r' evs).
  - exact (OnceProofs.call_send_failed_closed cl ok nm rq r r' evs H).
Qed.

(* once a failed write has released the descriptor, DescriptorReady does nothing more *)
Lemma dead_stops f r bs ok :
  dead r = true -> step decode method_kind req_ok service f r (OpChunk bs ok) = (f, r, []).
Proof.
  intros H. cbn [step]. destruct bs as [|b bs]; [reflexivity|].
  cbn [feed length]. rewrite H, orb_true_r. reflexivity.
Qed.

(* once the descriptor has been closed (rejected header, undecodable message) nothing more is read *)
Lemma closed_stops f r bs ok :
  closed f = true -> step decode method_kind req_ok service f r (OpChunk bs ok) = (f, r, []).
Proof.
  intros H. cbn [step]. destruct bs as [|b bs]; [reflexivity|].
  cbn [feed length]. rewrite H. reflexivity.
Qed.

(* serving side bookkeeping over all histories *)
Lemma server_once r0 ops f r tr :
  requests r0 = [] -> cancelled r0 = [] -> nreq r0 = 0 ->
  run init_frame r0 ops = (f, r, tr) ->
  NoDup (map fst (requests r)) /\ NoDup (map snd (requests r)) /\ NoDup (cancelled r) /\
  (forall q, In q (map snd (requests r)) -> q < nreq r /\ ~ In q (cancelled r) /\ cntN q (freed tr) = 0%nat) /\
  (forall q, In q (cancelled r) -> q < nreq r /\ cntN q (freed tr) = 0%nat) /\
  (forall q, q < nreq r -> ~ In q (map snd (requests r)) -> ~ In q (cancelled r) -> cntN q (freed tr) = 1%nat) /\
  (forall q, nreq r <= q -> cntN q (freed tr) = 0%nat).
Proof.
  intros H1 H2 H3 H. apply run_W in H; [exact H|].
  unfold WR. rewrite H1, H2, H3. apply W_init.
Qed.

(* an unknown method is answered with NOT_IMPLEMENTED carrying the request's id; the service is not called *)
Lemma not_implemented cl r m r' evs :
  m_type m = REQUEST \/ m_type m = STREAM_REQUEST ->
  method_kind (svc r) (m_name m) = 0 -> dead r || cl = false ->
  dispatch method_kind req_ok service cl true r m = (r', evs) ->
  evs = [EvSend (mkMsg RESPONSE_NOT_IMPLEMENTED (m_id m) [] [])] /\ r' = r.
Proof.
  intros Ht Hk Hd H. unfold dispatch in H.
  destruct Ht as [Ht|Ht].
  - rewrite Ht in H. cbn in H. unfold handle_request, send_msg in H. rewrite Hk, Hd in H. cbn in H.
    injection H as <- <-. split; reflexivity.
  - unfold resp_outcome in H. rewrite Ht in H. cbn in H.
    unfold handle_stream_request, send_msg in H. rewrite Hk, Hd in H. cbn in H.
    injection H as <- <-. split; reflexivity.
Qed.

(* a served request: the service is called exactly once; a service that completes at once gets its
   reply / failure text written under the request's id and the request object is deleted *)
Lemma request_served cl r m r' evs fr :
  WR r fr -> m_type m = REQUEST ->
  method_kind (svc r) (m_name m) <> 0 -> method_kind (svc r) (m_name m) <> 3 -> req_ok (svc r) (m_buf m) = true ->
  lookup (m_id m) (requests r) = None -> dead r || cl = false ->
  dispatch method_kind req_ok service cl true r m = (r', evs) ->
  match service (svc r) (m_name m) (m_buf m) with
  | None =>
    evs = [EvService (m_name m) (m_buf m)] /\
    requests r' = (m_id m, nreq r) :: requests r /\ nreq r' = nreq r + 1
  | Some res =>
    evs = [EvService (m_name m) (m_buf m);
           EvSend (match res with
                   | SReply b => mkMsg RESPONSE (m_id m) [] b
                   | SFail t => mkMsg RESPONSE_FAILED (m_id m) [] t
                   end);
           EvFreeReq (nreq r)] /\
    requests r' = requests r /\ nreq r' = nreq r + 1
  end.
Proof.
  intros HW Ht K0 K3 Hq Hl Hd H. unfold dispatch in H. rewrite Ht in H. cbn in H.
  unfold handle_request, supersede in H.
  apply N.eqb_neq in K0, K3. rewrite K0, K3, Hq, Hl in H. cbn in H.
  destruct (service (svc r) (m_name m) (m_buf m)) as [res|].
  - unfold request_complete in H. cbn in H.
    assert (Hm : memN (nreq r) (cancelled r) = false).
    { destruct (memN (nreq r) (cancelled r)) eqn:E; [|reflexivity].
      apply memN_In in E. destruct HW as (_ & _ & _ & _ & HE & _). apply HE in E. lia. }
    rewrite Hm, N.eqb_refl in H. unfold send_msg in H. cbn in H. rewrite Hd in H. cbn in H.
    rewrite N.eqb_refl in H.
    injection H as <- <-. cbn. rewrite (remove_absent _ _ Hl). auto.
  - injection H as <- <-. cbn. auto.
Qed.

(* the service completes an outstanding request later: exactly its reply / failure text goes out under
   the request's id, and the object is deleted *)
Lemma complete_reply cl r q res id r' evs :
  memN q (cancelled r) = false -> key_of q (requests r) = Some id -> dead r || cl = false ->
  request_complete cl true r q res = (r', evs) ->
  evs = [EvSend (match res with
                 | SReply b => mkMsg RESPONSE id [] b
                 | SFail t => mkMsg RESPONSE_FAILED id [] t
                 end); EvFreeReq q] /\
  requests r' = remove id (requests r) /\ cancelled r' = cancelled r.
Proof.
  intros Hm Hk Hd H. unfold request_complete, send_msg in H. rewrite Hm, Hk, Hd in H. cbn in H.
  destruct res; inversion H; subst; cbn; auto.
Qed.

(* message types the channel has no handler for (DISCONNECT, DESCRIPTOR_REQUEST/RESPONSE, REQUEST_CANCEL
   and anything else the parser lets through) change nothing and reach nobody *)
Lemma other_types cl ok r m :
  m_type m <> REQUEST -> m_type m <> RESPONSE -> m_type m <> RESPONSE_CANCEL ->
  m_type m <> RESPONSE_FAILED -> m_type m <> RESPONSE_NOT_IMPLEMENTED -> m_type m <> STREAM_REQUEST ->
  dispatch method_kind req_ok service cl ok r m = (r, []).
Proof.
  intros H1 H2 H3 H4 H5 H6. unfold dispatch, resp_outcome.
  apply N.eqb_neq in H1, H2, H3, H4, H5, H6. rewrite H1, H2, H3, H4, H5, H6. reflexivity.
Qed.

(* a stream request naming an ordinary (non-streaming) method, or arriving when no service is set, is
   refused: nothing is called, nothing is sent *)
Lemma stream_request_refused cl ok r m :
  m_type m = STREAM_REQUEST -> method_kind (svc r) (m_name m) <> 0 -> method_kind (svc r) (m_name m) <> 2 ->
  dispatch method_kind req_ok service cl ok r m = (r, []).
Proof.
  intros Ht K0 K2. unfold dispatch, resp_outcome. rewrite Ht. cbn.
  unfold handle_stream_request. apply N.eqb_neq in K0, K2. rewrite K0, K2.
  destruct (method_kind (svc r) (m_name m) =? 3); reflexivity.
Qed.

(* the service is only ever called for a REQUEST to a method it has (with a response object and a
   completion callback: the request is registered), or for a STREAM_REQUEST to a streaming method
   (the only case with NULL response / done); always with a request buffer that parsed *)
Lemma service_called_only_if cl ok r m r' evs nm rq :
  dispatch method_kind req_ok service cl ok r m = (r', evs) -> In (EvService nm rq) evs ->
  nm = m_name m /\ rq = m_buf m /\ req_ok (svc r) (m_buf m) = true /\
  ((m_type m = REQUEST /\ method_kind (svc r) (m_name m) <> 0 /\ method_kind (svc r) (m_name m) <> 3) \/
   (m_type m = STREAM_REQUEST /\ method_kind (svc r) (m_name m) = 2)).
Proof.
  intros H Hi.
  assert (Hs : forall c o r0 mm r1 e b, send_msg c o r0 mm = (r1, e, b) -> ~ In (EvService nm rq) e).
  { intros c o r0 mm r1 e b Hx Hin. unfold send_msg in Hx. destruct (dead r0 || c); [inversion Hx; subst; auto|].
    destruct o; inversion Hx; subst; destruct Hin as [Hin|[]]; discriminate. }
  unfold dispatch in H.
  destruct (m_type m =? REQUEST) eqn:Et.
  - apply N.eqb_eq in Et. unfold handle_request in H.
    destruct (method_kind (svc r) (m_name m) =? 3) eqn:K3; [inversion H; subst; contradiction|].
    destruct (method_kind (svc r) (m_name m) =? 0) eqn:K0.
    + destruct (send_msg _ _ _ _) as [[r1 e1] b1] eqn:E. inversion H; subst. exfalso. eapply Hs; eauto.
    + destruct (req_ok (svc r) (m_buf m)) eqn:Eq; cbn [negb] in H; [|inversion H; subst; contradiction].
      apply N.eqb_neq in K3, K0.
      assert (Hgoal : In (EvService nm rq) [EvService (m_name m) (m_buf m)] ->
                      nm = m_name m /\ rq = m_buf m /\ true = true /\
                      (m_type m = REQUEST /\ method_kind (svc r) (m_name m) <> 0 /\ method_kind (svc r) (m_name m) <> 3 \/
                       m_type m = STREAM_REQUEST /\ method_kind (svc r) (m_name m) = 2)).
      { intros [Hx|[]]. inversion Hx; subst. auto 10. }
      destruct (supersede cl ok r (m_id m)) as [r1 evs1] eqn:E1.
      assert (H1 : ~ In (EvService nm rq) evs1).
      { unfold supersede in E1. destruct (lookup _ _); [|inversion E1; subst; auto].
        destruct (send_msg _ _ _ _) as [[r2 e2] b2] eqn:E. inversion E1; subst. eapply Hs; eauto. }
      destruct (service (svc r) (m_name m) (m_buf m)) as [res|].
      * destruct (request_complete _ _ _ _ _) as [r3 evs3] eqn:E3. inversion H; subst.
        assert (H3 : ~ In (EvService nm rq) evs3).
        { unfold request_complete in E3. destruct (memN _ _); [inversion E3; subst; intros [Hx|[]]; discriminate|].
          destruct (key_of _ _); [|inversion E3; subst; auto].
          destruct (send_msg _ _ _ _) as [[r4 e4] b4] eqn:E. inversion E3; subst.
          intros Hin. apply in_app_or in Hin as [Hin|[Hin|[]]]; [eapply Hs; eauto|discriminate]. }
        apply in_app_or in Hi as [Hi|[Hi|Hi]]; [tauto| |tauto]. apply Hgoal. left. exact Hi.
      * inversion H; subst. apply in_app_or in Hi as [Hi|Hi]; [tauto|]. apply Hgoal. exact Hi.
  - destruct (resp_outcome m) as [o|].
    + unfold handle_response in H. destruct (lookup _ _); inversion H; subst; [destruct Hi as [Hx|[]]; discriminate|contradiction].
    + destruct (m_type m =? STREAM_REQUEST) eqn:Es; [|inversion H; subst; contradiction].
      apply N.eqb_eq in Es. unfold handle_stream_request in H.
      destruct (method_kind (svc r) (m_name m) =? 3); [inversion H; subst; contradiction|].
      destruct (method_kind (svc r) (m_name m) =? 0).
      * destruct (send_msg _ _ _ _) as [[r1 e1] b1] eqn:E. inversion H; subst. exfalso. eapply Hs; eauto.
      * destruct (method_kind (svc r) (m_name m) =? 2) eqn:K2; cbn [negb] in H; [|inversion H; subst; contradiction].
        apply N.eqb_eq in K2.
        destruct (req_ok (svc r) (m_buf m)) eqn:Eq; cbn [negb] in H; [|inversion H; subst; contradiction].
        inversion H; subst. destruct Hi as [Hx|[]]. inversion Hx; subst. auto 10.
Qed.

(* SetService only replaces the service: from the next message on dispatch goes by the new service's
   method table (all dispatch theorems speak of [svc r]); nothing else changes, nothing is sent *)
Lemma set_service f r k :
  step decode method_kind req_ok service f r (OpSetService k) = (f, set_svc r k, []) /\
  svc (set_svc r k) = k /\ dead (set_svc r k) = dead r /\ seq (set_svc r k) = seq r /\
  ncalls (set_svc r k) = ncalls r /\ responses (set_svc r k) = responses r /\
  nreq (set_svc r k) = nreq r /\ requests (set_svc r k) = requests r /\
  cancelled (set_svc r k) = cancelled r.
Proof. cbn. repeat split; reflexivity. Qed.

End Final.

(* a write that fails releases the descriptor and runs the close handler, once; nothing is sent *)
Lemma send_failure cl r m r' evs b :
  send_msg cl false r m = (r', evs, b) ->
  b = false /\ sends evs = [] /\
  (dead r || cl = false -> dead r' = true /\ evs = [EvChanClose]) /\
  (dead r || cl = true -> r' = r /\ evs = []).
Proof.
  unfold send_msg. destruct (dead r || cl); intros H; inversion H; subst; cbn;
    repeat split; auto; discriminate.
Qed.

(* the reply handed to the application is the payload of the answer, whatever the reply object held *)
Lemma reply_is_payload m o :
  resp_outcome m = Some o -> m_type m = RESPONSE -> o = OReply (m_buf m).
Proof.
  unfold resp_outcome. intros H Ht. rewrite Ht in H. cbn in H. inversion H. reflexivity.
Qed.


(* SendMsg has no size limit of its own: on a live channel whose write succeeds, every message is written,
   whatever its size (the 1 MB limit is the receiver's: c09_reject_closes / c09_frame_safe) *)
Lemma send_any_size r m :
  dead r = false -> send_msg false true r m = (r, [EvSend m], true).
Proof. intros H. unfold send_msg. rewrite H. reflexivity. Qed.
