(* C09 — the property statements, proved from the invariants of the other proof files. *)
From OlaBase Require Import Bytes.
From C09 Require Import Gen Model FrameProofs DispatchProofs OnceProofs ServerProofs.
Local Open Scope N_scope.

Lemma write_ok_write off n al bs :
  write_ok (EvWrite off n al bs) = true -> off + n <= bs /\ bs <= al /\ bs <= 1048576.
Proof.
  cbn. intros H. apply andb_prop in H as [H H3]. apply andb_prop in H as [H1 H2].
  apply N.leb_le in H1, H2, H3. auto.
Qed.

Section Final.
Variable decode : list N -> option msg.
Variable method_kind : list N -> N.
Variable req_ok : list N -> bool.
Variable service : list N -> list N -> option sres.
Notation run := (run decode method_kind req_ok service).
Notation descriptor_ready := (descriptor_ready decode method_kind req_ok service).

Lemma frame_safe r0 ops f r tr :
  run init_frame r0 ops = (f, r, tr) ->
  (forall off n al bs, In (EvWrite off n al bs) tr -> off + n <= bs /\ bs <= al /\ bs <= 1048576) /\
  (forall e, In e tr -> oob e = false) /\
  ~ In EvOutOfFuel tr /\
  bufsz f <= alloc f /\ bufsz f <= 1048576 /\ expected f <= bufsz f /\
  (expected f <> 0 -> current f < expected f).
Proof.
  intros H. apply run_safe in H; [|apply FI_init]. destruct H as [(Ha & Hm & Hc & Hh & He & Hb) Hok].
  split; [|split; [|split]].
  - intros off n al bs Hi. apply write_ok_write. apply Hok. exact Hi.
  - intros e Hi. specialize (Hok e Hi). destruct e; try reflexivity.
    apply write_ok_write in Hok. cbn. apply N.ltb_ge. lia.
  - intros Hi. specialize (Hok _ Hi). discriminate.
  - repeat split; auto. intros Hne. apply Hb in Hne. tauto.
Qed.

(* a complete header with a wrong version or an oversize length closes the channel and leaves the
   message state, whatever the state of the buffer *)
Lemma reject_closes ok f r avail f' r' rest evs :
  dead r = false -> expected f = 0 ->
  let h := hdr f ++ take (N.min (4 - len (hdr f)) (len avail)) avail in
  len h = 4 -> hdr_size (hdr_word h) <> 0 ->
  (hdr_version (hdr_word h) <> PROTOCOL_VERSION \/ 1048576 < hdr_size (hdr_word h)) ->
  descriptor_ready ok f r avail = (f', r', rest, evs) ->
  closed f' = true /\ expected f' = 0 /\ evs = [EvClose] /\ r' = r /\
  alloc f' = alloc f /\ bufsz f' = bufsz f.
Proof.
  intros Hd He h Hl Hs Hbad H. unfold Model.descriptor_ready in H. rewrite Hd, He, N.eqb_refl in H.
  cbv beta iota in H. unfold read_header, recv in H. fold h in H.
  assert (E4 : (len h <? 4) = false) by (apply N.ltb_ge; lia). rewrite E4 in H.
  assert (Ez : (hdr_size (hdr_word h) =? 0) = false) by (apply N.eqb_neq; exact Hs). rewrite Ez in H.
  destruct (hdr_version (hdr_word h) =? PROTOCOL_VERSION) eqn:Ev; cbn [negb] in H.
  - apply N.eqb_eq in Ev. destruct Hbad as [Hb|Hb]; [congruence|].
    change MAX_BUFFER_SIZE with 1048576 in H.
    assert (Em : (1048576 <? hdr_size (hdr_word h)) = true) by (apply N.ltb_lt; exact Hb).
    rewrite Em in H. inversion H; subst; cbn. auto 10.
  - inversion H; subst; cbn. auto 10.
Qed.

Lemma dispatch_frames r0 ops f r tr :
  dead r0 = false -> forallb healthy ops = true ->
  run init_frame r0 ops = (f, r, tr) ->
  dispatched tr = frames decode (stream ops).
Proof. intros. eapply run_dispatch; eauto. Qed.

Lemma once s0 ops f r tr :
  s0 < 4294967296 ->
  run init_frame (mkRpc false s0 0 [] 0 [] []) ops = (f, r, tr) ->
  (forall k, k < ncalls r ->
     (In k (streams tr) /\ cnt k (dones tr) = 0%nat /\ lookup (u32 (s0 + k)) (responses r) <> Some k) \/
     (~ In k (streams tr) /\
      ((cnt k (dones tr) = 1%nat /\ lookup (u32 (s0 + k)) (responses r) <> Some k) \/
       (cnt k (dones tr) = 0%nat /\ lookup (u32 (s0 + k)) (responses r) = Some k)))) /\
  (forall k, ncalls r <= k -> cnt k (dones tr) = 0%nat) /\
  (forall id k, lookup id (responses r) = Some k -> k < ncalls r /\ id = u32 (s0 + k)) /\
  (forall k o, In (k, o) (dones tr) ->
     o = OFailed TXT_SEND_FAILED \/ o = OFailed TXT_DUPLICATE \/
     exists m, In m (dispatched tr) /\ m_id m = u32 (s0 + k) /\ resp_outcome m = Some o) /\
  seq r = u32 (s0 + ncalls r) /\
  (forall k, In k (streams tr) -> k < ncalls r).
Proof.
  intros Hs H. apply run_once in H; [|exact Hs]. destruct H as (A & B & C & D & E & F).
  split; [exact B|]. split; [exact C|]. split; [exact A|]. split; [|split; [exact D|exact F]].
  intros k o Hi. apply (E (k, o)) in Hi. exact Hi.
Qed.

(* what a call puts on the wire: its own sequence number; a streaming call completes and registers nothing *)
Lemma call_wire cl ok st nm rq r r' evs :
  call_method cl ok st nm rq r = (r', evs) ->
  (forall m, In m (sends evs) -> m = mkMsg (if st then STREAM_REQUEST else REQUEST) (seq r) nm rq) /\
  ncalls r' = ncalls r + 1 /\ seq r' = u32 (seq r + 1) /\
  (st = true -> dones evs = [] /\ responses r' = responses r).
Proof.
  unfold call_method, send_msg; cbn [dead seq ncalls responses next_call].
  assert (Fin : forall (P : Prop), P -> P) by auto.
  destruct (dead r || cl); destruct ok; destruct st; cbn;
    try destruct (lookup (seq r) (responses r)); intros H; inversion H; subst; cbn;
    (split; [intros m Hm; cbn in Hm; repeat (destruct Hm as [Hm|Hm]; [subst; reflexivity|]); contradiction|]);
    repeat split; auto; discriminate.
Qed.

Lemma stream_ids s0 k k' :
  k' < k -> k < k' + 4294967296 -> u32 (s0 + k) <> u32 (s0 + k').
Proof. exact (ids_distinct s0 k k'). Qed.

(* no reply completes a call other than the one whose id it carries *)
Lemma no_cross s0 ops f r tr :
  s0 < 4294967296 ->
  run init_frame (mkRpc false s0 0 [] 0 [] []) ops = (f, r, tr) ->
  forall m k k', lookup (m_id m) (responses r) = Some k' -> m_id m = u32 (s0 + k) ->
  k < k' + 4294967296 -> k' < k + 4294967296 -> k' = k.
Proof.
  intros Hs H m k k' Hl Hid H1 H2. apply run_once in H; [|exact Hs]. destruct H as (A & _).
  apply A in Hl. destruct Hl as [_ Hid']. unfold idof in Hid'.
  destruct (N.lt_trichotomy k k') as [Hlt|[He|Hgt]]; [|auto|].
  - exfalso. apply (ids_distinct s0 k' k Hlt H2). unfold idof. congruence.
  - exfalso. apply (ids_distinct s0 k k' Hgt H1). unfold idof. congruence.
Qed.

(* serving side: every reply written carries the id of a request that was dispatched *)
Lemma reply_ids r0 ops f r tr :
  requests r0 = [] ->
  run init_frame r0 ops = (f, r, tr) ->
  forall m', In m' (sends tr) -> is_reply m' = true ->
  exists m, In m (dispatched tr) /\ m_id m = m_id m' /\ is_request m = true.
Proof. exact (run_replies decode method_kind req_ok service r0 ops f r tr). Qed.

Lemma send_failed cl ok nm rq r r' evs :
  ok = false \/ dead r || cl = true ->
  call_method cl ok false nm rq r = (r', evs) ->
  dones evs = [(ncalls r, OFailed TXT_SEND_FAILED)] /\ responses r' = responses r.
Proof.
  intros [->|H].
  - exact (OnceProofs.call_send_failed cl nm rq r r' evs).
  - exact (OnceProofs.call_send_failed_closed cl ok nm rq r r' evs H).
Qed.

(* once a failed write has released the descriptor, DescriptorReady does nothing more *)
Lemma dead_stops f r bs ok :
  dead r = true -> step decode method_kind req_ok service f r (OpChunk bs ok) = (f, r, []).
Proof.
  intros H. cbn [step]. destruct bs as [|b bs]; [reflexivity|].
  cbn [feed length]. rewrite H, orb_true_r. reflexivity.
Qed.

End Final.

(* a write that fails releases the descriptor and runs the close handler, once; nothing is sent *)
Lemma send_failure cl r m r' evs b :
  send_msg cl false r m = (r', evs, b) ->
  b = false /\ sends evs = [] /\
  (dead r || cl = false -> dead r' = true /\ evs = [EvChanClose]) /\
  (dead r || cl = true -> r' = r /\ evs = []).
Proof.
  unfold send_msg. destruct (dead r || cl); intros H; inversion H; subst; cbn;
    repeat split; auto; discriminate.
Qed.

(* the reply handed to the application is the payload of the answer, whatever the reply object held *)
Lemma reply_is_payload m o :
  resp_outcome m = Some o -> m_type m = RESPONSE -> o = OReply (m_buf m).
Proof.
  unfold resp_outcome. intros H Ht. rewrite Ht in H. cbn in H. inversion H. reflexivity.
Qed.

