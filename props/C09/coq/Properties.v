(* C09 — RPC channel: safe framing and exactly-once call completion.
   Only theorem statements here; proofs are in FrameProofs.v, DispatchProofs.v, OnceProofs.v, Final.v.

   Vocabulary (Model.v).  A history is a list of operations [ops : list op]:
     OpChunk bs ok   bytes bs become readable on the descriptor and the poller calls
                     RpcChannel::DescriptorReady until they are consumed or the channel is closed
                     (ok: whether replies written to the peer during this time succeed);
     OpCall streaming name req ok
                     the application calls a method through the channel (streaming: the method's
                     output type is STREAMING_NO_RESPONSE; ok: whether Send succeeds);
     OpComplete q res ok
                     the service behind the channel completes the request it was handed as number q
                     (asynchronously, in any order) with reply / failure res.
   [run f r ops] is the model of the channel (with the fixes in props/C09/fixes) and returns the final
   receive state f, call state r and the trace of events; the segmentation of the byte stream into
   reads is the segmentation into chunks (a Receive of n bytes returns min(n, available)).
   decode (RpcMessage::ParseFromArray) and method_kind / req_ok / service (the RpcService behind the
   channel: which methods it has, which request buffers parse, whether it completes a request inside
   CallMethod or later) are arbitrary functions. *)
From OlaBase Require Import Bytes.
From C09 Require Import Gen GenTxt Model MultiProofs FreeProofs Final.
Local Open Scope N_scope.

(* Side obligation: the constants of /repo are the property's numbers (1 MB limit, version 1, 4-byte
   little-endian header with a 28-bit size). *)
Theorem c09_consts :
  (PROTOCOL_VERSION, INITIAL_BUFFER_SIZE, MAX_BUFFER_SIZE, VERSION_MASK, SIZE_MASK, HEADER_BYTES, LE_PROBE)
  = (1, 2048, 1048576, 4026531840, 268435455, 4, 67305985) /\
  (REQUEST, RESPONSE, RESPONSE_CANCEL, RESPONSE_FAILED, RESPONSE_NOT_IMPLEMENTED, STREAM_REQUEST)
  = (1, 2, 3, 4, 5, 10).
Proof. split; reflexivity. Qed.
Print Assumptions c09_consts.

(* The failure texts the model uses are the string literals of RpcChannel.cpp (GenTxt.v is regenerated
   from the source text on every run). *)
Theorem c09_texts :
  TXT_SEND_FAILED = GenTxt.SRC_SEND_FAILED /\ TXT_DUPLICATE = GenTxt.SRC_DUPLICATE /\
  TXT_NOT_IMPLEMENTED = GenTxt.SRC_NOT_IMPLEMENTED.
Proof. repeat split; reflexivity. Qed.
Print Assumptions c09_texts.

(* Framing safety.  For every history (any bytes, any chunking, calls and failed sends interleaved,
   any starting call state): every Receive into the message buffer writes inside [0, m_buffer_size),
   m_buffer_size never exceeds the real heap block nor 1 MB (so no message above 1 MB is ever
   accepted into the buffer), the poller loop terminates, and in the state reached the channel is
   never waiting for more bytes than its buffer holds. *)
Theorem c09_frame_safe :
  forall (decode : list N -> option msg) (method_kind : N -> list N -> N) (req_ok : N -> list N -> bool)
         (service : N -> list N -> list N -> option sres)
         (r0 : rpc) (ops : list op) (f : frame) (r : rpc) (tr : list event),
  run decode method_kind req_ok service init_frame r0 ops = (f, r, tr) ->
  (forall off n al bs, In (EvWrite off n al bs) tr -> off + n <= bs /\ bs <= al /\ bs <= 1048576) /\
  (forall e, In e tr -> oob e = false) /\
  ~ In EvOutOfFuel tr /\
  bufsz f <= alloc f /\ bufsz f <= 1048576 /\ expected f <= bufsz f /\
  (expected f <> 0 -> current f < expected f).
Proof. exact frame_safe. Qed.
Print Assumptions c09_frame_safe.

(* A complete header that carries a wrong version or a length above 1 MB closes the channel and
   returns it to the header state without touching the buffer, from any receive state. *)
Theorem c09_reject_closes :
  forall (decode : list N -> option msg) (method_kind : N -> list N -> N) (req_ok : N -> list N -> bool)
         (service : N -> list N -> list N -> option sres)
         (ok : bool) (f : frame) (r : rpc) (avail : list N) f' r' rest evs,
  dead r = false -> expected f = 0 ->
  let h := hdr f ++ take (N.min (4 - len (hdr f)) (len avail)) avail in
  len h = 4 -> hdr_size (hdr_word h) <> 0 ->
  (hdr_version (hdr_word h) <> PROTOCOL_VERSION \/ 1048576 < hdr_size (hdr_word h)) ->
  descriptor_ready decode method_kind req_ok service ok f r avail = (f', r', rest, evs) ->
  closed f' = true /\ expected f' = 0 /\
  evs = [EvHdrWrite (len (hdr f)) (N.min (4 - len (hdr f)) (len avail)); EvClose] /\ r' = r /\
  alloc f' = alloc f /\ bufsz f' = bufsz f.
Proof. exact reject_closes. Qed.
Print Assumptions c09_reject_closes.

(* Dispatch.  Over a healthy connection (no failed write), for every byte stream and every
   segmentation of it into reads (with calls interleaved anywhere), the sequence of messages handed to
   the dispatcher is exactly frames(stream): the reference framer of Model.v, which reads 4-byte
   headers, skips zero-length frames, and stops (channel closed) at the first wrong version, length
   above 1 MB or undecodable body; an incomplete tail dispatches nothing. *)
Theorem c09_dispatch :
  forall (decode : list N -> option msg) (method_kind : N -> list N -> N) (req_ok : N -> list N -> bool)
         (service : N -> list N -> list N -> option sres)
         (r0 : rpc) (ops : list op) (f : frame) (r : rpc) (tr : list event),
  dead r0 = false -> forallb healthy ops = true ->
  run decode method_kind req_ok service init_frame r0 ops = (f, r, tr) ->
  dispatched tr = frames decode (stream ops).
Proof. exact dispatch_frames. Qed.
Print Assumptions c09_dispatch.

(* Exactly-once completion.  For every history (any number of calls, streaming or not, any bytes from
   the peer in any chunking: responses in any order, duplicated, omitted, for unknown ids; requests served
   synchronously or later; sends that fail), starting with any sequence number s0: call number k (every
   call, streaming included, draws one sequence number: id = (s0 + k) mod 2^32, also after the counter
   wraps) is
     - a streaming call: never completed and never registered, or
     - completed exactly once and no longer registered, or
     - not completed and still registered under its id;
   calls not made are never completed; and every completion carries either the local failure text (send
   failed / id reused by a newer call) or the outcome of a dispatched response message whose id is the
   call's own id. *)
Theorem c09_once :
  forall (decode : list N -> option msg) (method_kind : N -> list N -> N) (req_ok : N -> list N -> bool)
         (service : N -> list N -> list N -> option sres)
         (s0 : N) (ops : list op) (f : frame) (r : rpc) (tr : list event),
  s0 < 4294967296 ->
  run decode method_kind req_ok service init_frame (mkRpc false s0 0 [] 0 [] [] 0) ops = (f, r, tr) ->
  (forall k, k < ncalls r ->
     (In k (streams tr) /\ cnt k (dones tr) = 0%nat /\ lookup (u32 (s0 + k)) (responses r) <> Some k) \/
     (~ In k (streams tr) /\
      ((cnt k (dones tr) = 1%nat /\ lookup (u32 (s0 + k)) (responses r) <> Some k) \/
       (cnt k (dones tr) = 0%nat /\ lookup (u32 (s0 + k)) (responses r) = Some k)))) /\
  (forall k, ncalls r <= k -> cnt k (dones tr) = 0%nat) /\
  (forall id k, lookup id (responses r) = Some k -> k < ncalls r /\ id = u32 (s0 + k)) /\
  (forall k o, In (k, o) (dones tr) ->
     o = OFailed TXT_SEND_FAILED \/ o = OFailed TXT_DUPLICATE \/
     exists m, In m (dispatched tr) /\ m_id m = u32 (s0 + k) /\ resp_outcome m = Some o) /\
  seq r = u32 (s0 + ncalls r) /\
  (forall k, In k (streams tr) -> k < ncalls r).
Proof. exact once. Qed.
Print Assumptions c09_once.

(* What a call puts on the wire.  In any call state the (only) message CallMethod writes is a
   REQUEST / STREAM_REQUEST carrying the current sequence number (which c09_once shows to be
   (s0 + k) mod 2^32 for call k), the counter advances by one for streaming calls too, and a streaming
   call completes nothing and registers nothing. *)
Theorem c09_call_wire :
  forall (cl ok st : bool) (nm rq : list N) (r r' : rpc) (evs : list event),
  call_method cl ok st nm rq r = (r', evs) ->
  (forall m, In m (sends evs) -> m = mkMsg (if st then STREAM_REQUEST else REQUEST) (seq r) nm rq) /\
  ncalls r' = ncalls r + 1 /\ seq r' = u32 (seq r + 1) /\
  (st = true -> dones evs = [] /\ responses r' = responses r).
Proof. exact call_wire. Qed.
Print Assumptions c09_call_wire.

(* Ids of different calls (streaming or not) never collide while fewer than 2^32 sequence numbers lie
   between them. *)
Theorem c09_ids_distinct :
  forall s0 k k', k' < k -> k < k' + 4294967296 -> u32 (s0 + k) <> u32 (s0 + k').
Proof. exact (stream_ids (fun _ _ => 0) (fun _ _ => true) (fun _ _ _ => None)). Qed.
Print Assumptions c09_ids_distinct.

(* No cross completion.  In any reachable state, a message can only complete the call whose id it
   carries: if a message with the id of call k (e.g. the NOT_IMPLEMENTED answer to streaming call k) would
   complete a registered call k', then k' = k (fewer than 2^32 calls apart).  Since streaming calls are
   never registered (c09_once), replies to them complete nothing. *)
Theorem c09_no_cross :
  forall (decode : list N -> option msg) (method_kind : N -> list N -> N) (req_ok : N -> list N -> bool)
         (service : N -> list N -> list N -> option sres)
         (s0 : N) (ops : list op) (f : frame) (r : rpc) (tr : list event),
  s0 < 4294967296 ->
  run decode method_kind req_ok service init_frame (mkRpc false s0 0 [] 0 [] [] 0) ops = (f, r, tr) ->
  forall m k k', lookup (m_id m) (responses r) = Some k' -> m_id m = u32 (s0 + k) ->
  k < k' + 4294967296 -> k' < k + 4294967296 -> k' = k.
Proof. exact no_cross. Qed.
Print Assumptions c09_no_cross.

(* The serving side is a conforming peer: for every history (requests with any ids, duplicated ids while
   a request is outstanding, unknown methods, streaming requests, the service answering at once or later
   and in any order), every reply-type message the channel writes (RESPONSE, RESPONSE_FAILED,
   RESPONSE_NOT_IMPLEMENTED) carries the id of a REQUEST / STREAM_REQUEST message it was sent. *)
Theorem c09_reply_ids :
  forall (decode : list N -> option msg) (method_kind : N -> list N -> N) (req_ok : N -> list N -> bool)
         (service : N -> list N -> list N -> option sres)
         (r0 : rpc) (ops : list op) (f : frame) (r : rpc) (tr : list event),
  requests r0 = [] ->
  run decode method_kind req_ok service init_frame r0 ops = (f, r, tr) ->
  forall m', In m' (sends tr) -> is_reply m' = true ->
  exists m, In m (dispatched tr) /\ m_id m = m_id m' /\ is_request m = true.
Proof. exact reply_ids. Qed.
Print Assumptions c09_reply_ids.

(* An answer completes: when a response-type message (reply, failed, cancelled, not implemented) is
   dispatched in any call state, the call registered under its id (if any) is completed with exactly
   that message's outcome and unregistered; an unknown id changes nothing. *)
Theorem c09_answer :
  forall (method_kind : N -> list N -> N) (req_ok : N -> list N -> bool) (service : N -> list N -> list N -> option sres)
         (cl ok : bool) (r : rpc) (m : msg) (o : outcome) (r' : rpc) (evs : list event),
  resp_outcome m = Some o ->
  dispatch method_kind req_ok service cl ok r m = (r', evs) ->
  lookup (m_id m) (responses r') = None /\
  match lookup (m_id m) (responses r) with
  | Some k => dones evs = [(k, o)]
  | None => dones evs = [] /\ r' = r
  end.
Proof. exact OnceProofs.dispatch_answer. Qed.
Print Assumptions c09_answer.

(* The reply delivered is exactly the answer's payload: the outcome of a RESPONSE is a function of the
   message alone (the model's completion carries decode(buffer) = OReply (m_buf m)); nothing the reply
   object held before the call can show through (the code must Parse, i.e. clear first, not Merge). *)
Theorem c09_reply_is_payload :
  forall (m : msg) (o : outcome),
  resp_outcome m = Some o -> m_type m = RESPONSE -> o = OReply (m_buf m).
Proof. exact reply_is_payload. Qed.
Print Assumptions c09_reply_is_payload.

(* Reply writes that fail (peer gone, send buffer full), also in the middle of serving queued requests:
   the failed SendMsg writes nothing, releases the descriptor and runs the close handler exactly at that
   moment (and does nothing if the descriptor was already released or closed); from then on
   DescriptorReady does nothing at all, whatever is still readable.  (c09_frame_safe and c09_reply_ids
   already quantify over histories with failing writes: OpChunk _ false, OpComplete _ _ false.) *)
Theorem c09_send_failure :
  forall (cl : bool) (r : rpc) (m : msg) (r' : rpc) (evs : list event) (b : bool),
  send_msg cl false r m = (r', evs, b) ->
  b = false /\ sends evs = [] /\
  (dead r || cl = false -> dead r' = true /\ evs = [EvChanClose]) /\
  (dead r || cl = true -> r' = r /\ evs = []).
Proof. exact send_failure. Qed.
Print Assumptions c09_send_failure.

Theorem c09_dead_stops :
  forall (decode : list N -> option msg) (method_kind : N -> list N -> N) (req_ok : N -> list N -> bool)
         (service : N -> list N -> list N -> option sres) (f : frame) (r : rpc) (bs : list N) (ok : bool),
  dead r = true -> step decode method_kind req_ok service f r (OpChunk bs ok) = (f, r, []).
Proof. exact dead_stops. Qed.
Print Assumptions c09_dead_stops.

(* A call whose request cannot be sent (Send fails, or the channel is already closed / released) is
   completed at once, exactly once, with "Failed to send request", and is not registered. *)
Theorem c09_send_failed :
  forall (cl ok : bool) (nm rq : list N) (r r' : rpc) (evs : list event),
  ok = false \/ dead r || cl = true ->
  call_method cl ok false nm rq r = (r', evs) ->
  dones evs = [(ncalls r, OFailed TXT_SEND_FAILED)] /\ responses r' = responses r.
Proof. exact send_failed. Qed.
Print Assumptions c09_send_failed.

(* Reads and the header array.  For every history: HandleNewMsg only ever parses (reads) [0, n) of the
   message buffer with n <= the real heap block and n <= 1 MB, and every Receive into the 4-byte header
   array m_header stays inside it (also when the header arrives in pieces).  Together with
   c09_frame_safe (writes; the grow / shrink path of AllocateMsgBuffer is part of the model) this is
   "never reads or writes outside its message buffer" for every byte stream and every chunking. *)
Theorem c09_reads_safe :
  forall (decode : list N -> option msg) (method_kind : N -> list N -> N) (req_ok : N -> list N -> bool)
         (service : N -> list N -> list N -> option sres)
         (r0 : rpc) (ops : list op) (f : frame) (r : rpc) (tr : list event),
  run decode method_kind req_ok service init_frame r0 ops = (f, r, tr) ->
  (forall n al, In (EvParse n al) tr -> n <= al /\ n <= 1048576) /\
  (forall off n, In (EvHdrWrite off n) tr -> off + n <= 4).
Proof. exact reads_safe. Qed.
Print Assumptions c09_reads_safe.

(* After the descriptor was closed (rejected header, undecodable message) the channel reads, writes,
   dispatches and completes nothing more, whatever arrives; calls still outstanding stay registered
   (the code never runs their completions: the property speaks of healthy connections only). *)
Theorem c09_closed_stops :
  forall (decode : list N -> option msg) (method_kind : N -> list N -> N) (req_ok : N -> list N -> bool)
         (service : N -> list N -> list N -> option sres) (f : frame) (r : rpc) (bs : list N) (ok : bool),
  closed f = true -> step decode method_kind req_ok service f r (OpChunk bs ok) = (f, r, []).
Proof. exact closed_stops. Qed.
Print Assumptions c09_closed_stops.

(* Serving side, every history (any requests, duplicate ids, unknown methods, the service answering at
   once or later in any order, failing writes): ids in m_requests are unique, every request handed to
   the service (numbers below nreq) is exactly one of: outstanding in m_requests and not deleted;
   superseded (held by the service only) and not deleted; or deleted exactly once.  Requests never
   handed out are never deleted.  (In the model a request object is deleted only inside the service's
   completion of that request, so it is never deleted while the service still holds it.) *)
Theorem c09_server_once :
  forall (decode : list N -> option msg) (method_kind : N -> list N -> N) (req_ok : N -> list N -> bool)
         (service : N -> list N -> list N -> option sres)
         (r0 : rpc) (ops : list op) (f : frame) (r : rpc) (tr : list event),
  requests r0 = [] -> cancelled r0 = [] -> nreq r0 = 0 ->
  run decode method_kind req_ok service init_frame r0 ops = (f, r, tr) ->
  NoDup (map fst (requests r)) /\ NoDup (map snd (requests r)) /\ NoDup (cancelled r) /\
  (forall q, In q (map snd (requests r)) -> q < nreq r /\ ~ In q (cancelled r) /\ cntN q (freed tr) = 0%nat) /\
  (forall q, In q (cancelled r) -> q < nreq r /\ cntN q (freed tr) = 0%nat) /\
  (forall q, q < nreq r -> ~ In q (map snd (requests r)) -> ~ In q (cancelled r) -> cntN q (freed tr) = 1%nat) /\
  (forall q, nreq r <= q -> cntN q (freed tr) = 0%nat).
Proof. exact server_once. Qed.
Print Assumptions c09_server_once.

(* Request dispatch, unknown method: a REQUEST or STREAM_REQUEST for a method the service does not have
   is answered by exactly one RESPONSE_NOT_IMPLEMENTED carrying the request's id; nothing else changes
   and the service is not called. *)
Theorem c09_not_implemented :
  forall (method_kind : N -> list N -> N) (req_ok : N -> list N -> bool) (service : N -> list N -> list N -> option sres)
         (cl : bool) (r : rpc) (m : msg) (r' : rpc) (evs : list event),
  m_type m = REQUEST \/ m_type m = STREAM_REQUEST ->
  method_kind (svc r) (m_name m) = 0 -> dead r || cl = false ->
  dispatch method_kind req_ok service cl true r m = (r', evs) ->
  evs = [EvSend (mkMsg RESPONSE_NOT_IMPLEMENTED (m_id m) [] [])] /\ r' = r.
Proof. exact not_implemented. Qed.
Print Assumptions c09_not_implemented.

(* Request dispatch, known method, valid request, id not outstanding, in any state satisfying the
   bookkeeping invariant of c09_server_once: the service is called exactly once; if it keeps the callback
   the request is registered under its id with a fresh number; if it completes at once, exactly its reply
   (RESPONSE) or its failure text (RESPONSE_FAILED) is written under the request's id and the request
   object is deleted. *)
Theorem c09_request_served :
  forall (method_kind : N -> list N -> N) (req_ok : N -> list N -> bool) (service : N -> list N -> list N -> option sres)
         (cl : bool) (r : rpc) (m : msg) (r' : rpc) (evs : list event) (fr : list N),
  ServerOnce.WR r fr -> m_type m = REQUEST ->
  method_kind (svc r) (m_name m) <> 0 -> method_kind (svc r) (m_name m) <> 3 -> req_ok (svc r) (m_buf m) = true ->
  lookup (m_id m) (requests r) = None -> dead r || cl = false ->
  dispatch method_kind req_ok service cl true r m = (r', evs) ->
  match service (svc r) (m_name m) (m_buf m) with
  | None =>
    evs = [EvService (m_name m) (m_buf m)] /\
    requests r' = (m_id m, nreq r) :: requests r /\ nreq r' = nreq r + 1
  | Some res =>
    evs = [EvService (m_name m) (m_buf m);
           EvSend (match res with
                   | SReply b => mkMsg RESPONSE (m_id m) [] b
                   | SFail t => mkMsg RESPONSE_FAILED (m_id m) [] t
                   end);
           EvFreeReq (nreq r)] /\
    requests r' = requests r /\ nreq r' = nreq r + 1
  end.
Proof. exact (request_served (fun _ => None)). Qed.
Print Assumptions c09_request_served.

(* Deferred completion: when the service completes an outstanding request, exactly its reply / failure
   text goes out under the id the request came with, and the request object is deleted. *)
Theorem c09_complete_reply :
  forall (cl : bool) (r : rpc) (q : N) (res : sres) (id : N) (r' : rpc) (evs : list event),
  memN q (cancelled r) = false -> key_of q (requests r) = Some id -> dead r || cl = false ->
  request_complete cl true r q res = (r', evs) ->
  evs = [EvSend (match res with
                 | SReply b => mkMsg RESPONSE id [] b
                 | SFail t => mkMsg RESPONSE_FAILED id [] t
                 end); EvFreeReq q] /\
  requests r' = remove id (requests r) /\ cancelled r' = cancelled r.
Proof. exact complete_reply. Qed.
Print Assumptions c09_complete_reply.

(* Several channels in one process.  The product of any number of channel machines (mrun: each step
   belongs to one channel, in any interleaving: partial reads of one connection with whole or partial
   reads, calls and completions of the others in between) projects to each channel's own run: channel i
   ends in the state, and produces the trace, of [run] on its own operations alone.  All theorems above
   therefore hold per channel in any process with many connections; the implementation must not share
   receive state (buffer, sizes, header bytes), call tables or sequence numbers between channels. *)
Theorem c09_channels_independent :
  forall (decode : list N -> option msg) (method_kind : N -> list N -> N) (req_ok : N -> list N -> bool)
         (service : N -> list N -> list N -> option sres)
         (ops : list (nat * op)) (s s' : list (frame * rpc)) (tr : list (nat * event))
         (i : nat) (f : frame) (r : rpc),
  mrun decode method_kind req_ok service s ops = (s', tr) -> nth_error s i = Some (f, r) ->
  exists f' r' tri,
    run decode method_kind req_ok service f r (proj i ops) = (f', r', tri) /\
    nth_error s' i = Some (f', r') /\ proj i tr = tri.
Proof. exact mrun_proj. Qed.
Print Assumptions c09_channels_independent.

(* An RpcServer with any number of clients, hang-ups included (srun: each step belongs to one client's
   channel; SHangup i = the client disconnects and the server deletes its channel and descriptor).  For
   every interleaving, every client whose channel exists at the start sees exactly [run] on its own
   operations up to its hang-up: other clients' traffic and departures do not affect it, nothing that
   happens after its hang-up (bytes, or the service completing one of its requests later: with fix 06 the
   completion only frees the request) reaches the deleted channel or is attributed to it, and the channel
   is gone (None) exactly if the client hung up.  Composes c09_channels_independent with teardown. *)
Theorem c09_server_teardown :
  forall (decode : list N -> option msg) (method_kind : N -> list N -> N) (req_ok : N -> list N -> bool)
         (service : N -> list N -> list N -> option sres)
         (ops : list sop) (s s' : list (option (frame * rpc))) (tr : list (nat * event))
         (i : nat) (f : frame) (r : rpc),
  srun decode method_kind req_ok service s ops = (s', tr) -> nth_error s i = Some (Some (f, r)) ->
  exists f' r' tri,
    run decode method_kind req_ok service f r (own_ops i ops) = (f', r', tri) /\ proj i tr = tri /\
    nth_error s' i = Some (if hangs_up i ops then None else Some (f', r')).
Proof. exact srun_proj. Qed.
Print Assumptions c09_server_teardown.

(* a deleted channel stays deleted and silent, whatever is addressed to it afterwards *)
Theorem c09_deleted_channel_untouched :
  forall (decode : list N -> option msg) (method_kind : N -> list N -> N) (req_ok : N -> list N -> bool)
         (service : N -> list N -> list N -> option sres)
         (ops : list sop) (s s' : list (option (frame * rpc))) (tr : list (nat * event)) (i : nat),
  srun decode method_kind req_ok service s ops = (s', tr) -> nth_error s i = Some None ->
  nth_error s' i = Some None /\ proj i tr = [].
Proof. exact srun_gone. Qed.
Print Assumptions c09_deleted_channel_untouched.

(* Message types without a handler (DISCONNECT, DESCRIPTOR_REQUEST, DESCRIPTOR_RESPONSE, REQUEST_CANCEL,
   and any other value) are counted as received and otherwise ignored: no state change, nothing sent,
   nobody called. *)
Theorem c09_other_types :
  forall (method_kind : N -> list N -> N) (req_ok : N -> list N -> bool) (service : N -> list N -> list N -> option sres)
         (cl ok : bool) (r : rpc) (m : msg),
  m_type m <> REQUEST -> m_type m <> RESPONSE -> m_type m <> RESPONSE_CANCEL ->
  m_type m <> RESPONSE_FAILED -> m_type m <> RESPONSE_NOT_IMPLEMENTED -> m_type m <> STREAM_REQUEST ->
  dispatch method_kind req_ok service cl ok r m = (r, []).
Proof. exact other_types. Qed.
Print Assumptions c09_other_types.

(* A STREAM_REQUEST naming a method that exists but is not a streaming method (or arriving at a channel
   without a service) is refused: nothing is called, sent or changed. *)
Theorem c09_stream_request_refused :
  forall (method_kind : N -> list N -> N) (req_ok : N -> list N -> bool) (service : N -> list N -> list N -> option sres)
         (cl ok : bool) (r : rpc) (m : msg),
  m_type m = STREAM_REQUEST -> method_kind (svc r) (m_name m) <> 0 -> method_kind (svc r) (m_name m) <> 2 ->
  dispatch method_kind req_ok service cl ok r m = (r, []).
Proof. exact stream_request_refused. Qed.
Print Assumptions c09_stream_request_refused.

(* Whenever the service is called, it is with the message's own name and a request buffer that parsed,
   and either for a REQUEST to a method it has (the path with a response object and a completion
   callback) or for a STREAM_REQUEST to a streaming method (the only path with NULL response / done):
   no other message type or method kind ever reaches the service. *)
Theorem c09_service_called_only_if :
  forall (method_kind : N -> list N -> N) (req_ok : N -> list N -> bool) (service : N -> list N -> list N -> option sres)
         (cl ok : bool) (r : rpc) (m : msg) (r' : rpc) (evs : list event) (nm rq : list N),
  dispatch method_kind req_ok service cl ok r m = (r', evs) -> In (EvService nm rq) evs ->
  nm = m_name m /\ rq = m_buf m /\ req_ok (svc r) (m_buf m) = true /\
  ((m_type m = REQUEST /\ method_kind (svc r) (m_name m) <> 0 /\ method_kind (svc r) (m_name m) <> 3) \/
   (m_type m = STREAM_REQUEST /\ method_kind (svc r) (m_name m) = 2)).
Proof. exact (service_called_only_if (fun _ => None)). Qed.
Print Assumptions c09_service_called_only_if.

(* SetService (public API) in mid-history only replaces the service: afterwards requests are looked up in,
   validated by and handed to the NEW service (c09_not_implemented, c09_request_served,
   c09_service_called_only_if, c09_stream_request_refused are stated in terms of [svc r], the service
   installed when the message is dispatched); calls, outstanding requests and the receive state are
   untouched.  All history theorems above quantify over histories containing OpSetService. *)
Theorem c09_set_service :
  forall (decode : list N -> option msg) (method_kind : N -> list N -> N) (req_ok : N -> list N -> bool)
         (service : N -> list N -> list N -> option sres) (f : frame) (r : rpc) (k : N),
  step decode method_kind req_ok service f r (OpSetService k) = (f, set_svc r k, []) /\
  svc (set_svc r k) = k /\ dead (set_svc r k) = dead r /\ seq (set_svc r k) = seq r /\
  ncalls (set_svc r k) = ncalls r /\ responses (set_svc r k) = responses r /\
  nreq (set_svc r k) = nreq r /\ requests (set_svc r k) = requests r /\
  cancelled (set_svc r k) = cancelled r.
Proof. exact set_service. Qed.
Print Assumptions c09_set_service.

(* SendMsg applies no size limit of its own: on a live, open channel whose write succeeds every message is
   written whatever its size, in particular requests and replies of up to exactly 1 MB, which the
   receiving channel accepts (the limit is the receiver's: c09_reject_closes, c09_frame_safe).  With
   c09_call_wire / c09_request_served / c09_complete_reply: a call or reply is never dropped locally
   for its size. *)
Theorem c09_send_any_size :
  forall (r : rpc) (m : msg), dead r = false -> send_msg false true r m = (r, [EvSend m], true).
Proof. exact send_any_size. Qed.
Print Assumptions c09_send_any_size.

(* A request object is deleted only by the completion of that very request.  One step, ANY state: if the
   step deletes request q, it is the service completing q (OpComplete q), or it is a chunk during which q
   itself was handed to a service that answered from inside CallMethod (q is not below nreq at the start
   of the chunk).  So the arrival of bytes -- further requests, a duplicate id (the superseded request is
   only unregistered), rejected headers, Close() -- CallMethod and SetService never delete a request that
   was outstanding; and hanging up / deleting the channel emits nothing at all (c09_hangup_frees_nothing).
   With c09_server_once: a request handed to the service stays allocated until the service completes it. *)
Theorem c09_freed_only_in_completion :
  forall (decode : list N -> option msg) (method_kind : N -> list N -> N) (req_ok : N -> list N -> bool)
         (service : N -> list N -> list N -> option sres)
         (f : frame) (r : rpc) (o : op) (f' : frame) (r' : rpc) (evs : list event) (q : N),
  step decode method_kind req_ok service f r o = (f', r', evs) -> In (EvFreeReq q) evs ->
  (exists res ok, o = OpComplete q res ok) \/ (exists bs ok, o = OpChunk bs ok /\ nreq r <= q).
Proof. exact step_frees. Qed.
Print Assumptions c09_freed_only_in_completion.

(* What handling one message may delete: only the request it has itself just registered (number nreq r),
   and only if the service answered at once. *)
Theorem c09_dispatch_frees :
  forall (method_kind : N -> list N -> N) (req_ok : N -> list N -> bool)
         (service : N -> list N -> list N -> option sres)
         (cl ok : bool) (r : rpc) (m : msg) (r' : rpc) (evs : list event),
  dispatch method_kind req_ok service cl ok r m = (r', evs) ->
  nreq r <= nreq r' /\
  forall q, In (EvFreeReq q) evs ->
    q = nreq r /\ m_type m = REQUEST /\ service (svc r) (m_name m) (m_buf m) <> None.
Proof. exact dispatch_frees. Qed.
Print Assumptions c09_dispatch_frees.

(* Histories: with a service that always answers later, every deletion in the trace of any history
   (any bytes, duplicate ids, closes, calls, SetService) belongs to an OpComplete of that request. *)
Theorem c09_freed_only_in_completion_history :
  forall (decode : list N -> option msg) (method_kind : N -> list N -> N) (req_ok : N -> list N -> bool)
         (service : N -> list N -> list N -> option sres),
  (forall sv nm rq, service sv nm rq = None) ->
  forall (ops : list op) (f : frame) (r : rpc) (f' : frame) (r' : rpc) (tr : list event) (q : N),
  run decode method_kind req_ok service f r ops = (f', r', tr) -> In (EvFreeReq q) tr ->
  exists res ok, In (OpComplete q res ok) ops.
Proof. exact run_frees. Qed.
Print Assumptions c09_freed_only_in_completion_history.

(* a client hanging up (the server deleting its channel) deletes no request: what the service still holds
   is freed by the late completion, outside the channel (fix 06) *)
Theorem c09_hangup_frees_nothing :
  forall (decode : list N -> option msg) (method_kind : N -> list N -> N) (req_ok : N -> list N -> bool)
         (service : N -> list N -> list N -> option sres) (s : list (option (frame * rpc))) (i : nat),
  sstep decode method_kind req_ok service s (SHangup i) = (upd i None s, []).
Proof. reflexivity. Qed.
Print Assumptions c09_hangup_frees_nothing.

(* The hypotheses are satisfiable and the statements are not vacuous: a concrete history.
   decode: a body is a message of type RESPONSE whose id is its first byte.  Two calls (ids 0, 1), then
   the reply to id 1 and the reply to id 0 arrive split over four reads, then a duplicate of reply 1. *)
Definition ex_decode (b : list N) : option msg :=
  match b with x :: _ => Some (mkMsg RESPONSE x [] b) | [] => None end.
Definition ex_ops : list op :=
  [OpCall false [69] [1] true; OpCall true [83] [2] true; OpCall false [69] [1] true;
   OpChunk [2; 0] true; OpChunk [0; 16; 2] true; OpChunk [9; 2; 0; 0; 16; 0] true;
   OpChunk [8; 2; 0; 0; 16; 1; 7; 2; 0; 0; 16; 2; 6] true].
(* calls 0 and 2 are ordinary (ids 0, 2), call 1 is a streaming call (id 1); the peer answers 2, 0, then
   sends a message with the streaming call's id 1 (ignored) and a duplicate of reply 2 (ignored) *)
Example c09_example :
  let '(f, r, tr) := run ex_decode (fun _ _ => 0) (fun _ _ => true) (fun _ _ _ => Some (SReply []))
                         init_frame init_rpc ex_ops in
  forallb healthy ex_ops = true /\
  dispatched tr = [mkMsg 2 2 [] [2; 9]; mkMsg 2 0 [] [0; 8]; mkMsg 2 1 [] [1; 7]; mkMsg 2 2 [] [2; 6]] /\
  dispatched tr = frames ex_decode (stream ex_ops) /\
  dones tr = [(2, OReply [2; 9]); (0, OReply [0; 8])] /\
  streams tr = [1] /\
  sends tr = [mkMsg 1 0 [69] [1]; mkMsg 10 1 [83] [2]; mkMsg 1 2 [69] [1]] /\
  responses r = [] /\ closed f = false /\ bufsz f = 2.
Proof. vm_compute. repeat split; reflexivity. Qed.

(* serving side: two requests with the same id 5 while the first is still with the service (which
   answers later): the first is failed towards the client, and only the second gets the service's reply *)
Definition ex_decode_req (b : list N) : option msg :=
  match b with x :: _ => Some (mkMsg REQUEST x [69] b) | [] => None end.
Example c09_example_server :
  let '(f, r, tr) := run ex_decode_req (fun _ _ => 1) (fun _ _ => true) (fun _ _ _ => None)
                         init_frame init_rpc
                         [OpChunk [1; 0; 0; 16; 5] true; OpChunk [1; 0; 0; 16; 5] true;
                          OpComplete 0 (SReply [7]) true; OpComplete 1 (SReply [8]) true] in
  sends tr = [mkMsg RESPONSE_FAILED 5 [] []; mkMsg RESPONSE 5 [] [8]] /\
  requests r = [] /\ cancelled r = [] /\ nreq r = 2.
Proof. vm_compute. repeat split; reflexivity. Qed.

(* a wrong-version header after a valid message closes the channel; later bytes are not written anywhere *)
Example c09_example_reject :
  let '(f, r, tr) := run ex_decode (fun _ _ => 0) (fun _ _ => true) (fun _ _ _ => Some (SReply []))
                         init_frame init_rpc
                         [OpChunk [1; 0; 0; 16; 5] true; OpChunk [96; 234; 0; 32] true; OpChunk [65; 65; 65] true] in
  closed f = true /\ expected f = 0 /\ bufsz f = 2048 /\
  dispatched tr = [mkMsg 2 5 [] [5]] /\
  tr = [EvHdrWrite 0 4; EvWrite 0 1 2048 2048; EvParse 1 2048; EvDispatch (mkMsg 2 5 [] [5]);
        EvHdrWrite 0 4; EvClose].
Proof. vm_compute. repeat split; reflexivity. Qed.

(* serving side with a failing reply write: two requests are readable, the write of the first reply
   fails: the close handler runs once, the second request is never dispatched *)
Example c09_example_reply_write_fails :
  let '(f, r, tr) := run ex_decode_req (fun _ _ => 1) (fun _ _ => true) (fun _ _ _ => Some (SReply [7]))
                         init_frame init_rpc
                         [OpChunk [1; 0; 0; 16; 5; 1; 0; 0; 16; 6] false; OpChunk [] false] in
  dispatched tr = [mkMsg REQUEST 5 [69] [5]] /\ sends tr = [] /\ dead r = true /\
  tr = [EvHdrWrite 0 4; EvWrite 0 1 2048 2048; EvParse 1 2048; EvDispatch (mkMsg REQUEST 5 [69] [5]);
        EvService [69] [5]; EvChanClose; EvFreeReq 0].
Proof. vm_compute. repeat split; reflexivity. Qed.

(* the bookkeeping hypothesis of c09_request_served holds of a concrete non-trivial reachable state:
   request 0 (id 5) superseded by request 1 (same id) and then completed, request 2 (id 6) outstanding *)
Example c09_example_WR :
  exists f r tr,
  run ex_decode_req (fun _ _ => 1) (fun _ _ => true) (fun _ _ _ => None) init_frame init_rpc
      [OpChunk [1; 0; 0; 16; 5] true; OpChunk [1; 0; 0; 16; 5; 1; 0; 0; 16; 6] true;
       OpComplete 0 (SReply [7]) true] = (f, r, tr) /\
  requests r = [(6, 2); (5, 1)] /\ cancelled r = [] /\ nreq r = 3 /\ freed tr = [0] /\
  ServerOnce.WR r (freed tr).
Proof.
  destruct (run ex_decode_req (fun _ _ => 1) (fun _ _ => true) (fun _ _ _ => None) init_frame init_rpc
      [OpChunk [1; 0; 0; 16; 5] true; OpChunk [1; 0; 0; 16; 5; 1; 0; 0; 16; 6] true;
       OpComplete 0 (SReply [7]) true]) as [[f r] tr] eqn:E.
  exists f, r, tr. split; [reflexivity|].
  assert (HW : ServerOnce.WR r (freed tr)).
  { eapply ServerOnce.run_W; [|exact E]. exact ServerOnce.W_init. }
  vm_compute in E. inversion E; subst.
  split; [reflexivity|]. split; [reflexivity|]. split; [reflexivity|]. split; [reflexivity|]. exact HW.
Qed.

(* two channels: a frame of channel 0 split over two reads with a whole frame of channel 1 in between *)
Example c09_example_multi :
  let '(s, tr) := mrun ex_decode (fun _ _ => 0) (fun _ _ => true) (fun _ _ _ => None)
                       [(init_frame, init_rpc); (init_frame, init_rpc)]
                       [(0%nat, OpChunk [2; 0; 0; 16; 9] true); (1%nat, OpChunk [2; 0; 0; 16; 5; 6] true);
                        (0%nat, OpChunk [7] true)] in
  dispatched (proj 0%nat tr) = [mkMsg 2 9 [] [9; 7]] /\ dispatched (proj 1%nat tr) = [mkMsg 2 5 [] [5; 6]].
Proof. vm_compute. split; reflexivity. Qed.

(* a server with two clients: client 0 sends a request and hangs up; the service answers it afterwards
   (nothing happens), client 1 is served as if alone *)
Example c09_example_server_teardown :
  let '(s, tr) := srun ex_decode_req (fun _ _ => 1) (fun _ _ => true) (fun _ _ _ => None)
                       [Some (init_frame, init_rpc); Some (init_frame, init_rpc)]
                       [SOp 0 (OpChunk [1; 0; 0; 16; 5] true); SOp 1 (OpChunk [1; 0; 0; 16; 6] true);
                        SHangup 0; SOp 0 (OpComplete 0 (SReply [7]) true); SOp 1 (OpComplete 0 (SReply [8]) true)] in
  nth_error s 0 = Some None /\ sends (proj 0%nat tr) = [] /\
  sends (proj 1%nat tr) = [mkMsg RESPONSE 6 [] [8]].
Proof. vm_compute. repeat split; reflexivity. Qed.

(* SetService between two requests for the same method name: service 1 does not have it (NOT_IMPLEMENTED),
   service 2 does and answers *)
Example c09_example_set_service :
  let '(f, r, tr) := run ex_decode_req (fun sv _ => if sv =? 2 then 1 else 0) (fun _ _ => true)
                         (fun _ _ _ => Some (SReply [7]))
                         init_frame (set_svc init_rpc 1)
                         [OpChunk [1; 0; 0; 16; 5] true; OpSetService 2; OpChunk [1; 0; 0; 16; 6] true] in
  sends tr = [mkMsg RESPONSE_NOT_IMPLEMENTED 5 [] []; mkMsg RESPONSE 6 [] [7]] /\ svc r = 2.
Proof. vm_compute. split; reflexivity. Qed.
