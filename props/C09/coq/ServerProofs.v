(* C09 — serving side: every reply the channel writes carries the id of a request it was sent. *)
From OlaBase Require Import Bytes.
From C09 Require Import Gen Model FrameProofs Generic.
Local Open Scope N_scope.

Lemma sends_app a b : sends (a ++ b) = sends a ++ sends b.
Proof. unfold sends. apply flat_map_app. Qed.

Lemma lookup_In id l q : lookup id l = Some q -> In (id, q) l.
Proof.
  induction l as [|[i k] l IH]; cbn; [discriminate|].
  destruct (i =? id) eqn:E; intros H.
  - apply N.eqb_eq in E. inversion H; subst. left. reflexivity.
  - right. auto.
Qed.
Lemma key_of_In q l id : key_of q l = Some id -> In (id, q) l.
Proof.
  induction l as [|[i k] l IH]; cbn; [discriminate|].
  destruct (k =? q) eqn:E; intros H.
  - apply N.eqb_eq in E. inversion H; subst. left. reflexivity.
  - right. auto.
Qed.
Lemma remove_In id l p : In p (remove id l) -> In p l.
Proof.
  induction l as [|[i k] l IH]; cbn; [tauto|].
  destruct (i =? id); cbn; intros H; [right; auto|]. destruct H; [left; assumption|right; auto].
Qed.

Definition answers (ms : list msg) (id : N) : Prop :=
  exists m, In m ms /\ m_id m = id /\ is_request m = true.

(* rq: m_requests; sn: messages written so far; ms: messages dispatched so far *)
Definition K (rq : list (N * N)) (sn : list msg) (ms : list msg) : Prop :=
  (forall id q, In (id, q) rq -> answers ms id) /\
  (forall m', In m' sn -> is_reply m' = true -> answers ms (m_id m')).

Lemma answers_mono ms ms' id : answers ms id -> answers (ms ++ ms') id.
Proof. intros (m & Hi & H). exists m. split; [apply in_or_app; left; exact Hi|exact H]. Qed.
Lemma K_mono rq sn ms ms' : K rq sn ms -> K rq sn (ms ++ ms').
Proof. intros [A B]. split; intros; apply answers_mono; eauto. Qed.

Lemma send_msg_K cl ok r m r' evs b rq sn ms :
  send_msg cl ok r m = (r', evs, b) ->
  (is_reply m = true -> answers ms (m_id m)) ->
  K rq sn ms -> requests r' = requests r /\ nreq r' = nreq r /\ cancelled r' = cancelled r /\
  K rq (sn ++ sends evs) ms.
Proof.
  unfold send_msg. intros H Hm [A B].
  destruct (dead r || cl); [inversion H; subst; cbn; rewrite app_nil_r; repeat split; auto|].
  destruct ok; inversion H; subst; cbn; repeat split; auto.
  - intros m' Hi Hr. apply in_app_or in Hi as [Hi|[<-|[]]]; auto.
  - rewrite app_nil_r. exact B.
Qed.

Section Server.
Variable decode : list N -> option msg.
Variable method_kind : N -> list N -> N.
Variable req_ok : N -> list N -> bool.
Variable service : N -> list N -> list N -> option sres.
Notation dispatch := (dispatch method_kind req_ok service).
Notation body_phase := (body_phase decode method_kind req_ok service).
Notation descriptor_ready := (descriptor_ready decode method_kind req_ok service).
Notation feed := (feed decode method_kind req_ok service).
Notation step := (step decode method_kind req_ok service).
Notation run := (run decode method_kind req_ok service).

Lemma K_sub rq rq' sn ms : (forall p, In p rq' -> In p rq) -> K rq sn ms -> K rq' sn ms.
Proof. intros Hs [A B]. split; [|exact B]. intros id q Hi. eapply A. apply Hs. exact Hi. Qed.

Lemma request_complete_K cl ok r q res r' evs sn ms :
  request_complete cl ok r q res = (r', evs) ->
  K (requests r) sn ms -> K (requests r') (sn ++ sends evs) ms.
Proof.
  unfold request_complete. intros H HK.
  destruct (memN q (cancelled r)); [inversion H; subst; cbn; rewrite app_nil_r; exact HK|].
  destruct (key_of q (requests r)) as [id|] eqn:Ek; [|inversion H; subst; cbn; rewrite app_nil_r; exact HK].
  apply key_of_In in Ek.
  destruct (send_msg _ _ _ _) as [[r1 e1] b1] eqn:E. inversion H; subst. cbn.
  rewrite sends_app. cbn. rewrite app_nil_r.
  eapply send_msg_K in E; [| |exact HK].
  - destruct E as (R1 & _ & _ & K1). rewrite R1. eapply K_sub; [|exact K1]. apply remove_In.
  - intros _. destruct HK as [A _]. destruct res; cbn; eapply A; exact Ek.
Qed.

Lemma supersede_K cl ok r id r' evs sn ms :
  supersede cl ok r id = (r', evs) ->
  K (requests r) sn ms ->
  K (requests r') (sn ++ sends evs) ms /\ (forall p, In p (requests r') -> In p (requests r)).
Proof.
  unfold supersede. intros H HK. destruct (lookup id (requests r)) as [qo|] eqn:El.
  2:{ inversion H; subst; cbn. rewrite app_nil_r. auto. }
  apply lookup_In in El.
  destruct (send_msg _ _ _ _) as [[r1 e1] b1] eqn:E. inversion H; subst. cbn.
  eapply send_msg_K in E; [| |exact HK].
  - destruct E as (R1 & _ & _ & K1). rewrite R1. split; [|apply remove_In].
    eapply K_sub; [|exact K1]. apply remove_In.
  - intros _. destruct HK as [A _]. cbn. eapply A. exact El.
Qed.

Lemma dispatch_K cl ok r m r' evs sn ms :
  dispatch cl ok r m = (r', evs) -> In m ms ->
  K (requests r) sn ms -> K (requests r') (sn ++ sends evs) ms.
Proof.
  unfold Model.dispatch. intros H Hin HK.
  destruct (m_type m =? REQUEST) eqn:Et.
  - assert (Hans : answers ms (m_id m)).
    { exists m. split; [exact Hin|]. split; [reflexivity|]. unfold is_request. rewrite Et. reflexivity. }
    unfold handle_request in H.
    destruct (method_kind (svc r) (m_name m) =? 3); [inversion H; subst; cbn; rewrite app_nil_r; exact HK|].
    destruct (method_kind (svc r) (m_name m) =? 0).
    + destruct (send_msg _ _ _ _) as [[r1 e1] b1] eqn:E. inversion H; subst.
      eapply send_msg_K in E; [| |exact HK]; [|intros _; exact Hans].
      destruct E as (R1 & _ & _ & K1). rewrite R1. exact K1.
    + destruct (negb (req_ok (svc r) (m_buf m))); [inversion H; subst; cbn; rewrite app_nil_r; exact HK|].
      destruct (supersede cl ok r (m_id m)) as [r1 evs1] eqn:E1.
      eapply supersede_K in E1; [|exact HK]. destruct E1 as [K1 Hsub].
      set (r2 := set_server r1 (nreq r1 + 1) ((m_id m, nreq r) :: requests r1) (cancelled r1)) in *.
      assert (K2 : K (requests r2) (sn ++ sends evs1) ms).
      { destruct K1 as [A B]. split; [|exact B]. intros id q [Hi|Hi].
        - inversion Hi; subst. exact Hans.
        - eapply A. exact Hi. }
      destruct (service (svc r) (m_name m) (m_buf m)) as [res|].
      * destruct (request_complete _ _ _ _ _) as [r3 evs3] eqn:E3. inversion H; subst.
        eapply request_complete_K in E3; [|exact K2].
        rewrite sends_app. unfold sends at 2. cbn [flat_map app]. fold (sends evs3).
        rewrite app_assoc. exact E3.
      * inversion H; subst. rewrite sends_app. cbn. rewrite app_nil_r. exact K2.
  - destruct (resp_outcome m) as [o|].
    + unfold handle_response in H. destruct (lookup _ _); inversion H; subst; cbn; rewrite app_nil_r; exact HK.
    + destruct (m_type m =? STREAM_REQUEST) eqn:Es;
        [|inversion H; subst; cbn; rewrite app_nil_r; exact HK].
      assert (Hans : answers ms (m_id m)).
      { exists m. split; [exact Hin|]. split; [reflexivity|]. unfold is_request. rewrite Es. apply orb_true_r. }
      unfold handle_stream_request in H.
      destruct (method_kind (svc r) (m_name m) =? 3); [inversion H; subst; cbn; rewrite app_nil_r; exact HK|].
      destruct (method_kind (svc r) (m_name m) =? 0).
      * destruct (send_msg _ _ _ _) as [[r1 e1] b1] eqn:E. inversion H; subst.
        eapply send_msg_K in E; [| |exact HK]; [|intros _; exact Hans].
        destruct E as (R1 & _ & _ & K1). rewrite R1. exact K1.
      * destruct (negb (method_kind (svc r) (m_name m) =? 2));
          [inversion H; subst; cbn; rewrite app_nil_r; exact HK|].
        destruct (negb (req_ok (svc r) (m_buf m))); inversion H; subst; cbn; rewrite app_nil_r; exact HK.
Qed.

Lemma call_method_K cl ok st nm rq r r' evs sn ms :
  call_method cl ok st nm rq r = (r', evs) ->
  K (requests r) sn ms -> K (requests r') (sn ++ sends evs) ms.
Proof.
  unfold call_method. intros H HK.
  destruct (send_msg _ _ _ _) as [[r2 evs2] b] eqn:Es.
  eapply send_msg_K in Es; [| |exact HK].
  2:{ cbn. unfold is_reply. cbn. destruct st; cbn; discriminate. }
  destruct Es as (R1 & _ & _ & K1). cbn in R1.
  destruct st.
  { inversion H; subst. unfold sends. cbn [flat_map app]. fold (sends evs2). rewrite R1. exact K1. }
  destruct (negb b).
  - inversion H; subst. unfold sends. cbn [flat_map app]. rewrite flat_map_app. cbn. rewrite app_nil_r.
    fold (sends evs2). rewrite R1. exact K1.
  - destruct (lookup _ _); inversion H; subst; cbn [requests set_responses].
    + unfold sends. cbn [flat_map app]. rewrite flat_map_app. cbn. rewrite app_nil_r.
      fold (sends evs2). rewrite R1. exact K1.
    + unfold sends. cbn [flat_map app]. fold (sends evs2). rewrite R1. exact K1.
Qed.

Definition KT (r : rpc) (tr : list event) : Prop := K (requests r) (sends tr) (dispatched tr).

Lemma KT_frame r tr evs : KT r tr -> Forall frame_only evs -> KT r (tr ++ evs).
Proof.
  unfold KT. intros H Hf. rewrite sends_app, (frame_only_sends _ Hf), app_nil_r.
  unfold dispatched. rewrite flat_map_app. apply K_mono. exact H.
Qed.

Lemma KT_dispatch cl ok r tr m r' evs :
  KT r tr -> In (EvDispatch m) tr -> dispatch cl ok r m = (r', evs) -> KT r' (tr ++ evs).
Proof.
  intros HK Hin Ed. unfold KT in *.
  pose proof Ed as Ed2. apply (dispatch_events method_kind req_ok service) in Ed2.
  apply rpc_only_dispatched in Ed2.
  rewrite sends_app. unfold dispatched. rewrite flat_map_app. fold (dispatched evs). fold (dispatched tr).
  rewrite Ed2, app_nil_r.
  eapply dispatch_K; [exact Ed|apply in_dispatched; exact Hin|exact HK].
Qed.

Lemma KT_call cl ok st nm rq r tr r' evs :
  KT r tr -> call_method cl ok st nm rq r = (r', evs) -> KT r' (tr ++ evs).
Proof.
  intros HK Ec. pose proof Ec as Ec2. apply call_method_events in Ec2. apply rpc_only_dispatched in Ec2.
  unfold KT in *. rewrite sends_app. unfold dispatched. rewrite flat_map_app.
  fold (dispatched evs). rewrite Ec2, app_nil_r.
  eapply call_method_K; eauto.
Qed.

Lemma KT_complete cl ok r tr q res r' evs :
  KT r tr -> request_complete cl ok r q res = (r', evs) -> KT r' (tr ++ evs).
Proof.
  intros HK Ec. pose proof Ec as Ec2. apply request_complete_events in Ec2. apply rpc_only_dispatched in Ec2.
  unfold KT in *. rewrite sends_app. unfold dispatched. rewrite flat_map_app.
  fold (dispatched evs). rewrite Ec2, app_nil_r.
  eapply request_complete_K; eauto.
Qed.

Lemma run_K ops : forall f r f' r' evs tr,
  KT r tr -> run f r ops = (f', r', evs) -> KT r' (tr ++ evs).
Proof.
  refine (run_P decode method_kind req_ok service KT KT_frame KT_dispatch KT_call KT_complete _ ops).
  intros r tr k H. exact H.
Qed.

Lemma run_replies r0 ops f r tr :
  requests r0 = [] ->
  run init_frame r0 ops = (f, r, tr) ->
  forall m', In m' (sends tr) -> is_reply m' = true ->
  exists m, In m (dispatched tr) /\ m_id m = m_id m' /\ is_request m = true.
Proof.
  intros H0 H. apply (run_K ops _ _ _ _ _ []) in H.
  - destruct H as [_ B]. exact B.
  - unfold KT, K. rewrite H0. cbn. split; intros; contradiction.
Qed.

End Server.
