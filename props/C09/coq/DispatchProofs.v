(* C09 — the messages dispatched under any chunking are exactly frames(stream). *)
From OlaBase Require Import Bytes.
From C09 Require Import Gen Model FrameProofs.
Local Open Scope N_scope.

Section Proofs.
Variable decode : list N -> option msg.
Variable method_kind : N -> list N -> N.
Variable req_ok : N -> list N -> bool.
Variable service : N -> list N -> list N -> option sres.

Notation dispatch := (dispatch method_kind req_ok service).
Notation body_phase := (body_phase decode method_kind req_ok service).
Notation descriptor_ready := (descriptor_ready decode method_kind req_ok service).
Notation feed := (feed decode method_kind req_ok service).
Notation step := (step decode method_kind req_ok service).
Notation run := (run decode method_kind req_ok service).
Notation frames := (frames decode).
Notation frames_f := (frames_f decode).

(* ---------- the reference framer: fuel irrelevance and unfolding ---------- *)
Definition frames_body (s : list N) (k : list N -> list msg) : list msg :=
  if len s <? 4 then []
  else
    let w := hdr_word (take 4 s) in
    let rest := drop 4 s in
    let sz := hdr_size w in
    if sz =? 0 then k rest
    else if negb (hdr_version w =? PROTOCOL_VERSION) then []
    else if MAX_BUFFER_SIZE <? sz then []
    else if len rest <? sz then []
    else match decode (take sz rest) with
         | None => []
         | Some m => m :: k (drop sz rest)
         end.

Lemma frames_f_S fu s : frames_f (S fu) s = frames_body s (frames_f fu).
Proof. reflexivity. Qed.

Lemma drop_length {A} k (l : list A) : (length (drop k l) <= length l)%nat.
Proof. unfold drop. rewrite skipn_length. lia. Qed.
Lemma drop4_length {A} (l : list A) : 4 <= len l -> (length (drop 4 l) < length l)%nat.
Proof. unfold drop, len. rewrite skipn_length. intros. lia. Qed.

Lemma frames_f_fuel fu1 : forall fu2 s,
  (length s <= fu1)%nat -> (length s <= fu2)%nat -> frames_f fu1 s = frames_f fu2 s.
Proof.
  induction fu1 as [|fu1 IH]; intros fu2 s H1 H2.
  - destruct s; [|cbn in H1; lia]. destruct fu2; reflexivity.
  - destruct fu2 as [|fu2].
    + destruct s; [|cbn in H2; lia]. reflexivity.
    + rewrite !frames_f_S. unfold frames_body.
      destruct (len s <? 4) eqn:E4; [reflexivity|]. apply N.ltb_ge in E4.
      pose proof (drop4_length s E4) as Hd.
      destruct (hdr_size (hdr_word (take 4 s)) =? 0); [apply IH; lia|].
      destruct (negb _); [reflexivity|].
      destruct (MAX_BUFFER_SIZE <? _); [reflexivity|].
      destruct (len (drop 4 s) <? _); [reflexivity|].
      destruct (decode _); [|reflexivity].
      f_equal. pose proof (drop_length (hdr_size (hdr_word (take 4 s))) (drop 4 s)).
      apply IH; lia.
Qed.

Lemma frames_unfold s : frames s = frames_body s frames.
Proof.
  unfold Model.frames. destruct s as [|a s]; [reflexivity|].
  cbn [length]. rewrite frames_f_S. unfold frames_body.
  destruct (len (a :: s) <? 4) eqn:E4; [reflexivity|]. apply N.ltb_ge in E4.
  pose proof (drop4_length (a :: s) E4) as Hd. cbn [length] in Hd.
  destruct (hdr_size (hdr_word (take 4 (a :: s))) =? 0); [apply frames_f_fuel; lia|].
  destruct (negb _); [reflexivity|].
  destruct (MAX_BUFFER_SIZE <? _); [reflexivity|].
  destruct (len (drop 4 (a :: s)) <? _); [reflexivity|].
  destruct (decode _); [|reflexivity].
  f_equal. pose proof (drop_length (hdr_size (hdr_word (take 4 (a :: s)))) (drop 4 (a :: s))).
  apply frames_f_fuel; lia.
Qed.

Lemma frames_short s : len s < 4 -> frames s = [].
Proof.
  intros H. rewrite frames_unfold. unfold frames_body.
  destruct (len s <? 4) eqn:E; [reflexivity|]. apply N.ltb_ge in E. lia.
Qed.

(* ---------- what the reference framer yields from a machine state and the future bytes ---------- *)
Definition resume (f : frame) (fut : list N) : list msg :=
  if closed f then []
  else if expected f =? 0 then frames (hdr f ++ fut)
  else if len fut <? expected f - current f then []
  else match decode (body f ++ take (expected f - current f) fut) with
       | None => []
       | Some m => m :: frames (drop (expected f - current f) fut)
       end.

Lemma send_msg_dead cl r m r' evs b :
  dead r = false -> send_msg cl true r m = (r', evs, b) -> dead r' = false.
Proof.
  unfold send_msg. intros Hd H. rewrite Hd in H. cbn in H.
  destruct cl; inversion H; subst; exact Hd.
Qed.

Lemma request_complete_dead cl r q res r' evs :
  dead r = false -> request_complete cl true r q res = (r', evs) -> dead r' = false.
Proof.
  unfold request_complete. intros Hd H.
  destruct (memN q (cancelled r)); [inversion H; subst; exact Hd|].
  destruct (key_of q (requests r)); [|inversion H; subst; exact Hd].
  destruct (send_msg _ _ _ _) as [[r1 e1] b1] eqn:E. inversion H; subst. cbn.
  eapply send_msg_dead; eauto.
Qed.

Lemma supersede_dead cl r id r' evs :
  dead r = false -> supersede cl true r id = (r', evs) -> dead r' = false.
Proof.
  unfold supersede. intros Hd H. destruct (lookup id (requests r)); [|inversion H; subst; exact Hd].
  destruct (send_msg _ _ _ _) as [[r2 e2] b2] eqn:E. inversion H; subst. cbn.
  eapply send_msg_dead; eauto.
Qed.

Lemma dispatch_dead cl r m r' evs :
  dead r = false -> dispatch cl true r m = (r', evs) -> dead r' = false.
Proof.
  unfold Model.dispatch. intros Hd H.
  destruct (m_type m =? REQUEST).
  - unfold handle_request in H.
    destruct (method_kind (svc r) (m_name m) =? 3); [inversion H; subst; exact Hd|].
    destruct (method_kind (svc r) (m_name m) =? 0).
    + destruct (send_msg _ _ _ _) as [[r1 e1] b1] eqn:E. inversion H; subst.
      eapply send_msg_dead; eauto.
    + destruct (negb (req_ok (svc r) (m_buf m))); [inversion H; subst; exact Hd|].
      destruct (supersede cl true r (m_id m)) as [r1 evs1] eqn:E1.
      apply supersede_dead in E1; [|exact Hd].
      destruct (service (svc r) (m_name m) (m_buf m)) as [res|].
      * destruct (request_complete _ _ _ _ _) as [r3 evs3] eqn:E3. inversion H; subst.
        eapply request_complete_dead; [|exact E3]. exact E1.
      * inversion H; subst. exact E1.
  - destruct (resp_outcome m) as [o|].
    + unfold handle_response in H. destruct (lookup _ _); inversion H; subst; exact Hd.
    + destruct (m_type m =? STREAM_REQUEST); [|inversion H; subst; exact Hd].
      unfold handle_stream_request in H.
      destruct (method_kind (svc r) (m_name m) =? 3); [inversion H; subst; exact Hd|].
      destruct (method_kind (svc r) (m_name m) =? 0).
      * destruct (send_msg _ _ _ _) as [[r1 e1] b1] eqn:E. inversion H; subst.
        eapply send_msg_dead; eauto.
      * destruct (negb (method_kind (svc r) (m_name m) =? 2)); [inversion H; subst; exact Hd|].
        destruct (negb (req_ok (svc r) (m_buf m))); inversion H; subst; exact Hd.
Qed.

Lemma body_phase_resume f r avail f' r' rest evs :
  FI f -> expected f <> 0 -> closed f = false -> dead r = false ->
  body_phase true f r avail = (f', r', rest, evs) ->
  dead r' = false /\
  forall fut, resume f (avail ++ fut) = dispatched evs ++ resume f' (rest ++ fut).
Proof.
  intros (Ha & Hm & Hc & Hh & He & Hb) Hne Hcl Hd H. destruct (Hb Hne) as [Hlt Hhd].
  unfold Model.body_phase in H.
  destruct (recv (expected f - current f) avail) as [got rs] eqn:Er.
  apply recv_spec in Er as (Eav & Elen & Egot & Ers).
  assert (Ene : (expected f =? 0) = false) by (apply N.eqb_neq; exact Hne).
  destruct (current f + len got =? expected f) eqn:Ecmp.
  - apply N.eqb_eq in Ecmp.
    assert (Hk : N.min (expected f - current f) (len avail) = expected f - current f) by lia.
    rewrite Hk in Egot, Ers.
    assert (Hle : expected f - current f <= len avail) by lia.
    assert (R : forall fut, resume f (avail ++ fut) =
                match decode (body f ++ got) with
                | None => []
                | Some m => m :: frames (rs ++ fut)
                end).
    { intros fut. unfold resume. rewrite Hcl, Ene.
      rewrite take_app_le, drop_app_le by exact Hle. rewrite <- Egot, <- Ers.
      destruct (len (avail ++ fut) <? expected f - current f) eqn:E; [|reflexivity].
      apply N.ltb_lt in E. rewrite len_app in E. lia. }
    destruct (decode (body f ++ got)) as [m|] eqn:Ed.
    + destruct (dispatch (closed f) true r m) as [r1 evs1] eqn:Edis.
      inversion H; subst f' r' rest evs; clear H.
      split; [eapply dispatch_dead; eauto|].
      intros fut. rewrite R. unfold resume; cbn [closed expected hdr]. rewrite Hcl, Hhd.
      apply dispatch_events in Edis. apply rpc_only_dispatched in Edis.
      unfold dispatched in *. cbn [flat_map]. rewrite Edis. reflexivity.
    + inversion H; subst f' r' rest evs; clear H. split; [exact Hd|].
      intros fut. rewrite R. reflexivity.
  - apply N.eqb_neq in Ecmp.
    assert (Hk : N.min (expected f - current f) (len avail) = len avail) by lia.
    rewrite Hk in Egot, Ers, Elen.
    rewrite take_all in Egot by lia. rewrite drop_all in Ers by lia. subst got rs.
    inversion H; subst f' r' rest evs; clear H. split; [exact Hd|].
    intros fut. unfold resume; cbn [closed expected current body]. rewrite Hcl, Ene.
    cbn [app dispatched flat_map].
    rewrite len_app.
    assert (Hle : len avail <= expected f - current f) by lia.
    rewrite take_app_ge, drop_app_ge by exact Hle.
    replace (expected f - (current f + len avail)) with (expected f - current f - len avail) by lia.
    rewrite app_assoc.
    destruct (len avail + len fut <? expected f - current f) eqn:E1;
      destruct (len fut <? expected f - current f - len avail) eqn:E2; try reflexivity.
    + apply N.ltb_lt in E1. apply N.ltb_ge in E2. lia.
    + apply N.ltb_ge in E1. apply N.ltb_lt in E2. lia.
Qed.

Lemma allocate_other f size f4 ret :
  allocate_msg_buffer f size = (f4, ret) ->
  expected f4 = expected f /\ current f4 = current f /\ hdr f4 = hdr f /\ body f4 = body f /\
  closed f4 = closed f.
Proof.
  unfold allocate_msg_buffer. intros H.
  destruct (size <? bufsz f); [inversion H; subst; auto|].
  destruct (MAX_BUFFER_SIZE <? _); inversion H; subst; cbn; auto.
Qed.

Lemma descriptor_ready_resume f r avail f' r' rest evs :
  FI f -> closed f = false -> dead r = false ->
  descriptor_ready true f r avail = (f', r', rest, evs) ->
  dead r' = false /\
  forall fut, resume f (avail ++ fut) = dispatched evs ++ resume f' (rest ++ fut).
Proof.
  intros HFI Hcl Hd H. unfold Model.descriptor_ready in H. rewrite Hd in H.
  destruct (expected f =? 0) eqn:Ee.
  2:{ apply N.eqb_neq in Ee. eapply body_phase_resume; eauto. }
  pose proof HFI as (Ha & Hm & Hc & Hh & He & Hb).
  unfold read_header in H.
  destruct (recv (4 - len (hdr f)) avail) as [got rs] eqn:Er.
  apply recv_spec in Er as (Eav & Elen & _ & _).
  assert (R0 : forall fut, resume f (avail ++ fut) = frames ((hdr f ++ got) ++ rs ++ fut)).
  { intros fut. unfold resume. rewrite Hcl, Ee. subst avail. rewrite <- !app_assoc. reflexivity. }
  destruct (len (hdr f ++ got) <? 4) eqn:E4.
  - cbn in H. inversion H; subst f' r' rest evs; clear H. split; [exact Hd|].
    intros fut. rewrite R0. unfold resume; cbn. rewrite Hcl. rewrite <- !app_assoc. reflexivity.
  - apply N.ltb_ge in E4.
    assert (L4 : len (hdr f ++ got) = 4) by (rewrite len_app in *; lia).
    assert (R1 : forall fut, resume f (avail ++ fut) =
      let w := hdr_word (hdr f ++ got) in
      let sz := hdr_size w in
      if sz =? 0 then frames (rs ++ fut)
      else if negb (hdr_version w =? PROTOCOL_VERSION) then []
      else if MAX_BUFFER_SIZE <? sz then []
      else if len (rs ++ fut) <? sz then []
      else match decode (take sz (rs ++ fut)) with
           | None => []
           | Some m => m :: frames (drop sz (rs ++ fut))
           end).
    { intros fut. rewrite R0, frames_unfold. unfold frames_body.
      assert (T : take 4 ((hdr f ++ got) ++ rs ++ fut) = hdr f ++ got)
        by (rewrite <- L4; apply take_app_exact).
      assert (D : drop 4 ((hdr f ++ got) ++ rs ++ fut) = rs ++ fut)
        by (rewrite <- L4; apply drop_app_exact).
      rewrite T, D.
      destruct (len ((hdr f ++ got) ++ rs ++ fut) <? 4) eqn:E; [|reflexivity].
      apply N.ltb_lt in E. rewrite len_app in E. lia. }
    remember (hdr_version (hdr_word (hdr f ++ got))) as ver.
    remember (hdr_size (hdr_word (hdr f ++ got))) as size.
    cbn zeta in R1. rewrite <- Heqver, <- Heqsize in R1.
    destruct (size =? 0) eqn:Ez.
    { inversion H; subst f' r' rest evs; clear H. split; [exact Hd|].
      intros fut. rewrite R1. unfold resume; cbn. rewrite Hcl.
      apply N.eqb_eq in Ez. rewrite Ez. reflexivity. }
    destruct (negb (ver =? PROTOCOL_VERSION)).
    { inversion H; subst f' r' rest evs; clear H. split; [exact Hd|].
      intros fut. rewrite R1. reflexivity. }
    destruct (MAX_BUFFER_SIZE <? size) eqn:Emax.
    { inversion H; subst f' r' rest evs; clear H. split; [exact Hd|].
      intros fut. rewrite R1. reflexivity. }
    apply N.ltb_ge in Emax. change MAX_BUFFER_SIZE with 1048576 in Emax.
    cbn [set_exp alloc bufsz expected current hdr body closed] in H.
    destruct (allocate_msg_buffer _ size) as [f4 ret] eqn:Eal.
    pose proof Eal as Eal2.
    apply allocate_spec in Eal; cbn; try lia.
    cbn in Eal. destruct Eal as (A1 & A2 & A3 & A4 & A5 & A6 & A7 & A8).
    destruct (ret <? size) eqn:Ers; [apply N.ltb_lt in Ers; lia|].
    apply N.eqb_neq in Ez.
    destruct (body_phase true _ r rs) as [[[f6 r6] rest6] evs6] eqn:Eb.
    inversion H; subst f' r' rest evs; clear H.
    apply body_phase_resume in Eb.
    + destruct Eb as [D1 D2]. split; [exact D1|].
      intros fut. change (dispatched (?a :: evs6)) with (dispatched evs6).
      rewrite R1, <- D2. unfold resume. cbn [closed expected current body].
      rewrite A8, A4, A5, A7. cbn [closed expected current body app].
      rewrite Hcl. apply N.eqb_neq in Ez. rewrite Ez. rewrite N.sub_0_r. reflexivity.
    + unfold FI; cbn. rewrite A4, A5, A6, A7. cbn. repeat split; try lia.
    + cbn. rewrite A4. exact Ez.
    + cbn. rewrite A8. exact Hcl.
    + exact Hd.
Qed.

Lemma resume_closed f fut : closed f = true -> resume f fut = [].
Proof. intros H. unfold resume. rewrite H. reflexivity. Qed.

Lemma feed_resume fuel : forall f r avail f' r' evs,
  FI f -> dead r = false -> (length avail <= fuel)%nat ->
  feed fuel true f r avail = (f', r', evs) ->
  dead r' = false /\ FI f' /\
  forall fut, resume f (avail ++ fut) = dispatched evs ++ resume f' fut.
Proof.
  induction fuel as [|fuel IH]; intros f r avail f' r' evs HFI Hd Hfuel H.
  - destruct avail; [|cbn in Hfuel; lia]. cbn in H. inversion H; subst. auto.
  - cbn [Model.feed] in H. destruct avail as [|a av]; [inversion H; subst; auto|].
    rewrite Hd, orb_false_r in H.
    destruct (closed f) eqn:Ecl.
    { inversion H; subst. split; [exact Hd|]. split; [exact HFI|].
      intros fut. rewrite !resume_closed by exact Ecl. reflexivity. }
    destruct (descriptor_ready true f r (a :: av)) as [[[f1 r1] rest] evs1] eqn:Edr.
    pose proof Edr as Edr2.
    apply descriptor_ready_safe in Edr2; [|exact HFI].
    destruct Edr2 as (F1 & O1 & L1 & L2).
    assert ((length rest < length (a :: av))%nat) by (apply L2; [discriminate|exact Hd]).
    apply descriptor_ready_resume in Edr; auto. destruct Edr as [D1 R1].
    destruct (feed fuel true f1 r1 rest) as [[f2 r2] evs2] eqn:Ef.
    apply IH in Ef; [|exact F1|exact D1|lia]. destruct Ef as (D2 & F2 & R2).
    inversion H; subst. split; [exact D2|]. split; [exact F2|].
    intros fut. rewrite R1, R2. unfold dispatched. rewrite flat_map_app, app_assoc. reflexivity.
Qed.


Lemma call_method_dead cl st nm rq r r' evs :
  dead r = false -> call_method cl true st nm rq r = (r', evs) ->
  dead r' = false /\ dispatched evs = [].
Proof.
  intros Hd H. pose proof H as H2. apply call_method_events in H2. apply rpc_only_dispatched in H2.
  split; [|exact H2].
  unfold call_method in H.
  destruct (send_msg _ _ _ _) as [[r2 evs2] b] eqn:Es.
  apply send_msg_dead in Es; [|exact Hd].
  destruct st; [inversion H; subst; exact Es|].
  destruct (negb b); [inversion H; subst; exact Es|].
  destruct (lookup _ _); inversion H; subst; exact Es.
Qed.

Lemma run_resume ops : forall f r f' r' evs,
  FI f -> dead r = false -> forallb healthy ops = true ->
  run f r ops = (f', r', evs) ->
  FI f' /\ forall fut, resume f (stream ops ++ fut) = dispatched evs ++ resume f' fut.
Proof.
  induction ops as [|o ops IH]; intros f r f' r' evs HFI Hd Hh H; cbn [Model.run] in H.
  - inversion H; subst. split; [exact HFI|]. reflexivity.
  - cbn [forallb] in Hh. apply andb_prop in Hh as [Ho Hops].
    destruct (step f r o) as [[f1 r1] evs1] eqn:Es.
    destruct (run f1 r1 ops) as [[f2 r2] evs2] eqn:Er.
    inversion H; subst f2 r2 evs; clear H.
    unfold stream. cbn [flat_map]. fold (stream ops).
    destruct o as [bs ok|st nm rq ok|q res ok|k]; cbn in Ho; try subst ok; cbn [Model.step op_bytes] in Es |- *.
    + apply feed_resume in Es; auto. destruct Es as (D1 & F1 & R1).
      apply IH in Er; auto. destruct Er as [F2 R2]. split; [exact F2|].
      intros fut. rewrite <- app_assoc, R1, R2.
      unfold dispatched. rewrite flat_map_app, app_assoc. reflexivity.
    + destruct (call_method _ _ _ _ _ _) as [r1' evs1'] eqn:Ec. inversion Es; subst f1 r1 evs1; clear Es.
      apply call_method_dead in Ec; [|exact Hd]. destruct Ec as [D1 E1].
      apply IH in Er; auto. destruct Er as [F2 R2]. split; [exact F2|].
      intros fut. cbn [app]. rewrite R2.
      unfold dispatched in *. rewrite flat_map_app, E1. reflexivity.
    + destruct (request_complete _ _ _ _ _) as [r1' evs1'] eqn:Ec. inversion Es; subst f1 r1 evs1; clear Es.
      pose proof Ec as E1. apply request_complete_events in E1. apply rpc_only_dispatched in E1.
      apply request_complete_dead in Ec; [|exact Hd].
      apply IH in Er; auto. destruct Er as [F2 R2]. split; [exact F2|].
      intros fut. cbn [app]. rewrite R2.
      unfold dispatched in *. rewrite flat_map_app, E1. reflexivity.
    + inversion Es; subst f1 r1 evs1; clear Es.
      apply IH in Er; auto.
Qed.

Lemma resume_end f : FI f -> resume f [] = [].
Proof.
  intros (Ha & Hm & Hc & Hh & He & Hb). unfold resume.
  destruct (closed f); [reflexivity|].
  destruct (expected f =? 0) eqn:E.
  - rewrite app_nil_r. apply frames_short. exact Hh.
  - apply N.eqb_neq in E. destruct (Hb E) as [Hlt _].
    destruct (len [] <? expected f - current f) eqn:E2; [reflexivity|].
    apply N.ltb_ge in E2. rewrite len_nil in E2. lia.
Qed.

Lemma run_dispatch ops r0 f' r' evs :
  dead r0 = false -> forallb healthy ops = true ->
  run init_frame r0 ops = (f', r', evs) ->
  dispatched evs = frames (stream ops).
Proof.
  intros Hd0 Hh H. apply run_resume in H; auto using FI_init.
  destruct H as [F R]. specialize (R []). rewrite app_nil_r, resume_end in R by exact F.
  rewrite app_nil_r in R. rewrite <- R. reflexivity.
Qed.

End Proofs.
