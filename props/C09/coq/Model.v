(* C09 — executable model of ola::rpc::RpcChannel (common/rpc/RpcChannel.cpp) with the fixes of
   props/C09/fixes applied:
     DescriptorReady / ReadHeader / AllocateMsgBuffer / HandleNewMsg / HandleRequest /
     HandleStreamRequest / RequestComplete / SendRequestFailed / SendNotImplemented /
     HandleResponse / HandleFailedResponse / HandleCanceledResponse / HandleNotImplemented /
     CallMethod / SendMsg.
   Input: the bytes that are readable on the descriptor each time the poller finds it readable
   (a "chunk"); ConnectedDescriptor::Receive(buf, n) returns the first min(n, available) bytes.
   The message buffer is an explicit region: [alloc] is the size of the heap block m_buffer points
   to (what ASan sees), [bufsz] is m_buffer_size; every Receive into the buffer is recorded as an
   EvWrite with its range and the sizes at that moment (a write with off+n > alloc is the Oob hazard).
   Protobuf (RpcMessage::ParseFromArray, the request prototype's ParseFromString), the service's
   method table and the service's behaviour are Section functions about which nothing is assumed. *)
From OlaBase Require Import Bytes.
From C09 Require Import Gen.
Local Open Scope N_scope.

Record msg := mkMsg { m_type : N; m_id : N; m_name : list N; m_buf : list N }.

Inductive outcome :=
| OReply (b : list N)     (* callback run, controller not failed, reply parsed from b *)
| OFailed (t : list N).   (* callback run, controller failed with text t *)

Inductive sres := SReply (b : list N) | SFail (t : list N).

Inductive event :=
| EvWrite (off n al bs : N)      (* Receive wrote [off, off+n) of the buffer; al = heap block size, bs = m_buffer_size *)
| EvHdrWrite (off n : N)         (* Receive wrote [off, off+n) of the 4-byte header array m_header *)
| EvParse (n al : N)             (* HandleNewMsg parsed (read) [0, n) of the buffer; al = heap block size *)
| EvFreeReq (q : N)              (* the OutstandingRequest of request q was deleted *)
| EvDispatch (m : msg)           (* HandleNewMsg parsed m and dispatched on its type *)
| EvClose                        (* m_descriptor->Close() *)
| EvSend (m : msg)               (* SendMsg wrote m to the peer *)
| EvService (name req : list N)  (* m_service->CallMethod(method, ..., request) *)
| EvCall (k id : N)              (* CallMethod number k (a call with a completion) was given sequence id *)
| EvStream (k id : N)            (* CallMethod number k was a streaming call, given sequence id *)
| EvDone (k : N) (o : outcome)   (* completion callback of call k run *)
| EvChanClose                    (* channel close handler run (send failure) *)
| EvOutOfFuel.                   (* model artefact: the level-triggered loop ran out of fuel *)

Record frame := mkFrame {
  alloc : N;          (* size of the heap block behind m_buffer (0 = NULL) *)
  bufsz : N;          (* m_buffer_size *)
  expected : N;       (* m_expected_size *)
  current : N;        (* m_current_size *)
  hdr : list N;       (* header bytes received so far (m_header[0..m_header_read)) *)
  body : list N;      (* buffer contents [0, m_current_size) *)
  closed : bool       (* m_descriptor->Close() was called *)
}.

Record rpc := mkRpc {
  dead : bool;                 (* m_descriptor == NULL (after a failed send) *)
  seq : N;                     (* m_sequence *)
  ncalls : N;                  (* number of CallMethod invocations so far = identity of the next call
                                  (streaming calls included: every call draws one sequence number) *)
  responses : list (N * N);    (* m_responses : id -> outstanding call *)
  nreq : N;                    (* number of requests handed to the service so far = identity of the next *)
  requests : list (N * N);     (* m_requests : id -> outstanding server-side request *)
  cancelled : list N;          (* superseded requests the service still holds (freed when it completes them) *)
  svc : N                      (* which service m_service points to (SetService); 0 = none *)
}.

Definition init_frame : frame := mkFrame 0 0 0 0 [] [] false.
Definition init_rpc : rpc := mkRpc false 0 0 [] 0 [] [] 0.

Definition TXT_SEND_FAILED : list N :=
  [70;97;105;108;101;100;32;116;111;32;115;101;110;100;32;114;101;113;117;101;115;116].
Definition TXT_DUPLICATE : list N :=
  [68;117;112;108;105;99;97;116;101;32;114;101;113;117;101;115;116;32;102;111;117;110;100].
Definition TXT_NOT_IMPLEMENTED : list N :=
  [78;111;116;32;73;109;112;108;101;109;101;110;116;101;100].

(* hash_map<int, T*> operations *)
Fixpoint lookup (id : N) (l : list (N * N)) : option N :=
  match l with
  | [] => None
  | (i, k) :: r => if i =? id then Some k else lookup id r
  end.
Fixpoint remove (id : N) (l : list (N * N)) : list (N * N) :=
  match l with
  | [] => []
  | (i, k) :: r => if i =? id then remove id r else (i, k) :: remove id r
  end.
(* the key under which value q is stored *)
Fixpoint key_of (q : N) (l : list (N * N)) : option N :=
  match l with
  | [] => None
  | (i, k) :: r => if k =? q then Some i else key_of q r
  end.
Fixpoint memN (x : N) (l : list N) : bool :=
  match l with [] => false | y :: r => (y =? x) || memN x r end.
Fixpoint delN (x : N) (l : list N) : list N :=
  match l with [] => [] | y :: r => if y =? x then delN x r else y :: delN x r end.

(* field updates *)
Definition set_dead (r : rpc) : rpc :=
  mkRpc true (seq r) (ncalls r) (responses r) (nreq r) (requests r) (cancelled r) (svc r).
Definition set_responses (r : rpc) (l : list (N * N)) : rpc :=
  mkRpc (dead r) (seq r) (ncalls r) l (nreq r) (requests r) (cancelled r) (svc r).
Definition next_call (r : rpc) : rpc :=
  mkRpc (dead r) (u32 (seq r + 1)) (ncalls r + 1) (responses r) (nreq r) (requests r) (cancelled r) (svc r).
Definition set_server (r : rpc) (n : N) (rq : list (N * N)) (c : list N) : rpc :=
  mkRpc (dead r) (seq r) (ncalls r) (responses r) n rq c (svc r).
(* RpcChannel::SetService *)
Definition set_svc (r : rpc) (k : N) : rpc :=
  mkRpc (dead r) (seq r) (ncalls r) (responses r) (nreq r) (requests r) (cancelled r) k.

(* RpcHeader::DecodeHeader on the 4 header bytes in host (little-endian) order *)
Definition hdr_word (h : list N) : N :=
  match h with
  | [b0; b1; b2; b3] => b0 + 256 * b1 + 65536 * b2 + 16777216 * b3
  | _ => 0
  end.
Definition hdr_version (w : N) : N := N.shiftr (N.land w VERSION_MASK) 28.
Definition hdr_size (w : N) : N := N.land w SIZE_MASK.

Section Model.
Variable decode : list N -> option msg.        (* RpcMessage::ParseFromArray *)
(* the first argument of the next three is the service currently installed (svc) *)
Variable method_kind : N -> list N -> N.       (* FindMethodByName: 0 none, 1 method, 2 streaming method;
                                                  3 = no service registered / no service descriptor *)
Variable req_ok : N -> list N -> bool.         (* request prototype ParseFromString *)
Variable service : N -> list N -> list N -> option sres.
  (* what the service does with (method, request): Some = completes inside CallMethod,
     None = keeps the completion callback and completes later (OpComplete) *)

(* SendMsg: [cl] = descriptor closed, [sendok] = Send() wrote the whole message *)
Definition send_msg (cl sendok : bool) (r : rpc) (m : msg) : rpc * list event * bool :=
  if dead r || cl then (r, [], false)
  else if sendok then (r, [EvSend m], true)
  else (set_dead r, [EvChanClose], false).

(* CallMethod: [streaming] = the method's output type is STREAMING_NO_RESPONSE *)
Definition call_method (cl sendok streaming : bool) (name req : list N) (r : rpc) : rpc * list event :=
  let id := seq r in
  let k := ncalls r in
  let r1 := next_call r in
  let '(r2, evs, ok) :=
    send_msg cl sendok r1 (mkMsg (if streaming then STREAM_REQUEST else REQUEST) id name req) in
  if streaming then (r2, EvStream k id :: evs)
  else if negb ok then (r2, EvCall k id :: evs ++ [EvDone k (OFailed TXT_SEND_FAILED)])
  else
    let old := lookup id (responses r2) in
    let r3 := set_responses r2 ((id, k) :: remove id (responses r2)) in
    match old with
    | Some ko => (r3, EvCall k id :: evs ++ [EvDone ko (OFailed TXT_DUPLICATE)])
    | None => (r3, EvCall k id :: evs)
    end.

(* HandleResponse / HandleFailedResponse / HandleCanceledResponse / HandleNotImplemented *)
Definition resp_outcome (m : msg) : option outcome :=
  if m_type m =? RESPONSE then Some (OReply (m_buf m))
  else if m_type m =? RESPONSE_CANCEL then Some (OFailed (m_buf m))
  else if m_type m =? RESPONSE_FAILED then Some (OFailed (m_buf m))
  else if m_type m =? RESPONSE_NOT_IMPLEMENTED then Some (OFailed TXT_NOT_IMPLEMENTED)
  else None.

Definition handle_response (r : rpc) (m : msg) (o : outcome) : rpc * list event :=
  match lookup (m_id m) (responses r) with
  | Some k => (set_responses r (remove (m_id m) (responses r)), [EvDone k o])
  | None => (r, [])
  end.

(* RequestComplete(request q) / SendRequestFailed: the service ran the completion callback.
   A superseded (cancelled) request is only freed; a request that is not outstanding is the service
   running a single-use callback twice, which cannot happen (modelled as no effect). *)
Definition request_complete (cl sendok : bool) (r : rpc) (q : N) (res : sres) : rpc * list event :=
  if memN q (cancelled r) then (set_server r (nreq r) (requests r) (delN q (cancelled r)), [EvFreeReq q])
  else match key_of q (requests r) with
       | None => (r, [])
       | Some id =>
         let reply := match res with
                      | SReply b => mkMsg RESPONSE id [] b
                      | SFail t => mkMsg RESPONSE_FAILED id [] t
                      end in
         let '(r', evs, _) := send_msg cl sendok r reply in
         (set_server r' (nreq r') (remove id (requests r')) (cancelled r'), evs ++ [EvFreeReq q])
       end.

(* the duplicate-id branch of HandleRequest: the outstanding request with this id is failed towards
   the client, taken out of m_requests and left to be freed when the service completes it *)
Definition supersede (cl sendok : bool) (r : rpc) (id : N) : rpc * list event :=
  match lookup id (requests r) with
  | Some qo =>
    let '(r', e, _) := send_msg cl sendok r (mkMsg RESPONSE_FAILED id [] []) in
    (set_server r' (nreq r') (remove id (requests r')) (qo :: cancelled r'), e)
  | None => (r, [])
  end.

(* HandleRequest.  A request whose id is already outstanding fails the old one towards the client
   and leaves it to be freed when the service completes it. *)
Definition handle_request (cl sendok : bool) (r : rpc) (m : msg) : rpc * list event :=
  if method_kind (svc r) (m_name m) =? 3 then (r, [])
  else if method_kind (svc r) (m_name m) =? 0 then
    let '(r', evs, _) := send_msg cl sendok r (mkMsg RESPONSE_NOT_IMPLEMENTED (m_id m) [] []) in (r', evs)
  else if negb (req_ok (svc r) (m_buf m)) then (r, [])
  else
    let q := nreq r in
    let '(r1, evs1) := supersede cl sendok r (m_id m) in
    let r2 := set_server r1 (nreq r1 + 1) ((m_id m, q) :: requests r1) (cancelled r1) in
    match service (svc r) (m_name m) (m_buf m) with
    | None => (r2, evs1 ++ [EvService (m_name m) (m_buf m)])
    | Some res =>
      let '(r3, evs3) := request_complete cl sendok r2 q res in
      (r3, evs1 ++ EvService (m_name m) (m_buf m) :: evs3)
    end.

Definition handle_stream_request (cl sendok : bool) (r : rpc) (m : msg) : rpc * list event :=
  if method_kind (svc r) (m_name m) =? 3 then (r, [])
  else if method_kind (svc r) (m_name m) =? 0 then
    let '(r', evs, _) := send_msg cl sendok r (mkMsg RESPONSE_NOT_IMPLEMENTED (m_id m) [] []) in (r', evs)
  else if negb (method_kind (svc r) (m_name m) =? 2) then (r, [])
  else if negb (req_ok (svc r) (m_buf m)) then (r, [])
  else (r, [EvService (m_name m) (m_buf m)]).

(* the switch of HandleNewMsg *)
Definition dispatch (cl sendok : bool) (r : rpc) (m : msg) : rpc * list event :=
  if m_type m =? REQUEST then handle_request cl sendok r m
  else match resp_outcome m with
       | Some o => handle_response r m o
       | None => if m_type m =? STREAM_REQUEST then handle_stream_request cl sendok r m
                 else (r, [])
       end.

(* ConnectedDescriptor::Receive(buf, n) with [avail] readable: the first min(n, available) bytes *)
Definition recv (n : N) (avail : list N) : list N * list N :=
  let k := N.min n (len avail) in (take k avail, drop k avail).

(* AllocateMsgBuffer: returns the frame (alloc/bufsz possibly changed) and the return value *)
Definition allocate_msg_buffer (f : frame) (size : N) : frame * N :=
  if size <? bufsz f then (f, size)
  else
    let requested := if (bufsz f =? 0) && (size <? INITIAL_BUFFER_SIZE) then INITIAL_BUFFER_SIZE else size in
    if MAX_BUFFER_SIZE <? requested then (f, bufsz f)
    else (mkFrame requested requested (expected f) (current f) (hdr f) (body f) (closed f), requested).

(* ReadHeader: accumulates up to 4 bytes; (version, size) = (0, 0) until the header is complete *)
Definition read_header (f : frame) (avail : list N) : frame * list N * N * N :=
  let '(got, rest) := recv (4 - len (hdr f)) avail in
  let h := hdr f ++ got in
  if len h <? 4 then
    (mkFrame (alloc f) (bufsz f) (expected f) (current f) h (body f) (closed f), rest, 0, 0)
  else
    (mkFrame (alloc f) (bufsz f) (expected f) (current f) [] (body f) (closed f), rest,
     hdr_version (hdr_word h), hdr_size (hdr_word h)).

Definition set_exp (f : frame) (e : N) : frame :=
  mkFrame (alloc f) (bufsz f) e (current f) (hdr f) (body f) (closed f).
Definition close_reset (f : frame) : frame :=
  mkFrame (alloc f) (bufsz f) 0 (current f) (hdr f) (body f) true.

(* second half of DescriptorReady: Receive into the buffer, HandleNewMsg when complete *)
Definition body_phase (sendok : bool) (f : frame) (r : rpc) (avail : list N)
  : frame * rpc * list N * list event :=
  let '(got, rest) := recv (expected f - current f) avail in
  let w := EvWrite (current f) (len got) (alloc f) (bufsz f) in
  let cur := current f + len got in
  let b := body f ++ got in
  if cur =? expected f then
    let p := EvParse (expected f) (alloc f) in
    match decode b with
    | None =>
      (mkFrame (alloc f) (bufsz f) 0 cur (hdr f) b true, r, rest, [w; p; EvClose])
    | Some m =>
      let '(r', evs) := dispatch (closed f) sendok r m in
      (mkFrame (alloc f) (bufsz f) 0 cur (hdr f) b (closed f), r', rest, w :: p :: EvDispatch m :: evs)
    end
  else
    (mkFrame (alloc f) (bufsz f) (expected f) cur (hdr f) b (closed f), r, rest, [w]).

(* RpcChannel::DescriptorReady *)
Definition descriptor_ready (sendok : bool) (f : frame) (r : rpc) (avail : list N)
  : frame * rpc * list N * list event :=
  if dead r then (f, r, avail, [])
  else if expected f =? 0 then
    let hw := EvHdrWrite (len (hdr f)) (N.min (4 - len (hdr f)) (len avail)) in
    let '(f1, rest, version, size) := read_header f avail in
    let f2 := set_exp f1 size in
    if size =? 0 then (f2, r, rest, [hw])
    else if negb (version =? PROTOCOL_VERSION) then (close_reset f2, r, rest, [hw; EvClose])
    else if MAX_BUFFER_SIZE <? size then (close_reset f2, r, rest, [hw; EvClose])
    else
      let f3 := mkFrame (alloc f2) (bufsz f2) (expected f2) 0 (hdr f2) [] (closed f2) in
      let '(f4, ret) := allocate_msg_buffer f3 size in
      let f5 := mkFrame (alloc f4) ret (expected f4) (current f4) (hdr f4) (body f4) (closed f4) in
      if ret <? size then (close_reset f5, r, rest, [hw; EvClose])
      else
        let '(f6, r6, rest6, evs6) := body_phase sendok f5 r rest in
        (f6, r6, rest6, hw :: evs6)
  else body_phase sendok f r avail.

(* the poller: while the descriptor is open and readable, call DescriptorReady *)
Fixpoint feed (fuel : nat) (sendok : bool) (f : frame) (r : rpc) (avail : list N)
  : frame * rpc * list event :=
  match avail with
  | [] => (f, r, [])
  | _ =>
    if closed f || dead r then (f, r, [])
    else match fuel with
         | O => (f, r, [EvOutOfFuel])
         | S fuel' =>
           let '(f1, r1, rest, evs) := descriptor_ready sendok f r avail in
           let '(f2, r2, evs2) := feed fuel' sendok f1 r1 rest in
           (f2, r2, evs ++ evs2)
         end
  end.

Inductive op :=
| OpChunk (bs : list N) (sendok : bool)   (* bs become readable; sendok: replies can be written *)
| OpCall (streaming : bool) (name req : list N) (sendok : bool)
                                          (* the application calls a method; sendok: Send() succeeds *)
| OpComplete (q : N) (res : sres) (sendok : bool)
                                          (* the service completes the request it was given as number q *)
| OpSetService (k : N).                   (* the application calls SetService (0 = NULL) *)

Definition step (f : frame) (r : rpc) (o : op) : frame * rpc * list event :=
  match o with
  | OpChunk bs sendok => feed (length bs) sendok f r bs
  | OpCall streaming name req sendok =>
    let '(r', evs) := call_method (closed f) sendok streaming name req r in (f, r', evs)
  | OpComplete q res sendok =>
    let '(r', evs) := request_complete (closed f) sendok r q res in (f, r', evs)
  | OpSetService k => (f, set_svc r k, [])
  end.

Fixpoint run (f : frame) (r : rpc) (ops : list op) : frame * rpc * list event :=
  match ops with
  | [] => (f, r, [])
  | o :: rest =>
    let '(f1, r1, evs) := step f r o in
    let '(f2, r2, evs2) := run f1 r1 rest in
    (f2, r2, evs ++ evs2)
  end.

(* Reference framer, written from the wire format: what a byte stream means. *)
Fixpoint frames_f (fuel : nat) (s : list N) : list msg :=
  match fuel with
  | O => []
  | S fu =>
    if len s <? 4 then []
    else
      let w := hdr_word (take 4 s) in
      let rest := drop 4 s in
      let sz := hdr_size w in
      if sz =? 0 then frames_f fu rest
      else if negb (hdr_version w =? PROTOCOL_VERSION) then []
      else if MAX_BUFFER_SIZE <? sz then []
      else if len rest <? sz then []
      else match decode (take sz rest) with
           | None => []
           | Some m => m :: frames_f fu (drop sz rest)
           end
  end.
Definition frames (s : list N) : list msg := frames_f (length s) s.

End Model.

(* projections of a trace *)
Definition dispatched (evs : list event) : list msg :=
  flat_map (fun e => match e with EvDispatch m => [m] | _ => [] end) evs.
Definition dones (evs : list event) : list (N * outcome) :=
  flat_map (fun e => match e with EvDone k o => [(k, o)] | _ => [] end) evs.
Definition write_ok (e : event) : bool :=
  match e with
  | EvWrite off n al bs => (off + n <=? bs) && (bs <=? al) && (bs <=? 1048576)
  | EvHdrWrite off n => off + n <=? 4
  | EvParse n al => (n <=? al) && (n <=? 1048576)
  | EvOutOfFuel => false
  | _ => true
  end.
Definition oob (e : event) : bool :=
  match e with
  | EvWrite off n al _ => al <? off + n
  | EvHdrWrite off n => 4 <? off + n
  | EvParse n al => al <? n
  | _ => false
  end.

(* vocabulary of the property statements *)
(* healthy: every write to the peer succeeds (no jammed or failed send) *)
Definition healthy (o : op) : bool :=
  match o with OpChunk _ b => b | OpCall _ _ _ b => b | OpComplete _ _ b => b | OpSetService _ => true end.
Definition op_bytes (o : op) : list N := match o with OpChunk bs _ => bs | _ => [] end.
(* the byte stream a script delivers, whatever its segmentation *)
Definition stream (ops : list op) : list N := flat_map op_bytes ops.
(* the streaming calls of a trace *)
Definition streams (evs : list event) : list N :=
  flat_map (fun e => match e with EvStream k _ => [k] | _ => [] end) evs.
(* how many times call k was completed *)
Definition cnt (k : N) (ds : list (N * outcome)) : nat :=
  length (filter (fun p => fst p =? k) ds).
(* the messages a trace wrote to the peer *)
Definition sends (evs : list event) : list msg :=
  flat_map (fun e => match e with EvSend m => [m] | _ => [] end) evs.
(* reply-type messages (the serving side never sends RESPONSE_CANCEL) *)
Definition is_reply (m : msg) : bool :=
  (m_type m =? RESPONSE) || (m_type m =? RESPONSE_FAILED) || (m_type m =? RESPONSE_NOT_IMPLEMENTED).
Definition is_request (m : msg) : bool := (m_type m =? REQUEST) || (m_type m =? STREAM_REQUEST).
(* the requests whose object was deleted *)
Definition freed (evs : list event) : list N :=
  flat_map (fun e => match e with EvFreeReq q => [q] | _ => [] end) evs.
Definition cntN (x : N) (l : list N) : nat := length (filter (fun y => y =? x) l).

(* ---- several channels in one process: the product machine ---- *)
Section Multi.
Variable decode : list N -> option msg.
Variable method_kind : N -> list N -> N.
Variable req_ok : N -> list N -> bool.
Variable service : N -> list N -> list N -> option sres.

Fixpoint upd {A} (i : nat) (x : A) (l : list A) : list A :=
  match l, i with
  | [], _ => []
  | _ :: r, O => x :: r
  | y :: r, S j => y :: upd j x r
  end.

(* one step of channel number (fst io); the other channels are not touched *)
Definition mstep (s : list (frame * rpc)) (io : nat * op) : list (frame * rpc) * list (nat * event) :=
  match nth_error s (fst io) with
  | None => (s, [])
  | Some (f, r) =>
    let '(f', r', evs) := step decode method_kind req_ok service f r (snd io) in
    (upd (fst io) (f', r') s, map (pair (fst io)) evs)
  end.

Fixpoint mrun (s : list (frame * rpc)) (ops : list (nat * op)) : list (frame * rpc) * list (nat * event) :=
  match ops with
  | [] => (s, [])
  | io :: rest =>
    let '(s1, evs) := mstep s io in
    let '(s2, evs2) := mrun s1 rest in
    (s2, evs ++ evs2)
  end.

(* An RpcServer: the channels of its clients live in one process; a client may hang up at any time, upon
   which the server deletes that client's channel and descriptor (None).  Anything that still refers to a
   deleted channel -- bytes (there are none), a service completing one of its requests later -- must not
   reach it: with fix 06 the completion only frees the request object. *)
Inductive sop :=
| SOp (i : nat) (o : op)      (* a step of client i's channel *)
| SHangup (i : nat).          (* client i disconnects: ChannelClosed, CleanupChannel *)

Definition sstep (s : list (option (frame * rpc))) (x : sop)
  : list (option (frame * rpc)) * list (nat * event) :=
  match x with
  | SOp i o =>
    match nth_error s i with
    | Some (Some (f, r)) =>
      let '(f', r', evs) := step decode method_kind req_ok service f r o in
      (upd i (Some (f', r')) s, map (pair i) evs)
    | _ => (s, [])
    end
  | SHangup i => (upd i None s, [])
  end.

Fixpoint srun (s : list (option (frame * rpc))) (ops : list sop)
  : list (option (frame * rpc)) * list (nat * event) :=
  match ops with
  | [] => (s, [])
  | x :: rest =>
    let '(s1, evs) := sstep s x in
    let '(s2, evs2) := srun s1 rest in
    (s2, evs ++ evs2)
  end.
End Multi.

(* the operations client i's channel sees: its own, up to its hang-up *)
Fixpoint own_ops (i : nat) (ops : list sop) : list op :=
  match ops with
  | [] => []
  | SOp j o :: rest => if Nat.eqb j i then o :: own_ops i rest else own_ops i rest
  | SHangup j :: rest => if Nat.eqb j i then [] else own_ops i rest
  end.
Fixpoint hangs_up (i : nat) (ops : list sop) : bool :=
  match ops with
  | [] => false
  | SHangup j :: rest => Nat.eqb j i || hangs_up i rest
  | _ :: rest => hangs_up i rest
  end.

(* what belongs to channel i in an interleaved history / trace *)
Definition proj {A} (i : nat) (l : list (nat * A)) : list A :=
  map snd (filter (fun p => Nat.eqb (fst p) i) l).
