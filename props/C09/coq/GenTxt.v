(* REGENERATED from common/rpc/RpcChannel.cpp on every run. Do not edit. *)
From Coq Require Import NArith List.
Import ListNotations.
Local Open Scope N_scope.
Definition SRC_SEND_FAILED : list N := [70; 97; 105; 108; 101; 100; 32; 116; 111; 32; 115; 101; 110; 100; 32; 114; 101; 113; 117; 101; 115; 116].
Definition SRC_DUPLICATE : list N := [68; 117; 112; 108; 105; 99; 97; 116; 101; 32; 114; 101; 113; 117; 101; 115; 116; 32; 102; 111; 117; 110; 100].
Definition SRC_NOT_IMPLEMENTED : list N := [78; 111; 116; 32; 73; 109; 112; 108; 101; 109; 101; 110; 116; 101; 100].
