(* C20.ProofsIpv6v4: the two embedded-IPv4 forms of the IPv6 text (::a.b.c.d, ::ffff:a.b.c.d).
   The dotted quad is handled octet by octet; the facts about one octet are established by
   running the scanners on the printed text of each of the 256 byte values (the rest of the text
   stays symbolic).                                                                              *)
From OlaBase Require Import Bytes.
From Coq Require Import ZifyBool ZifyN ZifyNat.
From C20 Require Import Libc Spec Model Ipv6 ProofsDigits ProofsInt ProofsHex ProofsText ProofsIpv6.
Local Open Scope N_scope.

Lemma byte_cases b : b <= 255 -> In b (map N.of_nat (seq 0 256)).
Proof.
  intros H. rewrite <- (N2Nat.id b). apply in_map, in_seq. lia.
Qed.

Ltac each_byte b H :=
  apply byte_cases in H; vm_compute in H;
  repeat (destruct H as [H|H]; [subst b; reflexivity|]); contradiction.

(* one octet of inet_pton4, at each of the four positions *)
Lemma pton4_octet0 b rest done : b <= 255 ->
  pton4_loop (to_dec b ++ rest) false 0 0 done = pton4_loop rest true 1 b done.
Proof. intros H. each_byte b H. Qed.
Lemma pton4_octet1 b rest done : b <= 255 ->
  pton4_loop (to_dec b ++ rest) false 1 0 done = pton4_loop rest true 2 b done.
Proof. intros H. each_byte b H. Qed.
Lemma pton4_octet2 b rest done : b <= 255 ->
  pton4_loop (to_dec b ++ rest) false 2 0 done = pton4_loop rest true 3 b done.
Proof. intros H. each_byte b H. Qed.
Lemma pton4_octet3 b rest done : b <= 255 ->
  pton4_loop (to_dec b ++ rest) false 3 0 done = pton4_loop rest true 4 b done.
Proof. intros H. each_byte b H. Qed.

Lemma pton4_ntop4 a b c d : a <= 255 -> b <= 255 -> c <= 255 -> d <= 255 ->
  inet_pton4 (inet_ntop4 [a; b; c; d]) = Some [a; b; c; d].
Proof.
  intros Ha Hb Hc Hd. unfold inet_pton4, inet_ntop4. cbn [map join]. rewrite <- ?app_assoc. cbn [app].
  rewrite (pton4_octet0 a _ _ Ha). cbn [pton4_loop]. change (is_digit 46) with false.
  cbv iota. change ((46 =? 46) && true) with true. cbv iota. change (1 =? 4) with false. cbv iota.
  rewrite (pton4_octet1 b _ _ Hb). cbn [pton4_loop]. change (is_digit 46) with false.
  cbv iota. change ((46 =? 46) && true) with true. cbv iota. change (2 =? 4) with false. cbv iota.
  rewrite (pton4_octet2 c _ _ Hc). cbn [pton4_loop]. change (is_digit 46) with false.
  cbv iota. change ((46 =? 46) && true) with true. cbv iota. change (3 =? 4) with false. cbv iota.
  rewrite <- (app_nil_r (to_dec d)). rewrite (pton4_octet3 d _ _ Hd). reflexivity.
Qed.

(* inet_pton6 reaching the first '.' of a dotted quad hands the whole token to inet_pton4 *)
Definition v4_result (ct : str) (acc : list N) (cp : option nat) : option (list N * option nat) :=
  match inet_pton4 ct with
  | Some [a; b; c; d] => Some (acc ++ [a * 256 + b; c * 256 + d], cp)
  | _ => None
  end.
Lemma pton6_dot_nil b rest ct cp : b <= 255 ->
  pton6_loop (to_dec b ++ 46 :: rest) ct [] cp 0 0 = v4_result ct [] cp.
Proof. intros H. each_byte b H. Qed.
Lemma pton6_dot_ffff b rest ct cp : b <= 255 ->
  pton6_loop (to_dec b ++ 46 :: rest) ct [65535] cp 0 0 = v4_result ct [65535] cp.
Proof. intros H. each_byte b H. Qed.

Lemma word_split w : word_ok w ->
  w / 256 <= 255 /\ w mod 256 <= 255 /\ w / 256 * 256 + w mod 256 = w.
Proof.
  unfold word_ok. intros H. assert (w / 256 < 256) by (apply N.div_lt_upper_bound; lia).
  assert (w mod 256 < 256) by (apply N.mod_lt; lia). pose proof (N.div_mod w 256 ltac:(lia)). lia.
Qed.

Lemma ntop4_dot a b c d : exists r, inet_ntop4 [a; b; c; d] = to_dec a ++ 46 :: r.
Proof. eexists. unfold inet_ntop4. cbn [map join]. rewrite <- ?app_assoc. reflexivity. Qed.

Lemma words_roundtrip_v4 ws : length ws = 8%nat -> Forall word_ok ws -> v4_form ws = true ->
  inet_pton6 (words_text ws) = Some ws.
Proof.
  intros Hl Hf Hv. unfold words_text. rewrite Hv. unfold v4_form in Hv.
  destruct (best_run ws) as [[b l]|] eqn:Eb; [|discriminate].
  destruct (best_run_spec ws b l Hl Eb) as (_ & _ & Hws).
  apply andb_prop in Hv as [Hb0 Hv]. apply Nat.eqb_eq in Hb0. subst b. cbn [firstn plus app] in Hws.
  destruct ws as [|w0 [|w1 [|w2 [|w3 [|w4 [|w5 [|w6 [|w7 [|? ?]]]]]]]]]; try discriminate.
  assert (word_ok w6 /\ word_ok w7) as [K6 K7].
  { rewrite Forall_forall in Hf. split; apply Hf; cbn; tauto. }
  cbn [skipn bytes_of_words flat_map app nth] in *.
  destruct (word_split _ K6) as (HA & HB & E6). destruct (word_split _ K7) as (HC & HD & E7).
  set (A := w6 / 256) in *. set (B := w6 mod 256) in *. set (C := w7 / 256) in *. set (D := w7 mod 256) in *.
  pose proof (pton4_ntop4 A B C D HA HB HC HD) as P4.
  destruct (ntop4_dot A B C D) as (r & Er).
  apply orb_prop in Hv as [V6|V5].
  - apply Nat.eqb_eq in V6. subst l. cbn [Nat.eqb app].
    rewrite inet_pton6_dcolon. rewrite Er at 1. rewrite (pton6_dot_nil A r _ _ HA).
    unfold v4_result. rewrite P4. cbn [app finish6 length Nat.eqb firstn skipn Nat.sub repeat].
    rewrite E6, E7. cbn [repeat app] in Hws. exact (eq_sym (f_equal Some Hws)).
  - apply andb_prop in V5 as [V5 Hff]. apply Nat.eqb_eq in V5. apply N.eqb_eq in Hff. subst l. cbn [Nat.eqb].
    assert (forall V, 58 :: 58 :: (to_hex 65535 ++ [58]) ++ V = 58 :: 58 :: to_hex 65535 ++ 58 :: V) as Esh
      by (intros; reflexivity).
    rewrite Esh. rewrite inet_pton6_dcolon.
    destruct (loop_group 65535 (58 :: inet_ntop4 [A; B; C; D]) (to_hex 65535 ++ 58 :: inet_ntop4 [A; B; C; D])
                [] (Some 0%nat) ltac:(unfold word_ok; lia)) as (k & Hk & ->).
    rewrite loop_colon; [|exact Hk|cbn; lia|rewrite Er; destruct (to_dec A); discriminate].
    cbn [app]. rewrite Er at 1. rewrite (pton6_dot_ffff A r _ _ HA).
    unfold v4_result. rewrite P4. cbn [app finish6 length Nat.eqb firstn skipn Nat.sub repeat].
    rewrite E6, E7. cbn [repeat app skipn] in Hws.
    assert (w0 = 0 /\ w1 = 0 /\ w2 = 0 /\ w3 = 0 /\ w4 = 0) as (Z0 & Z1 & Z2 & Z3 & Z4) by (inversion Hws; auto).
    rewrite Z0, Z1, Z2, Z3, Z4, Hff. reflexivity.
Qed.

Lemma ipv6_libc_roundtrip a : length a = 16%nat -> bytes_ok a = true ->
  ipv6_of_text (ipv6_to_text a) = Some a.
Proof.
  intros Hl Hb. destruct (words_of_bytes_16 a Hl Hb) as (Hbw & Hl8 & Hw).
  unfold ipv6_of_text, ipv6_to_text. destruct (v4_form (words_of_bytes a)) eqn:Hv.
  - rewrite (words_roundtrip_v4 _ Hl8 Hw Hv), Hbw. reflexivity.
  - rewrite (words_roundtrip _ Hl8 Hw Hv), Hbw. reflexivity.
Qed.

Lemma words_text_nonul_v4 ws : v4_form ws = true ->
  words_text ws <> [] /\ forallb nonul (words_text ws) = true.
Proof.
  intros Hv. unfold words_text. rewrite Hv. unfold v4_form in Hv.
  destruct (best_run ws) as [[b l]|]; [|discriminate]. split; [discriminate|].
  rewrite !forallb_app. apply andb_true_intro. split; [reflexivity|]. apply andb_true_intro. split.
  - destruct (l =? 5)%nat; reflexivity.
  - unfold inet_ntop4. apply forallb_forall. intros c Hc.
    assert (Forall (fun c => c <> 0) (join [46] (map to_dec (bytes_of_words (skipn 6 ws))))) as HF.
    { apply join_forall; [discriminate|]. apply Forall_forall. intros x Hx.
      apply in_map_iff in Hx as (w & <- & _). destruct (to_dec_spec w) as (_ & Hd & _).
      apply Forall_forall. intros d Hdin. rewrite forallb_forall in Hd. specialize (Hd d Hdin).
      unfold is_digit in Hd. lia. }
    rewrite Forall_forall in HF. unfold nonul. apply negb_true_iff, N.eqb_neq, HF, Hc.
Qed.

Lemma ipv6_roundtrip a : length a = 16%nat -> bytes_ok a = true ->
  ipv6_of_text (ipv6_to_text a) = Some a /\ ipv6_from_string (ipv6_to_text a) = Some a.
Proof.
  intros Hl Hb. destruct (v4_form (words_of_bytes a)) eqn:Hv.
  - pose proof (ipv6_libc_roundtrip a Hl Hb) as H1. split; [exact H1|].
    destruct (words_text_nonul_v4 _ Hv) as (Hne & Hnn).
    unfold ipv6_from_string. fold (ipv6_to_text a) in Hne, Hnn.
    destruct (ipv6_to_text a) as [|c r] eqn:E; [congruence|].
    rewrite cstr_nonul_id by exact Hnn. exact H1.
  - apply ipv6_roundtrip_nonv4; assumption.
Qed.
