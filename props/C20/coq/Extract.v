From Coq Require Extraction.
From Coq Require Import ExtrOcamlBasic.
From OlaBase Require Import Bytes.
From C20 Require Import Libc Model Ipv6.
Extraction Language OCaml.
Extraction "model.ml" io_witness N.div_eucl N.add N.mul N.pow
  cstr strtoull strtoll strtoul strtol atoi end_offset is_hex_char
  inet_pton4 inet_ntop4 uuid_parse uuid_unparse
  string_split string_trim string_to_bool string_to_bool_tolerant
  string_to_u64 string_to_u32 string_to_u16 string_to_u8
  string_to_i64 string_to_i32 string_to_i16 string_to_i8
  hex_to_u64 hex_to_u32 hex_to_u16 hex_to_u8 hex_to_i64 hex_to_i32 hex_to_i16 hex_to_i8
  prefixed_hex int_to_string_u int_to_string_s to_hex_w
  uid_from_string uid_to_string mac_from_string mac_to_string
  dmx_set_from_string dmx_to_string dmx_text_in_finding
  ipv4_from_string ipv4_to_string sockaddr_from_string sockaddr_to_string
  cid_from_string cid_to_string nil_uuid stream_seq
  ipv6_to_text ipv6_of_text ipv6_from_string v4_form words_of_bytes or_default dmx_step dmx_frame dmx_new.
