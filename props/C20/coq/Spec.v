(* C20.Spec: what a text DENOTES, written from the property text and independently of the
   scanners in Libc.v / Model.v (positional notation: sum of digit * base^position), and the
   grammars the parsers document.  Only character classes (is_space/is_digit/is_hex_char, three
   comparisons each) are shared with Libc.v.                                                   *)
From OlaBase Require Import Bytes.
From C20 Require Import Libc.
Local Open Scope N_scope.

(* value of a digit character 0-9 A-F a-f *)
Definition char_val (c : N) : N :=
  if c <? 58 then c - 48 else if c <? 97 then c - 55 else c - 87.

(* positional value of a digit list given LEAST significant digit first:
   d0 + base*(d1 + base*(d2 + ...)) = sum d_i * base^i *)
Fixpoint pos_value (base : N) (lsd_first : list N) : N :=
  match lsd_first with
  | [] => 0
  | d :: r => d + base * pos_value base r
  end.

(* value of a digit text written most significant digit first *)
Definition text_value (base : N) (cs : str) : N := pos_value base (rev (map char_val cs)).

Definition no_digit_first (rest : str) : Prop :=
  match rest with [] => True | c :: _ => is_digit c = false end.

(* The decimal grammar of StringToInt:  white-space*  ('+' | '-')?  digit+  rest,
   where [rest] does not continue the number.  [neg] is the sign, [m] the magnitude denoted.    *)
Definition dec_number (p : str) (neg : bool) (m : N) : Prop :=
  exists ws sg ds,
    p = ws ++ sg ++ ds /\
    forallb is_space ws = true /\
    ((sg = [] /\ neg = false) \/ (sg = [43] /\ neg = false) \/ (sg = [45] /\ neg = true)) /\
    ds <> [] /\ forallb is_digit ds = true /\
    m = text_value 10 ds.
Definition dec_form (t : str) (neg : bool) (m : N) (rest : str) : Prop :=
  exists p, t = p ++ rest /\ dec_number p neg m /\ no_digit_first rest.

Definition signed_of (neg : bool) (m : N) : Z := if neg then (- Z.of_N m)%Z else Z.of_N m.

(* unsigned decimal: accepted with value v *)
Definition udec_spec (max : N) (strict : bool) (t : str) (v : N) : Prop :=
  exists rest, dec_form t false v rest /\ v <= max /\ (strict = true -> rest = []).
(* signed decimal *)
Definition sdec_spec (lo hi : Z) (strict : bool) (t : str) (z : Z) : Prop :=
  exists neg m rest, dec_form t neg m rest /\ z = signed_of neg m /\ (lo <= z <= hi)%Z /\
                     (strict = true -> rest = []).

(* hex grammar of HexStringToInt: hexdigit+ and nothing else *)
Definition hex_form (t : str) : Prop := t <> [] /\ forallb is_hex_char t = true.
Definition uhex_spec (max : N) (t : str) (v : N) : Prop :=
  hex_form t /\ v = text_value 16 t /\ v <= max.
(* signed overloads read the text as the w-bit two's complement bit pattern *)
Definition shex_spec (w : N) (t : str) (z : Z) : Prop :=
  hex_form t /\ text_value 16 t < 2 ^ w /\
  (- Z.of_N (2 ^ (w - 1)) <= z < Z.of_N (2 ^ (w - 1)))%Z /\
  (z mod Z.of_N (2 ^ w) = Z.of_N (text_value 16 t))%Z.

Definition count_char (c : N) (s : str) : nat := length (filter (N.eqb c) s).
Definition count_chars (cs : str) (s : str) : nat := length (filter (fun x => existsb (N.eqb x) cs) s).
