(* C20.Model: executable model of OLA's text <-> value conversions, function by function.
   Sources: common/utils/StringUtils.cpp, include/ola/StringUtils.h, common/strings/Format.cpp,
   include/ola/strings/Format{,Private}.h, common/rdm/UID.cpp, include/ola/rdm/UID.h,
   common/network/{MACAddress,IPV4Address,IPV6Address,SocketAddress}.cpp,
   common/utils/DmxBuffer.cpp (SetFromString/ToString), libs/acn/CIDImpl.cpp.
   StringToInt / HexStringToInt / IPV4SocketAddress::FromString are modelled AS FIXED by
   props/C20/fixes/01..03 (the unfixed tree diverges from this model: corpus.txt).
   DmxBuffer::SetFromString is modelled as it is (atoi + uint8_t truncation, finding
   C20-dmx-atoi-truncation; the repository's own unit test pins that behaviour).
   Strings are lists of bytes (N); std::string may contain NUL, libc sees [cstr].           *)
From OlaBase Require Import Bytes.
From C20 Require Import Libc.
Local Open Scope N_scope.

Definition UINT8_MAX : N := 255.
Definition UINT16_MAX : N := 65535.
Definition UINT32_MAX : N := 4294967295.
Definition UINT64_MAX : N := 18446744073709551615.
Definition is_empty {A} (l : list A) : bool := match l with [] => true | _ => false end.

(* ------------------------------------------------------------------ StringSplit / StringTrim *)
(* StringSplit(input, tokens, delimiters): one token per delimiter occurrence plus one.
   (find_first_of/substr loop; the "end_offset + 1 > size" arm of the code is dead because
   end_offset < size.)  [cur] is the current token, reversed.                                *)
Fixpoint split_on (isdelim : N -> bool) (s cur : str) : list str :=
  match s with
  | [] => [rev cur]
  | c :: r => if isdelim c then rev cur :: split_on isdelim r [] else split_on isdelim r (c :: cur)
  end.
Definition mem_char (set : str) (c : N) : bool := existsb (N.eqb c) set.
Definition string_split (delims : str) (input : str) : list str := split_on (mem_char delims) input [].

(* StringTrim: characters_to_trim = " \n\r\t" *)
Definition is_trim (c : N) : bool := (c =? 32) || (c =? 10) || (c =? 13) || (c =? 9).
Fixpoint drop_while (p : N -> bool) (s : str) : str :=
  match s with
  | c :: r => if p c then drop_while p r else s
  | [] => []
  end.
Definition string_trim (s : str) : str :=
  match drop_while is_trim s with
  | [] => []                                             (* start == npos: clear() *)
  | s1 => rev (drop_while is_trim (rev s1))              (* substr(start, end - start + 1) *)
  end.

(* ToLower: std::tolower in the "C" locale *)
Definition lower_char (c : N) : N := if (65 <=? c) && (c <=? 90) then c + 32 else c.
Definition to_lower (s : str) : str := map lower_char s.

Fixpoint str_eqb (a b : str) : bool :=
  match a, b with
  | [], [] => true
  | x :: a', y :: b' => (x =? y) && str_eqb a' b'
  | _, _ => false
  end.

(* ------------------------------------------------------------------ StringToBool(Tolerant) *)
Definition s_true : str := [116;114;117;101].
Definition s_t : str := [116].
Definition s_1 : str := [49].
Definition s_false : str := [102;97;108;115;101].
Definition s_f : str := [102].
Definition s_0 : str := [48].
Definition s_on : str := [111;110].
Definition s_enable : str := [101;110;97;98;108;101].
Definition s_enabled : str := [101;110;97;98;108;101;100].
Definition s_off : str := [111;102;102].
Definition s_disable : str := [100;105;115;97;98;108;101].
Definition s_disabled : str := [100;105;115;97;98;108;101;100].

Definition string_to_bool (value : str) : option bool :=
  let lc := to_lower value in
  if str_eqb lc s_true || str_eqb lc s_t || str_eqb lc s_1 then Some true
  else if str_eqb lc s_false || str_eqb lc s_f || str_eqb lc s_0 then Some false
  else None.
Definition string_to_bool_tolerant (value : str) : option bool :=
  match string_to_bool value with
  | Some b => Some b
  | None =>
    let lc := to_lower value in
    if str_eqb lc s_on || str_eqb lc s_enable || str_eqb lc s_enabled then Some true
    else if str_eqb lc s_off || str_eqb lc s_disable || str_eqb lc s_disabled then Some false
    else None
  end.

(* ------------------------------------------------------------------ StringToInt (fixed code) *)
(* bool StringToInt(const string &value, uint64_t *output, bool strict)  [fix 01] *)
Definition first_is_minus (c : str) : bool :=
  match skip_space c with
  | x :: _ => x =? 45
  | [] => false
  end.
Definition string_to_u64 (strict : bool) (value : str) : option N :=
  if is_empty value then None else
  let c := cstr value in                                   (* value.data() as libc sees it *)
  if first_is_minus c then None else                       (* skip isspace, then first char is '-' *)
  let '(l, erange, rest) := strtoull 10 c in
  let k := end_offset c rest in                            (* end_ptr - value.data() *)
  if erange then None                                      (* errno != 0 *)
  else if k =? 0 then None                                 (* end_ptr == value.data() *)
  else if strict && negb (k =? len value) then None        (* end_ptr != data() + size() *)
  else if UINT64_MAX <? l then None
  else Some l.

Definition narrow_u (max : N) (r : option N) : option N :=
  match r with
  | Some v => if max <? v then None else Some v
  | None => None
  end.
Definition string_to_u32 (strict : bool) (value : str) := narrow_u UINT32_MAX (string_to_u64 strict value).
Definition string_to_u16 (strict : bool) (value : str) := narrow_u UINT16_MAX (string_to_u64 strict value).
Definition string_to_u8 (strict : bool) (value : str) := narrow_u UINT8_MAX (string_to_u64 strict value).

(* bool StringToInt(const string &value, int64_t *output, bool strict)  [fix 01] *)
Definition INT64_MIN : Z := (-9223372036854775808)%Z.
Definition INT64_MAX : Z := 9223372036854775807%Z.
Definition string_to_i64 (strict : bool) (value : str) : option Z :=
  if is_empty value then None else
  let c := cstr value in
  let '(l, erange, rest) := strtoll 10 c in
  let k := end_offset c rest in
  if erange then None
  else if k =? 0 then None
  else if strict && negb (k =? len value) then None
  else if (l <? INT64_MIN)%Z || (INT64_MAX <? l)%Z then None
  else Some l.
Definition narrow_s (lo hi : Z) (r : option Z) : option Z :=
  match r with
  | Some v => if (v <? lo)%Z || (hi <? v)%Z then None else Some v
  | None => None
  end.
Definition string_to_i32 (strict : bool) (value : str) :=
  narrow_s (-2147483648)%Z 2147483647%Z (string_to_i64 strict value).
Definition string_to_i16 (strict : bool) (value : str) :=
  narrow_s (-32768)%Z 32767%Z (string_to_i64 strict value).
Definition string_to_i8 (strict : bool) (value : str) :=
  narrow_s (-128)%Z 127%Z (string_to_i64 strict value).

(* StringToIntOrDefault<T>(value, alternative, strict) *)
Definition or_default {A} (r : option A) (alt : A) : A := match r with Some v => v | None => alt end.

(* ------------------------------------------------------------------ HexStringToInt (fixed code) *)
(* uint64_t overload [fix 02]: non-empty, only [0-9a-fA-F], strtoull(.,16) without ERANGE *)
Definition hex_to_u64 (value : str) : option N :=
  if is_empty value then None else
  if negb (forallb is_hex_char value) then None else      (* find_first_not_of(...) != npos *)
  let '(l, erange, _) := strtoull 16 (cstr value) in
  if erange then None else Some l.
Definition hex_to_u32 (value : str) : option N := narrow_u UINT32_MAX (hex_to_u64 value).
Definition hex_to_u16 (value : str) : option N := narrow_u UINT16_MAX (hex_to_u32 value).
Definition hex_to_u8 (value : str) : option N := narrow_u UINT8_MAX (hex_to_u32 value).
(* signed overloads: the text is the two's complement bit pattern (unit tests: "ff" -> int8 -1) *)
Definition hex_to_i64 (value : str) : option Z :=
  match hex_to_u64 value with Some t => Some (wrap_signed 64 (Z.of_N t)) | None => None end.
Definition hex_to_i32 (value : str) : option Z :=
  match hex_to_u32 value with Some t => Some (wrap_signed 32 (Z.of_N t)) | None => None end.
Definition hex_to_i16 (value : str) : option Z :=
  match hex_to_i32 value with
  | Some t => if (t <? 0)%Z || (65535 <? t)%Z then None else Some (wrap_signed 16 t)
  | None => None
  end.
Definition hex_to_i8 (value : str) : option Z :=
  match hex_to_i32 value with
  | Some t => if (t <? 0)%Z || (255 <? t)%Z then None else Some (wrap_signed 8 t)
  | None => None
  end.

(* PrefixedHexStringToInt<T>: "0x"/"0X" then HexStringToInt *)
Definition prefixed_hex {A} (hex : str -> option A) (input : str) : option A :=
  match input with
  | z :: x :: r => if (z =? 48) && ((x =? 120) || (x =? 88)) then hex r else None
  | _ => None
  end.

(* ------------------------------------------------------------------ IntToString / ToHex *)
Definition int_to_string_u (v : N) : str := to_dec v.        (* ostringstream << uint64_t *)
Definition int_to_string_s (v : Z) : str := to_dec_z v.      (* ostringstream << int64_t *)

(* ToHex(T v, prefix): "0x" + setw(numeric_limits<T>::digits / 4) hex fill '0' of _HexCast(v).
   numeric_limits<signed T>::digits is w-1, so signed types are padded to one digit less.    *)
Definition to_hex_w (w : N) (signed prefix : bool) (v : Z) : str :=
  let width := N.to_nat ((if signed then w - 1 else w) / 4) in
  (if prefix then [48; 120] else []) ++ pad_left width 48 (to_hex (wrap_unsigned w v)).

(* ------------------------------------------------------------------ UID *)
(* UID::FromString: exactly "mmmm:dddddddd" *)
Definition uid_from_string (uid : str) : option (N * N) :=
  match string_split [58] uid with
  | [t0; t1] =>
    if negb ((len t0 =? 4) && (len t1 =? 8)) then None else
    match hex_to_u16 t0 with
    | None => None
    | Some esta =>
      match hex_to_u32 t1 with
      | None => None
      | Some dev => Some (esta, dev)
      end
    end
  | _ => None
  end.
Definition uid_to_string (u : N * N) : str :=
  pad_left 4 48 (to_hex (fst u)) ++ [58] ++ pad_left 8 48 (to_hex (snd u)).

(* ------------------------------------------------------------------ MACAddress *)
Fixpoint all_some {A} (l : list (option A)) : option (list A) :=
  match l with
  | [] => Some []
  | Some x :: r => match all_some r with Some t => Some (x :: t) | None => None end
  | None :: _ => None
  end.
(* StringToEther: six ':' or '.' separated hex octets *)
Definition mac_from_string (address : str) : option (list N) :=
  let tokens := string_split [58; 46] address in
  if negb (len tokens =? 6) then None else all_some (map hex_to_u8 tokens).
Definition mac_to_string (m : list N) : str := join [58] (map hex2 m).

(* ------------------------------------------------------------------ DmxBuffer text form *)
Definition DMX_UNIVERSE_SIZE : nat := 512.
(* m_data[i] = atoi(iter->data());  int -> uint8_t conversion is modulo 256 *)
Definition dmx_item (tok : str) : N := wrap_unsigned 8 (atoi (cstr tok)).
Definition dmx_set_from_string (input : str) : list N :=
  if is_empty input then [] else
  map dmx_item (firstn DMX_UNIVERSE_SIZE (string_split [44] input)).
Definition dmx_to_string (d : list N) : str := join [44] (map to_dec d).

(* ------------------------------------------------------------------ IPv4 / socket address / CID
   inet_pton / inet_ntop / uuid_parse / uuid_unparse are parameters here: the theorems take
   their behaviour as explicit hypotheses; the correspondence instantiates them with the
   Libc models (validated against the real functions in the harness).                       *)
Section External.
  Variable pton : str -> option (list N).
  Variable ntop : list N -> str.

  (* IPV4StringToAddress / IPV4Address::FromString *)
  Definition ipv4_from_string (address : str) : option (list N) :=
    if is_empty address then None else pton (cstr address).
  Definition ipv4_to_string (a : list N) : str := ntop a.

  Fixpoint find_char (c : N) (s : str) : option nat :=
    match s with
    | [] => None
    | x :: r => if x =? c then Some O else option_map S (find_char c r)
    end.
  (* IPV4SocketAddress::FromString [fix 03: the port is parsed in strict mode] *)
  Definition sockaddr_from_string (input : str) : option (list N * N) :=
    match find_char 58 input with
    | None => None
    | Some pos =>
      match ipv4_from_string (firstn pos input) with
      | None => None
      | Some a =>
        match string_to_u16 true (skipn (S pos) input) with
        | None => None
        | Some port => Some (a, port)
        end
      end
    end.
  Definition sockaddr_to_string (sa : list N * N) : str :=
    ipv4_to_string (fst sa) ++ [58] ++ to_dec (snd sa).
End External.

Section ExternalUuid.
  Variable parse : str -> option (list N).
  Variable unparse : list N -> str.
  Definition nil_uuid : list N := repeat 0 16.
  (* CIDImpl::FromString: a text libuuid refuses becomes the nil CID *)
  Definition cid_from_string (cid : str) : list N :=
    match parse (cstr cid) with Some u => u | None => nil_uuid end.
  Definition cid_to_string (u : list N) : str := unparse u.
End ExternalUuid.

(* ------------------------------------------------------------------ instance checkers used by
   the driver: the value an accepted decimal / hex text denotes, computed independently of the
   scanners above (see Spec.v) is compared in Proofs; here only the known-finding region.     *)
(* a DMX item is inside finding C20-dmx-atoi-truncation when the number atoi() sees is
   outside 0..255, so that the stored slot is a truncation of it *)
Definition dmx_item_truncated (tok : str) : bool :=
  let '(m, neg, _) := strto_core 10 (cstr tok) in (255 <? m) || (neg && negb (m =? 0)).
Definition dmx_text_in_finding (input : str) : bool :=
  if is_empty input then false else
  existsb dmx_item_truncated (firstn DMX_UNIVERSE_SIZE (string_split [44] input)).

(* ------------------------------------------------------------------ operator<< on a caller's stream
   Every value type's operator<< is  out << value.ToString() : the printers are pure functions of
   the value, so on a stream carrying arbitrary format state (adjustment, fill, pending width,
   base) the value appears as its ToString() text inserted as ONE string field (padded to the
   pending width with the caller's fill on the caller's side, width then reset), and the stream's
   state is unchanged: a following integer is printed in the caller's base, and a later setw()
   field uses the caller's fill and adjustment.  [v] is the ToString() text of the value.
   Written sequence:  setw(w) << value << '|' << n << '|' << value << '|' << setw(12) << n      *)
Definition stream_field (w : nat) (fill : N) (left : bool) (s : str) : str :=
  if left then s ++ repeat fill (w - length s) else pad_left w fill s.
Definition stream_seq (w : nat) (fill : N) (left hexbase : bool) (n : N) (v : str) : str :=
  let num := if hexbase then to_hex n else to_dec n in
  stream_field w fill left v ++ [124] ++ num ++ [124] ++ v ++ [124] ++ stream_field 12 fill left num.

(* ------------------------------------------------------------------ a long-lived DmxBuffer
   The object as SetFromString sees it: the 512-byte block it owns (whatever earlier calls left in
   it) and m_length.  SetFromString writes m_data[i] for every field i < 512 (an empty field is
   atoi("") = 0 and IS written) and sets m_length to the number of fields; the frame is the first
   m_length bytes.  Set(data, n) and SetRangeToValue(0, v, n) are the other writers the
   correspondence uses to make the block dirty.                                                 *)
Definition dmx_obj : Type := (list N * nat)%type.
Definition dmx_new : dmx_obj := (repeat 0 DMX_UNIVERSE_SIZE, 0%nat).
Definition overwrite (old new : list N) : list N := new ++ skipn (length new) old.
Inductive dmx_op : Type :=
| OpText (input : str)            (* SetFromString(input) *)
| OpSet (data : list N)           (* Set(data, length data), length data <= 512 *)
| OpRange (v : N) (n : nat).      (* SetRangeToValue(0, v, n), n <= 512 *)
Definition dmx_step (o : dmx_obj) (op : dmx_op) : dmx_obj :=
  let '(block, len) := o in
  match op with
  | OpText input =>
    if is_empty input then (block, 0%nat)
    else let items := map dmx_item (firstn DMX_UNIVERSE_SIZE (string_split [44] input)) in
         (overwrite block items, length items)
  | OpSet data => let d := firstn DMX_UNIVERSE_SIZE data in (overwrite block d, length d)
  | OpRange v n => let k := Nat.min n DMX_UNIVERSE_SIZE in (overwrite block (repeat v k), Nat.max len k)
  end.
Definition dmx_frame (o : dmx_obj) : list N := firstn (snd o) (fst o).
Definition dmx_run (ops : list dmx_op) : dmx_obj := fold_left dmx_step ops dmx_new.
