(* C20.ProofsUuid: the uuid_parse model accepts exactly 8-4-4-4-12 hex digits (either case) with
   hyphens, and returns the 16 bytes they denote; hence CID::FromString exactly.                 *)
From OlaBase Require Import Bytes.
From Coq Require Import ZifyBool ZifyN ZifyNat.
From C20 Require Import Libc Spec Model ProofsDigits ProofsInt ProofsHex ProofsText.
Local Open Scope N_scope.

(* the bytes denoted by a text of hex digit pairs *)
Fixpoint pair_bytes (s : str) : list N :=
  match s with
  | a :: b :: r => char_val a * 16 + char_val b :: pair_bytes r
  | _ => []
  end.
Definition uuid_form (s : str) (u : list N) : Prop :=
  exists g1 g2 g3 g4 g5,
    s = g1 ++ 45 :: g2 ++ 45 :: g3 ++ 45 :: g4 ++ 45 :: g5 /\
    length g1 = 8%nat /\ length g2 = 4%nat /\ length g3 = 4%nat /\ length g4 = 4%nat /\ length g5 = 12%nat /\
    forallb is_hex_char (g1 ++ g2 ++ g3 ++ g4 ++ g5) = true /\
    u = pair_bytes (g1 ++ g2 ++ g3 ++ g4 ++ g5).

Lemma digit_in_16_inv a x : digit_in 16 a = Some x -> is_hex_char a = true /\ x = char_val a.
Proof.
  intros H. assert (is_hex_char a = true) as Hh.
  { unfold digit_in, digit_of in H. unfold is_hex_char, is_digit in *.
    destruct ((48 <=? a) && (a <=? 57)) eqn:E1; [reflexivity|].
    destruct ((97 <=? a) && (a <=? 122)) eqn:E2.
    - destruct (a - 87 <? 16) eqn:E3; [|discriminate]. lia.
    - destruct ((65 <=? a) && (a <=? 90)) eqn:E4; [|discriminate].
      destruct (a - 55 <? 16) eqn:E3; [|discriminate]. lia. }
  split; [exact Hh|]. rewrite (digit_in_16 a Hh) in H. congruence.
Qed.

Lemma list_ind2 {A} (P : list A -> Prop) :
  P [] -> (forall a, P [a]) -> (forall a b r, P r -> P (a :: b :: r)) -> forall l, P l.
Proof.
  intros H0 H1 H2. fix IH 1. intros [|a [|b r]]; [exact H0|exact (H1 a)|exact (H2 a b r (IH r))].
Qed.

Lemma hex_pairs_spec s : forall u, hex_pairs s = Some u <->
  (forallb is_hex_char s = true /\ Nat.even (length s) = true /\ u = pair_bytes s).
Proof.
  induction s as [| a | a b r IH] using list_ind2; intros u.
  - cbn. split; [intros H; inversion H; auto|intros (_ & _ & ->); reflexivity].
  - cbn. split; [discriminate|intros (_ & H & _); discriminate].
  - cbn [hex_pairs forallb length pair_bytes Nat.even].
    destruct (digit_in 16 a) as [x|] eqn:Ea.
    + destruct (digit_in_16_inv a x Ea) as (Ha & ->).
      destruct (digit_in 16 b) as [y|] eqn:Eb.
      * destruct (digit_in_16_inv b y Eb) as (Hb & ->). rewrite Ha, Hb. cbn [andb].
        destruct (hex_pairs r) as [t|] eqn:Er.
        -- destruct (proj1 (IH t) eq_refl) as (H1 & H2 & ->). rewrite H1, H2. split.
           ++ intros H. inversion H. auto.
           ++ intros (_ & _ & ->). reflexivity.
        -- split; [discriminate|]. intros (H1 & H2 & _).
           pose proof (proj2 (IH (pair_bytes r)) (conj H1 (conj H2 eq_refl))) as Hc. discriminate Hc.
      * split; [discriminate|]. intros (H & _). apply andb_prop in H as [_ H]. apply andb_prop in H as [Hb _].
        rewrite (digit_in_16 b Hb) in Eb. discriminate.
    + split; [discriminate|]. intros (H & _). apply andb_prop in H as [Ha _].
      rewrite (digit_in_16 a Ha) in Ea. discriminate.
Qed.

Lemma uuid_parse_explicit c0 c1 c2 c3 c4 c5 c6 c7 c8 c9 c10 c11 c12 c13 c14 c15 c16 c17 c18 c19 c20 c21 c22 c23 c24 c25 c26 c27 c28 c29 c30 c31 c32 c33 c34 c35 :
  uuid_parse [c0; c1; c2; c3; c4; c5; c6; c7; c8; c9; c10; c11; c12; c13; c14; c15; c16; c17; c18; c19; c20; c21; c22; c23; c24; c25; c26; c27; c28; c29; c30; c31; c32; c33; c34; c35] =
  if (c8 =? 45) && (c13 =? 45) && (c18 =? 45) && (c23 =? 45) then hex_pairs [c0; c1; c2; c3; c4; c5; c6; c7; c9; c10; c11; c12; c14; c15; c16; c17; c19; c20; c21; c22; c24; c25; c26; c27; c28; c29; c30; c31; c32; c33; c34; c35] else None.
Proof. reflexivity. Qed.

Ltac explicit g :=
  repeat (destruct g as [|? g]; [try discriminate|]); try discriminate.

Lemma uuid_parse_exact s u : uuid_parse s = Some u <-> uuid_form s u.
Proof.
  split.
  - intros H.
    assert (length s = 36%nat) as Hl.
    { unfold uuid_parse in H. destruct (len s =? 36) eqn:E; [|discriminate].
      apply N.eqb_eq in E. unfold len in E. lia. }
    destruct s as [|c0 [|c1 [|c2 [|c3 [|c4 [|c5 [|c6 [|c7 [|c8 [|c9 [|c10 [|c11 [|c12 [|c13 [|c14 [|c15 [|c16 [|c17 [|c18 [|c19 [|c20 [|c21 [|c22 [|c23 [|c24 [|c25 [|c26 [|c27 [|c28 [|c29 [|c30 [|c31 [|c32 [|c33 [|c34 [|c35 s]]]]]]]]]]]]]]]]]]]]]]]]]]]]]]]]]]]]; try discriminate Hl. destruct s; [|discriminate Hl].
    rewrite uuid_parse_explicit in H.
    destruct ((c8 =? 45) && (c13 =? 45) && (c18 =? 45) && (c23 =? 45)) eqn:Ed; [|discriminate].
    apply andb_prop in Ed as [Ed E23]. apply andb_prop in Ed as [Ed E18]. apply andb_prop in Ed as [E8 E13].
    apply N.eqb_eq in E8, E13, E18, E23. subst c8 c13 c18 c23.
    apply hex_pairs_spec in H as (Hh & _ & Hu).
    exists [c0; c1; c2; c3; c4; c5; c6; c7], [c9; c10; c11; c12], [c14; c15; c16; c17], [c19; c20; c21; c22], [c24; c25; c26; c27; c28; c29; c30; c31; c32; c33; c34; c35].
    repeat split; assumption.
  - intros (g1 & g2 & g3 & g4 & g5 & -> & L1 & L2 & L3 & L4 & L5 & Hh & ->).
    destruct g1 as [|p0 [|p1 [|p2 [|p3 [|p4 [|p5 [|p6 [|p7 [|? ?]]]]]]]]]; try discriminate L1.
    destruct g2 as [|q0 [|q1 [|q2 [|q3 [|? ?]]]]]; try discriminate L2.
    destruct g3 as [|r0 [|r1 [|r2 [|r3 [|? ?]]]]]; try discriminate L3.
    destruct g4 as [|t0 [|t1 [|t2 [|t3 [|? ?]]]]]; try discriminate L4.
    destruct g5 as [|w0 [|w1 [|w2 [|w3 [|w4 [|w5 [|w6 [|w7 [|w8 [|w9 [|w10 [|w11 [|? ?]]]]]]]]]]]]]; try discriminate L5.
    cbn [app] in *. rewrite uuid_parse_explicit. change (45 =? 45) with true. cbn [andb].
    apply hex_pairs_spec. split; [exact Hh|split; reflexivity].
Qed.

Lemma pair_bytes_ok s : forallb is_hex_char s = true ->
  Forall (fun b => b <= 255) (pair_bytes s) /\ length (pair_bytes s) = Nat.div2 (length s).
Proof.
  induction s as [| a | a b r IH] using list_ind2; intros H; cbn [pair_bytes length Nat.div2].
  - split; [constructor|reflexivity].
  - split; [constructor|reflexivity].
  - cbn [forallb] in H. apply andb_prop in H as [Ha H]. apply andb_prop in H as [Hb Hr].
    destruct (IH Hr) as (IH1 & IH2). split; [|cbn [length]; rewrite IH2; reflexivity].
    constructor; [|exact IH1].
    apply is_hex_range in Ha. apply is_hex_range in Hb. unfold char_val. break_if; lia.
Qed.
Lemma uuid_form_bytes s u : uuid_form s u -> length u = 16%nat /\ Forall (fun b => b <= 255) u.
Proof.
  intros (g1 & g2 & g3 & g4 & g5 & _ & L1 & L2 & L3 & L4 & L5 & Hh & ->).
  destruct (pair_bytes_ok _ Hh) as (H1 & H2). split; [|exact H1].
  rewrite H2, !app_length, L1, L2, L3, L4, L5. reflexivity.
Qed.
Lemma uuid_form_unique s u1 u2 : uuid_form s u1 -> uuid_form s u2 -> u1 = u2.
Proof. intros H1 H2. apply uuid_parse_exact in H1, H2. congruence. Qed.

(* CID::FromString on the libuuid model *)
Lemma cid_exact t :
  (forall u, uuid_form (cstr t) u -> cid_from_string uuid_parse t = u) /\
  ((forall u, ~ uuid_form (cstr t) u) -> cid_from_string uuid_parse t = nil_uuid).
Proof.
  unfold cid_from_string. split.
  - intros u H. apply uuid_parse_exact in H. rewrite H. reflexivity.
  - intros H. destruct (uuid_parse (cstr t)) as [u|] eqn:E; [|reflexivity].
    apply uuid_parse_exact in E. exfalso. exact (H u E).
Qed.

(* ---- StringTrim --------------------------------------------------------------------------------------------- *)
Definition no_trim_first (s : str) : Prop := match s with [] => True | c :: _ => is_trim c = false end.
Lemma drop_while_split p s : exists l, s = l ++ drop_while p s /\ forallb p l = true /\
  match drop_while p s with [] => True | c :: _ => p c = false end.
Proof.
  induction s as [|c s IH]; cbn [drop_while].
  - exists []. repeat split.
  - destruct (p c) eqn:E.
    + destruct IH as (l & H1 & H2 & H3). exists (c :: l). cbn [app forallb]. rewrite E, H2.
      repeat split; [congruence|exact H3].
    + exists []. repeat split. exact E.
Qed.
Lemma string_trim_spec s : exists l r,
  s = l ++ string_trim s ++ r /\ forallb is_trim l = true /\ forallb is_trim r = true /\
  no_trim_first (string_trim s) /\ no_trim_first (rev (string_trim s)).
Proof.
  unfold string_trim. destruct (drop_while_split is_trim s) as (l & Hs & Hl & Hh).
  destruct (drop_while is_trim s) as [|c s1] eqn:E.
  - exists l, []. rewrite app_nil_r in *. repeat split; auto.
  - destruct (drop_while_split is_trim (rev (c :: s1))) as (l2 & Hr & Hl2 & Hh2).
    set (k := drop_while is_trim (rev (c :: s1))) in *.
    exists l, (rev l2).
    assert (c :: s1 = rev k ++ rev l2) as Hc.
    { rewrite <- rev_app_distr, <- Hr, rev_involutive. reflexivity. }
    split; [rewrite Hs, Hc; reflexivity|]. split; [exact Hl|]. split.
    { apply forallb_forall. intros x Hx. apply in_rev in Hx. rewrite forallb_forall in Hl2. apply Hl2, Hx. }
    split.
    + (* first character: that of c :: s1, unless rev k is empty, which cannot be *)
      destruct (rev k) as [|x rk] eqn:Ek.
      * exact I.
      * cbn [app] in Hc. inversion Hc. subst x. exact Hh.
    + rewrite rev_involutive. exact Hh2.
Qed.
