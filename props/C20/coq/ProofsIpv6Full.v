(* C20.ProofsIpv6Full: inet_pton(AF_INET6) model, accepts => denotes for the full form: a text
   without '.' and without "::" is accepted exactly when it is eight groups of 1-4 hex digits
   separated by single colons, and the result is the groups' values.                            *)
From OlaBase Require Import Bytes.
From Coq Require Import ZifyBool ZifyN ZifyNat.
From C20 Require Import Libc Spec Model Ipv6 ProofsDigits ProofsInt ProofsHex ProofsText ProofsIpv6 ProofsExt.
Local Open Scope N_scope.

Definition group_ok (g : str) : Prop := (1 <= length g <= 4)%nat /\ forallb is_hex_char g = true.
Definition full_form (t : str) (ws : list N) : Prop :=
  exists gs, length gs = 8%nat /\ Forall group_ok gs /\ t = join [58] gs /\ ws = map (text_value 16) gs.
Definition no_dcolon (t : str) : Prop := forall a b, t <> a ++ 58 :: 58 :: b.
Definition gtail (gs : list str) : str := concat (map (fun g => 58 :: g) gs).

Lemma hex_digit_inv ch dg : hex_digit ch = Some dg -> is_hex_char ch = true /\ dg = char_val ch.
Proof.
  intros H. destruct (is_hex_char ch) eqn:E.
  - rewrite (hex_digit_hex ch E) in H. inversion H. auto.
  - unfold hex_digit in H. rewrite E in H. discriminate.
Qed.

(* colonp, once set, stays *)
Lemma colonp_kept s : forall ct acc k val seen acc' cp',
  pton6_loop s ct acc (Some k) val seen = Some (acc', cp') -> cp' = Some k.
Proof.
  induction s as [|ch r IH]; intros ct acc k val seen acc' cp' H; cbn [pton6_loop] in H.
  - destruct (0 <? seen)%nat; [destruct (8 <? length acc + 1)%nat; [discriminate|]|]; inversion H; reflexivity.
  - destruct (hex_digit ch) as [dg|].
    + destruct (seen =? 4)%nat; [discriminate|]. cbv zeta in H.
      destruct (65535 <? val * 16 + dg); [discriminate|]. eapply IH, H.
    + destruct (ch =? 58).
      * destruct (seen =? 0)%nat; [discriminate|]. destruct (is_empty6 r); [discriminate|].
        destruct (8 <? length acc + 1)%nat; [discriminate|]. eapply IH, H.
      * destruct ((ch =? 46) && (length acc + 2 <=? 8)%nat); [|discriminate].
        destruct (inet_pton4 ct) as [[|a [|b [|c [|d [|? ?]]]]]|]; try discriminate. inversion H. reflexivity.
Qed.

(* a "::" was seen only if the text has one (or starts with ':' while no group is open) *)
Lemma colonp_set s : forall ct acc val seen acc' k,
  pton6_loop s ct acc None val seen = Some (acc', Some k) ->
  (seen = 0%nat /\ exists r, s = 58 :: r) \/ (exists a b, s = a ++ 58 :: 58 :: b).
Proof.
  induction s as [|ch r IH]; intros ct acc val seen acc' k H; cbn [pton6_loop] in H.
  - destruct (0 <? seen)%nat; [destruct (8 <? length acc + 1)%nat; [discriminate|]|]; inversion H.
  - destruct (hex_digit ch) as [dg|] eqn:Eh.
    + destruct (seen =? 4)%nat; [discriminate|]. cbv zeta in H.
      destruct (65535 <? val * 16 + dg); [discriminate|].
      destruct (IH _ _ _ _ _ _ H) as [[Hs _]|(a & b & ->)]; [discriminate|].
      right. exists (ch :: a), b. reflexivity.
    + destruct (ch =? 58) eqn:E58.
      * apply N.eqb_eq in E58. subst ch. destruct (seen =? 0)%nat eqn:E0.
        -- left. apply Nat.eqb_eq in E0. split; [exact E0|eauto].
        -- destruct (is_empty6 r); [discriminate|]. destruct (8 <? length acc + 1)%nat; [discriminate|].
           destruct (IH _ _ _ _ _ _ H) as [[_ (r' & ->)]|(a & b & ->)].
           ++ right. exists [], r'. reflexivity.
           ++ right. exists (58 :: a), b. reflexivity.
      * destruct ((ch =? 46) && (length acc + 2 <=? 8)%nat); [|discriminate].
        destruct (inet_pton4 ct) as [[|a [|b [|c [|d [|? ?]]]]]|]; discriminate.
Qed.

(* the loop invariant: what an accepted text without "::" and '.' consists of *)
Lemma full_sound_gen s : forall ct acc val seen acc',
  pton6_loop s ct acc None val seen = Some (acc', None) -> ~ In 46 s -> (seen <= 4)%nat ->
  exists d gs, s = d ++ gtail gs /\ forallb is_hex_char d = true /\ (seen + length d <= 4)%nat /\
    Forall group_ok gs /\ ((seen + length d = 0)%nat -> gs = []) /\
    acc' = acc ++ (if (seen + length d =? 0)%nat then [] else [hval 16 val d]) ++ map (text_value 16) gs.
Proof.
  induction s as [|ch r IH]; intros ct acc val seen acc' H Hdot Hseen; cbn [pton6_loop] in H.
  - exists [], []. cbn [app gtail map concat length]. rewrite Nat.add_0_r.
    split; [reflexivity|]. split; [reflexivity|]. split; [exact Hseen|]. split; [constructor|].
    split; [reflexivity|].
    destruct (0 <? seen)%nat eqn:E.
    + destruct (8 <? length acc + 1)%nat; [discriminate|]. inversion H. apply Nat.ltb_lt in E.
      assert ((seen =? 0)%nat = false) as -> by (apply Nat.eqb_neq; lia).
      cbn [hval fold_left]. rewrite app_nil_r. reflexivity.
    + inversion H. apply Nat.ltb_ge in E. assert (seen = 0%nat) as -> by lia. cbn [Nat.eqb].
      rewrite app_nil_r. reflexivity.
  - destruct (hex_digit ch) as [dg|] eqn:Eh.
    + destruct (hex_digit_inv ch dg Eh) as (Hc & ->).
      destruct (seen =? 4)%nat eqn:E4; [discriminate|]. apply Nat.eqb_neq in E4. cbv zeta in H.
      destruct (65535 <? val * 16 + char_val ch); [discriminate|].
      destruct (IH _ _ _ _ _ H ltac:(intros Hx; apply Hdot; right; exact Hx) ltac:(lia))
        as (d & gs & Hr & Hd & Hl & Hg & Hz & Hacc).
      exists (ch :: d), gs. cbn [app forallb length]. rewrite Hc, Hd.
      replace (seen + S (length d))%nat with (S seen + length d)%nat by lia.
      split; [rewrite Hr; reflexivity|]. split; [reflexivity|]. split; [exact Hl|]. split; [exact Hg|].
      split; [intros Habs; discriminate|]. exact Hacc.
    + destruct (ch =? 58) eqn:E58.
      * apply N.eqb_eq in E58. subst ch. destruct (seen =? 0)%nat eqn:E0.
        -- apply colonp_kept in H. discriminate.
        -- apply Nat.eqb_neq in E0. destruct (is_empty6 r) eqn:Er; [discriminate|].
           destruct (8 <? length acc + 1)%nat; [discriminate|].
           destruct (IH _ _ _ _ _ H ltac:(intros Hx; apply Hdot; right; exact Hx) ltac:(lia))
             as (d & gs & Hr & Hd & Hl & Hg & Hz & Hacc).
           cbn [plus] in Hl, Hz, Hacc.
           destruct d as [|c0 d0].
           ++ (* no digits after the colon: then nothing follows at all, but r is not empty *)
              rewrite (Hz eq_refl) in Hr. cbn in Hr. subst r. discriminate.
           ++ exists [], ((c0 :: d0) :: gs). cbn [app length]. rewrite Nat.add_0_r.
              assert ((seen =? 0)%nat = false) as -> by (apply Nat.eqb_neq; lia).
              split; [unfold gtail; cbn [map concat]; fold (gtail gs); rewrite Hr; reflexivity|].
              split; [reflexivity|]. split; [lia|]. split.
              { constructor; [|exact Hg]. split; [cbn [length] in *; lia|exact Hd]. }
              split; [intros; lia|].
              cbn [length Nat.eqb] in Hacc. cbn [hval fold_left map]. rewrite Hacc.
              rewrite hval_0. rewrite <- !app_assoc. reflexivity.
      * destruct ((ch =? 46) && (length acc + 2 <=? 8)%nat) eqn:E46; [|discriminate].
        apply andb_prop in E46 as [E46 _]. apply N.eqb_eq in E46. subst ch. exfalso. apply Hdot. left. reflexivity.
Qed.

Lemma join_gtail g gs : join [58] (g :: gs) = g ++ gtail gs.
Proof.
  revert g. induction gs as [|h gs IH]; intros g.
  - cbn. rewrite app_nil_r. reflexivity.
  - rewrite join_cons_ne by discriminate. rewrite IH. unfold gtail. cbn [map concat app]. reflexivity.
Qed.

Lemma full_form_sound t ws : ~ In 46 t -> no_dcolon t -> inet_pton6 t = Some ws -> full_form t ws.
Proof.
  intros Hdot Hdc H. unfold inet_pton6 in H. destruct t as [|c0 r0]; [discriminate|].
  destruct (c0 =? 58) eqn:E0.
  - apply N.eqb_eq in E0. subst c0. destruct r0 as [|c1 r1]; [discriminate|].
    destruct (c1 =? 58) eqn:E1; [|discriminate]. apply N.eqb_eq in E1. subst c1.
    exfalso. apply (Hdc [] r1). reflexivity.
  - cbv zeta in H. destruct (pton6_loop (c0 :: r0) (c0 :: r0) [] None 0 0) as [[acc' [k|]]|] eqn:El; [| |discriminate].
    + exfalso. destruct (colonp_set _ _ _ _ _ _ _ El) as [[_ (r & Hr)]|(a & b & Hab)].
      * inversion Hr. subst. discriminate.
      * exact (Hdc a b Hab).
    + cbn [finish6] in H. destruct (length acc' =? 8)%nat eqn:E8; [|discriminate]. inversion H. subst ws.
      apply Nat.eqb_eq in E8.
      destruct (full_sound_gen _ _ _ _ _ _ El Hdot ltac:(lia)) as (d & gs & Ht & Hd & Hl & Hg & Hz & Hacc).
      cbn [plus app] in Hl, Hz, Hacc.
      destruct d as [|x d0].
      * rewrite (Hz eq_refl) in Ht. discriminate.
      * cbn [length Nat.eqb] in Hacc. rewrite hval_0 in Hacc.
        exists ((x :: d0) :: gs). split; [|split; [|split]].
        -- rewrite Hacc in E8. cbn [app length] in E8. rewrite map_length in E8. cbn [length]. lia.
        -- constructor; [|exact Hg]. split; [cbn [length] in *; lia|exact Hd].
        -- rewrite join_gtail. exact Ht.
        -- rewrite Hacc. reflexivity.
Qed.

(* the other direction: every such text is accepted with the groups' values *)
Lemma group_value_ok g : group_ok g -> hval 16 0 g <= 65535.
Proof.
  intros (Hl & Hh). rewrite hval_0. pose proof (text_value_hex_lt g Hh) as H.
  assert (16 ^ len g <= 16 ^ 4) as Hp by (apply N.pow_le_mono_r; unfold len; lia).
  change (16 ^ 4) with 65536 in Hp. lia.
Qed.
Lemma loop_gtext g rest ct acc cp : group_ok g ->
  pton6_loop (g ++ rest) ct acc cp 0 0 = pton6_loop rest ct acc cp (text_value 16 g) (length g).
Proof.
  intros Hg. pose proof (group_value_ok g Hg) as Hv. destruct Hg as (Hl & Hh).
  rewrite (loop_digits g rest ct acc cp 0 0 Hh); [|cbn; lia|exact Hv]. rewrite hval_0. reflexivity.
Qed.
Lemma loop_gtexts_end gs : forall ct acc cp, Forall group_ok gs -> (length acc + length gs <= 8)%nat ->
  pton6_loop (join [58] gs) ct acc cp 0 0 = Some (acc ++ map (text_value 16) gs, cp).
Proof.
  induction gs as [|g gs IH]; intros ct acc cp Hf Hl.
  - cbn. rewrite app_nil_r. reflexivity.
  - inversion Hf as [|? ? Hg Hf']; subst. cbn [length] in Hl. destruct gs as [|h gs].
    + cbn [join map]. rewrite <- (app_nil_r g) at 1. rewrite (loop_gtext g [] ct acc cp Hg).
      apply loop_end; [destruct Hg; lia|lia].
    + rewrite join_cons_ne by discriminate. cbn [app]. rewrite (loop_gtext g _ ct acc cp Hg).
      rewrite loop_colon; [|destruct Hg; lia|lia|].
      2: { inversion Hf' as [|? ? Hh _]; subst. destruct Hh as (Hlh & _). destruct h; [cbn in Hlh; lia|].
           destruct gs; cbn; discriminate. }
      rewrite IH; [|exact Hf'|rewrite app_length; cbn [length] in *; lia].
      cbn [map]. rewrite <- app_assoc. reflexivity.
Qed.
Lemma full_form_complete t ws : full_form t ws -> inet_pton6 t = Some ws.
Proof.
  intros (gs & Hl & Hf & -> & ->). destruct gs as [|g gs]; [discriminate|].
  inversion Hf as [|? ? Hg _]; subst.
  assert (exists c r, join [58] (g :: gs) = c :: r /\ is_hex_char c = true) as (c & r & Ej & Hc).
  { rewrite join_gtail. destruct Hg as (Hgl & Hgh). destruct g as [|c g']; [cbn in Hgl; lia|].
    cbn [forallb] in Hgh. apply andb_prop in Hgh as [Hc _]. exists c, (g' ++ gtail gs). auto. }
  rewrite Ej, (inet_pton6_hexstart c r Hc), <- Ej.
  rewrite loop_gtexts_end; [|exact Hf|cbn [length] in *; lia]. cbn [app finish6].
  rewrite map_length, Hl. reflexivity.
Qed.
