(* REGENERATED from the repository headers on every run. Do not edit.  *)
From Coq Require Import NArith.
Local Open Scope N_scope.
Definition G_DMX_UNIVERSE_SIZE : N := 512.
Definition G_MAC_LENGTH : N := 6.
Definition G_CID_LENGTH : N := 16.
Definition G_IPV6_LENGTH : N := 16.
Definition G_INET_ADDRSTRLEN : N := 16.
Definition G_INET6_ADDRSTRLEN : N := 46.
Definition G_UINT8_MAX : N := 255.
Definition G_UINT16_MAX : N := 65535.
Definition G_UINT32_MAX : N := 4294967295.
Definition G_UINT64_MAX : N := 18446744073709551615.
Definition G_ULLONG_MAX : N := 18446744073709551615.
Definition G_LLONG_MAX : N := 9223372036854775807.
Definition G_INT8_MAX : N := 127.
Definition G_INT16_MAX : N := 32767.
Definition G_INT32_MAX : N := 2147483647.
Definition G_INT64_MAX : N := 9223372036854775807.
Definition G_NEG_INT8_MIN : N := 128.
Definition G_NEG_INT16_MIN : N := 32768.
Definition G_NEG_INT32_MIN : N := 2147483648.
Definition G_NEG_INT64_MIN : N := 9223372036854775808.
Definition G_SIZEOF_LONG : N := 8.
Definition G_SIZEOF_INT : N := 4.
Definition G_HEX_BIT_WIDTH : N := 4.
Definition G_DIGITS_U8 : N := 8.
Definition G_DIGITS_I8 : N := 7.
Definition G_DIGITS_U64 : N := 64.
Definition G_DIGITS_I64 : N := 63.
