(* C20.ProofsIpv6V4s: inet_pton(AF_INET6) model, texts with an embedded IPv4 suffix: an accepted
   text containing '.' is  P ++ a.b.c.d  with the dotted quad (canonical, octets <= 255) as its
   last token, and it is parsed exactly like  P ++ hex(a*256+b) ":" hex(c*256+d).               *)
From OlaBase Require Import Bytes.
From Coq Require Import ZifyBool ZifyN ZifyNat.
From C20 Require Import Libc Spec Model Ipv6 ProofsDigits ProofsInt ProofsHex ProofsText ProofsIpv6 ProofsIpv6v4
  ProofsExt ProofsPton4 ProofsIpv6Full.
Local Open Scope N_scope.

Definition quad (a b c d : N) : str := inet_ntop4 [a; b; c; d].
Definition quad_hex (a b c d : N) : str := to_hex (a * 256 + b) ++ 58 :: to_hex (c * 256 + d).
Definition token_boundary (P : str) : Prop := P = [] \/ exists P0, P = P0 ++ [58].

(* the '.' branch, any acc *)
Lemma pton6_dot_any b rest ct acc cp : b <= 255 ->
  pton6_loop (to_dec b ++ 46 :: rest) ct acc cp 0 0 =
  if (length acc + 2 <=? 8)%nat then v4_result ct acc cp else None.
Proof. intros H. each_byte b H. Qed.

Lemma base_quad a b c d acc cp : a <= 255 -> b <= 255 -> c <= 255 -> d <= 255 ->
  pton6_loop (quad a b c d) (quad a b c d) acc cp 0 0 =
  if (length acc + 2 <=? 8)%nat then Some (acc ++ [a * 256 + b; c * 256 + d], cp) else None.
Proof.
  intros Ha Hb Hc Hd. destruct (ntop4_dot a b c d) as (r & Er). unfold quad. rewrite Er at 1.
  rewrite (pton6_dot_any a r _ acc cp Ha). unfold v4_result. rewrite (pton4_ntop4 a b c d Ha Hb Hc Hd). reflexivity.
Qed.
Lemma base_quad_hex a b c d ct acc cp : a <= 255 -> b <= 255 -> c <= 255 -> d <= 255 ->
  pton6_loop (quad_hex a b c d) ct acc cp 0 0 =
  if (length acc + 2 <=? 8)%nat then Some (acc ++ [a * 256 + b; c * 256 + d], cp) else None.
Proof.
  intros Ha Hb Hc Hd. unfold quad_hex.
  assert (word_ok (a * 256 + b)) as W1 by (unfold word_ok; lia).
  assert (word_ok (c * 256 + d)) as W2 by (unfold word_ok; lia).
  destruct (loop_group (a * 256 + b) (58 :: to_hex (c * 256 + d)) ct acc cp W1) as (k & Hk & ->).
  destruct (to_hex_word _ W2) as (Hne & _).
  destruct (length acc + 2 <=? 8)%nat eqn:E.
  - apply Nat.leb_le in E. rewrite loop_colon; [|exact Hk|lia|exact Hne].
    rewrite <- (app_nil_r (to_hex (c * 256 + d))).
    destruct (loop_group (c * 256 + d) [] (to_hex (c * 256 + d) ++ []) (acc ++ [a * 256 + b]) cp W2) as (k2 & Hk2 & ->).
    rewrite loop_end; [|exact Hk2|rewrite app_length; cbn [length]; lia]. rewrite <- app_assoc. reflexivity.
  - apply Nat.leb_gt in E. cbn [pton6_loop]. rewrite hex_digit_colon. change (58 =? 58) with true. cbv iota.
    assert ((k =? 0)%nat = false) as -> by (apply Nat.eqb_neq; lia).
    assert (is_empty6 (to_hex (c * 256 + d)) = false) as -> by (destruct (to_hex (c * 256 + d)); [congruence|reflexivity]).
    destruct (8 <? length acc + 1)%nat eqn:E8; [reflexivity|]. apply Nat.ltb_ge in E8.
    rewrite <- (app_nil_r (to_hex (c * 256 + d))).
    destruct (loop_group (c * 256 + d) [] (to_hex (c * 256 + d) ++ []) (acc ++ [a * 256 + b]) cp W2) as (k2 & Hk2 & ->).
    cbn [pton6_loop]. assert ((0 <? k2)%nat = true) as -> by (apply Nat.ltb_lt; lia).
    assert ((8 <? length (acc ++ [(a * 256 + b)%N]) + 1)%nat = true) as ->
      by (apply Nat.ltb_lt; rewrite app_length; cbn [length]; lia).
    reflexivity.
Qed.

Lemma is_empty6_app P X : X <> [] -> is_empty6 (P ++ X) = false.
Proof. intros H. destruct P; [destruct X; [congruence|reflexivity]|reflexivity]. Qed.
Lemma boundary_tail ch P' : token_boundary (ch :: P') -> (P' = [] /\ ch = 58) \/ (P' <> [] /\ token_boundary P').
Proof.
  intros [H|(P0 & E)]; [discriminate|]. destruct P0 as [|x P0'].
  - cbn in E. inversion E. left. auto.
  - cbn [app] in E. inversion E. right. split; [destruct P0'; discriminate|right; eauto].
Qed.

(* the transfer: up to the last token the two texts are read identically *)
Lemma transfer a b c d (Ha : a <= 255) (Hb : b <= 255) (Hc : c <= 255) (Hd : d <= 255) P :
  forall ct1 ct2 acc cp val seen, ~ In 46 P -> token_boundary P -> (seen = 0%nat -> val = 0) ->
  (P = [] -> seen = 0%nat /\ ct1 = quad a b c d) ->
  pton6_loop (P ++ quad a b c d) ct1 acc cp val seen = pton6_loop (P ++ quad_hex a b c d) ct2 acc cp val seen.
Proof.
  assert (quad a b c d <> []) as HQ by (apply ntop4_nonempty; reflexivity).
  assert (quad_hex a b c d <> []) as HH.
  { unfold quad_hex. intros E. apply app_eq_nil in E as [_ E]. discriminate. }
  induction P as [|ch P' IH]; intros ct1 ct2 acc cp val seen Hdot Hb0 Hv0 Hnil.
  - destruct (Hnil eq_refl) as (-> & ->). rewrite (Hv0 eq_refl). cbn [app].
    rewrite base_quad, base_quad_hex by assumption. reflexivity.
  - assert (~ In 46 P') as Hdot' by (intros Hx; apply Hdot; right; exact Hx).
    cbn [app pton6_loop]. destruct (hex_digit ch) as [dg|] eqn:Eh.
    + destruct (seen =? 4)%nat; [reflexivity|]. cbv zeta.
      destruct (65535 <? val * 16 + dg); [reflexivity|].
      destruct (boundary_tail ch P' Hb0) as [(_ & ->)|(Hne & Hb')]; [rewrite hex_digit_colon in Eh; discriminate|].
      apply IH; [exact Hdot'|exact Hb'|intros; lia|intros; congruence].
    + destruct (ch =? 58) eqn:E58.
      * assert (token_boundary P' /\ (P' = [] -> P' ++ quad a b c d = quad a b c d)) as (Hbt & Hct).
        { split; [|intros ->; reflexivity].
          destruct (boundary_tail ch P' Hb0) as [(-> & _)|(_ & H)]; [left; reflexivity|exact H]. }
        destruct (seen =? 0)%nat eqn:E0.
        -- destruct cp; [reflexivity|]. apply Nat.eqb_eq in E0.
           apply IH; [exact Hdot'|exact Hbt|exact Hv0|intros HP; split; [exact E0|exact (Hct HP)]].
        -- rewrite !is_empty6_app by assumption.
           destruct (8 <? length acc + 1)%nat; [reflexivity|].
           apply IH; [exact Hdot'|exact Hbt|reflexivity|intros HP; split; [reflexivity|exact (Hct HP)]].
      * destruct ((ch =? 46) && (length acc + 2 <=? 8)%nat) eqn:E46; [|reflexivity].
        apply andb_prop in E46 as [E46 _]. apply N.eqb_eq in E46. subst ch. exfalso. apply Hdot. left. reflexivity.
Qed.

(* an accepted text with a '.' ends in a canonical dotted quad that is its last token *)
Definition shape (ct s : str) : Prop :=
  exists P a b c d, ~ In 46 P /\ (a <= 255 /\ b <= 255 /\ c <= 255 /\ d <= 255) /\
    ((P = [] /\ ct = quad a b c d) \/ ((exists P0, P = P0 ++ [58]) /\ s = P ++ quad a b c d)).

Lemma shape_hex ch r ct : ch <> 46 -> ch <> 58 -> shape ct r -> shape ct (ch :: r).
Proof.
  intros H46 H58 (P & a & b & c & d & HP & Hb & Hcase). destruct Hcase as [(-> & Hq)|((P0 & ->) & Hs)].
  - exists [], a, b, c, d. split; [exact HP|]. split; [exact Hb|]. left. auto.
  - exists (ch :: P0 ++ [58]), a, b, c, d. split; [intros [E|E]; [congruence|exact (HP E)]|].
    split; [exact Hb|]. right. split; [exists (ch :: P0); reflexivity|rewrite Hs; reflexivity].
Qed.
Lemma shape_colon r ct : shape r r -> shape ct (58 :: r).
Proof.
  intros (P & a & b & c & d & HP & Hb & Hcase). destruct Hcase as [(-> & Hq)|((P0 & ->) & Hs)].
  - exists [58], a, b, c, d. split; [intros [E|[]]; discriminate|]. split; [exact Hb|]. right.
    split; [exists []; reflexivity|rewrite Hq; reflexivity].
  - exists (58 :: P0 ++ [58]), a, b, c, d. split; [intros [E|E]; [discriminate|exact (HP E)]|].
    split; [exact Hb|]. right. split; [exists (58 :: P0); reflexivity|rewrite Hs at 1; reflexivity].
Qed.

Lemma v4_shape s : forall ct acc cp val seen res,
  pton6_loop s ct acc cp val seen = Some res -> In 46 s -> shape ct s.
Proof.
  induction s as [|ch r IH]; intros ct acc cp val seen res H Hin; [destruct Hin|].
  cbn [pton6_loop] in H. destruct (hex_digit ch) as [dg|] eqn:Eh.
  - destruct (hex_digit_inv ch dg Eh) as (Hc & _).
    destruct (hex_not_special ch Hc) as (_ & _ & _ & _ & _ & _ & H58 & H46 & _).
    apply N.eqb_neq in H58, H46.
    destruct (seen =? 4)%nat; [discriminate|]. cbv zeta in H. destruct (65535 <? val * 16 + dg); [discriminate|].
    apply shape_hex; [exact H46|exact H58|]. eapply IH; [exact H|]. destruct Hin as [E|E]; [congruence|exact E].
  - destruct (ch =? 58) eqn:E58.
    + apply N.eqb_eq in E58. subst ch.
      assert (In 46 r) as Hr by (destruct Hin as [E|E]; [discriminate|exact E]).
      apply shape_colon. destruct (seen =? 0)%nat.
      * destruct cp; [discriminate|]. eapply IH; eauto.
      * destruct (is_empty6 r); [discriminate|]. destruct (8 <? length acc + 1)%nat; [discriminate|]. eapply IH; eauto.
    + destruct ((ch =? 46) && (length acc + 2 <=? 8)%nat); [|discriminate].
      destruct (inet_pton4 ct) as [q|] eqn:Ep; [|discriminate].
      destruct q as [|a [|b [|c [|d [|? ?]]]]]; try discriminate.
      apply pton4_exact in Ep as (_ & Hb & Hct).
      inversion Hb as [|? ? Ha Hb1]; subst. inversion Hb1 as [|? ? Hb' Hb2]; subst.
      inversion Hb2 as [|? ? Hc' Hb3]; subst. inversion Hb3 as [|? ? Hd' _]; subst.
      exists [], a, b, c, d. split; [intros []|]. split; [auto|]. left. split; [reflexivity|first [exact Hct|reflexivity]].
Qed.

Lemma quad_first a b c d : exists q r, quad a b c d = q :: r /\ (q =? 58) = false /\ is_hex_char q = true.
Proof.
  destruct (ntop4_dot a b c d) as (r & Er). destruct (to_dec_spec a) as (Hne & Hd & _).
  destruct (to_dec a) as [|q t] eqn:E; [congruence|]. cbn [forallb] in Hd. apply andb_prop in Hd as [Hq _].
  exists q, (t ++ 46 :: r). unfold quad. rewrite Er. split; [reflexivity|].
  pose proof (is_digit_hex q Hq) as Hh. destruct (hex_not_special q Hh) as (_ & _ & _ & _ & _ & _ & H58 & _). auto.
Qed.
Lemma quad_hex_first a b c d : a <= 255 -> b <= 255 ->
  exists q r, quad_hex a b c d = q :: r /\ (q =? 58) = false /\ is_hex_char q = true.
Proof.
  intros Ha Hb. assert (word_ok (a * 256 + b)) as W by (unfold word_ok; lia).
  destruct (to_hex_word _ W) as (Hne & Hh & _). unfold quad_hex.
  destruct (to_hex (a * 256 + b)) as [|q t]; [congruence|]. cbn [forallb] in Hh. apply andb_prop in Hh as [Hq _].
  exists q, (t ++ 58 :: to_hex (c * 256 + d)). split; [reflexivity|].
  destruct (hex_not_special q Hq) as (_ & _ & _ & _ & _ & _ & H58 & _). auto.
Qed.

Lemma transfer_top a b c d P : a <= 255 -> b <= 255 -> c <= 255 -> d <= 255 -> ~ In 46 P -> token_boundary P ->
  inet_pton6 (P ++ quad a b c d) = inet_pton6 (P ++ quad_hex a b c d).
Proof.
  intros Ha Hb Hc Hd Hdot Hbd.
  destruct (quad_first a b c d) as (q & rq & Eq & Hq58 & Hqh).
  destruct (quad_hex_first a b c d Ha Hb) as (h & rh & Eh & Hh58 & Hhh).
  destruct P as [|c0 P'].
  - cbn [app]. rewrite Eq, Eh, (inet_pton6_hexstart q rq Hqh), (inet_pton6_hexstart h rh Hhh), <- Eq, <- Eh.
    f_equal. apply (transfer a b c d Ha Hb Hc Hd []); [exact Hdot|exact Hbd|reflexivity|auto].
  - unfold inet_pton6. cbn [app]. destruct (c0 =? 58) eqn:E0.
    + destruct P' as [|c1 P''].
      * cbn [app]. rewrite Eq, Eh, Hq58, Hh58. reflexivity.
      * cbn [app]. destruct (c1 =? 58); [|reflexivity]. cbv zeta. f_equal.
        change (c1 :: P'' ++ quad a b c d) with ((c1 :: P'') ++ quad a b c d).
        change (c1 :: P'' ++ quad_hex a b c d) with ((c1 :: P'') ++ quad_hex a b c d).
        destruct (boundary_tail c0 (c1 :: P'') Hbd) as [(E & _)|(_ & Hb')]; [discriminate|].
        apply (transfer a b c d Ha Hb Hc Hd); [intros Hx; apply Hdot; right; exact Hx|exact Hb'|reflexivity|intros; discriminate].
    + cbv zeta. f_equal.
      change (c0 :: P' ++ quad a b c d) with ((c0 :: P') ++ quad a b c d).
      change (c0 :: P' ++ quad_hex a b c d) with ((c0 :: P') ++ quad_hex a b c d).
      apply (transfer a b c d Ha Hb Hc Hd); [exact Hdot|exact Hbd|reflexivity|intros; discriminate].
Qed.

Lemma embedded_sound t ws : In 46 t -> inet_pton6 t = Some ws ->
  exists P a b c d, t = P ++ quad a b c d /\ ~ In 46 P /\ token_boundary P /\
    (a <= 255 /\ b <= 255 /\ c <= 255 /\ d <= 255) /\
    inet_pton6 (P ++ quad_hex a b c d) = Some ws.
Proof.
  intros Hin H.
  assert (exists P a b c d, t = P ++ quad a b c d /\ ~ In 46 P /\ token_boundary P /\
            (a <= 255 /\ b <= 255 /\ c <= 255 /\ d <= 255)) as (P & a & b & c & d & Ht & HP & Hbd & Hb).
  { unfold inet_pton6 in H. destruct t as [|c0 r0]; [discriminate|]. destruct (c0 =? 58) eqn:E0.
    - apply N.eqb_eq in E0. subst c0. destruct r0 as [|c1 r1]; [discriminate|].
      destruct (c1 =? 58) eqn:E1; [|discriminate]. cbv zeta in H.
      destruct (pton6_loop (c1 :: r1) (c1 :: r1) [] None 0 0) as [res|] eqn:El; [|discriminate].
      assert (In 46 (c1 :: r1)) as Hr by (destruct Hin as [E|E]; [discriminate|exact E]).
      destruct (v4_shape _ _ _ _ _ _ _ El Hr) as (P & a & b & c & d & HP & Hb & Hcase).
      destruct Hcase as [(-> & Hq)|((P0 & ->) & Hs)].
      + exists [58], a, b, c, d. split; [rewrite Hq; reflexivity|]. split; [intros [E|[]]; discriminate|].
        split; [right; exists []; reflexivity|exact Hb].
      + exists (58 :: P0 ++ [58]), a, b, c, d. split; [rewrite Hs; reflexivity|].
        split; [intros [E|E]; [discriminate|exact (HP E)]|]. split; [right; exists (58 :: P0); reflexivity|exact Hb].
    - cbv zeta in H. destruct (pton6_loop (c0 :: r0) (c0 :: r0) [] None 0 0) as [res|] eqn:El; [|discriminate].
      destruct (v4_shape _ _ _ _ _ _ _ El Hin) as (P & a & b & c & d & HP & Hb & Hcase).
      destruct Hcase as [(-> & Hq)|((P0 & ->) & Hs)].
      + exists [], a, b, c, d. split; [exact Hq|]. split; [exact HP|]. split; [left; reflexivity|exact Hb].
      + exists (P0 ++ [58]), a, b, c, d. split; [exact Hs|]. split; [exact HP|]. split; [right; eauto|exact Hb]. }
  exists P, a, b, c, d. split; [exact Ht|]. split; [exact HP|]. split; [exact Hbd|]. split; [exact Hb|].
  destruct Hb as (Ha & Hb' & Hc & Hd). rewrite <- (transfer_top a b c d P Ha Hb' Hc Hd HP Hbd), <- Ht. exact H.
Qed.

From C20 Require Import ProofsIpv6Comp.
Lemma quad_hex_nodot a b c d : ~ In 46 (quad_hex a b c d).
Proof.
  assert (forall w, ~ In 46 (to_hex w)) as Hh.
  { intros w Hx. destruct (to_hex_spec w) as (_ & H & _). rewrite forallb_forall in H. specialize (H 46 Hx). discriminate. }
  unfold quad_hex. intros Hx. apply in_app_or in Hx as [Hx|[Hx|Hx]]; [exact (Hh _ Hx)|discriminate|exact (Hh _ Hx)].
Qed.
Definition v4_norm (t t' : str) : Prop :=
  (~ In 46 t /\ t' = t) \/
  (exists P a b c d, t = P ++ quad a b c d /\ ~ In 46 P /\ token_boundary P /\
     (a <= 255 /\ b <= 255 /\ c <= 255 /\ d <= 255) /\ t' = P ++ quad_hex a b c d).
Lemma ipv6_exact t ws : inet_pton6 t = Some ws <->
  exists t', v4_norm t t' /\ (full_form t' ws \/ compressed_form t' ws).
Proof.
  split.
  - intros H. destruct (in_dec N.eq_dec 46 t) as [Hin|Hno].
    + destruct (embedded_sound t ws Hin H) as (P & a & b & c & d & Ht & HP & Hbd & Hb & H').
      exists (P ++ quad_hex a b c d). split; [right; exists P, a, b, c, d; auto|].
      apply compressed_sound; [|exact H']. intros Hx. apply in_app_or in Hx as [Hx|Hx]; [exact (HP Hx)|exact (quad_hex_nodot _ _ _ _ Hx)].
    + exists t. split; [left; auto|]. apply compressed_sound; assumption.
  - intros (t' & [(Hno & ->)|(P & a & b & c & d & -> & HP & Hbd & (Ha & Hb & Hc & Hd) & ->)] & Hf).
    + destruct Hf as [Hf|Hf]; [exact (full_form_complete _ _ Hf)|exact (compressed_complete _ _ Hf)].
    + rewrite (transfer_top a b c d P Ha Hb Hc Hd HP Hbd).
      destruct Hf as [Hf|Hf]; [exact (full_form_complete _ _ Hf)|exact (compressed_complete _ _ Hf)].
Qed.
