(* C20.Ipv6: executable models of glibc's inet_ntop(AF_INET6) / inet_pton(AF_INET6)
   (resolv/inet_ntop.c inet_ntop6, resolv/inet_pton.c inet_pton6 of glibc >= 2.26), run against
   the platform functions by the harness on every check (ops ip6 / ip6v, keys lt6 / lraw).
   An address is 16 bytes in network order = 8 sixteen-bit words.                               *)
From OlaBase Require Import Bytes.
From C20 Require Import Libc.
Local Open Scope N_scope.

Fixpoint words_of_bytes (b : list N) : list N :=
  match b with
  | hi :: lo :: r => hi * 256 + lo :: words_of_bytes r
  | _ => []
  end.
Definition bytes_of_words (ws : list N) : list N := flat_map (fun w => [w / 256; w mod 256]) ws.

(* ---- inet_ntop6 ---------------------------------------------------------------------------------
   The run search of inet_ntop6: cur/best (base, len) over the words, a later run replaces best
   only when strictly longer (leftmost on ties), runs shorter than 2 are not compressed.
   It only looks at which words are zero.                                                         *)
Definition merge_run (cur best : option (nat * nat)) : option (nat * nat) :=
  match cur with
  | None => best
  | Some (cb, cl) =>
    match best with
    | None => cur
    | Some (bb, bl) => if (bl <? cl)%nat then cur else best
    end
  end.
Fixpoint best_scan (zs : list bool) (i : nat) (cur best : option (nat * nat)) : option (nat * nat) :=
  match zs with
  | [] => merge_run cur best
  | true :: r =>
    best_scan r (S i) (match cur with None => Some (i, 1%nat) | Some (b, l) => Some (b, S l) end) best
  | false :: r => best_scan r (S i) None (merge_run cur best)
  end.
Definition best_of (zs : list bool) : option (nat * nat) :=
  match best_scan zs 0 None None with
  | Some (b, l) => if (l <? 2)%nat then None else Some (b, l)
  | None => None
  end.
Definition best_run (ws : list N) : option (nat * nat) := best_of (map (N.eqb 0) ws).

(* the two encapsulated-IPv4 forms glibc prints: ::a.b.c.d and ::ffff:a.b.c.d *)
Definition v4_form (ws : list N) : bool :=
  match best_run ws with
  | Some (b, l) => (b =? 0)%nat && ((l =? 6)%nat || ((l =? 5)%nat && (nth 5 ws 0 =? 65535)))
  | None => false
  end.

(* what the output loop of inet_ntop6 produces: groups before the run joined by ':', "::" for the
   run, groups after it; %x prints lower-case hex without leading zeros                          *)
Definition words_text (ws : list N) : str :=
  match best_run ws with
  | None => join [58] (map to_hex ws)
  | Some (b, l) =>
    if v4_form ws then
      [58; 58] ++ (if (l =? 5)%nat then to_hex 65535 ++ [58] else []) ++
      inet_ntop4 (bytes_of_words (skipn 6 ws))
    else
      join [58] (map to_hex (firstn b ws)) ++ [58; 58] ++ join [58] (map to_hex (skipn (b + l) ws))
  end.
Definition ipv6_to_text (a : list N) : str := words_text (words_of_bytes a).

(* ---- inet_pton6 ---------------------------------------------------------------------------------
   [acc] = the words stored so far (tp), [colonp] = number of words stored when "::" was seen,
   [curtok] = the text from the start of the current token, [val]/[seen] = the group being read. *)
Definition hex_digit (c : N) : option N := if is_hex_char c then digit_of c else None.

Definition is_empty6 (l : str) : bool := match l with [] => true | _ => false end.

Fixpoint pton6_loop (s curtok : str) (acc : list N) (colonp : option nat) (val : N) (seen : nat)
  : option (list N * option nat) :=
  match s with
  | [] =>
    if (0 <? seen)%nat then
      (if (8 <? length acc + 1)%nat then None else Some (acc ++ [val], colonp))
    else Some (acc, colonp)
  | ch :: r =>
    match hex_digit ch with
    | Some d =>
      if (seen =? 4)%nat then None
      else let v := val * 16 + d in
           if 65535 <? v then None else pton6_loop r curtok acc colonp v (S seen)
    | None =>
      if ch =? 58 then
        if (seen =? 0)%nat then
          match colonp with
          | Some _ => None
          | None => pton6_loop r r acc (Some (length acc)) val seen
          end
        else if is_empty6 r then None
        else if (8 <? length acc + 1)%nat then None
        else pton6_loop r r (acc ++ [val]) colonp 0 0
      else if (ch =? 46) && (length acc + 2 <=? 8)%nat then
        match inet_pton4 curtok with
        | Some [a; b; c; d] => Some (acc ++ [a * 256 + b; c * 256 + d], colonp)
        | _ => None
        end
      else None
    end
  end.

(* after the loop: "::" is replaced by as many zero words as are missing (at least one) *)
Definition finish6 (res : option (list N * option nat)) : option (list N) :=
  match res with
  | None => None
  | Some (acc, colonp) =>
    match colonp with
    | Some k =>
      if (length acc =? 8)%nat then None
      else Some (firstn k acc ++ repeat 0 (8 - length acc) ++ skipn k acc)
    | None => if (length acc =? 8)%nat then Some acc else None
    end
  end.

Definition inet_pton6 (s : str) : option (list N) :=
  match s with
  | [] => None
  | c0 :: r0 =>
    (* a leading ':' must be the start of "::" *)
    let start := if c0 =? 58 then (match r0 with c1 :: _ => if c1 =? 58 then Some r0 else None | [] => None end)
                 else Some s in
    match start with
    | None => None
    | Some s1 => finish6 (pton6_loop s1 s1 [] None 0 0)
    end
  end.
Definition ipv6_of_text (s : str) : option (list N) :=
  match inet_pton6 s with Some ws => Some (bytes_of_words ws) | None => None end.

(* IPV6Address::FromString: non-empty, then inet_pton on the C string; ToString: inet_ntop *)
Definition ipv6_from_string (t : str) : option (list N) :=
  match t with [] => None | _ => ipv6_of_text (cstr t) end.
