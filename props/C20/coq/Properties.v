(* C20 — textual forms of values round-trip; parsers never return a wrong value.
   Only theorem statements here (proofs are in Proofs*.v).  Texts are lists of bytes (N); what a
   text DENOTES is defined in Spec.v independently of the scanners (positional value
   text_value; grammars dec_form / hex_form).  The model is of the tree WITH fixes 01-03 applied
   (StringToInt range/sign, HexStringToInt range, strict socket-address port); the unfixed tree
   diverges from it on the inputs of corpus.txt.  libc's strtoull/strtoll/atoi and ostream
   formatting are the ordinary definitions of Libc.v (validated against glibc by the harness on
   every run); inet_pton/inet_ntop/uuid_parse/uuid_unparse are universally quantified with named
   hypotheses.                                                                                  *)
From OlaBase Require Import Bytes.
From C20 Require Import Libc Spec Model Ipv6 ProofsDigits ProofsInt ProofsHex ProofsText ProofsIpv6 ProofsIpv6v4 ProofsExt ProofsPton4 ProofsUuid ProofsIpv6Full ProofsIpv6Comp ProofsIpv6V4s.
From C20 Require Gen.
Local Open Scope N_scope.

(* ------------------------------------------------------------------------------------------------
   StringToInt, all eight overloads, strict and lenient: a text is accepted with value v EXACTLY
   when it is  white-space* sign? digit+ rest  (rest not continuing the number, empty in strict
   mode; no '-' at all for unsigned targets), the digits denote v positionally and v is in the
   range of the target type.  "Accepted => returns exactly the value the text denotes, in
   range" is the left-to-right half.                                                            *)
Theorem c20_int_sound_unsigned : forall strict t v,
  (string_to_u8 strict t = Some v <->
     exists rest, dec_form t false v rest /\ v <= 255 /\ (strict = true -> rest = [])) /\
  (string_to_u16 strict t = Some v <->
     exists rest, dec_form t false v rest /\ v <= 65535 /\ (strict = true -> rest = [])) /\
  (string_to_u32 strict t = Some v <->
     exists rest, dec_form t false v rest /\ v <= 4294967295 /\ (strict = true -> rest = [])) /\
  (string_to_u64 strict t = Some v <->
     exists rest, dec_form t false v rest /\ v <= 18446744073709551615 /\ (strict = true -> rest = [])).
Proof.
  intros strict t v. repeat split.
  - apply string_to_u8_spec. - apply string_to_u8_spec.
  - apply string_to_u16_spec. - apply string_to_u16_spec.
  - apply string_to_u32_spec. - apply string_to_u32_spec.
  - apply string_to_u64_spec. - apply string_to_u64_spec.
Qed.
Print Assumptions c20_int_sound_unsigned.

Theorem c20_int_sound_signed : forall strict t z,
  (string_to_i8 strict t = Some z <->
     exists neg m rest, dec_form t neg m rest /\ z = signed_of neg m /\ (-128 <= z <= 127)%Z /\
                        (strict = true -> rest = [])) /\
  (string_to_i16 strict t = Some z <->
     exists neg m rest, dec_form t neg m rest /\ z = signed_of neg m /\ (-32768 <= z <= 32767)%Z /\
                        (strict = true -> rest = [])) /\
  (string_to_i32 strict t = Some z <->
     exists neg m rest, dec_form t neg m rest /\ z = signed_of neg m /\
                        (-2147483648 <= z <= 2147483647)%Z /\ (strict = true -> rest = [])) /\
  (string_to_i64 strict t = Some z <->
     exists neg m rest, dec_form t neg m rest /\ z = signed_of neg m /\
                        (-9223372036854775808 <= z <= 9223372036854775807)%Z /\
                        (strict = true -> rest = [])).
Proof.
  intros strict t z. repeat split.
  - apply string_to_i8_spec. - apply string_to_i8_spec.
  - apply string_to_i16_spec. - apply string_to_i16_spec.
  - apply string_to_i32_spec. - apply string_to_i32_spec.
  - apply string_to_i64_spec. - apply string_to_i64_spec.
Qed.
Print Assumptions c20_int_sound_signed.

(* Rejection, stated directly: the decomposition of a text is unique, so a text whose number is
   negative (unsigned target) or out of range, or (strict) is followed by anything, is refused;
   so is the empty text and any text that contains no number at all.                            *)
Theorem c20_int_reject : forall strict t,
  (forall neg m rest, dec_form t neg m rest ->
     ((neg = true \/ 255 < m \/ (strict = true /\ rest <> [])) -> string_to_u8 strict t = None) /\
     ((neg = true \/ 65535 < m \/ (strict = true /\ rest <> [])) -> string_to_u16 strict t = None) /\
     ((neg = true \/ 4294967295 < m \/ (strict = true /\ rest <> [])) -> string_to_u32 strict t = None) /\
     ((neg = true \/ 18446744073709551615 < m \/ (strict = true /\ rest <> [])) ->
        string_to_u64 strict t = None) /\
     (((signed_of neg m < -128)%Z \/ (127 < signed_of neg m)%Z \/ (strict = true /\ rest <> [])) ->
        string_to_i8 strict t = None) /\
     (((signed_of neg m < -32768)%Z \/ (32767 < signed_of neg m)%Z \/ (strict = true /\ rest <> [])) ->
        string_to_i16 strict t = None) /\
     (((signed_of neg m < -2147483648)%Z \/ (2147483647 < signed_of neg m)%Z \/
       (strict = true /\ rest <> [])) -> string_to_i32 strict t = None) /\
     (((signed_of neg m < -9223372036854775808)%Z \/ (9223372036854775807 < signed_of neg m)%Z \/
       (strict = true /\ rest <> [])) -> string_to_i64 strict t = None)) /\
  ((forall neg m rest, ~ dec_form t neg m rest) ->
     string_to_u8 strict t = None /\ string_to_u16 strict t = None /\ string_to_u32 strict t = None /\
     string_to_u64 strict t = None /\ string_to_i8 strict t = None /\ string_to_i16 strict t = None /\
     string_to_i32 strict t = None /\ string_to_i64 strict t = None) /\
  string_to_u64 strict [] = None /\ string_to_i64 strict [] = None.
Proof.
  intros strict t. split; [|split; [|split; reflexivity]].
  - intros neg m rest Hf. repeat split; intros Hbad; apply not_some_none; intros x Hx.
    + apply string_to_u8_spec in Hx. exact (udec_reject _ _ _ _ _ _ Hf Hbad x Hx).
    + apply string_to_u16_spec in Hx. exact (udec_reject _ _ _ _ _ _ Hf Hbad x Hx).
    + apply string_to_u32_spec in Hx. exact (udec_reject _ _ _ _ _ _ Hf Hbad x Hx).
    + apply string_to_u64_spec in Hx. exact (udec_reject _ _ _ _ _ _ Hf Hbad x Hx).
    + apply string_to_i8_spec in Hx. exact (sdec_reject _ _ _ _ _ _ _ Hf Hbad x Hx).
    + apply string_to_i16_spec in Hx. exact (sdec_reject _ _ _ _ _ _ _ Hf Hbad x Hx).
    + apply string_to_i32_spec in Hx. exact (sdec_reject _ _ _ _ _ _ _ Hf Hbad x Hx).
    + apply string_to_i64_spec in Hx. exact (sdec_reject _ _ _ _ _ _ _ Hf Hbad x Hx).
  - intros Hno. repeat split; apply not_some_none; intros x Hx.
    + apply string_to_u8_spec in Hx. destruct Hx as (r & Hf & _). exact (Hno _ _ _ Hf).
    + apply string_to_u16_spec in Hx. destruct Hx as (r & Hf & _). exact (Hno _ _ _ Hf).
    + apply string_to_u32_spec in Hx. destruct Hx as (r & Hf & _). exact (Hno _ _ _ Hf).
    + apply string_to_u64_spec in Hx. destruct Hx as (r & Hf & _). exact (Hno _ _ _ Hf).
    + apply string_to_i8_spec in Hx. destruct Hx as (n & m & r & Hf & _). exact (Hno _ _ _ Hf).
    + apply string_to_i16_spec in Hx. destruct Hx as (n & m & r & Hf & _). exact (Hno _ _ _ Hf).
    + apply string_to_i32_spec in Hx. destruct Hx as (n & m & r & Hf & _). exact (Hno _ _ _ Hf).
    + apply string_to_i64_spec in Hx. destruct Hx as (n & m & r & Hf & _). exact (Hno _ _ _ Hf).
Qed.
Print Assumptions c20_int_reject.

(* IntToString then StringToInt (strict or not) gives the value back, for EVERY value of each
   type (the printer's digits are shown to denote v by induction on the number of digits).      *)
Theorem c20_int_roundtrip : forall strict,
  (forall v, v <= 255 -> string_to_u8 strict (int_to_string_u v) = Some v) /\
  (forall v, v <= 65535 -> string_to_u16 strict (int_to_string_u v) = Some v) /\
  (forall v, v <= 4294967295 -> string_to_u32 strict (int_to_string_u v) = Some v) /\
  (forall v, v <= 18446744073709551615 -> string_to_u64 strict (int_to_string_u v) = Some v) /\
  (forall z, (-128 <= z <= 127)%Z -> string_to_i8 strict (int_to_string_s z) = Some z) /\
  (forall z, (-32768 <= z <= 32767)%Z -> string_to_i16 strict (int_to_string_s z) = Some z) /\
  (forall z, (-2147483648 <= z <= 2147483647)%Z -> string_to_i32 strict (int_to_string_s z) = Some z) /\
  (forall z, (-9223372036854775808 <= z <= 9223372036854775807)%Z ->
             string_to_i64 strict (int_to_string_s z) = Some z).
Proof.
  intros strict. repeat split; intros v Hv.
  - apply string_to_u8_spec, udec_roundtrip, Hv.
  - apply string_to_u16_spec, udec_roundtrip, Hv.
  - apply string_to_u32_spec, udec_roundtrip, Hv.
  - apply string_to_u64_spec, udec_roundtrip, Hv.
  - apply string_to_i8_spec, sdec_roundtrip, Hv.
  - apply string_to_i16_spec, sdec_roundtrip, Hv.
  - apply string_to_i32_spec, sdec_roundtrip, Hv.
  - apply string_to_i64_spec, sdec_roundtrip, Hv.
Qed.
Print Assumptions c20_int_roundtrip.

(* HexStringToInt, all eight overloads: accepted exactly when the text is hexdigit+ and its
   positional value fits the type (unsigned), resp. is a w-bit pattern whose two's complement
   reading is z (signed).  Nine or more significant digits into 32 bits etc. are refused.       *)
Theorem c20_hex_sound : forall t,
  (forall v, hex_to_u8 t = Some v <-> (hex_form t /\ v = text_value 16 t /\ v <= 255)) /\
  (forall v, hex_to_u16 t = Some v <-> (hex_form t /\ v = text_value 16 t /\ v <= 65535)) /\
  (forall v, hex_to_u32 t = Some v <-> (hex_form t /\ v = text_value 16 t /\ v <= 4294967295)) /\
  (forall v, hex_to_u64 t = Some v <->
             (hex_form t /\ v = text_value 16 t /\ v <= 18446744073709551615)) /\
  (forall z, hex_to_i8 t = Some z <->
     (hex_form t /\ text_value 16 t < 256 /\ (-128 <= z < 128)%Z /\
      (z mod 256 = Z.of_N (text_value 16 t))%Z)) /\
  (forall z, hex_to_i16 t = Some z <->
     (hex_form t /\ text_value 16 t < 65536 /\ (-32768 <= z < 32768)%Z /\
      (z mod 65536 = Z.of_N (text_value 16 t))%Z)) /\
  (forall z, hex_to_i32 t = Some z <->
     (hex_form t /\ text_value 16 t < 4294967296 /\ (-2147483648 <= z < 2147483648)%Z /\
      (z mod 4294967296 = Z.of_N (text_value 16 t))%Z)) /\
  (forall z, hex_to_i64 t = Some z <->
     (hex_form t /\ text_value 16 t < 18446744073709551616 /\
      (-9223372036854775808 <= z < 9223372036854775808)%Z /\
      (z mod 18446744073709551616 = Z.of_N (text_value 16 t))%Z)).
Proof.
  intros t. split; [|split; [|split; [|split; [|split; [|split; [|split]]]]]]; intros x.
  - exact (hex_to_u8_spec t x). - exact (hex_to_u16_spec t x). - exact (hex_to_u32_spec t x).
  - exact (hex_to_u64_spec t x). - exact (hex_to_i8_spec t x). - exact (hex_to_i16_spec t x).
  - exact (hex_to_i32_spec t x). - exact (hex_to_i64_spec t x).
Qed.
Print Assumptions c20_hex_sound.

(* ToHex (with and without the 0x prefix) then (Prefixed)HexStringToInt, for every value.        *)
Theorem c20_hex_roundtrip :
  (forall n, n <= 255 -> hex_to_u8 (to_hex_w 8 false false (Z.of_N n)) = Some n /\
                         prefixed_hex hex_to_u8 (to_hex_w 8 false true (Z.of_N n)) = Some n) /\
  (forall n, n <= 65535 -> hex_to_u16 (to_hex_w 16 false false (Z.of_N n)) = Some n /\
                           prefixed_hex hex_to_u16 (to_hex_w 16 false true (Z.of_N n)) = Some n) /\
  (forall n, n <= 4294967295 -> hex_to_u32 (to_hex_w 32 false false (Z.of_N n)) = Some n /\
                                prefixed_hex hex_to_u32 (to_hex_w 32 false true (Z.of_N n)) = Some n) /\
  (forall n, n <= 18446744073709551615 ->
             hex_to_u64 (to_hex_w 64 false false (Z.of_N n)) = Some n /\
             prefixed_hex hex_to_u64 (to_hex_w 64 false true (Z.of_N n)) = Some n) /\
  (forall z, (-128 <= z < 128)%Z -> hex_to_i8 (to_hex_w 8 true false z) = Some z /\
                                    prefixed_hex hex_to_i8 (to_hex_w 8 true true z) = Some z) /\
  (forall z, (-32768 <= z < 32768)%Z -> hex_to_i16 (to_hex_w 16 true false z) = Some z /\
                                        prefixed_hex hex_to_i16 (to_hex_w 16 true true z) = Some z) /\
  (forall z, (-2147483648 <= z < 2147483648)%Z ->
             hex_to_i32 (to_hex_w 32 true false z) = Some z /\
             prefixed_hex hex_to_i32 (to_hex_w 32 true true z) = Some z) /\
  (forall z, (-9223372036854775808 <= z < 9223372036854775808)%Z ->
             hex_to_i64 (to_hex_w 64 true false z) = Some z /\
             prefixed_hex hex_to_i64 (to_hex_w 64 true true z) = Some z).
Proof.
  split; [|split; [|split; [|split; [|split; [|split; [|split]]]]]]; intros x Hx;
    rewrite to_hex_w_prefix; split.
  1-2: apply hex_to_u8_spec, (uhex_roundtrip 8); [reflexivity|exact Hx].
  1-2: apply hex_to_u16_spec, (uhex_roundtrip 16); [reflexivity|exact Hx].
  1-2: apply hex_to_u32_spec, (uhex_roundtrip 32); [reflexivity|exact Hx].
  1-2: apply hex_to_u64_spec, (uhex_roundtrip 64); [reflexivity|exact Hx].
  1-2: apply hex_to_i8_spec, (shex_roundtrip 8); [lia|exact Hx].
  1-2: apply hex_to_i16_spec, (shex_roundtrip 16); [lia|exact Hx].
  1-2: apply hex_to_i32_spec, (shex_roundtrip 32); [lia|exact Hx].
  1-2: apply hex_to_i64_spec, (shex_roundtrip 64); [lia|exact Hx].
Qed.
Print Assumptions c20_hex_roundtrip.

(* RDM UID "mmmm:dddddddd": every UID round-trips; an accepted text is exactly 4 hex digits,
   ':', 8 hex digits denoting the two halves.                                                    *)
Theorem c20_uid_roundtrip : forall esta dev, esta <= 65535 -> dev <= 4294967295 ->
  uid_from_string (uid_to_string (esta, dev)) = Some (esta, dev).
Proof. exact uid_roundtrip. Qed.
Print Assumptions c20_uid_roundtrip.

Theorem c20_uid_sound : forall t esta dev, uid_from_string t = Some (esta, dev) ->
  exists t0 t1, t = t0 ++ [58] ++ t1 /\ len t0 = 4 /\ len t1 = 8 /\
    (hex_form t0 /\ esta = text_value 16 t0 /\ esta <= 65535) /\
    (hex_form t1 /\ dev = text_value 16 t1 /\ dev <= 4294967295).
Proof. exact uid_sound. Qed.
Print Assumptions c20_uid_sound.

(* MAC address: every address round-trips; an accepted text has six fields, each a hex text
   denoting the corresponding octet (<= 255).                                                     *)
Theorem c20_mac_roundtrip : forall m, length m = 6%nat -> Forall (fun b => b <= 255) m ->
  mac_from_string (mac_to_string m) = Some m.
Proof. exact mac_roundtrip. Qed.
Print Assumptions c20_mac_roundtrip.

Theorem c20_mac_sound : forall t m, mac_from_string t = Some m ->
  length (string_split [58; 46] t) = 6%nat /\ length m = 6%nat /\
  forall i tok b, nth_error (string_split [58; 46] t) i = Some tok -> nth_error m i = Some b ->
                  hex_form tok /\ b = text_value 16 tok /\ b <= 255.
Proof. exact mac_sound. Qed.
Print Assumptions c20_mac_sound.

(* Wrong number of fields is rejected: UID needs exactly one ':', MAC exactly five separators
   (':' or '.'), a socket address exactly one ':' (for any inet_pton).                           *)
Theorem c20_fieldcount :
  (forall t, count_chars [58] t <> 1%nat -> uid_from_string t = None) /\
  (forall t, count_chars [58; 46] t <> 5%nat -> mac_from_string t = None) /\
  (forall pton t, count_chars [58] t <> 1%nat -> sockaddr_from_string pton t = None).
Proof.
  split; [exact uid_fieldcount|split; [exact mac_fieldcount|]].
  intros pton t H. apply not_some_none. intros x Hx. apply H. exact (sockaddr_fieldcount pton t x Hx).
Qed.
Print Assumptions c20_fieldcount.

(* DMX frames as comma separated slots: every frame of <= 512 slots round-trips, and a text whose
   items are plain decimal numbers 0..255 yields exactly those slots.                             *)
Theorem c20_dmx_roundtrip : forall d, (length d <= 512)%nat -> Forall (fun b => b <= 255) d ->
  dmx_set_from_string (dmx_to_string d) = d.
Proof. exact dmx_roundtrip. Qed.
Print Assumptions c20_dmx_roundtrip.

(* PARTIAL (finding C20-dmx-atoi-truncation): SetFromString never rejects.  Proved: an item whose
   leading number is in 0..255 (or "-0") becomes that slot, an item without a number becomes 0
   ("invalid values are set to 0").  The guard excludes exactly the items whose number is
   outside 0..255, for which the stored slot is a truncation (next theorem).                      *)
Theorem c20_dmx_text_partial :
  (forall items, items <> [] -> (length items <= 512)%nat ->
     Forall (fun ds => ds <> [] /\ forallb is_digit ds = true /\ text_value 10 ds <= 255) items ->
     dmx_set_from_string (join [44] items) = map (text_value 10) items) /\
  (forall tok neg m rest, dec_form (cstr tok) neg m rest -> m <= 255 -> (neg = true -> m = 0) ->
     dmx_item tok = m) /\
  (forall tok, (forall neg m rest, ~ dec_form (cstr tok) neg m rest) -> dmx_item tok = 0).
Proof. split; [exact dmx_text|split; [exact dmx_item_in_range|exact dmx_item_no_number]]. Qed.
Print Assumptions c20_dmx_text_partial.

(* The full-strength clause ("rejects text that denotes a value outside the target type") is FALSE
   for DmxBuffer::SetFromString: "300" denotes 300 (> 255), is accepted, and yields slot 44.       *)
Theorem c20_dmx_text_refuted :
  exists t m, dec_form t false m [] /\ 255 < m /\ dmx_set_from_string t = [m mod 256] /\ m mod 256 <> m.
Proof.
  exists [51; 48; 48], 300. split.
  - exists [51; 48; 48]. repeat split. exists [], [], [51; 48; 48]. repeat split; auto. discriminate.
  - vm_compute. repeat split; congruence.
Qed.
Print Assumptions c20_dmx_text_refuted.

(* Booleans: exactly the six words (case-insensitive) are accepted, with the obvious value.       *)
Theorem c20_bool_exact : forall t b, string_to_bool t = Some b <->
  ((to_lower t = s_true \/ to_lower t = s_t \/ to_lower t = s_1) /\ b = true) \/
  ((to_lower t = s_false \/ to_lower t = s_f \/ to_lower t = s_0) /\ b = false /\
   to_lower t <> s_true /\ to_lower t <> s_t /\ to_lower t <> s_1).
Proof. exact string_to_bool_spec. Qed.
Print Assumptions c20_bool_exact.

(* IPv4 socket address "a.b.c.d:port".  inet_pton / inet_ntop are arbitrary functions satisfying
   the three named hypotheses (round trip of the libc pair on 4-byte addresses; inet_ntop output
   contains neither ':' nor NUL and is not empty).                                                *)
Theorem c20_sockaddr_roundtrip : forall (pton : str -> option (list N)) (ntop : list N -> str),
  (forall a, length a = 4%nat -> bytes_ok a = true -> pton (ntop a) = Some a) ->
  (forall a c, In c (ntop a) -> c <> 58 /\ c <> 0) ->
  (forall a, length a = 4%nat -> ntop a <> []) ->
  forall a port, length a = 4%nat -> bytes_ok a = true -> port <= 65535 ->
    ipv4_from_string pton (ipv4_to_string ntop a) = Some a /\
    sockaddr_from_string pton (sockaddr_to_string ntop (a, port)) = Some (a, port).
Proof.
  intros pton ntop H1 H2 H3 a port Hl Hb Hp. split.
  - exact (ipv4_roundtrip pton ntop H1 H2 H3 a Hl Hb).
  - exact (sockaddr_roundtrip pton ntop H1 H2 H3 a port Hl Hb Hp).
Qed.
Print Assumptions c20_sockaddr_roundtrip.

(* An accepted socket address text is host ':' port with a host inet_pton accepts and a port text
   that is, strictly, a decimal number denoting the returned port (<= 65535).                     *)
Theorem c20_sockaddr_sound : forall pton t a port, sockaddr_from_string pton t = Some (a, port) ->
  exists h pt, t = h ++ [58] ++ pt /\ ~ In 58 h /\ h <> [] /\ pton (cstr h) = Some a /\
               exists rest, dec_form pt false port rest /\ port <= 65535 /\ (true = true -> rest = []).
Proof. exact sockaddr_sound. Qed.
Print Assumptions c20_sockaddr_sound.

(* ACN component id: uuid_parse / uuid_unparse are arbitrary functions with the named hypotheses. *)
Theorem c20_cid_roundtrip : forall (parse : str -> option (list N)) (unparse : list N -> str),
  (forall u, length u = 16%nat -> bytes_ok u = true -> parse (unparse u) = Some u) ->
  (forall u c, In c (unparse u) -> c <> 0) ->
  forall u, length u = 16%nat -> bytes_ok u = true ->
    cid_from_string parse (cid_to_string unparse u) = u.
Proof. exact cid_roundtrip. Qed.
Print Assumptions c20_cid_roundtrip.

(* IPv6 text.  inet_ntop / inet_pton (AF_INET6) are the ordinary definitions of Ipv6.v (RFC 5952
   form as glibc prints it; glibc's inet_pton6 grammar), validated against the platform on every
   run.  For every 128-bit address the text is at most 39 characters (so it fits the
   INET6_ADDRSTRLEN = 46 byte buffer of IPV6Address::ToString, and a buffer of 39 bytes is one
   too small for the NUL) ...                                                                    *)
Theorem c20_ipv6_length : forall a, length a = 16%nat -> bytes_ok a = true ->
  (length (ipv6_to_text a) <= 39)%nat /\ (length (ipv6_to_text a) <= 45)%nat.
Proof. intros a Hl Hb. pose proof (ipv6_text_length a Hl Hb). split; [assumption|lia]. Qed.
Print Assumptions c20_ipv6_length.

(* ... and parsing the text gives the address back, for EVERY 128-bit address (all three forms
   glibc prints: pure hex groups, "::" compression, embedded IPv4), both for the libc pair and
   through IPV6Address::FromString.                                                              *)
Theorem c20_ipv6_roundtrip : forall a, length a = 16%nat -> bytes_ok a = true ->
  ipv6_of_text (ipv6_to_text a) = Some a /\ ipv6_from_string (ipv6_to_text a) = Some a.
Proof. exact ipv6_roundtrip. Qed.
Print Assumptions c20_ipv6_roundtrip.

(* ================================================================================================
   Extension round: exact acceptance (iff) for the composite types, the remaining public entry
   points, hypothesis-free round trips on the libc models, exact DMX items, constants.           *)

(* Constants the model writes as literals, regenerated from the headers on every run (Gen.v). *)
Theorem c20_consts :
  (N.of_nat DMX_UNIVERSE_SIZE = Gen.G_DMX_UNIVERSE_SIZE /\ Gen.G_DMX_UNIVERSE_SIZE = 512) /\
  (Gen.G_MAC_LENGTH = 6 /\ Gen.G_CID_LENGTH = 16 /\ Gen.G_IPV6_LENGTH = 16 /\
   Gen.G_INET6_ADDRSTRLEN = 46 /\ Gen.G_INET_ADDRSTRLEN = 16) /\
  (UINT8_MAX = Gen.G_UINT8_MAX /\ UINT16_MAX = Gen.G_UINT16_MAX /\ UINT32_MAX = Gen.G_UINT32_MAX /\
   UINT64_MAX = Gen.G_UINT64_MAX /\ ULLONG_MAX = Gen.G_ULLONG_MAX /\ LLONG_MAX = Gen.G_LLONG_MAX /\
   TWO63 = Gen.G_NEG_INT64_MIN /\ INT64_MAX = Z.of_N Gen.G_INT64_MAX /\
   INT64_MIN = (- Z.of_N Gen.G_NEG_INT64_MIN)%Z) /\
  (Gen.G_INT8_MAX = 127 /\ Gen.G_NEG_INT8_MIN = 128 /\ Gen.G_INT16_MAX = 32767 /\ Gen.G_NEG_INT16_MIN = 32768 /\
   Gen.G_INT32_MAX = 2147483647 /\ Gen.G_NEG_INT32_MIN = 2147483648) /\
  (* LP64 (strtoul = strtoull, strtol = strtoll) and the ToHex field widths digits/4 *)
  (Gen.G_SIZEOF_LONG = 8 /\ Gen.G_SIZEOF_INT = 4 /\ Gen.G_HEX_BIT_WIDTH = 4 /\
   Gen.G_DIGITS_U8 = 8 /\ Gen.G_DIGITS_I8 = 7 /\ Gen.G_DIGITS_U64 = 64 /\ Gen.G_DIGITS_I64 = 63).
Proof. repeat split; reflexivity. Qed.
Print Assumptions c20_consts.

(* StringToIntOrDefault<T> (the second public entry point of every StringToInt overload): it is
   the parsed value when, and only when, StringToInt accepts, otherwise the alternative.          *)
Theorem c20_or_default : forall (A : Type) (r : option A) (alt v : A),
  (r = Some v -> or_default r alt = v) /\ (r = None -> or_default r alt = alt).
Proof. intros A r alt v. split; intros ->; reflexivity. Qed.
Print Assumptions c20_or_default.

(* UID::FromString accepts EXACTLY the texts  4 hex digits ':' 8 hex digits  and returns the two
   numbers they denote (there is no strict/lenient variant; nothing else is accepted).            *)
Theorem c20_uid_exact : forall t esta dev, uid_from_string t = Some (esta, dev) <->
  exists t0 t1, t = t0 ++ [58] ++ t1 /\ len t0 = 4 /\ len t1 = 8 /\ hex_form t0 /\ hex_form t1 /\
                esta = text_value 16 t0 /\ dev = text_value 16 t1.
Proof. exact uid_exact. Qed.
Print Assumptions c20_uid_exact.

(* MACAddress::FromString (StringToEther) accepts EXACTLY the texts with six ':'/'.' separated
   fields, each a hex text denoting an octet <= 255, and returns those octets.                    *)
Theorem c20_mac_exact : forall t m, mac_from_string t = Some m <->
  (length (string_split [58; 46] t) = 6%nat /\
   Forall2 (fun tok b => hex_form tok /\ b = text_value 16 tok /\ b <= 255) (string_split [58; 46] t) m).
Proof. exact mac_exact. Qed.
Print Assumptions c20_mac_exact.

(* StringToBoolTolerant / StringToBool accept EXACTLY the listed words, case-insensitively; a text
   containing a NUL (or any other extra character) is rejected.                                   *)
Theorem c20_bool_tolerant_exact : forall t b,
  (string_to_bool_tolerant t = Some b <->
     (In (to_lower t) [s_true; s_t; s_1; s_on; s_enable; s_enabled] /\ b = true) \/
     (In (to_lower t) [s_false; s_f; s_0; s_off; s_disable; s_disabled] /\ b = false)) /\
  (string_to_bool t = Some b <->
     (In (to_lower t) [s_true; s_t; s_1] /\ b = true) \/ (In (to_lower t) [s_false; s_f; s_0] /\ b = false)) /\
  (In 0 t -> string_to_bool_tolerant t = None).
Proof.
  intros t b. split; [exact (string_to_bool_tolerant_spec t b)|].
  split; [exact (string_to_bool_strict_words t b)|exact (bool_nul_rejected t)].
Qed.
Print Assumptions c20_bool_tolerant_exact.

(* IPV4Address::FromString and IPV4SocketAddress::FromString, for ANY inet_pton: accepted EXACTLY
   when the text is non-empty and inet_pton accepts its C string, resp. when it is  host ':' port
   with such a host (no ':' in it) and a port text that strictly denotes a number <= 65535.       *)
Theorem c20_ipv4_sockaddr_exact : forall pton t a port,
  (ipv4_from_string pton t = Some a <-> (t <> [] /\ pton (cstr t) = Some a)) /\
  (sockaddr_from_string pton t = Some (a, port) <->
     exists h pt, t = h ++ [58] ++ pt /\ ~ In 58 h /\ h <> [] /\ pton (cstr h) = Some a /\
                  exists rest, dec_form pt false port rest /\ port <= 65535 /\ (true = true -> rest = [])).
Proof. intros pton t a port. split; [exact (ipv4_exact pton t a)|exact (sockaddr_exact pton t a port)]. Qed.
Print Assumptions c20_ipv4_sockaddr_exact.

(* The round trips of IPv4 addresses, socket addresses and CIDs WITHOUT hypotheses, for the
   Libc.v models of inet_pton/inet_ntop/uuid_parse/uuid_unparse (the ones validated against the
   platform on every run): every value of each type.                                              *)
Theorem c20_net_roundtrip_libc :
  (forall a port, length a = 4%nat -> bytes_ok a = true -> port <= 65535 ->
     ipv4_from_string inet_pton4 (ipv4_to_string inet_ntop4 a) = Some a /\
     sockaddr_from_string inet_pton4 (sockaddr_to_string inet_ntop4 (a, port)) = Some (a, port)) /\
  (forall u, length u = 16%nat -> bytes_ok u = true ->
     uuid_parse (uuid_unparse u) = Some u /\
     cid_from_string uuid_parse (cid_to_string uuid_unparse u) = u).
Proof.
  split; [exact ipv4_libc_roundtrip|]. intros u Hl Hb. split.
  - exact (proj1 (uuid_libc_roundtrip u Hl Hb)).
  - exact (cid_libc_roundtrip u Hl Hb).
Qed.
Print Assumptions c20_net_roundtrip_libc.

(* DmxBuffer::SetFromString, EVERY text: at most 512 slots; the slots are the items of the first
   512 comma separated fields (further fields are ignored); an item with a leading decimal number
   (blanks and sign allowed, anything may follow) becomes that number modulo 256 - i.e. the number
   itself when it is in 0..255, the truncation of finding C20-dmx-atoi-truncation otherwise, with
   strtol's saturation beyond long - and an item without a number becomes 0.  Nothing about the
   text form remains unproved; what fails the property is exactly the out-of-range region.        *)
Theorem c20_dmx_text_exact :
  (forall input, dmx_set_from_string input =
     match input with [] => [] | _ => map dmx_item (firstn 512 (string_split [44] input)) end) /\
  (forall input, (length (dmx_set_from_string input) <= 512)%nat) /\
  (forall tok neg m rest, dec_form (cstr tok) neg m rest ->
     dmx_item tok =
     if neg then (if 9223372036854775808 <? m then 0 else Z.to_N ((- Z.of_N m) mod 256))
     else (if 9223372036854775807 <? m then 255 else m mod 256)) /\
  (forall tok, (forall neg m rest, ~ dec_form (cstr tok) neg m rest) -> dmx_item tok = 0).
Proof.
  split; [exact dmx_set_from_string_unfold|]. split; [exact dmx_length|].
  split; [exact dmx_item_exact|exact dmx_item_no_number].
Qed.
Print Assumptions c20_dmx_text_exact.

(* IPv4 text without hypotheses: the inet_pton(AF_INET) model accepts EXACTLY the texts that
   inet_ntop(AF_INET) prints - four canonical decimal numerals 0..255 (to_dec: digits denoting the
   octet, c20_int_roundtrip's printer) separated by '.' - and returns that address.  Hence, for the
   libc model, IPV4Address::FromString and IPV4SocketAddress::FromString accept a text only if it
   denotes exactly the returned value, and reject everything else.                                *)
Theorem c20_ipv4_exact_libc :
  (forall t a, inet_pton4 t = Some a <->
     (length a = 4%nat /\ Forall (fun b => b <= 255) a /\ t = inet_ntop4 a)) /\
  (forall t a, ipv4_from_string inet_pton4 t = Some a <->
     (t <> [] /\ length a = 4%nat /\ Forall (fun b => b <= 255) a /\ cstr t = inet_ntop4 a)) /\
  (forall t a port, sockaddr_from_string inet_pton4 t = Some (a, port) <->
     exists h pt, t = h ++ [58] ++ pt /\ ~ In 58 h /\ h <> [] /\
                  length a = 4%nat /\ Forall (fun b => b <= 255) a /\ cstr h = inet_ntop4 a /\
                  exists rest, dec_form pt false port rest /\ port <= 65535 /\ (true = true -> rest = [])).
Proof. split; [exact pton4_exact|split; [exact ipv4_libc_exact|exact sockaddr_libc_exact]]. Qed.
Print Assumptions c20_ipv4_exact_libc.

(* The OLA-owned part of IPv6 and CID parsing, exactly: IPV6Address::FromString is inet_pton on the
   C string of a non-empty text; CID::FromString never rejects - it is uuid_parse's value on the
   C string, and the nil CID for every text uuid_parse refuses (for ANY uuid_parse).               *)
Theorem c20_ipv6_cid_wrappers :
  (forall t a, ipv6_from_string t = Some a <-> (t <> [] /\ ipv6_of_text (cstr t) = Some a)) /\
  (forall (parse : str -> option (list N)) t,
     (exists u, parse (cstr t) = Some u /\ cid_from_string parse t = u) \/
     (parse (cstr t) = None /\ cid_from_string parse t = nil_uuid)).
Proof.
  split.
  - intros t a. unfold ipv6_from_string. destruct t as [|c t].
    + split; [discriminate|intros [H _]; congruence].
    + split; [intros H; split; [discriminate|exact H]|intros [_ H]; exact H].
  - exact cid_from_string_cases.
Qed.
Print Assumptions c20_ipv6_cid_wrappers.

(* StringSplit (used by the UID, MAC and DMX parsers), any delimiter set: one token more than there
   are delimiter characters, no token contains a delimiter, and (single delimiter) joining the
   tokens with it gives the input back - so no character of the text is lost or invented.        *)
Theorem c20_split : forall delims input,
  length (string_split delims input) = S (count_chars delims input) /\
  Forall (fun tok => forall c, In c tok -> mem_char delims c = false) (string_split delims input) /\
  (forall d, delims = [d] -> join [d] (string_split delims input) = input).
Proof. exact string_split_spec. Qed.
Print Assumptions c20_split.

(* A long-lived DmxBuffer (the object model the correspondence drives with sequences of
   SetFromString / Set / SetRangeToValue on ONE buffer): whatever the earlier calls left in the
   block, after SetFromString(text) the frame is the function of the text alone that the theorems
   above characterise - in particular an empty field reads 0, never an old slot.                  *)
Theorem c20_dmx_history : forall ops input o,
  dmx_frame (dmx_run (ops ++ [OpText input])) = dmx_set_from_string input /\
  dmx_frame (dmx_step o (OpText input)) = dmx_set_from_string input.
Proof. intros ops input o. split; [exact (dmx_history ops input)|exact (dmx_text_step_frame o input)]. Qed.
Print Assumptions c20_dmx_history.

(* Bytes outside ASCII: a text that contains a byte >= 0x80 ANYWHERE (first, middle, last) is rejected
   by every parser whose grammar has no free-form tail: all HexStringToInt overloads, UID, MAC,
   strict StringToInt, and the booleans.  (Lenient StringToInt and DMX items ignore what follows
   the number by design; IPv4/IPv6/CID hand the C string to libc.)  Texts are byte lists, so the
   exact-acceptance theorems above already quantify over such bytes; this is the direct statement. *)
Theorem c20_high_bytes_rejected : forall t c, In c t -> 128 <= c ->
  hex_to_u64 t = None /\ hex_to_u32 t = None /\ hex_to_u16 t = None /\ hex_to_u8 t = None /\
  hex_to_i64 t = None /\ hex_to_i32 t = None /\ hex_to_i16 t = None /\ hex_to_i8 t = None /\
  uid_from_string t = None /\ mac_from_string t = None /\
  string_to_u64 true t = None /\ string_to_i64 true t = None /\
  string_to_bool_tolerant t = None.
Proof. exact high_byte_rejected. Qed.
Print Assumptions c20_high_bytes_rejected.

(* ACN component ids on the libuuid model: uuid_parse accepts EXACTLY the 36 character texts
   8-4-4-4-12 hex digits (either case) with hyphens at positions 8, 13, 18, 23, and returns the 16
   bytes the digit pairs denote (each <= 255); so CID::FromString returns exactly the denoted CID
   for those texts (as C strings) and the nil CID for every other text.                          *)
Theorem c20_cid_exact :
  (forall s u, uuid_parse s = Some u <->
     exists g1 g2 g3 g4 g5,
       s = g1 ++ 45 :: g2 ++ 45 :: g3 ++ 45 :: g4 ++ 45 :: g5 /\
       length g1 = 8%nat /\ length g2 = 4%nat /\ length g3 = 4%nat /\ length g4 = 4%nat /\ length g5 = 12%nat /\
       forallb is_hex_char (g1 ++ g2 ++ g3 ++ g4 ++ g5) = true /\
       u = pair_bytes (g1 ++ g2 ++ g3 ++ g4 ++ g5)) /\
  (forall s u, uuid_form s u -> length u = 16%nat /\ Forall (fun b => b <= 255) u) /\
  (forall t, (forall u, uuid_form (cstr t) u -> cid_from_string uuid_parse t = u) /\
             ((forall u, ~ uuid_form (cstr t) u) -> cid_from_string uuid_parse t = nil_uuid)).
Proof. split; [exact uuid_parse_exact|split; [exact uuid_form_bytes|exact cid_exact]]. Qed.
Print Assumptions c20_cid_exact.

(* StringTrim removes exactly a prefix and a suffix of blanks (" \n\r\t") and what is left neither
   starts nor ends with one.                                                                      *)
Theorem c20_trim : forall s, exists l r,
  s = l ++ string_trim s ++ r /\ forallb is_trim l = true /\ forallb is_trim r = true /\
  no_trim_first (string_trim s) /\ no_trim_first (rev (string_trim s)).
Proof. exact string_trim_spec. Qed.
Print Assumptions c20_trim.

(* inet_pton(AF_INET6) on the glibc model, accepts => denotes for the FULL form: a text that
   contains no '.' and no "::" is accepted exactly when it is eight groups of 1-4 hex digits
   (either case, leading zeros allowed) separated by single colons, and the result is the eight
   group values; and every such text is accepted (no side condition needed for that direction).   *)
Theorem c20_ipv6_full_form_exact : forall t ws,
  (~ In 46 t -> (forall a b, t <> a ++ 58 :: 58 :: b) ->
   (inet_pton6 t = Some ws <->
    exists gs, length gs = 8%nat /\
      Forall (fun g => (1 <= length g <= 4)%nat /\ forallb is_hex_char g = true) gs /\
      t = join [58] gs /\ ws = map (text_value 16) gs)) /\
  ((exists gs, length gs = 8%nat /\
      Forall (fun g => (1 <= length g <= 4)%nat /\ forallb is_hex_char g = true) gs /\
      t = join [58] gs /\ ws = map (text_value 16) gs) -> inet_pton6 t = Some ws).
Proof.
  intros t ws. split.
  - intros Hdot Hdc. split; [exact (full_form_sound t ws Hdot Hdc)|exact (full_form_complete t ws)].
  - exact (full_form_complete t ws).
Qed.
Print Assumptions c20_ipv6_full_form_exact.

(* inet_pton(AF_INET6) on the glibc model, every text without '.': accepted EXACTLY when it is
   either the full form (eight groups) or two possibly empty lists of groups, at most seven in
   all, around one "::"; groups are 1-4 hex digits separated by single colons; the result is the
   group values with the "::" replaced by the missing zero words.  (Texts with an embedded IPv4
   suffix are the part not covered by an accepts => denotes theorem.)                             *)
Theorem c20_ipv6_compressed_exact : forall t ws, ~ In 46 t ->
  (inet_pton6 t = Some ws <->
   (exists gs, length gs = 8%nat /\
      Forall (fun g => (1 <= length g <= 4)%nat /\ forallb is_hex_char g = true) gs /\
      t = join [58] gs /\ ws = map (text_value 16) gs) \/
   (exists g1 g2,
      Forall (fun g => (1 <= length g <= 4)%nat /\ forallb is_hex_char g = true) g1 /\
      Forall (fun g => (1 <= length g <= 4)%nat /\ forallb is_hex_char g = true) g2 /\
      (length g1 + length g2 <= 7)%nat /\
      t = join [58] g1 ++ [58; 58] ++ join [58] g2 /\
      ws = map (text_value 16) g1 ++ repeat 0 (8 - (length g1 + length g2)) ++ map (text_value 16) g2)).
Proof.
  intros t ws Hdot. split.
  - exact (compressed_sound t ws Hdot).
  - intros [H|H]; [exact (full_form_complete t ws H)|exact (compressed_complete t ws H)].
Qed.
Print Assumptions c20_ipv6_compressed_exact.

(* inet_pton(AF_INET6) on the glibc model, texts with an embedded IPv4 suffix: an accepted text that
   contains a '.' is  P ++ "a.b.c.d"  where the canonical dotted quad (octets <= 255, inet_ntop4's
   output) is the LAST token (P is empty or ends with ':' and has no '.'), and it is accepted with
   exactly the value of the '.'-free text  P ++ hex(a*256+b) ":" hex(c*256+d)  - whose denotation
   is given by c20_ipv6_compressed_exact; conversely every such pair of texts parses alike.       *)
Theorem c20_ipv6_embedded_ipv4_exact :
  (forall t ws, In 46 t -> inet_pton6 t = Some ws ->
     exists P a b c d, t = P ++ inet_ntop4 [a; b; c; d] /\ ~ In 46 P /\ (P = [] \/ exists P0, P = P0 ++ [58]) /\
       (a <= 255 /\ b <= 255 /\ c <= 255 /\ d <= 255) /\
       inet_pton6 (P ++ to_hex (a * 256 + b) ++ 58 :: to_hex (c * 256 + d)) = Some ws) /\
  (forall a b c d P, a <= 255 -> b <= 255 -> c <= 255 -> d <= 255 -> ~ In 46 P ->
     (P = [] \/ exists P0, P = P0 ++ [58]) ->
     inet_pton6 (P ++ inet_ntop4 [a; b; c; d]) = inet_pton6 (P ++ to_hex (a * 256 + b) ++ 58 :: to_hex (c * 256 + d))).
Proof. split; [exact embedded_sound|exact transfer_top]. Qed.
Print Assumptions c20_ipv6_embedded_ipv4_exact.

(* All three forms together: inet_pton6 accepts t with value ws EXACTLY when t - after replacing
   a final dotted-quad token by the two hex groups it stands for - is the full form or the "::"
   form denoting ws.                                                                             *)
Theorem c20_ipv6_exact : forall t ws, inet_pton6 t = Some ws <->
  exists t', v4_norm t t' /\ (full_form t' ws \/ compressed_form t' ws).
Proof. exact ipv6_exact. Qed.
Print Assumptions c20_ipv6_exact.

(* ---- non-vacuity ------------------------------------------------------------------------------- *)
(* the hypotheses on the external functions are jointly satisfiable ... *)
Example ex_net_hyps_sat :
  let ntop := map (N.add 1000) in
  let pton := fun s : str => Some (map (fun c => c - 1000) s) in
  (forall a, length a = 4%nat -> bytes_ok a = true -> pton (ntop a) = Some a) /\
  (forall a c, In c (ntop a) -> c <> 58 /\ c <> 0) /\
  (forall a, length a = 4%nat -> ntop a <> []).
Proof.
  cbv zeta. split; [|split].
  - intros a _ _. f_equal. rewrite map_map. rewrite <- (map_id a) at 2. apply map_ext. intros x. lia.
  - intros a c Hc. apply in_map_iff in Hc as (x & <- & _). lia.
  - intros a Hl E. apply map_eq_nil in E. subst. discriminate.
Qed.
Example ex_uuid_hyps_sat :
  let unparse := map (N.add 1000) in
  let parse := fun s : str => Some (map (fun c => c - 1000) s) in
  (forall u, length u = 16%nat -> bytes_ok u = true -> parse (unparse u) = Some u) /\
  (forall u c, In c (unparse u) -> c <> 0).
Proof.
  cbv zeta. split.
  - intros a _ _. f_equal. rewrite map_map. rewrite <- (map_id a) at 2. apply map_ext. intros x. lia.
  - intros a c Hc. apply in_map_iff in Hc as (x & <- & _). lia.
Qed.
(* ... and the Libc.v models of the real functions (the ones the correspondence runs) behave so
   on sample values *)
Example ex_libc_inet : inet_pton4 (inet_ntop4 [192; 168; 0; 255]) = Some [192; 168; 0; 255] /\
  sockaddr_from_string inet_pton4 (sockaddr_to_string inet_ntop4 ([10; 0; 0; 1], 65535)) = Some ([10; 0; 0; 1], 65535).
Proof. vm_compute. split; reflexivity. Qed.
Example ex_libc_uuid : uuid_parse (uuid_unparse (repeat 171 16)) = Some (repeat 171 16).
Proof. vm_compute. reflexivity. Qed.
(* accepted and rejected texts exist *)
Example ex_accept : string_to_u16 false [32; 52; 50; 120] = Some 42 /\ string_to_u16 true [32; 52; 50; 120] = None.
Proof. vm_compute. split; reflexivity. Qed.
Example ex_overflow_rejected :
  string_to_u64 false (to_dec 18446744073709551616) = None /\ string_to_u64 false (45 :: to_dec 1) = None /\
  string_to_i64 true (to_dec 9223372036854775808) = None /\ hex_to_u32 (to_hex 4294967296) = None.
Proof. vm_compute. repeat split; reflexivity. Qed.
Example ex_dec_form : dec_form [32; 45; 49; 50; 120] true 12 [120].
Proof.
  exists [32; 45; 49; 50]. repeat split. exists [32], [45], [49; 50]. repeat split; auto. discriminate.
Qed.

(* the 39 character bound is attained (pure hex form), the compressed and the embedded-IPv4 forms *)
Example ex_ipv6_39 : length (ipv6_to_text (repeat 255 16)) = 39%nat /\
  ipv6_of_text (ipv6_to_text (repeat 255 16)) = Some (repeat 255 16).
Proof. vm_compute. split; reflexivity. Qed.
Example ex_ipv6_forms :
  ipv6_to_text (repeat 0 15 ++ [1]) = [58; 58; 49] /\
  ipv6_to_text (repeat 0 10 ++ [255; 255; 1; 2; 3; 4]) = [58; 58; 102; 102; 102; 102; 58; 49; 46; 50; 46; 51; 46; 52] /\
  v4_form (words_of_bytes (repeat 0 10 ++ [255; 255; 1; 2; 3; 4])) = true /\
  v4_form (words_of_bytes (repeat 0 15 ++ [1])) = false /\
  ipv6_of_text (ipv6_to_text (repeat 0 10 ++ [255; 255; 1; 2; 3; 4])) = Some (repeat 0 10 ++ [255; 255; 1; 2; 3; 4]).
Proof. vm_compute. repeat split; reflexivity. Qed.

Example ex_ext :
  uid_from_string [55; 97; 55; 48; 58; 48; 48; 48; 48; 48; 48; 48; 49] = Some (31344, 1) /\
  string_to_bool_tolerant [69; 110; 65; 98; 108; 101; 100] = Some true /\
  string_to_bool_tolerant [116; 0] = None /\
  dmx_set_from_string [32; 50; 54; 54; 44; 44; 45; 49; 44; 49; 120] = [10; 0; 255; 1] /\
  or_default (string_to_u8 true [50; 53; 54]) 42 = 42.
Proof. vm_compute. repeat split; reflexivity. Qed.

Example ex_dmx_dirty :
  dmx_frame (dmx_run [OpText [57; 44; 57; 44; 57]; OpRange 201 300; OpSet [238; 238; 238]; OpText [49; 44; 44; 51]]) = [1; 0; 3] /\
  dmx_frame (dmx_run [OpText [57; 44; 57; 44; 57]; OpRange 201 300]) = [201; 201; 201] ++ repeat 201 297.
Proof. vm_compute. split; reflexivity. Qed.

Example ex_high_byte : hex_to_u8 [49; 178] = None /\ uid_from_string [55; 97; 55; 48; 58; 48; 48; 48; 48; 48; 48; 48; 177] = None /\
  mac_from_string [48; 49; 58; 50; 51; 58; 52; 53; 58; 54; 55; 58; 56; 57; 58; 97; 198] = None.
Proof. vm_compute. repeat split; reflexivity. Qed.

Example ex_cid_exact :
  uuid_form (map lower_char (uuid_unparse (repeat 171 16))) (repeat 171 16) /\
  cid_from_string uuid_parse [120] = nil_uuid.
Proof. split; [apply uuid_parse_exact; vm_compute; reflexivity|vm_compute; reflexivity]. Qed.

Example ex_ipv6_full :
  inet_pton6 [49; 58; 48; 48; 50; 58; 65; 58; 98; 58; 48; 58; 48; 58; 70; 70; 70; 102; 58; 49; 48] =
  Some [1; 2; 10; 11; 0; 0; 65535; 16].
Proof. vm_compute. reflexivity. Qed.

Example ex_ipv6_compressed :
  inet_pton6 [102; 101; 56; 48; 58; 58; 49; 58; 48; 50] = Some [65152; 0; 0; 0; 0; 0; 1; 2] /\
  inet_pton6 [58; 58] = Some [0; 0; 0; 0; 0; 0; 0; 0] /\ inet_pton6 [49; 58; 58] = Some [1; 0; 0; 0; 0; 0; 0; 0] /\
  inet_pton6 [49; 58; 50; 58; 51; 58; 52; 58; 53; 58; 54; 58; 55; 58; 58; 56] = None.
Proof. vm_compute. repeat split; reflexivity. Qed.

Example ex_ipv6_embedded :
  inet_pton6 [58; 58; 102; 102; 102; 102; 58; 49; 46; 50; 46; 51; 46; 52] = Some [0; 0; 0; 0; 0; 65535; 258; 772] /\
  inet_pton6 [49; 58; 50; 58; 51; 58; 52; 58; 53; 58; 54; 58; 49; 46; 50; 46; 51; 46; 52] = Some [1; 2; 3; 4; 5; 6; 258; 772] /\
  inet_pton6 [58; 58; 48; 49; 46; 50; 46; 51; 46; 52] = None.
Proof. vm_compute. repeat split; reflexivity. Qed.
