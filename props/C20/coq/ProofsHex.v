(* C20.ProofsHex: HexStringToInt (8 overloads) accept exactly non-empty hex-digit texts whose
   value fits; signed overloads read the two's complement bit pattern; ToHex round trip.       *)
From OlaBase Require Import Bytes.
From Coq Require Import ZifyBool ZifyN ZifyNat.
From C20 Require Import Libc Spec Model ProofsDigits ProofsInt.
Local Open Scope N_scope.

Lemma hex_not_special c : is_hex_char c = true ->
  is_space c = false /\ (c =? 45) = false /\ (c =? 43) = false /\ (c =? 0) = false /\
  (c =? 120) = false /\ (c =? 88) = false /\ (c =? 58) = false /\ (c =? 46) = false /\ (c =? 44) = false.
Proof. unfold is_hex_char, is_digit, is_space. lia. Qed.

Lemma hex_nonul s : forallb is_hex_char s = true -> forallb nonul s = true.
Proof. apply forallb_impl. intros x H. destruct (hex_not_special x H) as (_ & _ & _ & H0 & _). unfold nonul. rewrite H0. reflexivity. Qed.

Lemma strto_core_16_hex s : s <> [] -> forallb is_hex_char s = true ->
  strto_core 16 s = (text_value 16 s, false, []).
Proof.
  intros Hne Hh. destruct s as [|c s]; [congruence|].
  pose proof Hh as Hh0. cbn [forallb] in Hh0. apply andb_prop in Hh0 as [Hc Hs].
  destruct (hex_not_special c Hc) as (Hsp & H45 & H43 & _).
  unfold strto_core. rewrite skip_space_id by exact Hsp. cbn [strip_sign]. rewrite H45, H43.
  assert (strip_0x 16 (c :: s) = c :: s) as ->.
  { unfold strip_0x. change (16 =? 16) with true. cbv iota. destruct s as [|x r]; [reflexivity|].
    cbn [forallb] in Hs. apply andb_prop in Hs as [Hx _].
    destruct (hex_not_special x Hx) as (_ & _ & _ & _ & H120 & H88 & _). rewrite H120, H88.
    rewrite andb_false_r. reflexivity. }
  cbn [starts_with_digit]. rewrite (digit_in_16 _ Hc).
  rewrite <- (app_nil_r (c :: s)) at 1.
  rewrite (scan_digits_app 16 (c :: s) 0 [] (forall_digit_in_16 _ Hh) I).
  rewrite hval_0. reflexivity.
Qed.

Lemma hex_to_u64_spec t v : hex_to_u64 t = Some v <-> uhex_spec UINT64_MAX t v.
Proof.
  unfold hex_to_u64, uhex_spec, hex_form. destruct t as [|c t'] eqn:Et.
  - cbn. split; [discriminate|intros [[H _] _]; congruence].
  - rewrite <- Et. assert (t <> []) as Hne by (subst; discriminate).
    assert (is_empty t = false) as -> by (subst; reflexivity).
    destruct (forallb is_hex_char t) eqn:Eh; cbn [negb].
    + rewrite (cstr_nonul_id _ (hex_nonul _ Eh)). unfold strtoull.
      rewrite (strto_core_16_hex _ Hne Eh). unfold ULLONG_MAX, UINT64_MAX.
      destruct (18446744073709551615 <? text_value 16 t) eqn:E; split.
      * discriminate.
      * intros (_ & -> & H). lia.
      * intros H. inversion H. repeat split; auto. apply N.ltb_ge in E. exact E.
      * intros (_ & -> & _). reflexivity.
    + split; [discriminate|intros [[_ H] _]; discriminate].
Qed.

Lemma uhex_spec_narrow big max t v : max <= big ->
  (uhex_spec big t v /\ v <= max) <-> uhex_spec max t v.
Proof.
  intros Hm. unfold uhex_spec. split.
  - intros [(H1 & H2 & _) H3]. auto.
  - intros (H1 & H2 & H3). split; [split; [exact H1|split; [exact H2|lia]]|exact H3].
Qed.
Lemma hex_to_u32_spec t v : hex_to_u32 t = Some v <-> uhex_spec UINT32_MAX t v.
Proof.
  unfold hex_to_u32. rewrite narrow_u_spec, hex_to_u64_spec. apply uhex_spec_narrow.
  unfold UINT32_MAX, UINT64_MAX. lia.
Qed.
Lemma hex_to_u16_spec t v : hex_to_u16 t = Some v <-> uhex_spec UINT16_MAX t v.
Proof.
  unfold hex_to_u16. rewrite narrow_u_spec, hex_to_u32_spec. apply uhex_spec_narrow.
  unfold UINT16_MAX, UINT32_MAX. lia.
Qed.
Lemma hex_to_u8_spec t v : hex_to_u8 t = Some v <-> uhex_spec UINT8_MAX t v.
Proof.
  unfold hex_to_u8. rewrite narrow_u_spec, hex_to_u32_spec. apply uhex_spec_narrow.
  unfold UINT8_MAX, UINT32_MAX. lia.
Qed.

(* ---- signed overloads ------------------------------------------------------------------------ *)
Lemma hex_to_i64_spec t z : hex_to_i64 t = Some z <-> shex_spec 64 t z.
Proof.
  unfold hex_to_i64, shex_spec. destruct (hex_to_u64 t) as [x|] eqn:E.
  - apply hex_to_u64_spec in E. destruct E as (Hf & -> & Hx). unfold UINT64_MAX in Hx.
    unfold wrap_signed. change (64 - 1) with 63.
    change (2 ^ 64) with 18446744073709551616. change (2 ^ 63) with 9223372036854775808.
    split.
    + intros H. inversion H. clear H. split; [exact Hf|]. split; [lia|].
      destruct (_ <? _)%Z eqn:El; lia.
    + intros (_ & _ & H1 & H2). f_equal. destruct (_ <? _)%Z eqn:El; lia.
  - split; [discriminate|]. intros (Hf & Hx & _). exfalso.
    assert (hex_to_u64 t = Some (text_value 16 t)) as H.
    { apply hex_to_u64_spec. repeat split; try apply Hf. unfold UINT64_MAX.
      change (2 ^ 64) with 18446744073709551616 in Hx. lia. }
    congruence.
Qed.
Lemma hex_to_i32_spec t z : hex_to_i32 t = Some z <-> shex_spec 32 t z.
Proof.
  unfold hex_to_i32, shex_spec. destruct (hex_to_u32 t) as [x|] eqn:E.
  - apply hex_to_u32_spec in E. destruct E as (Hf & -> & Hx). unfold UINT32_MAX in Hx.
    unfold wrap_signed. change (32 - 1) with 31.
    change (2 ^ 32) with 4294967296. change (2 ^ 31) with 2147483648.
    split.
    + intros H. inversion H. clear H. split; [exact Hf|]. split; [lia|].
      destruct (_ <? _)%Z eqn:El; lia.
    + intros (_ & _ & H1 & H2). f_equal. destruct (_ <? _)%Z eqn:El; lia.
  - split; [discriminate|]. intros (Hf & Hx & _). exfalso.
    assert (hex_to_u32 t = Some (text_value 16 t)) as H.
    { apply hex_to_u32_spec. repeat split; try apply Hf. unfold UINT32_MAX.
      change (2 ^ 32) with 4294967296 in Hx. lia. }
    congruence.
Qed.
Lemma hex_to_i16_spec t z : hex_to_i16 t = Some z <-> shex_spec 16 t z.
Proof.
  unfold hex_to_i16, shex_spec. change (16 - 1) with 15.
  change (2 ^ 16) with 65536. change (2 ^ 15) with 32768.
  destruct (hex_to_i32 t) as [x|] eqn:E.
  - apply hex_to_i32_spec in E. destruct E as (Hf & Hx & Hr & Hm).
    change (32 - 1) with 31 in Hr. change (2 ^ 32) with 4294967296 in *. change (2 ^ 31) with 2147483648 in Hr.
    unfold wrap_signed. change (16 - 1) with 15.
    change (2 ^ 16) with 65536. change (2 ^ 15) with 32768.
    cbn [Z.of_N] in *. destruct ((x <? 0)%Z || (65535 <? x)%Z) eqn:Eb; split.
    + discriminate.
    + intros (_ & H1 & _). lia.
    + intros H. inversion H. clear H. split; [exact Hf|]. split; [lia|].
      destruct (x mod 65536 <? 32768)%Z eqn:El; lia.
    + intros (_ & _ & H1 & H2). f_equal. destruct (x mod 65536 <? 32768)%Z eqn:El; lia.
  - split; [discriminate|]. intros (Hf & Hx & _). exfalso.
    assert (exists y, hex_to_i32 t = Some y) as [y H].
    { destruct (hex_to_u32 t) as [u|] eqn:Eu.
      - unfold hex_to_i32. rewrite Eu. eauto.
      - exfalso. assert (hex_to_u32 t = Some (text_value 16 t)) as H.
        { apply hex_to_u32_spec. repeat split; try apply Hf. unfold UINT32_MAX. lia. }
        congruence. }
    congruence.
Qed.
Lemma hex_to_i8_spec t z : hex_to_i8 t = Some z <-> shex_spec 8 t z.
Proof.
  unfold hex_to_i8, shex_spec. change (8 - 1) with 7.
  change (2 ^ 8) with 256. change (2 ^ 7) with 128.
  destruct (hex_to_i32 t) as [x|] eqn:E.
  - apply hex_to_i32_spec in E. destruct E as (Hf & Hx & Hr & Hm).
    change (32 - 1) with 31 in Hr. change (2 ^ 32) with 4294967296 in *. change (2 ^ 31) with 2147483648 in Hr.
    unfold wrap_signed. change (8 - 1) with 7.
    change (2 ^ 8) with 256. change (2 ^ 7) with 128.
    cbn [Z.of_N] in *. destruct ((x <? 0)%Z || (255 <? x)%Z) eqn:Eb; split.
    + discriminate.
    + intros (_ & H1 & _). lia.
    + intros H. inversion H. clear H. split; [exact Hf|]. split; [lia|].
      destruct (x mod 256 <? 128)%Z eqn:El; lia.
    + intros (_ & _ & H1 & H2). f_equal. destruct (x mod 256 <? 128)%Z eqn:El; lia.
  - split; [discriminate|]. intros (Hf & Hx & _). exfalso.
    assert (exists y, hex_to_i32 t = Some y) as [y H].
    { destruct (hex_to_u32 t) as [u|] eqn:Eu.
      - unfold hex_to_i32. rewrite Eu. eauto.
      - exfalso. assert (hex_to_u32 t = Some (text_value 16 t)) as H.
        { apply hex_to_u32_spec. repeat split; try apply Hf. unfold UINT32_MAX. lia. }
        congruence. }
    congruence.
Qed.

(* ---- ToHex -------------------------------------------------------------------------------------- *)
Lemma to_hex_w_plain w sg v :
  hex_form (to_hex_w w sg false v) /\ text_value 16 (to_hex_w w sg false v) = wrap_unsigned w v.
Proof.
  unfold to_hex_w. cbn [app]. destruct (to_hex_spec (wrap_unsigned w v)) as (H1 & H2 & H3). split.
  - split; [apply pad_left_nonempty, H1|apply pad_left_hex, H2].
  - rewrite pad_left_value. exact H3.
Qed.
Lemma to_hex_w_prefix {A} (hex : str -> option A) w sg v :
  prefixed_hex hex (to_hex_w w sg true v) = hex (to_hex_w w sg false v).
Proof. reflexivity. Qed.

Lemma uhex_roundtrip w max n : max = 2 ^ w - 1 -> n <= max ->
  uhex_spec max (to_hex_w w false false (Z.of_N n)) n.
Proof.
  intros -> Hn. destruct (to_hex_w_plain w false (Z.of_N n)) as (H1 & H2).
  assert (0 < 2 ^ w) as Hp by (apply N.neq_0_lt_0, N.pow_nonzero; lia).
  assert (wrap_unsigned w (Z.of_N n) = n) as Hw.
  { unfold wrap_unsigned. rewrite Z.mod_small by lia. lia. }
  unfold uhex_spec. rewrite H2, Hw. auto.
Qed.
Lemma shex_roundtrip w sg z : 1 <= w ->
  (- Z.of_N (2 ^ (w - 1)) <= z < Z.of_N (2 ^ (w - 1)))%Z ->
  shex_spec w (to_hex_w w sg false z) z.
Proof.
  intros Hw Hz. destruct (to_hex_w_plain w sg z) as (H1 & H2).
  assert (0 < 2 ^ w) as Hp by (apply N.neq_0_lt_0, N.pow_nonzero; lia).
  assert (0 <= z mod Z.of_N (2 ^ w) < Z.of_N (2 ^ w))%Z as Hm by (apply Z.mod_pos_bound; lia).
  unfold shex_spec. rewrite H2. unfold wrap_unsigned. repeat split; try apply H1; try lia.
Qed.
