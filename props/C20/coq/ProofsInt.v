(* C20.ProofsInt: strto* on the decimal grammar; StringToInt (8 overloads) accept exactly the
   texts of the grammar whose value is in range; IntToString round trip.                       *)
From OlaBase Require Import Bytes.
From Coq Require Import ZifyBool ZifyN ZifyNat.
From C20 Require Import Libc Spec Model ProofsDigits.
Local Open Scope N_scope.

Definition no_space_first (s : str) : Prop :=
  match s with [] => True | c :: _ => is_space c = false end.
Definition nonul (c : N) : bool := negb (c =? 0).

Lemma skip_space_app ws s : forallb is_space ws = true -> skip_space (ws ++ s) = skip_space s.
Proof.
  induction ws as [|a ws IH]; cbn [app forallb]; intros H; [reflexivity|].
  apply andb_prop in H as [H1 H2]. cbn [skip_space]. rewrite H1. auto.
Qed.
Lemma skip_space_id s : no_space_first s -> skip_space s = s.
Proof. destruct s as [|c s]; cbn; intros H; [reflexivity|]. rewrite H. reflexivity. Qed.
Lemma skip_space_split s :
  exists ws, s = ws ++ skip_space s /\ forallb is_space ws = true /\ no_space_first (skip_space s).
Proof.
  induction s as [|c s IH].
  - exists []. repeat split.
  - cbn [skip_space]. destruct (is_space c) eqn:E.
    + destruct IH as (ws & H1 & H2 & H3). exists (c :: ws). cbn [app forallb]. rewrite E, H2.
      repeat split; [congruence|exact H3].
    + exists []. repeat split. exact E.
Qed.

Lemma end_offset_app p r : end_offset (p ++ r) r = len p.
Proof. unfold end_offset. rewrite len_app. lia. Qed.

(* ---- the scanner on a text of the grammar ---------------------------------------------------- *)
Lemma digit_not_special d : is_digit d = true ->
  is_space d = false /\ (d =? 45) = false /\ (d =? 43) = false /\ (d =? 0) = false.
Proof. unfold is_digit, is_space. lia. Qed.

Lemma core_digits s0 neg ds rest :
  ds <> [] -> forallb is_digit ds = true -> no_digit_first rest ->
  (let s2 := ds ++ rest in
   let s3 := strip_0x 10 s2 in
   if starts_with_digit 10 s3 then
     let '(m, r) := scan_digits 10 0 s3 in (m, neg, r)
   else if len s3 <? len s2 then (0, false, tl s2)
   else (0, false, s0)) = (text_value 10 ds, neg, rest).
Proof.
  intros Hne Hds Hr. cbv zeta. unfold strip_0x. change (10 =? 16) with false. cbv iota.
  assert (starts_with_digit 10 (ds ++ rest) = true) as ->.
  { destruct ds as [|d ds]; [congruence|]. cbn [app starts_with_digit forallb] in *.
    apply andb_prop in Hds as [Hd _]. rewrite (digit_in_10 _ Hd). reflexivity. }
  rewrite (scan_digits_app 10 ds 0 rest (forall_digit_in_10 _ Hds) (no_digit_first_stops _ Hr)).
  rewrite hval_0. reflexivity.
Qed.

Lemma strto_core_form c neg m rest : dec_form c neg m rest -> strto_core 10 c = (m, neg, rest).
Proof.
  intros (p & -> & (ws & sg & ds & -> & Hws & Hsg & Hne & Hds & ->) & Hr).
  unfold strto_core. rewrite <- !app_assoc. rewrite (skip_space_app _ _ Hws).
  destruct ds as [|d ds]; [congruence|].
  pose proof Hds as Hds0. cbn [forallb] in Hds0. apply andb_prop in Hds0 as [Hd _].
  destruct (digit_not_special d Hd) as (Hsp & H45 & H43 & _).
  destruct Hsg as [[-> ->]|[[-> ->]|[-> ->]]]; cbn [app].
  - rewrite skip_space_id by exact Hsp. cbn [strip_sign]. rewrite H45, H43.
    apply (core_digits _ false (d :: ds) rest Hne Hds Hr).
  - rewrite skip_space_id by reflexivity. cbn [strip_sign]. change (43 =? 45) with false.
    change (43 =? 43) with true. cbv iota.
    apply (core_digits _ false (d :: ds) rest Hne Hds Hr).
  - rewrite skip_space_id by reflexivity. cbn [strip_sign]. change (45 =? 45) with true. cbv iota.
    apply (core_digits _ true (d :: ds) rest Hne Hds Hr).
Qed.

Lemma core_nodigits s0 s2 :
  starts_with_digit 10 s2 = false ->
  (let s3 := strip_0x 10 s2 in
   if starts_with_digit 10 s3 then
     let '(m, r) := scan_digits 10 0 s3 in (m, false, r)
   else if len s3 <? len s2 then (0, false, tl s2)
   else (0, false, s0)) = (0, false, s0).
Proof.
  intros H. cbv zeta. unfold strip_0x. change (10 =? 16) with false. cbv iota. rewrite H.
  rewrite N.ltb_irrefl. reflexivity.
Qed.
Lemma core_nodigits_neg s0 s2 :
  starts_with_digit 10 s2 = false ->
  (let s3 := strip_0x 10 s2 in
   if starts_with_digit 10 s3 then
     let '(m, r) := scan_digits 10 0 s3 in (m, true, r)
   else if len s3 <? len s2 then (0, false, tl s2)
   else (0, false, s0)) = (0, false, s0).
Proof.
  intros H. cbv zeta. unfold strip_0x. change (10 =? 16) with false. cbv iota. rewrite H.
  rewrite N.ltb_irrefl. reflexivity.
Qed.

Lemma starts_with_digit_split s2 :
  (starts_with_digit 10 s2 = false) \/
  (exists ds rest, s2 = ds ++ rest /\ ds <> [] /\ forallb is_digit ds = true /\ no_digit_first rest).
Proof.
  destruct (digits_split s2) as (ds & rest & -> & Hds & Hr). destruct ds as [|d ds].
  - left. cbn [app]. destruct rest as [|c r]; [reflexivity|]. cbn in Hr. cbn [starts_with_digit].
    rewrite (digit_in_10_none _ Hr). reflexivity.
  - right. exists (d :: ds), rest. repeat split; [discriminate|exact Hds|exact Hr].
Qed.

(* every text either has the decimal form or the scanner converts nothing *)
Lemma strto_core_cases c :
  (exists neg m rest, dec_form c neg m rest) \/ strto_core 10 c = (0, false, c).
Proof.
  destruct (skip_space_split c) as (ws & Hc & Hws & Hns).
  unfold strto_core. destruct (skip_space c) as [|x r] eqn:Es.
  - right. reflexivity.
  - cbn [strip_sign]. destruct (x =? 45) eqn:E45; [|destruct (x =? 43) eqn:E43].
    + apply N.eqb_eq in E45. subst x.
      destruct (starts_with_digit_split r) as [Hn|(ds & rest & -> & Hne & Hds & Hr)].
      * right. apply core_nodigits_neg, Hn.
      * left. exists true, (text_value 10 ds), rest. exists (ws ++ [45] ++ ds). split.
        { rewrite Hc. rewrite <- !app_assoc. reflexivity. }
        split; [|exact Hr]. exists ws, [45], ds. repeat split; auto.
    + apply N.eqb_eq in E43. subst x.
      destruct (starts_with_digit_split r) as [Hn|(ds & rest & -> & Hne & Hds & Hr)].
      * right. apply core_nodigits, Hn.
      * left. exists false, (text_value 10 ds), rest. exists (ws ++ [43] ++ ds). split.
        { rewrite Hc. rewrite <- !app_assoc. reflexivity. }
        split; [|exact Hr]. exists ws, [43], ds. repeat split; auto.
    + destruct (starts_with_digit_split (x :: r)) as [Hn|(ds & rest & Heq & Hne & Hds & Hr)].
      * right. apply core_nodigits, Hn.
      * left. exists false, (text_value 10 ds), rest. exists (ws ++ [] ++ ds). split.
        { rewrite Hc, Heq. rewrite <- !app_assoc. reflexivity. }
        split; [|exact Hr]. exists ws, [], ds. repeat split; auto.
Qed.

Lemma dec_form_unique c n1 m1 r1 n2 m2 r2 :
  dec_form c n1 m1 r1 -> dec_form c n2 m2 r2 -> n1 = n2 /\ m1 = m2 /\ r1 = r2.
Proof.
  intros H1 H2. apply strto_core_form in H1. apply strto_core_form in H2.
  rewrite H1 in H2. inversion H2. auto.
Qed.

Lemma first_is_minus_form c neg m rest : dec_form c neg m rest -> first_is_minus c = neg.
Proof.
  intros (p & -> & (ws & sg & ds & -> & Hws & Hsg & Hne & Hds & ->) & Hr).
  unfold first_is_minus. rewrite <- !app_assoc. rewrite (skip_space_app _ _ Hws).
  destruct ds as [|d ds]; [congruence|].
  cbn [forallb] in Hds. apply andb_prop in Hds as [Hd _].
  destruct (digit_not_special d Hd) as (Hsp & H45 & H43 & _).
  destruct Hsg as [[-> ->]|[[-> ->]|[-> ->]]]; cbn [app].
  - rewrite skip_space_id by exact Hsp. exact H45.
  - rewrite skip_space_id by reflexivity. reflexivity.
  - rewrite skip_space_id by reflexivity. reflexivity.
Qed.

Lemma strtoull_form c neg m r : dec_form c neg m r ->
  strtoull 10 c = if ULLONG_MAX <? m then (ULLONG_MAX, true, r)
                  else ((if neg then u64 (TWO64 - m) else m), false, r).
Proof. intros H. unfold strtoull. rewrite (strto_core_form _ _ _ _ H). reflexivity. Qed.
Lemma strtoll_form c neg m r : dec_form c neg m r ->
  strtoll 10 c =
  if neg then
    if TWO63 <? m then ((- Z.of_N TWO63)%Z, true, r) else ((- Z.of_N m)%Z, false, r)
  else
    if LLONG_MAX <? m then (Z.of_N LLONG_MAX, true, r) else (Z.of_N m, false, r).
Proof. intros H. unfold strtoll. rewrite (strto_core_form _ _ _ _ H). reflexivity. Qed.

(* ---- std::string vs C string ---------------------------------------------------------------- *)
Lemma cstr_split v : exists tl, v = cstr v ++ tl /\ (tl = [] \/ exists r, tl = 0 :: r).
Proof.
  induction v as [|c v IH].
  - exists []. split; [reflexivity|left; reflexivity].
  - cbn [cstr]. destruct (c =? 0) eqn:E.
    + apply N.eqb_eq in E. subst. exists (0 :: v). split; [reflexivity|right; eauto].
    + destruct IH as (tl & H1 & H2). exists tl. split; [cbn [app]; congruence|exact H2].
Qed.
Lemma cstr_app a b : forallb nonul a = true -> cstr (a ++ b) = a ++ cstr b.
Proof.
  induction a as [|x a IH]; cbn [app forallb]; intros H; [reflexivity|].
  apply andb_prop in H as [H1 H2]. cbn [cstr]. unfold nonul in H1.
  destruct (x =? 0); [discriminate|]. rewrite IH by exact H2. reflexivity.
Qed.
Lemma cstr_nonul_id a : forallb nonul a = true -> cstr a = a.
Proof. intros H. rewrite <- (app_nil_r a) at 1. rewrite cstr_app by exact H. cbn. apply app_nil_r. Qed.
Lemma cstr_no_digit_first rest : no_digit_first rest -> no_digit_first (cstr rest).
Proof. destruct rest as [|c r]; cbn; [trivial|]. destruct (c =? 0); cbn; auto. Qed.

Lemma forallb_impl {A} (p q : A -> bool) l :
  (forall x, p x = true -> q x = true) -> forallb p l = true -> forallb q l = true.
Proof. intros H Hp. rewrite forallb_forall in *. auto. Qed.

Lemma dec_number_nonul p neg m : dec_number p neg m -> forallb nonul p = true /\ p <> [].
Proof.
  intros (ws & sg & ds & -> & Hws & Hsg & Hne & Hds & _). split.
  - rewrite !forallb_app. apply andb_true_intro. split; [|apply andb_true_intro; split].
    + revert Hws. apply forallb_impl. intros x. unfold is_space, nonul. lia.
    + destruct Hsg as [[-> _]|[[-> _]|[-> _]]]; reflexivity.
    + revert Hds. apply forallb_impl. intros x. unfold is_digit, nonul. lia.
  - intros E. apply app_eq_nil in E as [_ E]. apply app_eq_nil in E as [_ E]. auto.
Qed.

Lemma no_digit_first_app r tl :
  no_digit_first r -> (tl = [] \/ exists x, tl = 0 :: x) -> no_digit_first (r ++ tl).
Proof.
  intros Hr Ht. destruct r as [|c r]; cbn [app]; [|exact Hr].
  destruct Ht as [->|(x & ->)]; cbn; auto.
Qed.

(* ---- StringToInt, unsigned ------------------------------------------------------------------- *)
Lemma is_empty_false {A} (l : list A) : l <> [] -> is_empty l = false.
Proof. destruct l; [congruence|reflexivity]. Qed.
Lemma is_empty_app_false {A} (p r : list A) : p <> [] -> is_empty (p ++ r) = false.
Proof. destruct p; [congruence|reflexivity]. Qed.

Lemma len_pos_nonempty {A} (p : list A) : p <> [] -> 0 < len p.
Proof. destruct p; [congruence|]. rewrite len_cons. lia. Qed.

Lemma string_to_u64_complete strict v x :
  udec_spec UINT64_MAX strict v x -> string_to_u64 strict v = Some x.
Proof.
  intros (rest & (p & -> & Hp & Hr) & Hmax & Hstrict).
  destruct (dec_number_nonul _ _ _ Hp) as (Hnn & Hne).
  assert (dec_form (cstr (p ++ rest)) false x (cstr rest)) as Hf.
  { rewrite cstr_app by exact Hnn. exists p. repeat split; [exact Hp|apply cstr_no_digit_first, Hr]. }
  unfold string_to_u64. rewrite (is_empty_app_false _ _ Hne).
  rewrite (first_is_minus_form _ _ _ _ Hf). rewrite (strtoull_form _ _ _ _ Hf).
  unfold UINT64_MAX in Hmax. unfold ULLONG_MAX.
  assert (18446744073709551615 <? x = false) as -> by lia.
  rewrite cstr_app by exact Hnn. rewrite end_offset_app.
  pose proof (len_pos_nonempty _ Hne) as Hl.
  assert (len p =? 0 = false) as -> by lia.
  assert (strict && negb (len p =? len (p ++ rest)) = false) as ->.
  { destruct strict; [|reflexivity]. rewrite (Hstrict eq_refl), app_nil_r, N.eqb_refl. reflexivity. }
  unfold UINT64_MAX. assert (18446744073709551615 <? x = false) as -> by lia. reflexivity.
Qed.

Lemma strict_rest strict (p r tl : str) :
  strict && negb (len p =? len ((p ++ r) ++ tl)) = false -> strict = true -> r ++ tl = [].
Proof.
  intros H ->. cbn in H. apply negb_false_iff, N.eqb_eq in H.
  rewrite !len_app in H. assert (len (r ++ tl) = 0) as H0 by (rewrite len_app; lia).
  destruct (r ++ tl); [reflexivity|]. rewrite len_cons in H0. lia.
Qed.

Lemma string_to_u64_sound strict v x :
  string_to_u64 strict v = Some x -> udec_spec UINT64_MAX strict v x.
Proof.
  unfold string_to_u64. destruct (is_empty v) eqn:Ee; [discriminate|].
  destruct (cstr_split v) as (tl & Hv & Htl).
  destruct (strto_core_cases (cstr v)) as [(neg & m & r & Hf)|Hz].
  2: { destruct (first_is_minus (cstr v)); [discriminate|].
       unfold strtoull. rewrite Hz. cbn. unfold end_offset. rewrite N.sub_diag. cbn. discriminate. }
  rewrite (first_is_minus_form _ _ _ _ Hf). destruct neg; [discriminate|].
  rewrite (strtoull_form _ _ _ _ Hf).
  destruct (ULLONG_MAX <? m) eqn:Em; [discriminate|].
  destruct Hf as (p & Hc & Hp & Hr). rewrite Hc, end_offset_app.
  destruct (len p =? 0) eqn:E0; [discriminate|].
  rewrite Hv, Hc.
  destruct (strict && negb (len p =? len ((p ++ r) ++ tl))) eqn:Es; [discriminate|].
  destruct (UINT64_MAX <? m) eqn:Emax; [discriminate|].
  intros H. inversion H. subst x.
  exists (r ++ tl). split; [|split].
  - exists p. split; [rewrite app_assoc; reflexivity|]. split; [exact Hp|].
    apply no_digit_first_app; assumption.
  - lia.
  - apply (strict_rest _ _ _ _ Es).
Qed.

Lemma string_to_u64_spec strict v x :
  string_to_u64 strict v = Some x <-> udec_spec UINT64_MAX strict v x.
Proof. split; [apply string_to_u64_sound|apply string_to_u64_complete]. Qed.

Lemma narrow_u_spec max r x : narrow_u max r = Some x <-> r = Some x /\ x <= max.
Proof.
  unfold narrow_u. destruct r as [v|]; [|split; [discriminate|intros [H _]; discriminate]].
  destruct (max <? v) eqn:E; split.
  - discriminate.
  - intros [H Hx]. inversion H. lia.
  - intros H. inversion H. split; [reflexivity|lia].
  - intros [H _]. exact H.
Qed.

Lemma udec_spec_narrow max strict v x : max <= UINT64_MAX ->
  (udec_spec UINT64_MAX strict v x /\ x <= max) <-> udec_spec max strict v x.
Proof.
  intros Hm. split.
  - intros [(rest & Hf & _ & Hs) Hx]. exists rest. auto.
  - intros (rest & Hf & Hx & Hs). split; [|exact Hx]. exists rest. repeat split; auto. lia.
Qed.

Lemma string_to_u32_spec strict v x :
  string_to_u32 strict v = Some x <-> udec_spec UINT32_MAX strict v x.
Proof.
  unfold string_to_u32. rewrite narrow_u_spec, string_to_u64_spec.
  apply udec_spec_narrow. unfold UINT32_MAX, UINT64_MAX. lia.
Qed.
Lemma string_to_u16_spec strict v x :
  string_to_u16 strict v = Some x <-> udec_spec UINT16_MAX strict v x.
Proof.
  unfold string_to_u16. rewrite narrow_u_spec, string_to_u64_spec.
  apply udec_spec_narrow. unfold UINT16_MAX, UINT64_MAX. lia.
Qed.
Lemma string_to_u8_spec strict v x :
  string_to_u8 strict v = Some x <-> udec_spec UINT8_MAX strict v x.
Proof.
  unfold string_to_u8. rewrite narrow_u_spec, string_to_u64_spec.
  apply udec_spec_narrow. unfold UINT8_MAX, UINT64_MAX. lia.
Qed.

(* ---- StringToInt, signed --------------------------------------------------------------------- *)
Lemma string_to_i64_complete strict v z :
  sdec_spec INT64_MIN INT64_MAX strict v z -> string_to_i64 strict v = Some z.
Proof.
  intros (neg & m & rest & (p & -> & Hp & Hr) & -> & Hrange & Hstrict).
  destruct (dec_number_nonul _ _ _ Hp) as (Hnn & Hne).
  assert (dec_form (cstr (p ++ rest)) neg m (cstr rest)) as Hf.
  { rewrite cstr_app by exact Hnn. exists p. repeat split; [exact Hp|apply cstr_no_digit_first, Hr]. }
  unfold string_to_i64. rewrite (is_empty_app_false _ _ Hne).
  rewrite (strtoll_form _ _ _ _ Hf).
  unfold INT64_MIN, INT64_MAX, signed_of in *.
  pose proof (len_pos_nonempty _ Hne) as Hl.
  assert (strict && negb (len p =? len (p ++ rest)) = false) as Hs.
  { destruct strict; [|reflexivity]. rewrite (Hstrict eq_refl), app_nil_r, N.eqb_refl. reflexivity. }
  destruct neg.
  - unfold TWO63. assert (9223372036854775808 <? m = false) as -> by lia.
    rewrite cstr_app by exact Hnn. rewrite end_offset_app.
    assert (len p =? 0 = false) as -> by lia. rewrite Hs.
    match goal with |- (if ?b then _ else _) = _ => assert (b = false) as -> by lia end. reflexivity.
  - unfold LLONG_MAX. assert (9223372036854775807 <? m = false) as -> by lia.
    rewrite cstr_app by exact Hnn. rewrite end_offset_app.
    assert (len p =? 0 = false) as -> by lia. rewrite Hs.
    match goal with |- (if ?b then _ else _) = _ => assert (b = false) as -> by lia end. reflexivity.
Qed.

Lemma string_to_i64_sound strict v z :
  string_to_i64 strict v = Some z -> sdec_spec INT64_MIN INT64_MAX strict v z.
Proof.
  unfold string_to_i64. destruct (is_empty v) eqn:Ee; [discriminate|].
  destruct (cstr_split v) as (tl & Hv & Htl).
  destruct (strto_core_cases (cstr v)) as [(neg & m & r & Hf)|Hz].
  2: { unfold strtoll. rewrite Hz. cbn. unfold end_offset. rewrite N.sub_diag. cbn. discriminate. }
  rewrite (strtoll_form _ _ _ _ Hf).
  destruct Hf as (p & Hc & Hp & Hr).
  assert (forall l : Z,
    (let k := end_offset (cstr v) r in
     if k =? 0 then None
     else if strict && negb (k =? len v) then None
     else if ((l <? INT64_MIN)%Z || (INT64_MAX <? l)%Z) then None else Some l) = Some z ->
    l = z /\ (INT64_MIN <= z <= INT64_MAX)%Z /\ (strict = true -> r ++ tl = [])) as Hcore.
  { intros l. cbv zeta. rewrite Hc, end_offset_app.
    destruct (len p =? 0); [discriminate|]. rewrite Hv, Hc.
    destruct (strict && negb (len p =? len ((p ++ r) ++ tl))) eqn:Es; [discriminate|].
    destruct ((l <? INT64_MIN)%Z || (INT64_MAX <? l)%Z) eqn:Er; [discriminate|].
    intros H. inversion H. subst. repeat split; try lia. apply (strict_rest _ _ _ _ Es). }
  assert (dec_form v neg m (r ++ tl)) as Hfv.
  { exists p. split; [rewrite Hv, Hc, app_assoc; reflexivity|]. split; [exact Hp|].
    apply no_digit_first_app; assumption. }
  destruct neg.
  - destruct (TWO63 <? m) eqn:Em; [discriminate|]. intros H. apply Hcore in H as (Hl & Hrg & Hs).
    exists true, m, (r ++ tl). repeat split; auto; unfold signed_of; lia.
  - destruct (LLONG_MAX <? m) eqn:Em; [discriminate|]. intros H. apply Hcore in H as (Hl & Hrg & Hs).
    exists false, m, (r ++ tl). repeat split; auto; unfold signed_of; lia.
Qed.

Lemma string_to_i64_spec strict v z :
  string_to_i64 strict v = Some z <-> sdec_spec INT64_MIN INT64_MAX strict v z.
Proof. split; [apply string_to_i64_sound|apply string_to_i64_complete]. Qed.

Lemma narrow_s_spec lo hi r z : narrow_s lo hi r = Some z <-> r = Some z /\ (lo <= z <= hi)%Z.
Proof.
  unfold narrow_s. destruct r as [v|]; [|split; [discriminate|intros [H _]; discriminate]].
  destruct ((v <? lo)%Z || (hi <? v)%Z) eqn:E; split.
  - discriminate.
  - intros [H Hx]. inversion H. lia.
  - intros H. inversion H. split; [reflexivity|lia].
  - intros [H _]. exact H.
Qed.
Lemma sdec_spec_narrow lo hi strict v z : (INT64_MIN <= lo)%Z -> (hi <= INT64_MAX)%Z ->
  (sdec_spec INT64_MIN INT64_MAX strict v z /\ (lo <= z <= hi)%Z) <-> sdec_spec lo hi strict v z.
Proof.
  intros Hlo Hhi. split.
  - intros [(neg & m & rest & Hf & Hz & _ & Hs) Hx]. exists neg, m, rest. auto.
  - intros (neg & m & rest & Hf & Hz & Hx & Hs). split; [|exact Hx].
    exists neg, m, rest. repeat split; auto; lia.
Qed.
Lemma string_to_i32_spec strict v z :
  string_to_i32 strict v = Some z <-> sdec_spec (-2147483648)%Z 2147483647%Z strict v z.
Proof.
  unfold string_to_i32. rewrite narrow_s_spec, string_to_i64_spec.
  apply sdec_spec_narrow; unfold INT64_MIN, INT64_MAX; lia.
Qed.
Lemma string_to_i16_spec strict v z :
  string_to_i16 strict v = Some z <-> sdec_spec (-32768)%Z 32767%Z strict v z.
Proof.
  unfold string_to_i16. rewrite narrow_s_spec, string_to_i64_spec.
  apply sdec_spec_narrow; unfold INT64_MIN, INT64_MAX; lia.
Qed.
Lemma string_to_i8_spec strict v z :
  string_to_i8 strict v = Some z <-> sdec_spec (-128)%Z 127%Z strict v z.
Proof.
  unfold string_to_i8. rewrite narrow_s_spec, string_to_i64_spec.
  apply sdec_spec_narrow; unfold INT64_MIN, INT64_MAX; lia.
Qed.

(* ---- rejection: a text of the grammar whose value/sign/rest is not acceptable ----------------- *)
Lemma udec_reject max strict t neg m rest :
  dec_form t neg m rest ->
  (neg = true \/ max < m \/ (strict = true /\ rest <> [])) ->
  forall x, ~ udec_spec max strict t x.
Proof.
  intros Hf Hbad x (rest' & Hf' & Hx & Hs).
  destruct (dec_form_unique _ _ _ _ _ _ _ Hf Hf') as (Hn & Hm & Hr). subst.
  destruct Hbad as [H|[H|[H1 H2]]]; [discriminate|lia|auto].
Qed.
Lemma sdec_reject lo hi strict t neg m rest :
  dec_form t neg m rest ->
  ((signed_of neg m < lo)%Z \/ (hi < signed_of neg m)%Z \/ (strict = true /\ rest <> [])) ->
  forall z, ~ sdec_spec lo hi strict t z.
Proof.
  intros Hf Hbad z (neg' & m' & rest' & Hf' & Hz & Hx & Hs).
  destruct (dec_form_unique _ _ _ _ _ _ _ Hf Hf') as (Hn & Hm & Hr). subst.
  destruct Hbad as [H|[H|[H1 H2]]]; [lia|lia|auto].
Qed.
Lemma not_some_none {A} (o : option A) : (forall x, o <> Some x) -> o = None.
Proof. destruct o; [intros H; exfalso; eapply H; reflexivity|reflexivity]. Qed.

(* ---- IntToString round trip ------------------------------------------------------------------- *)
Lemma dec_number_to_dec n : dec_number (to_dec n) false n.
Proof.
  destruct (to_dec_spec n) as (H1 & H2 & H3).
  exists [], [], (to_dec n). repeat split; auto.
Qed.
Lemma dec_form_to_dec n : dec_form (to_dec n) false n [].
Proof. exists (to_dec n). rewrite app_nil_r. repeat split. apply dec_number_to_dec. Qed.
Lemma dec_form_to_dec_neg n : dec_form (45 :: to_dec n) true n [].
Proof.
  destruct (to_dec_spec n) as (H1 & H2 & H3).
  exists (45 :: to_dec n). rewrite app_nil_r. repeat split.
  exists [], [45], (to_dec n). repeat split; auto.
Qed.

Lemma udec_roundtrip max strict v : v <= max -> udec_spec max strict (int_to_string_u v) v.
Proof. intros H. exists []. repeat split; [apply dec_form_to_dec|exact H]. Qed.

Lemma sdec_roundtrip lo hi strict z : (lo <= z <= hi)%Z -> sdec_spec lo hi strict (int_to_string_s z) z.
Proof.
  intros H. unfold int_to_string_s, to_dec_z. destruct (z <? 0)%Z eqn:E.
  - exists true, (Z.to_N (- z)), []. repeat split; try lia; [apply dec_form_to_dec_neg|].
    unfold signed_of. lia.
  - exists false, (Z.to_N z), []. repeat split; try lia; [apply dec_form_to_dec|].
    unfold signed_of. lia.
Qed.
