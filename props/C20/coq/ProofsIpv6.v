(* C20.ProofsIpv6: the IPv6 text produced by (the model of) inet_ntop is parsed back by (the model
   of) inet_pton to the same address, and is at most 39 characters long.                          *)
From OlaBase Require Import Bytes.
From Coq Require Import ZifyBool ZifyN ZifyNat.
From C20 Require Import Libc Spec Model Ipv6 ProofsDigits ProofsInt ProofsHex ProofsText.
Local Open Scope N_scope.

(* ---- bytes <-> words ----------------------------------------------------------------------------- *)
Lemma pair_div hi lo : hi < 256 -> lo < 256 ->
  (hi * 256 + lo) / 256 = hi /\ (hi * 256 + lo) mod 256 = lo /\ hi * 256 + lo < 65536.
Proof. intros. repeat split; try lia. Qed.

Definition word_ok (w : N) : Prop := w < 65536.

Lemma words_of_bytes_16 a : length a = 16%nat -> bytes_ok a = true ->
  bytes_of_words (words_of_bytes a) = a /\ length (words_of_bytes a) = 8%nat /\
  Forall word_ok (words_of_bytes a).
Proof.
  intros Hl Hb.
  do 16 (destruct a as [|? a]; [discriminate|]). destruct a; [|discriminate].
  unfold bytes_ok in Hb. cbn [forallb] in Hb. unfold byte_ok in Hb.
  repeat (apply andb_prop in Hb; destruct Hb as [? Hb]).
  cbn [words_of_bytes bytes_of_words flat_map app].
  repeat match goal with
  | |- context [(?h * 256 + ?l) / 256] =>
    let H := fresh in destruct (pair_div h l ltac:(lia) ltac:(lia)) as (H & ? & ?); rewrite H; clear H
  end.
  repeat match goal with H : (_ * 256 + _) mod 256 = _ |- _ => rewrite H; clear H end.
  split; [reflexivity|]. split; [reflexivity|].
  unfold word_ok. repeat constructor; assumption.
Qed.

Lemma bytes_of_words_ok ws : Forall word_ok ws -> Forall (fun b => b <= 255) (bytes_of_words ws).
Proof.
  induction 1 as [|w ws Hw _ IH]; cbn [bytes_of_words flat_map app]; [constructor|].
  unfold word_ok in Hw. constructor; [|constructor; [|exact IH]].
  - assert (w / 256 < 256) by (apply N.div_lt_upper_bound; lia). lia.
  - assert (w mod 256 < 256) by (apply N.mod_lt; lia). lia.
Qed.

(* ---- the run search, on the 256 zero patterns of eight words ---------------------------------------- *)
Fixpoint all_bools (n : nat) : list (list bool) :=
  match n with
  | O => [[]]
  | S k => map (cons true) (all_bools k) ++ map (cons false) (all_bools k)
  end.
Lemma in_all_bools n : forall zs, length zs = n -> In zs (all_bools n).
Proof.
  induction n as [|n IH]; intros zs H.
  - destruct zs; [left; reflexivity|discriminate].
  - destruct zs as [|z zs]; [discriminate|]. cbn [all_bools]. apply in_or_app.
    destruct z; [left|right]; apply in_map, IH; cbn in H; lia.
Qed.
Definition run_ok (zs : list bool) : bool :=
  match best_of zs with
  | None => true
  | Some (b, l) => (2 <=? l)%nat && (b + l <=? 8)%nat && forallb (fun z => z) (firstn l (skipn b zs))
  end.
Lemma run_ok_all : forallb run_ok (all_bools 8) = true.
Proof. vm_compute. reflexivity. Qed.

Lemma skipn_add {A} (a b : nat) (l : list A) : skipn a (skipn b l) = skipn (b + a) l.
Proof.
  revert l. induction b as [|b IH]; intros l; [reflexivity|].
  destruct l as [|x l]; [destruct a; reflexivity|]. cbn [skipn plus]. apply IH.
Qed.

Lemma all_zero_repeat l : forallb (N.eqb 0) l = true -> l = repeat 0 (length l).
Proof.
  induction l as [|x l IH]; cbn [forallb length repeat]; intros H; [reflexivity|].
  apply andb_prop in H as [H1 H2]. apply N.eqb_eq in H1. subst x. f_equal. apply IH, H2.
Qed.

Lemma best_run_spec ws b l : length ws = 8%nat -> best_run ws = Some (b, l) ->
  (2 <= l)%nat /\ (b + l <= 8)%nat /\
  ws = firstn b ws ++ repeat 0 l ++ skipn (b + l) ws.
Proof.
  intros Hl Hb. unfold best_run in Hb.
  pose proof run_ok_all as Hall. rewrite forallb_forall in Hall.
  specialize (Hall (map (N.eqb 0) ws) (in_all_bools 8 _ ltac:(rewrite map_length; exact Hl))).
  unfold run_ok in Hall. rewrite Hb in Hall.
  apply andb_prop in Hall as [Hall Hz]. apply andb_prop in Hall as [H2 H8].
  apply Nat.leb_le in H2, H8. split; [exact H2|]. split; [exact H8|].
  rewrite skipn_map, firstn_map in Hz.
  assert (forallb (N.eqb 0) (firstn l (skipn b ws)) = true) as Hz'.
  { rewrite forallb_forall in *. intros x Hx. apply (Hz (0 =? x)). apply in_map. exact Hx. }
  apply all_zero_repeat in Hz'.
  assert (length (firstn l (skipn b ws)) = l) as Hlen.
  { rewrite firstn_length, skipn_length. lia. }
  rewrite Hlen in Hz'.
  rewrite <- (firstn_skipn b ws) at 1. f_equal.
  rewrite <- (firstn_skipn l (skipn b ws)) at 1. rewrite Hz', skipn_add. reflexivity.
Qed.

(* ---- the group scanner of inet_pton6 ------------------------------------------------------------------ *)
Lemma hex_digit_hex c : is_hex_char c = true -> hex_digit c = Some (char_val c).
Proof.
  intros H. unfold hex_digit. rewrite H. pose proof (digit_in_16 c H) as Hd. unfold digit_in in Hd.
  destruct (digit_of c) as [d|]; [|discriminate]. destruct (d <? 16); [exact Hd|discriminate].
Qed.
Lemma hex_digit_colon : hex_digit 58 = None.
Proof. reflexivity. Qed.

Lemma hval_ge base acc ds : 1 <= base -> acc <= hval base acc ds.
Proof.
  intros Hb. rewrite hval_spec.
  assert (1 <= base ^ len ds) by (apply N.neq_0_lt_0 in Hb || idtac; pose proof (N.pow_nonzero base (len ds)); lia).
  nia.
Qed.

Lemma loop_digits ds : forall rest ct acc cp val seen,
  forallb is_hex_char ds = true -> (seen + length ds <= 4)%nat -> hval 16 val ds <= 65535 ->
  pton6_loop (ds ++ rest) ct acc cp val seen =
  pton6_loop rest ct acc cp (hval 16 val ds) (seen + length ds).
Proof.
  induction ds as [|c ds IH]; intros rest ct acc cp val seen Hh Hl Hv.
  - cbn [app hval fold_left length]. rewrite Nat.add_0_r. reflexivity.
  - cbn [forallb] in Hh. apply andb_prop in Hh as [Hc Hh]. cbn [length] in Hl.
    cbn [app pton6_loop]. rewrite (hex_digit_hex c Hc).
    assert ((seen =? 4)%nat = false) as -> by (apply Nat.eqb_neq; lia).
    cbn [hval fold_left] in Hv. fold (hval 16 (val * 16 + char_val c) ds) in Hv.
    pose proof (hval_ge 16 (val * 16 + char_val c) ds ltac:(lia)) as Hge.
    cbv zeta. assert (65535 <? val * 16 + char_val c = false) as -> by lia.
    rewrite IH; [|exact Hh|lia|exact Hv].
    replace (seen + length (c :: ds))%nat with (S seen + length ds)%nat by (cbn [length]; lia).
    reflexivity.
Qed.

Lemma to_hex_word w : word_ok w ->
  to_hex w <> [] /\ forallb is_hex_char (to_hex w) = true /\ (1 <= length (to_hex w) <= 4)%nat /\
  hval 16 0 (to_hex w) = w.
Proof.
  intros Hw. destruct (to_hex_spec w) as (H1 & H2 & H3). unfold word_ok in Hw.
  assert (length (to_hex w) <= 4)%nat as H4 by (unfold to_hex; apply to_base_len; [lia|lia|exact Hw]).
  repeat split; auto.
  - destruct (to_hex w); [congruence|cbn; lia].
  - rewrite hval_0. exact H3.
Qed.

Lemma loop_group w rest ct acc cp : word_ok w ->
  exists k, (1 <= k)%nat /\
  pton6_loop (to_hex w ++ rest) ct acc cp 0 0 = pton6_loop rest ct acc cp w k.
Proof.
  intros Hw. destruct (to_hex_word w Hw) as (_ & Hh & Hl & Hv).
  exists (length (to_hex w)). split; [lia|].
  rewrite (loop_digits (to_hex w) rest ct acc cp 0 0 Hh); [|rewrite Nat.add_0_l; lia|rewrite Hv; unfold word_ok in Hw; lia].
  rewrite Hv. reflexivity.
Qed.

Lemma loop_end ct acc cp w k : (1 <= k)%nat -> (length acc + 1 <= 8)%nat ->
  pton6_loop [] ct acc cp w k = Some (acc ++ [w], cp).
Proof.
  intros Hk Ha. cbn [pton6_loop].
  assert ((0 <? k)%nat = true) as -> by (apply Nat.ltb_lt; lia).
  assert ((8 <? length acc + 1)%nat = false) as -> by (apply Nat.ltb_ge; lia). reflexivity.
Qed.
Lemma loop_colon r ct acc cp w k : (1 <= k)%nat -> (length acc + 1 <= 8)%nat -> r <> [] ->
  pton6_loop (58 :: r) ct acc cp w k = pton6_loop r r (acc ++ [w]) cp 0 0.
Proof.
  intros Hk Ha Hr. cbn [pton6_loop]. rewrite hex_digit_colon. change (58 =? 58) with true. cbv iota.
  assert ((k =? 0)%nat = false) as -> by (apply Nat.eqb_neq; lia).
  assert (is_empty6 r = false) as -> by (destruct r; [congruence|reflexivity]).
  assert ((8 <? length acc + 1)%nat = false) as -> by (apply Nat.ltb_ge; lia). reflexivity.
Qed.
Lemma loop_dcolon r ct acc : pton6_loop (58 :: r) ct acc None 0 0 = pton6_loop r r acc (Some (length acc)) 0 0.
Proof. reflexivity. Qed.

Definition groups (gs : list N) : str := join [58] (map to_hex gs).

Lemma groups_nonempty g gs : word_ok g -> groups (g :: gs) <> [].
Proof. intros Hg. unfold groups. cbn [map]. apply join_nonempty. apply (to_hex_word g Hg). Qed.
Lemma groups_cons g h gs : groups (g :: h :: gs) = to_hex g ++ 58 :: groups (h :: gs).
Proof. reflexivity. Qed.

(* a list of groups up to the end of the text *)
Lemma loop_groups_end gs : forall ct acc cp, Forall word_ok gs -> (length acc + length gs <= 8)%nat ->
  pton6_loop (groups gs) ct acc cp 0 0 = Some (acc ++ gs, cp).
Proof.
  induction gs as [|g gs IH]; intros ct acc cp Hf Hl.
  - cbn. rewrite app_nil_r. reflexivity.
  - inversion Hf as [|? ? Hg Hf']; subst. cbn [length] in Hl. destruct gs as [|h gs].
    + unfold groups. cbn [map join]. rewrite <- (app_nil_r (to_hex g)).
      destruct (loop_group g [] ct acc cp Hg) as (k & Hk & ->). apply loop_end; [exact Hk|lia].
    + rewrite groups_cons. destruct (loop_group g (58 :: groups (h :: gs)) ct acc cp Hg) as (k & Hk & ->).
      rewrite loop_colon; [|exact Hk|lia|apply groups_nonempty; inversion Hf'; assumption].
      rewrite IH; [|exact Hf'|rewrite app_length; cbn [length] in *; lia].
      rewrite <- app_assoc. reflexivity.
Qed.
(* a non-empty list of groups followed by ':' and more text *)
Lemma loop_groups_colon gs : forall ct acc cp rest, gs <> [] -> Forall word_ok gs ->
  (length acc + length gs <= 8)%nat -> rest <> [] ->
  pton6_loop (groups gs ++ 58 :: rest) ct acc cp 0 0 = pton6_loop rest rest (acc ++ gs) cp 0 0.
Proof.
  induction gs as [|g gs IH]; intros ct acc cp rest Hne Hf Hl Hr; [congruence|].
  inversion Hf as [|? ? Hg Hf']; subst. cbn [length] in Hl. destruct gs as [|h gs].
  - unfold groups. cbn [map join].
    destruct (loop_group g (58 :: rest) ct acc cp Hg) as (k & Hk & ->).
    apply loop_colon; [exact Hk|lia|exact Hr].
  - rewrite groups_cons. rewrite <- app_assoc. cbn [app].
    destruct (loop_group g (58 :: groups (h :: gs) ++ 58 :: rest) ct acc cp Hg) as (k & Hk & ->).
    rewrite loop_colon; [|exact Hk|lia|].
    2: { intros E. apply app_eq_nil in E as [E _]. revert E. apply groups_nonempty. inversion Hf'; assumption. }
    rewrite IH; [|discriminate|exact Hf'|rewrite app_length; cbn [length] in *; lia|exact Hr].
    rewrite <- app_assoc. reflexivity.
Qed.

Lemma groups_first g gs : word_ok g -> exists c r, groups (g :: gs) = c :: r /\ is_hex_char c = true.
Proof.
  intros Hg. destruct (to_hex_word g Hg) as (Hne & Hh & _).
  destruct (to_hex g) as [|c t] eqn:E; [congruence|]. cbn [forallb] in Hh. apply andb_prop in Hh as [Hc _].
  destruct gs as [|h gs].
  - exists c, t. unfold groups. cbn [map join]. rewrite E. auto.
  - exists c, (t ++ 58 :: groups (h :: gs)). rewrite groups_cons, E. auto.
Qed.
Lemma inet_pton6_hexstart c r : is_hex_char c = true ->
  inet_pton6 (c :: r) = finish6 (pton6_loop (c :: r) (c :: r) [] None 0 0).
Proof.
  intros H. unfold inet_pton6. destruct (hex_not_special c H) as (_ & _ & _ & _ & _ & _ & H58 & _).
  rewrite H58. reflexivity.
Qed.
Lemma inet_pton6_dcolon r :
  inet_pton6 (58 :: 58 :: r) = finish6 (pton6_loop r r [] (Some 0%nat) 0 0).
Proof. reflexivity. Qed.

Lemma Forall_firstn {A} (P : A -> Prop) n l : Forall P l -> Forall P (firstn n l).
Proof.
  intros H. apply Forall_forall. intros x Hx. rewrite Forall_forall in H. apply H.
  rewrite <- (firstn_skipn n l). apply in_or_app. left. exact Hx.
Qed.
Lemma Forall_skipn {A} (P : A -> Prop) n l : Forall P l -> Forall P (skipn n l).
Proof.
  intros H. apply Forall_forall. intros x Hx. rewrite Forall_forall in H. apply H.
  rewrite <- (firstn_skipn n l). apply in_or_app. right. exact Hx.
Qed.

(* ---- round trip on words ------------------------------------------------------------------------------- *)
Lemma words_roundtrip ws : length ws = 8%nat -> Forall word_ok ws -> v4_form ws = false ->
  inet_pton6 (words_text ws) = Some ws.
Proof.
  intros Hl Hf Hv. unfold words_text. rewrite Hv. destruct (best_run ws) as [[b l]|] eqn:Eb.
  - destruct (best_run_spec ws b l Hl Eb) as (H2 & H8 & Hws).
    assert (Forall word_ok (firstn b ws)) as Hp by (apply Forall_firstn, Hf).
    assert (Forall word_ok (skipn (b + l) ws)) as Hs by (apply Forall_skipn, Hf).
    assert (length (firstn b ws) = b) as Lp by (rewrite firstn_length; lia).
    assert (length (skipn (b + l) ws) = (8 - (b + l))%nat) as Ls by (rewrite skipn_length; lia).
    fold (groups (firstn b ws)). fold (groups (skipn (b + l) ws)).
    revert Hws Hp Hs Lp Ls. generalize (firstn b ws) as p. generalize (skipn (b + l) ws) as s.
    intros s p Hws Hp Hs Lp Ls.
    destruct p as [|g p'].
    + (* the text starts with "::" *)
      cbn [groups map join app]. rewrite inet_pton6_dcolon.
      rewrite (loop_groups_end s); [|exact Hs|cbn; lia]. cbn [app finish6].
      assert ((length s =? 8)%nat = false) as -> by (apply Nat.eqb_neq; lia).
      cbn [firstn skipn app]. transitivity (Some ([] ++ repeat 0 l ++ s)); [|f_equal; symmetry; exact Hws].
      cbn [app]. cbn [length] in Lp. f_equal. f_equal. f_equal. lia.
    + inversion Hp as [|? ? Hg _]; subst.
      destruct (groups_first g p' Hg) as (c & r & Eg & Hc).
      assert (groups (g :: p') ++ [58; 58] ++ groups s = c :: (r ++ [58; 58] ++ groups s)) as -> by (rewrite Eg; reflexivity).
      rewrite (inet_pton6_hexstart c _ Hc).
      assert (c :: r ++ [58; 58] ++ groups s = groups (g :: p') ++ 58 :: (58 :: groups s)) as -> by (rewrite Eg; reflexivity).
      rewrite loop_groups_colon; [|discriminate|exact Hp|cbn [length] in *; lia|discriminate].
      cbn [app]. rewrite loop_dcolon.
      rewrite (loop_groups_end s); [|exact Hs|lia].
      cbn [finish6].
      assert ((length ((g :: p') ++ s) =? 8)%nat = false) as -> by (apply Nat.eqb_neq; rewrite app_length; lia).
      rewrite firstn_app_exact.
      assert (skipn (length (g :: p')) ((g :: p') ++ s) = s) as ->.
      { rewrite skipn_app, Nat.sub_diag, skipn_all. reflexivity. }
      transitivity (Some ((g :: p') ++ repeat 0 l ++ s)); [|f_equal; symmetry; exact Hws].
      f_equal. f_equal. f_equal. f_equal. rewrite app_length. lia.
  - (* no compression: eight groups *)
    fold (groups ws). destruct ws as [|g ws']; [discriminate|].
    inversion Hf as [|? ? Hg _]; subst.
    destruct (groups_first g ws' Hg) as (c & r & Eg & Hc). rewrite Eg, (inet_pton6_hexstart c r Hc), <- Eg.
    rewrite loop_groups_end; [|exact Hf|cbn [length] in *; lia]. cbn [app finish6].
    rewrite Hl. reflexivity.
Qed.

(* ---- characters and length of the text ------------------------------------------------------------------ *)
Lemma join_forall (P : N -> Prop) c l : P c -> Forall (Forall P) l -> Forall P (join [c] l).
Proof.
  intros Hc. induction l as [|x l IH]; intros H; [constructor|].
  inversion H as [|? ? Hx Hr]; subst. destruct l as [|y l]; [exact Hx|].
  rewrite join_cons. apply Forall_app. split; [exact Hx|]. cbn [app]. constructor; [exact Hc|]. apply IH, Hr.
Qed.
Lemma join_length_le c k l : Forall (fun x : str => (length x <= k)%nat) l ->
  (length (join [c] l) <= (k + 1) * length l)%nat /\ (l <> [] -> (length (join [c] l) + 1 <= (k + 1) * length l)%nat).
Proof.
  induction l as [|x l IH]; intros H; [cbn; split; [lia|congruence]|].
  inversion H as [|? ? Hx Hr]; subst. destruct (IH Hr) as (IH1 & IH2). destruct l as [|y l].
  - cbn [join length]. split; [lia|intros _; lia].
  - rewrite join_cons. rewrite !app_length. cbn [length] in *. specialize (IH2 ltac:(discriminate)).
    split; [lia|intros _; lia].
Qed.
Lemma hex_words_len ws : Forall word_ok ws -> Forall (fun x : str => (length x <= 4)%nat) (map to_hex ws).
Proof.
  intros H. apply Forall_forall. intros x Hx. apply in_map_iff in Hx as (w & <- & Hw).
  rewrite Forall_forall in H. apply (to_hex_word w (H w Hw)).
Qed.
Lemma dec_bytes_len bs : Forall (fun b => b <= 255) bs -> Forall (fun x : str => (length x <= 3)%nat) (map to_dec bs).
Proof.
  intros H. apply Forall_forall. intros x Hx. apply in_map_iff in Hx as (b & <- & Hb).
  rewrite Forall_forall in H. specialize (H b Hb). unfold to_dec. apply to_base_len; [lia|lia|cbn; lia].
Qed.

Lemma words_text_length ws : length ws = 8%nat -> Forall word_ok ws -> (length (words_text ws) <= 39)%nat.
Proof.
  intros Hl Hf. unfold words_text. destruct (best_run ws) as [[b l]|] eqn:Eb.
  - destruct (best_run_spec ws b l Hl Eb) as (H2 & H8 & Hws).
    destruct (v4_form ws).
    + assert (length (inet_ntop4 (bytes_of_words (skipn 6 ws))) <= 16)%nat as H4.
      { unfold inet_ntop4.
        assert (Forall word_ok (skipn 6 ws)) as Hsk by (apply Forall_skipn, Hf).
        destruct (join_length_le 46 3 _ (dec_bytes_len _ (bytes_of_words_ok _ Hsk))) as (Hj & _).
        rewrite map_length in Hj.
        assert (length (bytes_of_words (skipn 6 ws)) = 4%nat) as L4.
        { do 8 (destruct ws as [|? ws]; [discriminate|]). destruct ws; [reflexivity|discriminate]. }
        rewrite L4 in Hj. cbn in Hj. exact Hj. }
      rewrite !app_length. cbn [length].
      assert (length (if (l =? 5)%nat then to_hex 65535%N ++ [58%N] else []) <= 5)%nat.
      { destruct (l =? 5)%nat; [vm_compute; lia|cbn; lia]. }
      lia.
    + assert (Forall word_ok (firstn b ws)) as Hp by (apply Forall_firstn, Hf).
      assert (Forall word_ok (skipn (b + l) ws)) as Hs by (apply Forall_skipn, Hf).
      destruct (join_length_le 58 4 _ (hex_words_len _ Hp)) as (Hj1 & _).
      destruct (join_length_le 58 4 _ (hex_words_len _ Hs)) as (Hj2 & _).
      rewrite map_length, firstn_length in Hj1. rewrite map_length, skipn_length in Hj2.
      rewrite !app_length. cbn [length]. lia.
  - destruct (join_length_le 58 4 _ (hex_words_len _ Hf)) as (_ & Hj).
    rewrite map_length, Hl in Hj. specialize (Hj ltac:(destruct ws; [discriminate|cbn; discriminate])). lia.
Qed.

Lemma words_text_nonul ws : length ws = 8%nat -> Forall word_ok ws -> v4_form ws = false ->
  words_text ws <> [] /\ forallb nonul (words_text ws) = true.
Proof.
  intros Hl Hf Hv.
  assert (forall gs, Forall word_ok gs -> Forall (fun c => c <> 0) (groups gs)) as Hg.
  { intros gs Hgs. apply join_forall; [discriminate|]. apply Forall_forall. intros x Hx.
    apply in_map_iff in Hx as (w & <- & Hw). rewrite Forall_forall in Hgs.
    destruct (to_hex_word w (Hgs w Hw)) as (_ & Hh & _). apply Forall_forall. intros c Hc.
    rewrite forallb_forall in Hh. destruct (hex_not_special c (Hh c Hc)) as (_ & _ & _ & H0 & _).
    apply N.eqb_neq, H0. }
  assert (Forall (fun c => c <> 0) (words_text ws) /\ words_text ws <> []) as [HF Hne].
  { unfold words_text. rewrite Hv. destruct (best_run ws) as [[b l]|] eqn:Eb.
    - split.
      + apply Forall_app. split; [apply Hg, Forall_firstn, Hf|].
        cbn [app]. constructor; [discriminate|]. constructor; [discriminate|]. apply Hg, Forall_skipn, Hf.
      + intros E. apply app_eq_nil in E as [_ E]. discriminate.
    - split; [apply Hg, Hf|]. destruct ws as [|g ws']; [discriminate|]. inversion Hf; subst.
      apply (groups_nonempty g ws'). assumption. }
  split; [exact Hne|]. apply forallb_forall. intros c Hc. rewrite Forall_forall in HF.
  unfold nonul. apply negb_true_iff, N.eqb_neq, HF, Hc.
Qed.

(* ---- on addresses (16 bytes) ------------------------------------------------------------------------------ *)
Lemma ipv6_roundtrip_nonv4 a : length a = 16%nat -> bytes_ok a = true ->
  v4_form (words_of_bytes a) = false ->
  ipv6_of_text (ipv6_to_text a) = Some a /\ ipv6_from_string (ipv6_to_text a) = Some a.
Proof.
  intros Hl Hb Hv. destruct (words_of_bytes_16 a Hl Hb) as (Hbw & Hl8 & Hw).
  assert (ipv6_of_text (ipv6_to_text a) = Some a) as H1.
  { unfold ipv6_of_text, ipv6_to_text. rewrite (words_roundtrip _ Hl8 Hw Hv), Hbw. reflexivity. }
  split; [exact H1|].
  destruct (words_text_nonul _ Hl8 Hw Hv) as (Hne & Hnn).
  unfold ipv6_from_string. fold (ipv6_to_text a) in Hne, Hnn.
  destruct (ipv6_to_text a) as [|c r] eqn:E; [congruence|].
  rewrite cstr_nonul_id by exact Hnn. exact H1.
Qed.

Lemma ipv6_text_length a : length a = 16%nat -> bytes_ok a = true ->
  (length (ipv6_to_text a) <= 39)%nat.
Proof.
  intros Hl Hb. destruct (words_of_bytes_16 a Hl Hb) as (_ & Hl8 & Hw).
  apply words_text_length; assumption.
Qed.
