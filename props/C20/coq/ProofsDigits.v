(* C20.ProofsDigits: the digit scanner (Horner) and the digit printer (div/mod) both agree with
   the positional value of Spec.v; printed texts are digit strings of bounded length.          *)
From OlaBase Require Import Bytes.
From Coq Require Import ZifyBool ZifyN ZifyNat.
From C20 Require Import Libc Spec.
Local Open Scope N_scope.

Ltac break_if :=
  repeat match goal with
         | |- context [if ?b then _ else _] => let E := fresh "E" in destruct b eqn:E
         end.

(* ---- character facts ---------------------------------------------------------------------- *)
Lemma digit_in_10 c : is_digit c = true -> digit_in 10 c = Some (char_val c).
Proof.
  intros H. unfold digit_in, digit_of. rewrite H. unfold is_digit in H.
  assert (c - 48 <? 10 = true) as -> by lia.
  unfold char_val. assert (c <? 58 = true) as -> by lia. reflexivity.
Qed.
Lemma digit_in_10_none c : is_digit c = false -> digit_in 10 c = None.
Proof.
  intros H. unfold digit_in, digit_of. rewrite H. unfold is_digit in H.
  break_if; try reflexivity; lia.
Qed.
Lemma digit_in_16 c : is_hex_char c = true -> digit_in 16 c = Some (char_val c).
Proof.
  intros H. unfold digit_in, digit_of, char_val. unfold is_hex_char, is_digit in *.
  break_if; try reflexivity; try lia; f_equal; lia.
Qed.
Lemma char_val_digit_char d : d < 16 -> char_val (digit_char d) = d.
Proof. intros H. unfold char_val, digit_char. break_if; lia. Qed.
Lemma digit_char_dec d : d < 10 -> is_digit (digit_char d) = true.
Proof. intros H. unfold is_digit, digit_char. break_if; lia. Qed.
Lemma digit_char_hex d : d < 16 -> is_hex_char (digit_char d) = true.
Proof. intros H. unfold is_hex_char, is_digit, digit_char. break_if; lia. Qed.
Lemma is_digit_hex c : is_digit c = true -> is_hex_char c = true.
Proof. unfold is_hex_char. intros ->. reflexivity. Qed.
Lemma is_digit_range c : is_digit c = true <-> 48 <= c <= 57.
Proof. unfold is_digit. lia. Qed.
Lemma is_hex_range c :
  is_hex_char c = true <-> (48 <= c <= 57 \/ 65 <= c <= 70 \/ 97 <= c <= 102).
Proof. unfold is_hex_char, is_digit. lia. Qed.
Lemma is_space_range c : is_space c = true <-> (c = 32 \/ 9 <= c <= 13).
Proof. unfold is_space. lia. Qed.

(* ---- positional value vs Horner ------------------------------------------------------------ *)
Definition hval (base acc : N) (ds : str) : N := fold_left (fun a c => a * base + char_val c) ds acc.

Lemma len_rev_map {A B} (f : A -> B) l : len (rev (map f l)) = len l.
Proof. unfold len. rewrite rev_length, map_length. reflexivity. Qed.

Lemma pos_value_app base l d : pos_value base (l ++ [d]) = pos_value base l + base ^ len l * d.
Proof.
  induction l as [|x l IH]; cbn [app pos_value].
  - change (len (@nil N)) with 0. rewrite N.pow_0_r. lia.
  - rewrite IH, len_cons, N.pow_add_r, N.pow_1_r. ring.
Qed.

Lemma text_value_cons base c ds :
  text_value base (c :: ds) = char_val c * base ^ len ds + text_value base ds.
Proof.
  unfold text_value. cbn [map rev]. rewrite pos_value_app, len_rev_map. ring.
Qed.
Lemma text_value_snoc base ds c :
  text_value base (ds ++ [c]) = char_val c + base * text_value base ds.
Proof. unfold text_value. rewrite map_app, rev_app_distr. cbn [map rev app pos_value]. reflexivity. Qed.
Lemma text_value_nil base : text_value base [] = 0.
Proof. reflexivity. Qed.

Lemma hval_spec base ds : forall acc, hval base acc ds = acc * base ^ len ds + text_value base ds.
Proof.
  induction ds as [|c ds IH]; intros acc; cbn [hval fold_left].
  - change (len (@nil N)) with 0. rewrite N.pow_0_r, text_value_nil. lia.
  - fold (hval base (acc * base + char_val c) ds). rewrite IH, text_value_cons, len_cons, N.pow_add_r, N.pow_1_r.
    ring.
Qed.
Lemma hval_0 base ds : hval base 0 ds = text_value base ds.
Proof. rewrite hval_spec. lia. Qed.

Definition stops (base : N) (rest : str) : Prop :=
  match rest with [] => True | c :: _ => digit_in base c = None end.

Lemma scan_digits_app base ds : forall acc rest,
  Forall (fun c => digit_in base c = Some (char_val c)) ds -> stops base rest ->
  scan_digits base acc (ds ++ rest) = (hval base acc ds, rest).
Proof.
  induction ds as [|c ds IH]; intros acc rest Hd Hs; cbn [app].
  - destruct rest as [|x r]; cbn [scan_digits hval fold_left]; [reflexivity|].
    cbn [stops] in Hs. rewrite Hs. reflexivity.
  - inversion Hd as [|? ? Hc Hr]; subst. cbn [scan_digits]. rewrite Hc.
    rewrite (IH _ _ Hr Hs). reflexivity.
Qed.

Lemma forall_digit_in_10 ds :
  forallb is_digit ds = true -> Forall (fun c => digit_in 10 c = Some (char_val c)) ds.
Proof.
  intros H. apply Forall_forall. intros c Hc. rewrite forallb_forall in H. apply digit_in_10, H, Hc.
Qed.
Lemma forall_digit_in_16 ds :
  forallb is_hex_char ds = true -> Forall (fun c => digit_in 16 c = Some (char_val c)) ds.
Proof.
  intros H. apply Forall_forall. intros c Hc. rewrite forallb_forall in H. apply digit_in_16, H, Hc.
Qed.
Lemma no_digit_first_stops rest : no_digit_first rest -> stops 10 rest.
Proof. destruct rest as [|c r]; cbn; [trivial|]. apply digit_in_10_none. Qed.

(* the longest digit prefix *)
Lemma digits_split s :
  exists ds rest, s = ds ++ rest /\ forallb is_digit ds = true /\ no_digit_first rest.
Proof.
  induction s as [|c s IH].
  - exists [], []. repeat split.
  - destruct (is_digit c) eqn:E.
    + destruct IH as (ds & rest & -> & Hd & Hr). exists (c :: ds), rest.
      repeat split; [|exact Hr]. cbn [forallb]. rewrite E, Hd. reflexivity.
    + exists [], (c :: s). repeat split. exact E.
Qed.

(* ---- the printer --------------------------------------------------------------------------- *)
Lemma to_base_fuel_acc base f : forall n acc,
  to_base_fuel f base n acc = to_base_fuel f base n [] ++ acc.
Proof.
  induction f as [|f IH]; intros n acc; cbn [to_base_fuel]; [reflexivity|].
  destruct (n / base =? 0).
  - reflexivity.
  - rewrite IH. rewrite (IH _ [digit_char (n mod base)]). rewrite <- app_assoc. reflexivity.
Qed.

Lemma to_base_fuel_step base f n :
  to_base_fuel (S f) base n [] =
  (if n / base =? 0 then [] else to_base_fuel f base (n / base) []) ++ [digit_char (n mod base)].
Proof.
  cbn [to_base_fuel]. destruct (n / base =? 0); [reflexivity|]. apply to_base_fuel_acc.
Qed.

Definition digit_text (base : N) (s : str) : Prop :=
  Forall (fun c => exists d, d < base /\ c = digit_char d) s.

Lemma to_base_fuel_spec base : 2 <= base <= 16 -> forall f n,
  n < 2 ^ N.of_nat f ->
  let s := to_base_fuel (S f) base n [] in
  s <> [] /\ digit_text base s /\ text_value base s = n.
Proof.
  intros Hb f. induction f as [|f IH]; intros n Hn; cbv zeta; rewrite to_base_fuel_step.
  - assert (n = 0) as -> by (cbn in Hn; lia).
    assert (0 / base =? 0 = true) as -> by (rewrite N.div_0_l by lia; reflexivity).
    cbn [app]. split; [discriminate|]. split.
    + constructor; [|constructor]. exists (0 mod base). split; [apply N.mod_lt; lia|reflexivity].
    + rewrite N.mod_0_l by lia. unfold text_value. cbn. lia.
  - assert (n mod base < base) as Hr by (apply N.mod_lt; lia).
    assert (n = base * (n / base) + n mod base) as Hdm by (apply N.div_mod; lia).
    destruct (n / base =? 0) eqn:Eq.
    + cbn [app]. split; [discriminate|]. split.
      * constructor; [|constructor]. exists (n mod base). split; [exact Hr|reflexivity].
      * change [digit_char (n mod base)] with ([] ++ [digit_char (n mod base)]).
        rewrite text_value_snoc, text_value_nil, char_val_digit_char by lia.
        apply N.eqb_eq in Eq. rewrite Eq in Hdm. lia.
    + assert (n / base < 2 ^ N.of_nat f) as Hq.
      { rewrite Nat2N.inj_succ, N.pow_succ_r' in Hn.
        apply N.div_lt_upper_bound; [lia|]. nia. }
      destruct (IH _ Hq) as (Hne & Hdt & Hv). split.
      * intros Habs. apply app_eq_nil in Habs. destruct Habs as [_ Habs]. discriminate.
      * split.
        -- apply Forall_app. split; [exact Hdt|].
           constructor; [|constructor]. exists (n mod base). split; [exact Hr|reflexivity].
        -- rewrite text_value_snoc, Hv, char_val_digit_char by lia. lia.
Qed.

Lemma to_base_fuel_len base : 2 <= base -> forall f n (k : nat),
  n < 2 ^ N.of_nat f -> (1 <= k)%nat -> n < base ^ N.of_nat k ->
  (length (to_base_fuel (S f) base n []) <= k)%nat.
Proof.
  intros Hb f. induction f as [|f IH]; intros n k Hn Hk Hnk; rewrite to_base_fuel_step.
  - assert (n = 0) as -> by (cbn in Hn; lia).
    assert (0 / base =? 0 = true) as -> by (rewrite N.div_0_l by lia; reflexivity).
    cbn. lia.
  - destruct (n / base =? 0) eqn:Eq; [cbn; lia|].
    rewrite app_length. cbn [length].
    assert (n = base * (n / base) + n mod base) as Hdm by (apply N.div_mod; lia).
    assert (n / base < 2 ^ N.of_nat f) as Hq.
    { rewrite Nat2N.inj_succ, N.pow_succ_r' in Hn.
      apply N.div_lt_upper_bound; [lia|]. nia. }
    destruct k as [|k]; [lia|]. destruct k as [|k].
    + (* k = 1: n < base, so n / base = 0 *)
      change (N.of_nat 1) with 1 in Hnk. rewrite N.pow_1_r in Hnk. rewrite N.div_small in Eq by lia. discriminate.
    + assert (n / base < base ^ N.of_nat (S k)) as Hqk.
      { apply N.div_lt_upper_bound; [lia|].
        rewrite (Nat2N.inj_succ (S k)), N.pow_succ_r' in Hnk. exact Hnk. }
      specialize (IH (n / base) (S k) Hq ltac:(lia) Hqk). lia.
Qed.

Lemma size_nat_bound n : n < 2 ^ N.of_nat (N.size_nat n).
Proof.
  destruct n as [|p]; [cbn; lia|]. cbn [N.size_nat].
  induction p as [p IH|p IH|]; cbn [Pos.size_nat].
  - rewrite Nat2N.inj_succ, N.pow_succ_r'. lia.
  - rewrite Nat2N.inj_succ, N.pow_succ_r'. lia.
  - cbn. lia.
Qed.

Lemma to_base_spec base n : 2 <= base <= 16 ->
  to_base base n <> [] /\ digit_text base (to_base base n) /\ text_value base (to_base base n) = n.
Proof. intros Hb. unfold to_base. apply (to_base_fuel_spec base Hb), size_nat_bound. Qed.

Lemma to_base_len base n (k : nat) : 2 <= base -> (1 <= k)%nat -> n < base ^ N.of_nat k ->
  (length (to_base base n) <= k)%nat.
Proof. intros Hb Hk Hn. unfold to_base. apply to_base_fuel_len; try assumption. apply size_nat_bound. Qed.

Lemma digit_text_dec s : digit_text 10 s -> forallb is_digit s = true.
Proof.
  intros H. apply forallb_forall. intros c Hc. unfold digit_text in H. rewrite Forall_forall in H.
  destruct (H c Hc) as (d & Hd & ->). apply digit_char_dec, Hd.
Qed.
Lemma digit_text_hex s : digit_text 16 s -> forallb is_hex_char s = true.
Proof.
  intros H. apply forallb_forall. intros c Hc. unfold digit_text in H. rewrite Forall_forall in H.
  destruct (H c Hc) as (d & Hd & ->). apply digit_char_hex, Hd.
Qed.

Lemma to_dec_spec n :
  to_dec n <> [] /\ forallb is_digit (to_dec n) = true /\ text_value 10 (to_dec n) = n.
Proof.
  destruct (to_base_spec 10 n ltac:(lia)) as (H1 & H2 & H3). unfold to_dec.
  repeat split; [exact H1|apply digit_text_dec, H2|exact H3].
Qed.
Lemma to_hex_spec n :
  to_hex n <> [] /\ forallb is_hex_char (to_hex n) = true /\ text_value 16 (to_hex n) = n.
Proof.
  destruct (to_base_spec 16 n ltac:(lia)) as (H1 & H2 & H3). unfold to_hex.
  repeat split; [exact H1|apply digit_text_hex, H2|exact H3].
Qed.

(* leading zeros do not change the value *)
Lemma text_value_zeros base k s : text_value base (repeat 48 k ++ s) = text_value base s.
Proof.
  induction k as [|k IH]; cbn [repeat app]; [reflexivity|].
  rewrite text_value_cons, IH. cbn. lia.
Qed.
Lemma pad_left_value base w s : text_value base (pad_left w 48 s) = text_value base s.
Proof. unfold pad_left. apply text_value_zeros. Qed.
Lemma pad_left_hex w s : forallb is_hex_char s = true -> forallb is_hex_char (pad_left w 48 s) = true.
Proof.
  intros H. unfold pad_left. rewrite forallb_app, H, andb_true_r.
  apply forallb_forall. intros c Hc. apply repeat_spec in Hc. subst. reflexivity.
Qed.
Lemma pad_left_nonempty w c s : s <> [] -> pad_left w c s <> [].
Proof. unfold pad_left. intros H E. apply app_eq_nil in E. tauto. Qed.
Lemma pad_left_length w c s : (length s <= w)%nat -> length (pad_left w c s) = w.
Proof. unfold pad_left. intros H. rewrite app_length, repeat_length. lia. Qed.
