(* C20.ProofsExt: exact (iff) acceptance for UID, MAC, tolerant booleans, socket addresses;
   the hypotheses of the IPv4 / socket address / CID round trips discharged for the Libc.v models
   of inet_pton/inet_ntop/uuid_parse/uuid_unparse; exact value of every DMX text item.           *)
From OlaBase Require Import Bytes.
From Coq Require Import ZifyBool ZifyN ZifyNat.
From C20 Require Import Libc Spec Model Ipv6 ProofsDigits ProofsInt ProofsHex ProofsText ProofsIpv6 ProofsIpv6v4.
Local Open Scope N_scope.

(* ---- a hex text of k digits is below 16^k ---------------------------------------------------------- *)
Lemma char_val_hex_lt c : is_hex_char c = true -> char_val c < 16.
Proof. intros H. apply is_hex_range in H. unfold char_val. break_if; lia. Qed.
Lemma text_value_hex_lt t : forallb is_hex_char t = true -> text_value 16 t < 16 ^ len t.
Proof.
  induction t as [|c t IH]; intros H.
  - cbn. lia.
  - cbn [forallb] in H. apply andb_prop in H as [Hc Ht]. specialize (IH Ht).
    rewrite text_value_cons, len_cons, N.pow_add_r, N.pow_1_r.
    pose proof (char_val_hex_lt c Hc). nia.
Qed.

(* ---- UID: exact acceptance ------------------------------------------------------------------------- *)
Lemma uid_complete t0 t1 : len t0 = 4 -> len t1 = 8 -> hex_form t0 -> hex_form t1 ->
  uid_from_string (t0 ++ [58] ++ t1) = Some (text_value 16 t0, text_value 16 t1).
Proof.
  intros L0 L1 (N0 & H0) (N1 & H1). unfold uid_from_string, string_split. cbn [app].
  rewrite (split_on_delim (mem_char [58]) t0 58 t1 []); [|apply (nodelim_hex _ _ mem58_hex), H0|reflexivity].
  rewrite (split_on_end (mem_char [58]) t1 []); [|apply (nodelim_hex _ _ mem58_hex), H1].
  cbn [rev app]. rewrite L0, L1. cbn [N.eqb Pos.eqb andb negb].
  pose proof (text_value_hex_lt t0 H0) as B0. pose proof (text_value_hex_lt t1 H1) as B1.
  rewrite L0 in B0. rewrite L1 in B1. change (16 ^ 4) with 65536 in B0. change (16 ^ 8) with 4294967296 in B1.
  assert (hex_to_u16 t0 = Some (text_value 16 t0)) as ->.
  { apply hex_to_u16_spec. unfold uhex_spec, hex_form, UINT16_MAX. repeat split; auto. lia. }
  assert (hex_to_u32 t1 = Some (text_value 16 t1)) as ->.
  { apply hex_to_u32_spec. unfold uhex_spec, hex_form, UINT32_MAX. repeat split; auto. lia. }
  reflexivity.
Qed.
Lemma uid_exact t e d : uid_from_string t = Some (e, d) <->
  exists t0 t1, t = t0 ++ [58] ++ t1 /\ len t0 = 4 /\ len t1 = 8 /\ hex_form t0 /\ hex_form t1 /\
                e = text_value 16 t0 /\ d = text_value 16 t1.
Proof.
  split.
  - intros H. destruct (uid_sound t e d H) as (t0 & t1 & Ht & L0 & L1 & (F0 & V0 & _) & (F1 & V1 & _)).
    exists t0, t1. repeat split; auto; try apply F0; try apply F1.
  - intros (t0 & t1 & -> & L0 & L1 & F0 & F1 & -> & ->). apply uid_complete; assumption.
Qed.

(* ---- MAC: exact acceptance --------------------------------------------------------------------------- *)
Lemma all_some_forall2 {A B} (f : A -> option B) l r :
  all_some (map f l) = Some r <-> Forall2 (fun x y => f x = Some y) l r.
Proof.
  revert r. induction l as [|x l IH]; intros r; cbn [map all_some].
  - split; [intros H; inversion H; constructor|intros H; inversion H; reflexivity].
  - destruct (f x) as [y|] eqn:E.
    + destruct (all_some (map f l)) as [t|] eqn:Et.
      * split.
        -- intros H. inversion H. constructor; [exact E|apply IH; reflexivity].
        -- intros H. inversion H as [|? y' ? r' Hy Hr]; subst. apply IH in Hr. inversion Hr. congruence.
      * split; [discriminate|]. intros H. inversion H as [|? y' ? r' Hy Hr]; subst. apply IH in Hr. discriminate.
    + split; [discriminate|]. intros H. inversion H; subst. congruence.
Qed.
Lemma mac_exact t m : mac_from_string t = Some m <->
  (length (string_split [58; 46] t) = 6%nat /\
   Forall2 (fun tok b => hex_form tok /\ b = text_value 16 tok /\ b <= 255) (string_split [58; 46] t) m).
Proof.
  unfold mac_from_string. set (tokens := string_split [58; 46] t).
  assert (forall r, all_some (map hex_to_u8 tokens) = Some r <->
                    Forall2 (fun tok b => hex_form tok /\ b = text_value 16 tok /\ b <= 255) tokens r) as Hall.
  { intros r. rewrite all_some_forall2. split; intros H.
    - induction H; constructor; auto. apply hex_to_u8_spec. assumption.
    - induction H; constructor; auto. apply hex_to_u8_spec. assumption. }
  destruct (len tokens =? 6) eqn:E; cbn [negb].
  - rewrite Hall. unfold len in E. split; [intros H; split; [lia|exact H]|intros [_ H]; exact H].
  - split; [discriminate|]. intros [H _]. unfold len in E. lia.
Qed.

(* ---- StringToBoolTolerant: exact acceptance ----------------------------------------------------------- *)
Definition true_words : list str := [s_true; s_t; s_1; s_on; s_enable; s_enabled].
Definition false_words : list str := [s_false; s_f; s_0; s_off; s_disable; s_disabled].

Ltac bool_step :=
  match goal with
  | |- context [str_eqb ?l ?w] =>
    let E := fresh "E" in destruct (str_eqb l w) eqn:E; [apply str_eqb_eq in E|]; cbn [orb]
  end.
Ltac in_words := cbn [In]; repeat (try (left; assumption); right); fail.

Lemma string_to_bool_tolerant_spec t b : string_to_bool_tolerant t = Some b <->
  (In (to_lower t) true_words /\ b = true) \/ (In (to_lower t) false_words /\ b = false).
Proof.
  split.
  - unfold string_to_bool_tolerant, string_to_bool. set (lc := to_lower t). unfold true_words, false_words.
    repeat bool_step;
      try (intros H; inversion H; left; split; [cbn [In]; auto 12|reflexivity]);
      try (intros H; inversion H; right; split; [cbn [In]; auto 12|reflexivity]);
      discriminate.
  - unfold string_to_bool_tolerant, string_to_bool.
    intros [[H ->]|[H ->]]; unfold true_words, false_words in H; cbn [In] in H;
      repeat (destruct H as [H|H]; [rewrite <- H; reflexivity|]); contradiction.
Qed.
Lemma string_to_bool_strict_words t b : string_to_bool t = Some b <->
  (In (to_lower t) [s_true; s_t; s_1] /\ b = true) \/ (In (to_lower t) [s_false; s_f; s_0] /\ b = false).
Proof.
  split.
  - unfold string_to_bool. set (lc := to_lower t).
    repeat bool_step;
      try (intros H; inversion H; left; split; [cbn [In]; auto 12|reflexivity]);
      try (intros H; inversion H; right; split; [cbn [In]; auto 12|reflexivity]);
      discriminate.
  - unfold string_to_bool.
    intros [[H ->]|[H ->]]; cbn [In] in H;
      repeat (destruct H as [H|H]; [rewrite <- H; reflexivity|]); contradiction.
Qed.
(* a text with an embedded NUL (or any character outside the word) is never accepted *)
Lemma bool_nul_rejected t : In 0 t -> string_to_bool_tolerant t = None.
Proof.
  intros Hin. apply not_some_none. intros b Hb. apply string_to_bool_tolerant_spec in Hb.
  assert (In 0 (to_lower t)) as H0.
  { unfold to_lower. apply in_map_iff. exists 0. split; [reflexivity|exact Hin]. }
  destruct Hb as [[H _]|[H _]]; unfold true_words, false_words in H; cbn [In] in H;
    repeat (destruct H as [H|H]; [rewrite <- H in H0; cbn in H0; lia|]); contradiction.
Qed.

(* ---- IPv4 / socket address: exact acceptance for ANY inet_pton ----------------------------------------- *)
Lemma ipv4_exact pton t a : ipv4_from_string pton t = Some a <-> (t <> [] /\ pton (cstr t) = Some a).
Proof.
  unfold ipv4_from_string. destruct t as [|c t]; cbn [is_empty].
  - split; [discriminate|intros [H _]; congruence].
  - split; [intros H; split; [discriminate|exact H]|intros [_ H]; exact H].
Qed.
Lemma sockaddr_exact pton t a port : sockaddr_from_string pton t = Some (a, port) <->
  exists h pt, t = h ++ [58] ++ pt /\ ~ In 58 h /\ h <> [] /\ pton (cstr h) = Some a /\
               udec_spec UINT16_MAX true pt port.
Proof.
  split; [apply sockaddr_sound|].
  intros (h & pt & -> & Hn & Hne & Hp & Hs). unfold sockaddr_from_string. cbn [app].
  rewrite (find_char_app 58 h pt Hn). rewrite firstn_app_exact, skipn_app_cons.
  assert (ipv4_from_string pton h = Some a) as -> by (apply ipv4_exact; auto).
  apply string_to_u16_spec in Hs. rewrite Hs. reflexivity.
Qed.

(* ---- the hypotheses on inet_ntop / inet_pton hold of the Libc.v models ---------------------------------- *)
Lemma ntop4_chars a c : In c (inet_ntop4 a) -> c <> 58 /\ c <> 0.
Proof.
  intros Hc. unfold inet_ntop4 in Hc.
  assert (Forall (fun c => c <> 58 /\ c <> 0) (join [46] (map to_dec a))) as HF.
  { apply join_forall; [split; discriminate|]. apply Forall_forall. intros x Hx.
    apply in_map_iff in Hx as (w & <- & _). destruct (to_dec_spec w) as (_ & Hd & _).
    apply Forall_forall. intros d Hdin. rewrite forallb_forall in Hd. specialize (Hd d Hdin).
    unfold is_digit in Hd. lia. }
  rewrite Forall_forall in HF. exact (HF c Hc).
Qed.
Lemma ntop4_nonempty a : length a = 4%nat -> inet_ntop4 a <> [].
Proof.
  intros H. destruct a as [|x a]; [discriminate|]. unfold inet_ntop4. cbn [map]. apply join_nonempty.
  apply to_dec_spec.
Qed.
Lemma ntop4_pton4 a : length a = 4%nat -> bytes_ok a = true -> inet_pton4 (inet_ntop4 a) = Some a.
Proof.
  intros Hl Hb. destruct a as [|a0 [|a1 [|a2 [|a3 [|? ?]]]]]; try discriminate.
  unfold bytes_ok in Hb. cbn [forallb] in Hb. unfold byte_ok in Hb.
  apply pton4_ntop4; lia.
Qed.

Lemma ipv4_libc_roundtrip a port : length a = 4%nat -> bytes_ok a = true -> port <= 65535 ->
  ipv4_from_string inet_pton4 (ipv4_to_string inet_ntop4 a) = Some a /\
  sockaddr_from_string inet_pton4 (sockaddr_to_string inet_ntop4 (a, port)) = Some (a, port).
Proof.
  intros Hl Hb Hp. split.
  - exact (ipv4_roundtrip inet_pton4 inet_ntop4 ntop4_pton4 ntop4_chars ntop4_nonempty a Hl Hb).
  - exact (sockaddr_roundtrip inet_pton4 inet_ntop4 ntop4_pton4 ntop4_chars ntop4_nonempty a port Hl Hb Hp).
Qed.

(* ---- libuuid model: uuid_parse (uuid_unparse u) = u ------------------------------------------------------ *)
Lemma hex2_digits b : b <= 255 -> hex2 b = [digit_char (b / 16); digit_char (b mod 16)].
Proof. intros H. each_byte b H. Qed.
Lemma digit_in_digit_char d : d < 16 -> digit_in 16 (digit_char d) = Some d.
Proof. intros H. rewrite (digit_in_16 _ (digit_char_hex d H)), char_val_digit_char by exact H. reflexivity. Qed.
Lemma digit_char_nonzero d : (digit_char d =? 0) = false.
Proof. unfold digit_char. break_if; lia. Qed.
Lemma digit_char_not_dash d : d < 16 -> (digit_char d =? 45) = false.
Proof. intros H. unfold digit_char. break_if; lia. Qed.

Lemma uuid_libc_roundtrip u : length u = 16%nat -> bytes_ok u = true ->
  uuid_parse (uuid_unparse u) = Some u /\ cstr (uuid_unparse u) = uuid_unparse u.
Proof.
  intros Hl Hb.
  do 16 (destruct u as [|? u]; [discriminate|]). destruct u; [|discriminate].
  unfold bytes_ok in Hb. cbn [forallb] in Hb. unfold byte_ok in Hb.
  repeat (apply andb_prop in Hb; destruct Hb as [? Hb]).
  unfold uuid_unparse. cbn [map firstn skipn concat app].
  rewrite !hex2_digits by lia. cbn [app].
  split.
  - unfold uuid_parse. cbn [len length N.of_nat Pos.of_succ_nat Pos.succ N.eqb Pos.eqb negb].
    change (45 =? 45) with true. cbn [andb app hex_pairs].
    rewrite !digit_in_digit_char by lia.
    repeat f_equal; lia.
  - cbn [cstr]. rewrite !digit_char_nonzero. change (45 =? 0) with false. cbv iota. reflexivity.
Qed.
Lemma cid_libc_roundtrip u : length u = 16%nat -> bytes_ok u = true ->
  cid_from_string uuid_parse (cid_to_string uuid_unparse u) = u.
Proof.
  intros Hl Hb. destruct (uuid_libc_roundtrip u Hl Hb) as (H1 & H2).
  unfold cid_from_string, cid_to_string. rewrite H2, H1. reflexivity.
Qed.

(* ---- DMX text: the exact slot of every item ---------------------------------------------------------------- *)
Lemma wrap8_wrap32 z : wrap_unsigned 8 (wrap_signed 32 z) = Z.to_N (z mod 256).
Proof.
  unfold wrap_unsigned, wrap_signed. change (Z.of_N (2 ^ 8)) with 256%Z.
  change (Z.of_N (2 ^ 32)) with 4294967296%Z. change (Z.of_N (2 ^ (32 - 1))) with 2147483648%Z.
  f_equal. destruct (_ <? _)%Z; lia.
Qed.
Lemma dmx_item_exact tok neg m rest : dec_form (cstr tok) neg m rest ->
  dmx_item tok =
  if neg then (if TWO63 <? m then 0 else Z.to_N ((- Z.of_N m) mod 256))
  else (if LLONG_MAX <? m then 255 else m mod 256).
Proof.
  intros Hf. unfold dmx_item, atoi, strtol. rewrite (strtoll_form _ _ _ _ Hf), wrap8_wrap32.
  unfold TWO63, LLONG_MAX. destruct neg.
  - destruct (9223372036854775808 <? m); cbn [fst]; [reflexivity|reflexivity].
  - destruct (9223372036854775807 <? m); cbn [fst]; [reflexivity|].
    rewrite <- (N2Z.id (m mod 256)). f_equal. rewrite N2Z.inj_mod. reflexivity.
Qed.
Lemma dmx_set_from_string_unfold input :
  dmx_set_from_string input =
  match input with [] => [] | _ => map dmx_item (firstn 512 (string_split [44] input)) end.
Proof. destruct input; reflexivity. Qed.
Lemma dmx_length input : (length (dmx_set_from_string input) <= 512)%nat.
Proof.
  rewrite dmx_set_from_string_unfold. destruct input; [cbn; lia|].
  rewrite map_length, firstn_length. lia.
Qed.

(* ---- StringSplit, any delimiter set ------------------------------------------------------------------------ *)
Lemma split_on_tokens_nodelim p s : forall cur, nodelim p cur ->
  Forall (nodelim p) (split_on p s cur).
Proof.
  assert (forall cur, nodelim p cur -> nodelim p (rev cur)) as Hrev.
  { intros cur H. unfold nodelim in *. rewrite forallb_forall in *. intros x Hx. apply H, in_rev, Hx. }
  induction s as [|c s IH]; intros cur Hc; cbn [split_on].
  - constructor; [apply Hrev, Hc|constructor].
  - destruct (p c) eqn:E.
    + constructor; [apply Hrev, Hc|]. apply IH. reflexivity.
    + apply IH. unfold nodelim in *. cbn [forallb]. rewrite E, Hc. reflexivity.
Qed.
Lemma string_split_spec delims input :
  length (string_split delims input) = S (count_chars delims input) /\
  Forall (fun tok => forall c, In c tok -> mem_char delims c = false) (string_split delims input) /\
  (forall d, delims = [d] -> join [d] (string_split delims input) = input).
Proof.
  unfold string_split. split; [|split].
  - unfold count_chars. apply split_on_length.
  - pose proof (split_on_tokens_nodelim (mem_char delims) input [] eq_refl) as H.
    revert H. apply Forall_impl. intros tok Ht c Hc. unfold nodelim in Ht. rewrite forallb_forall in Ht.
    specialize (Ht c Hc). apply negb_true_iff in Ht. exact Ht.
  - intros d ->. apply (join_split d input []).
Qed.

(* ---- a long-lived DmxBuffer: SetFromString's frame depends on the text only ------------------------------- *)
Lemma firstn_overwrite old new : firstn (length new) (overwrite old new) = new.
Proof. unfold overwrite. rewrite firstn_app, Nat.sub_diag, firstn_all. cbn. apply app_nil_r. Qed.
Lemma overwrite_length old new : (length new <= length old)%nat -> length (overwrite old new) = length old.
Proof. intros H. unfold overwrite. rewrite app_length, skipn_length. lia. Qed.

Lemma dmx_text_step_frame o input : dmx_frame (dmx_step o (OpText input)) = dmx_set_from_string input.
Proof.
  destruct o as [block len]. unfold dmx_step, dmx_set_from_string. destruct (is_empty input).
  - reflexivity.
  - unfold dmx_frame. cbn [fst snd]. apply firstn_overwrite.
Qed.
Lemma dmx_step_block_length o op : length (fst o) = DMX_UNIVERSE_SIZE -> length (fst (dmx_step o op)) = DMX_UNIVERSE_SIZE.
Proof.
  destruct o as [block len]. cbn [fst]. intros H. destruct op as [input|data|v n]; cbn [dmx_step].
  - destruct (is_empty input); cbn [fst]; [exact H|]. rewrite overwrite_length; [exact H|].
    rewrite map_length, firstn_length. lia.
  - cbn [fst]. rewrite overwrite_length; [exact H|]. rewrite firstn_length. lia.
  - cbn [fst]. rewrite overwrite_length; [exact H|]. rewrite repeat_length. lia.
Qed.
Lemma dmx_history ops input :
  dmx_frame (dmx_run (ops ++ [OpText input])) = dmx_set_from_string input.
Proof. unfold dmx_run. rewrite fold_left_app. cbn [fold_left]. apply dmx_text_step_frame. Qed.

(* ---- bytes >= 0x80 (and any other byte outside the grammar) are never accepted ------------------------------ *)
Lemma hex_form_ascii t c : hex_form t -> In c t -> c < 128.
Proof.
  intros (_ & H) Hc. rewrite forallb_forall in H. specialize (H c Hc). apply is_hex_range in H. lia.
Qed.
Lemma split_on_covers p c s : forall cur, In c s \/ In c cur -> p c = false ->
  exists tok, In tok (split_on p s cur) /\ In c tok.
Proof.
  induction s as [|x s IH]; intros cur Hin Hp; cbn [split_on].
  - destruct Hin as [[]|Hin]. exists (rev cur). split; [left; reflexivity|apply in_rev in Hin; exact Hin].
  - destruct (p x) eqn:Ex.
    + destruct Hin as [[->|Hin]|Hin].
      * congruence.
      * destruct (IH [] (or_introl Hin) Hp) as (tok & H1 & H2). exists tok. split; [right; exact H1|exact H2].
      * exists (rev cur). split; [left; reflexivity|apply in_rev in Hin; exact Hin].
    + apply IH; [|exact Hp]. destruct Hin as [[->|Hin]|Hin]; [right; left; reflexivity|left; exact Hin|right; right; exact Hin].
Qed.
Lemma dec_number_ascii p neg m c : dec_number p neg m -> In c p -> c < 128.
Proof.
  intros (ws & sg & ds & -> & Hws & Hsg & _ & Hds & _) Hin.
  rewrite forallb_forall in Hws, Hds.
  apply in_app_or in Hin as [H|H]; [apply Hws in H; unfold is_space in H; lia|].
  apply in_app_or in H as [H|H]; [|apply Hds in H; unfold is_digit in H; lia].
  destruct Hsg as [[-> _]|[[-> _]|[-> _]]]; cbn in H; lia.
Qed.

Lemma high_byte_rejected t c : In c t -> 128 <= c ->
  hex_to_u64 t = None /\ hex_to_u32 t = None /\ hex_to_u16 t = None /\ hex_to_u8 t = None /\
  hex_to_i64 t = None /\ hex_to_i32 t = None /\ hex_to_i16 t = None /\ hex_to_i8 t = None /\
  uid_from_string t = None /\ mac_from_string t = None /\
  string_to_u64 true t = None /\ string_to_i64 true t = None /\
  string_to_bool_tolerant t = None.
Proof.
  intros Hin Hc.
  assert (forall P : Prop, (hex_form t -> P) -> hex_form t -> False) as Hhex.
  { intros P _ Hf. pose proof (hex_form_ascii t c Hf Hin). lia. }
  repeat split; apply not_some_none; intros x Hx.
  - apply hex_to_u64_spec in Hx. destruct Hx as (Hf & _). pose proof (hex_form_ascii t c Hf Hin). lia.
  - apply hex_to_u32_spec in Hx. destruct Hx as (Hf & _). pose proof (hex_form_ascii t c Hf Hin). lia.
  - apply hex_to_u16_spec in Hx. destruct Hx as (Hf & _). pose proof (hex_form_ascii t c Hf Hin). lia.
  - apply hex_to_u8_spec in Hx. destruct Hx as (Hf & _). pose proof (hex_form_ascii t c Hf Hin). lia.
  - apply hex_to_i64_spec in Hx. destruct Hx as (Hf & _). pose proof (hex_form_ascii t c Hf Hin). lia.
  - apply hex_to_i32_spec in Hx. destruct Hx as (Hf & _). pose proof (hex_form_ascii t c Hf Hin). lia.
  - apply hex_to_i16_spec in Hx. destruct Hx as (Hf & _). pose proof (hex_form_ascii t c Hf Hin). lia.
  - apply hex_to_i8_spec in Hx. destruct Hx as (Hf & _). pose proof (hex_form_ascii t c Hf Hin). lia.
  - destruct x as [e d]. apply uid_exact in Hx. destruct Hx as (t0 & t1 & -> & _ & _ & F0 & F1 & _).
    apply in_app_or in Hin as [H|H]; [pose proof (hex_form_ascii _ c F0 H); lia|].
    cbn [app] in H. destruct H as [H|H]; [lia|pose proof (hex_form_ascii _ c F1 H); lia].
  - apply mac_exact in Hx. destruct Hx as (_ & HF).
    assert (mem_char [58; 46] c = false) as Hp by (unfold mem_char; cbn; lia).
    destruct (split_on_covers (mem_char [58; 46]) c t [] (or_introl Hin) Hp) as (tok & Ht & Hct).
    fold (string_split [58; 46] t) in Ht.
    assert (hex_form tok) as Hf.
    { clear - HF Ht. induction HF as [|a b l l' Hab _ IH]; [destruct Ht|].
      destruct Ht as [<-|Ht]; [apply Hab|apply IH, Ht]. }
    pose proof (hex_form_ascii _ c Hf Hct). lia.
  - apply string_to_u64_spec in Hx. destruct Hx as (rest & (p & -> & Hp & _) & _ & Hr).
    rewrite (Hr eq_refl), app_nil_r in Hin. pose proof (dec_number_ascii _ _ _ c Hp Hin). lia.
  - apply string_to_i64_spec in Hx. destruct Hx as (neg & m & rest & (p & -> & Hp & _) & _ & _ & Hr).
    rewrite (Hr eq_refl), app_nil_r in Hin. pose proof (dec_number_ascii _ _ _ c Hp Hin). lia.
  - apply string_to_bool_tolerant_spec in Hx.
    assert (In c (to_lower t)) as H0.
    { unfold to_lower. apply in_map_iff. exists c. split; [unfold lower_char; break_if; lia|exact Hin]. }
    destruct Hx as [[H _]|[H _]]; unfold true_words, false_words in H; cbn [In] in H;
      repeat (destruct H as [H|H]; [rewrite <- H in H0; cbn in H0; lia|]); contradiction.
Qed.
