(* C20.ProofsText: StringSplit/join, UID, MAC, DMX text, booleans, socket address, CID.        *)
From OlaBase Require Import Bytes.
From Coq Require Import ZifyBool ZifyN ZifyNat.
From C20 Require Import Libc Spec Model ProofsDigits ProofsInt ProofsHex.
Local Open Scope N_scope.

(* ---- StringSplit ------------------------------------------------------------------------------ *)
Definition nodelim (p : N -> bool) (tok : str) : Prop := forallb (fun c => negb (p c)) tok = true.

Lemma split_on_nodelim p tok : forall cur s, nodelim p tok ->
  split_on p (tok ++ s) cur = split_on p s (rev tok ++ cur).
Proof.
  induction tok as [|c tok IH]; intros cur s H; [reflexivity|].
  unfold nodelim in H. cbn [forallb] in H. apply andb_prop in H as [Hc Ht].
  cbn [app split_on]. destruct (p c); [discriminate|]. rewrite IH by exact Ht.
  cbn [rev]. rewrite <- app_assoc. reflexivity.
Qed.
Lemma split_on_end p tok cur : nodelim p tok -> split_on p tok cur = [rev cur ++ tok].
Proof.
  intros H. rewrite <- (app_nil_r tok) at 1. rewrite split_on_nodelim by exact H. cbn [split_on].
  rewrite rev_app_distr, rev_involutive. reflexivity.
Qed.
Lemma split_on_delim p tok d s cur : nodelim p tok -> p d = true ->
  split_on p (tok ++ d :: s) cur = (rev cur ++ tok) :: split_on p s [].
Proof.
  intros H Hd. rewrite split_on_nodelim by exact H. cbn [split_on]. rewrite Hd.
  rewrite rev_app_distr, rev_involutive. reflexivity.
Qed.
Lemma split_on_nonempty p s cur : split_on p s cur <> [].
Proof. revert cur. induction s as [|c s IH]; intros cur; cbn [split_on]; [discriminate|]. destruct (p c); [discriminate|apply IH]. Qed.
Lemma split_on_length p s : forall cur, length (split_on p s cur) = S (length (filter p s)).
Proof.
  induction s as [|c s IH]; intros cur; cbn [split_on filter]; [reflexivity|].
  destruct (p c); cbn [length]; rewrite IH; reflexivity.
Qed.

Lemma join_cons sep x y r : join sep (x :: y :: r) = x ++ sep ++ join sep (y :: r).
Proof. reflexivity. Qed.
Lemma join_cons_ne sep x l : l <> [] -> join sep (x :: l) = x ++ sep ++ join sep l.
Proof. destruct l; [congruence|reflexivity]. Qed.

Lemma split_join p d toks : p d = true -> toks <> [] -> Forall (nodelim p) toks ->
  split_on p (join [d] toks) [] = toks.
Proof.
  intros Hd. induction toks as [|x r IH]; intros Hne Hf; [congruence|].
  inversion Hf as [|? ? Hx Hr]; subst. destruct r as [|y r].
  - cbn [join]. rewrite split_on_end by exact Hx. reflexivity.
  - rewrite join_cons. cbn [app]. rewrite split_on_delim by assumption. cbn [rev app].
    rewrite IH; [reflexivity|discriminate|exact Hr].
Qed.

(* a single delimiter: splitting then joining gives the text back *)
Lemma join_split d s : forall cur,
  join [d] (split_on (mem_char [d]) s cur) = rev cur ++ s.
Proof.
  induction s as [|c s IH]; intros cur; cbn [split_on].
  - cbn [join]. rewrite app_nil_r. reflexivity.
  - destruct (mem_char [d] c) eqn:E.
    + unfold mem_char in E. cbn [existsb] in E. rewrite orb_false_r in E. apply N.eqb_eq in E. subst c.
      rewrite join_cons_ne by apply split_on_nonempty. rewrite IH. reflexivity.
    + rewrite IH. cbn [rev]. rewrite <- app_assoc. reflexivity.
Qed.

Lemma nodelim_hex p s : (forall c, is_hex_char c = true -> p c = false) ->
  forallb is_hex_char s = true -> nodelim p s.
Proof. intros Hp. unfold nodelim. apply forallb_impl. intros x Hx. rewrite (Hp x Hx). reflexivity. Qed.
Lemma mem58_hex c : is_hex_char c = true -> mem_char [58] c = false.
Proof. intros H. destruct (hex_not_special c H) as (_ & _ & _ & _ & _ & _ & H58 & _). unfold mem_char. cbn. rewrite H58. reflexivity. Qed.
Lemma mem5846_hex c : is_hex_char c = true -> mem_char [58; 46] c = false.
Proof. intros H. destruct (hex_not_special c H) as (_ & _ & _ & _ & _ & _ & H58 & H46 & _). unfold mem_char. cbn. rewrite H58, H46. reflexivity. Qed.
Lemma mem44_digit c : is_digit c = true -> mem_char [44] c = false.
Proof. intros H. destruct (hex_not_special c (is_digit_hex c H)) as (_ & _ & _ & _ & _ & _ & _ & _ & H44). unfold mem_char. cbn. rewrite H44. reflexivity. Qed.

(* ---- padded hex fields -------------------------------------------------------------------------- *)
Lemma hex_field (k : nat) n : (1 <= k)%nat -> n < 16 ^ N.of_nat k ->
  let f := pad_left k 48 (to_hex n) in
  length f = k /\ hex_form f /\ text_value 16 f = n.
Proof.
  intros Hk Hn. destruct (to_hex_spec n) as (H1 & H2 & H3). cbv zeta. split; [|split].
  - apply pad_left_length. unfold to_hex. apply to_base_len; [lia|exact Hk|exact Hn].
  - split; [apply pad_left_nonempty, H1|apply pad_left_hex, H2].
  - rewrite pad_left_value. exact H3.
Qed.

(* ---- UID ------------------------------------------------------------------------------------------ *)
Lemma uid_roundtrip e d : e <= 65535 -> d <= 4294967295 ->
  uid_from_string (uid_to_string (e, d)) = Some (e, d).
Proof.
  intros He Hd. unfold uid_to_string. cbn [fst snd].
  destruct (hex_field 4 e ltac:(lia) ltac:(cbn; lia)) as (La & Fa & Va).
  destruct (hex_field 8 d ltac:(lia) ltac:(cbn; lia)) as (Lb & Fb & Vb).
  set (A := pad_left 4 48 (to_hex e)) in *. set (B := pad_left 8 48 (to_hex d)) in *.
  unfold uid_from_string, string_split. cbn [app].
  rewrite (split_on_delim (mem_char [58]) A 58 B []); [|apply (nodelim_hex _ _ mem58_hex), Fa|reflexivity].
  rewrite (split_on_end (mem_char [58]) B []); [|apply (nodelim_hex _ _ mem58_hex), Fb].
  cbn [rev app]. unfold len. rewrite La, Lb. cbn [N.of_nat Pos.of_succ_nat Pos.succ N.eqb Pos.eqb andb negb].
  assert (hex_to_u16 A = Some e) as ->.
  { apply hex_to_u16_spec. unfold uhex_spec, UINT16_MAX. auto. }
  assert (hex_to_u32 B = Some d) as ->.
  { apply hex_to_u32_spec. unfold uhex_spec, UINT32_MAX. auto. }
  reflexivity.
Qed.

Lemma uid_sound t e d : uid_from_string t = Some (e, d) ->
  exists t0 t1, t = t0 ++ [58] ++ t1 /\ len t0 = 4 /\ len t1 = 8 /\
                uhex_spec UINT16_MAX t0 e /\ uhex_spec UINT32_MAX t1 d.
Proof.
  unfold uid_from_string. pose proof (join_split 58 t []) as Hj. cbn [rev app] in Hj.
  unfold string_split. destruct (split_on (mem_char [58]) t []) as [|t0 [|t1 [|t2 r]]]; try discriminate.
  destruct ((len t0 =? 4) && (len t1 =? 8)) eqn:El; cbn [negb]; [|discriminate].
  destruct (hex_to_u16 t0) as [e'|] eqn:E0; [|discriminate].
  destruct (hex_to_u32 t1) as [d'|] eqn:E1; [|discriminate].
  intros H. injection H as <- <-. exists t0, t1. cbn [join] in Hj.
  split; [symmetry; exact Hj|]. split; [lia|]. split; [lia|].
  split; [apply hex_to_u16_spec, E0|apply hex_to_u32_spec, E1].
Qed.

Lemma uid_fieldcount t : count_chars [58] t <> 1%nat -> uid_from_string t = None.
Proof.
  unfold count_chars, uid_from_string, string_split. intros H.
  pose proof (split_on_length (mem_char [58]) t []) as Hl. unfold mem_char in *.
  destruct (split_on _ t []) as [|t0 [|t1 [|t2 r]]]; try reflexivity.
  cbn [length] in Hl. exfalso. apply H. lia.
Qed.

(* ---- MAC ------------------------------------------------------------------------------------------ *)
Lemma hex2_spec b : b <= 255 -> uhex_spec UINT8_MAX (hex2 b) b /\ forallb is_hex_char (hex2 b) = true.
Proof.
  intros Hb. destruct (hex_field 2 b ltac:(lia) ltac:(cbn; lia)) as (L & F & V).
  unfold hex2, uhex_spec, UINT8_MAX. repeat split; auto; apply F.
Qed.
Lemma all_some_hex2 m : Forall (fun b => b <= 255) m -> all_some (map hex_to_u8 (map hex2 m)) = Some m.
Proof.
  induction m as [|b m IH]; intros H; [reflexivity|]. inversion H; subst. cbn [map all_some].
  assert (hex_to_u8 (hex2 b) = Some b) as -> by (apply hex_to_u8_spec, hex2_spec; assumption).
  rewrite IH by assumption. reflexivity.
Qed.
Lemma mac_roundtrip m : length m = 6%nat -> Forall (fun b => b <= 255) m ->
  mac_from_string (mac_to_string m) = Some m.
Proof.
  intros Hl Hb. unfold mac_from_string, mac_to_string, string_split.
  rewrite (split_join (mem_char [58; 46]) 58 (map hex2 m)).
  - unfold len. rewrite map_length, Hl. cbn. apply all_some_hex2, Hb.
  - reflexivity.
  - destruct m; [discriminate|discriminate].
  - apply Forall_forall. intros tok Ht. apply in_map_iff in Ht as (b & <- & Hin).
    rewrite Forall_forall in Hb. apply (nodelim_hex _ _ mem5846_hex), hex2_spec, Hb, Hin.
Qed.
Lemma all_some_spec {A} (l : list (option A)) r : all_some l = Some r -> l = map Some r.
Proof.
  revert r. induction l as [|[x|] l IH]; intros r; cbn [all_some].
  - intros H. inversion H. reflexivity.
  - destruct (all_some l) as [t|]; [|discriminate]. intros H. inversion H. cbn [map]. f_equal. apply IH. reflexivity.
  - discriminate.
Qed.
Lemma mac_sound t m : mac_from_string t = Some m ->
  let tokens := string_split [58; 46] t in
  length tokens = 6%nat /\ length m = 6%nat /\
  forall i tok b, nth_error tokens i = Some tok -> nth_error m i = Some b -> uhex_spec UINT8_MAX tok b.
Proof.
  unfold mac_from_string. cbv zeta. set (tokens := string_split [58; 46] t).
  destruct (len tokens =? 6) eqn:E; cbn [negb]; [|discriminate].
  intros H. apply all_some_spec in H. assert (length tokens = 6%nat) as Hl by (unfold len in E; lia).
  assert (length m = 6%nat) as Hm.
  { rewrite <- (map_length Some m), <- H, map_length. exact Hl. }
  split; [exact Hl|]. split; [exact Hm|]. intros i tok b Ht Hb. apply hex_to_u8_spec.
  assert (nth_error (map hex_to_u8 tokens) i = Some (hex_to_u8 tok)) as H1 by (apply map_nth_error, Ht).
  assert (nth_error (map Some m) i = Some (Some b)) as H2 by (apply map_nth_error, Hb).
  rewrite H in H1. congruence.
Qed.
Lemma mac_fieldcount t : count_chars [58; 46] t <> 5%nat -> mac_from_string t = None.
Proof.
  unfold count_chars, mac_from_string, string_split. intros H.
  pose proof (split_on_length (mem_char [58; 46]) t []) as Hl. unfold mem_char in *.
  destruct (len (split_on _ t []) =? 6) eqn:E; [|reflexivity].
  exfalso. apply H. unfold len in E. lia.
Qed.

(* ---- DMX text -------------------------------------------------------------------------------------- *)
Lemma atoi_form c neg m rest : dec_form c neg m rest -> m <= 2147483647 ->
  atoi c = signed_of neg m.
Proof.
  intros Hf Hm. unfold atoi, strtol. rewrite (strtoll_form _ _ _ _ Hf). unfold TWO63, LLONG_MAX.
  destruct neg.
  - assert (9223372036854775808 <? m = false) as -> by lia. cbn [fst]. unfold wrap_signed, signed_of.
    change (Z.of_N (2 ^ 32)) with 4294967296%Z. change (Z.of_N (2 ^ (32 - 1))) with 2147483648%Z.
    destruct (_ <? _)%Z eqn:E; lia.
  - assert (9223372036854775807 <? m = false) as -> by lia. cbn [fst]. unfold wrap_signed, signed_of.
    change (Z.of_N (2 ^ 32)) with 4294967296%Z. change (Z.of_N (2 ^ (32 - 1))) with 2147483648%Z.
    destruct (_ <? _)%Z eqn:E; lia.
Qed.
Lemma dmx_item_in_range tok neg m rest :
  dec_form (cstr tok) neg m rest -> m <= 255 -> (neg = true -> m = 0) -> dmx_item tok = m.
Proof.
  intros Hf Hm Hn. unfold dmx_item. rewrite (atoi_form _ _ _ _ Hf) by lia.
  unfold wrap_unsigned, signed_of. change (Z.of_N (2 ^ 8)) with 256%Z.
  destruct neg; [rewrite (Hn eq_refl); reflexivity|]. rewrite Z.mod_small by lia. lia.
Qed.
Lemma dmx_item_no_number tok :
  (forall neg m rest, ~ dec_form (cstr tok) neg m rest) -> dmx_item tok = 0.
Proof.
  intros H. destruct (strto_core_cases (cstr tok)) as [(neg & m & r & Hf)|Hz]; [exfalso; eapply H, Hf|].
  unfold dmx_item, atoi, strtol, strtoll. rewrite Hz. reflexivity.
Qed.
Lemma digits_nonul ds : forallb is_digit ds = true -> forallb nonul ds = true.
Proof. intros H. apply hex_nonul. revert H. apply forallb_impl, is_digit_hex. Qed.
Lemma dmx_item_digits ds : ds <> [] -> forallb is_digit ds = true -> text_value 10 ds <= 255 ->
  dmx_item ds = text_value 10 ds.
Proof.
  intros Hne Hd Hv. apply (dmx_item_in_range ds false _ []); [|exact Hv|discriminate].
  rewrite (cstr_nonul_id _ (digits_nonul _ Hd)). exists ds. rewrite app_nil_r. repeat split.
  exists [], [], ds. repeat split; auto.
Qed.
Lemma join_nonempty sep x l : x <> [] -> join sep (x :: l) <> [].
Proof.
  intros Hx. destruct l; cbn [join]; [exact Hx|]. intros E. apply app_eq_nil in E as [E _]. auto.
Qed.
Lemma dmx_text items :
  items <> [] -> (length items <= 512)%nat ->
  Forall (fun ds => ds <> [] /\ forallb is_digit ds = true /\ text_value 10 ds <= 255) items ->
  dmx_set_from_string (join [44] items) = map (text_value 10) items.
Proof.
  intros Hne Hl Hf. unfold dmx_set_from_string, string_split.
  destruct items as [|x r]; [congruence|].
  rewrite is_empty_false.
  2: { apply join_nonempty. inversion Hf; subst. tauto. }
  rewrite (split_join (mem_char [44]) 44); [|reflexivity|discriminate|].
  2: { revert Hf. apply Forall_impl. intros ds (_ & Hd & _). unfold nodelim. revert Hd.
       apply forallb_impl. intros c Hc. rewrite (mem44_digit c Hc). reflexivity. }
  rewrite firstn_all2 by (unfold DMX_UNIVERSE_SIZE; exact Hl).
  apply map_ext_in. intros ds Hin. rewrite Forall_forall in Hf. destruct (Hf ds Hin) as (H1 & H2 & H3).
  apply dmx_item_digits; assumption.
Qed.
Lemma dmx_roundtrip d : (length d <= 512)%nat -> Forall (fun b => b <= 255) d ->
  dmx_set_from_string (dmx_to_string d) = d.
Proof.
  intros Hl Hb. unfold dmx_to_string. destruct d as [|b d]; [reflexivity|].
  rewrite dmx_text.
  - rewrite map_map. rewrite <- (map_id (b :: d)) at 2. apply map_ext. intros x. apply to_dec_spec.
  - discriminate.
  - rewrite map_length. exact Hl.
  - apply Forall_forall. intros ds Hin. apply in_map_iff in Hin as (x & <- & Hx).
    rewrite Forall_forall in Hb. destruct (to_dec_spec x) as (H1 & H2 & H3). rewrite H3. auto.
Qed.

(* ---- booleans -------------------------------------------------------------------------------------- *)
Lemma str_eqb_eq a : forall b, str_eqb a b = true <-> a = b.
Proof.
  induction a as [|x a IH]; intros [|y b]; cbn [str_eqb]; split; try discriminate; try reflexivity.
  - intros H. apply andb_prop in H as [H1 H2]. apply N.eqb_eq in H1. apply IH in H2. congruence.
  - intros H. inversion H. subst. rewrite N.eqb_refl. apply IH. reflexivity.
Qed.
Lemma string_to_bool_spec t b : string_to_bool t = Some b <->
  ((to_lower t = s_true \/ to_lower t = s_t \/ to_lower t = s_1) /\ b = true) \/
  ((to_lower t = s_false \/ to_lower t = s_f \/ to_lower t = s_0) /\ b = false /\
   to_lower t <> s_true /\ to_lower t <> s_t /\ to_lower t <> s_1).
Proof.
  unfold string_to_bool. set (lc := to_lower t).
  destruct (str_eqb lc s_true) eqn:E1; [apply str_eqb_eq in E1|];
  [|destruct (str_eqb lc s_t) eqn:E2; [apply str_eqb_eq in E2|]];
  [| |destruct (str_eqb lc s_1) eqn:E3; [apply str_eqb_eq in E3|]]; cbn [orb].
  1-3: split; [intros H; inversion H; left; auto|intros [[_ ->]|(_ & _ & Hn)]; [reflexivity|tauto]].
  assert (lc <> s_true /\ lc <> s_t /\ lc <> s_1) as Hn.
  { repeat split; intros H; apply str_eqb_eq in H; congruence. }
  destruct (str_eqb lc s_false) eqn:F1; [apply str_eqb_eq in F1|];
  [|destruct (str_eqb lc s_f) eqn:F2; [apply str_eqb_eq in F2|]];
  [| |destruct (str_eqb lc s_0) eqn:F3; [apply str_eqb_eq in F3|]]; cbn [orb].
  1-3: split; [intros H; inversion H; right; tauto|intros [[H _]|(_ & -> & _)]; [tauto|reflexivity]].
  split; [discriminate|].
  assert (lc <> s_false /\ lc <> s_f /\ lc <> s_0) as Hm.
  { repeat split; intros H; apply str_eqb_eq in H; congruence. }
  intros [[H _]|[H _]]; tauto.
Qed.

(* ---- IPv4 socket address (inet_pton / inet_ntop are parameters) ----------------------------------- *)
Lemma find_char_app c s1 s2 : ~ In c s1 -> find_char c (s1 ++ c :: s2) = Some (length s1).
Proof.
  induction s1 as [|x s1 IH]; intros H; cbn [app find_char length].
  - rewrite N.eqb_refl. reflexivity.
  - destruct (x =? c) eqn:E; [apply N.eqb_eq in E; exfalso; apply H; left; exact E|].
    rewrite IH; [reflexivity|]. intros Hin. apply H. right. exact Hin.
Qed.
Lemma find_char_some c s : forall n, find_char c s = Some n ->
  s = firstn n s ++ c :: skipn (S n) s /\ ~ In c (firstn n s).
Proof.
  induction s as [|x s IH]; intros n; cbn [find_char]; [discriminate|].
  destruct (x =? c) eqn:E.
  - intros H. inversion H. apply N.eqb_eq in E. subst. cbn. split; [reflexivity|tauto].
  - destruct (find_char c s) as [k|] eqn:Ek; [|discriminate]. cbn [option_map]. intros H. inversion H. subst n.
    destruct (IH k eq_refl) as (H1 & H2). cbn [firstn skipn app]. split.
    + f_equal. exact H1.
    + intros [Hx|Hx]; [apply N.eqb_neq in E; congruence|tauto].
Qed.
Lemma find_char_none c s : find_char c s = None -> ~ In c s.
Proof.
  induction s as [|x s IH]; cbn [find_char]; [tauto|].
  destruct (x =? c) eqn:E; [discriminate|]. destruct (find_char c s); [discriminate|].
  intros _ [H|H]; [apply N.eqb_neq in E; congruence|tauto].
Qed.

Lemma dec_number_no_colon p neg m : dec_number p neg m -> ~ In 58 p.
Proof.
  intros (ws & sg & ds & -> & Hws & Hsg & _ & Hds & _) Hin.
  rewrite forallb_forall in Hws, Hds.
  apply in_app_or in Hin as [H|H]; [apply Hws in H; unfold is_space in H; lia|].
  apply in_app_or in H as [H|H]; [|apply Hds in H; unfold is_digit in H; lia].
  destruct Hsg as [[-> _]|[[-> _]|[-> _]]]; cbn in H; lia.
Qed.

Lemma count_chars_notin cs s : (forall c, In c s -> existsb (N.eqb c) cs = false) -> count_chars cs s = 0%nat.
Proof.
  intros H. unfold count_chars. induction s as [|x s IH]; [reflexivity|]. cbn [filter].
  rewrite (H x (or_introl eq_refl)). apply IH. intros c Hc. apply H. right. exact Hc.
Qed.
Lemma count_chars_app cs a b : count_chars cs (a ++ b) = (count_chars cs a + count_chars cs b)%nat.
Proof. unfold count_chars. rewrite filter_app, app_length. reflexivity. Qed.

Lemma skipn_app_cons {A} (s1 : list A) c s2 : skipn (S (length s1)) (s1 ++ c :: s2) = s2.
Proof. induction s1 as [|x s1 IH]; [reflexivity|]. cbn [length app]. rewrite <- IH at 2. reflexivity. Qed.
Lemma firstn_app_exact {A} (s1 s2 : list A) : firstn (length s1) (s1 ++ s2) = s1.
Proof. rewrite firstn_app, Nat.sub_diag, firstn_all. cbn. apply app_nil_r. Qed.

Section Net.
  Variable pton : str -> option (list N).
  Variable ntop : list N -> str.
  Hypothesis ntop_pton : forall a, length a = 4%nat -> bytes_ok a = true -> pton (ntop a) = Some a.
  Hypothesis ntop_chars : forall a c, In c (ntop a) -> c <> 58 /\ c <> 0.
  Hypothesis ntop_nonempty : forall a, length a = 4%nat -> ntop a <> [].

  Lemma ntop_nonul a : forallb nonul (ntop a) = true.
  Proof. apply forallb_forall. intros c Hc. destruct (ntop_chars a c Hc) as [_ H]. unfold nonul. apply negb_true_iff, N.eqb_neq, H. Qed.

  Lemma ipv4_roundtrip a : length a = 4%nat -> bytes_ok a = true ->
    ipv4_from_string pton (ipv4_to_string ntop a) = Some a.
  Proof.
    intros Hl Hb. unfold ipv4_from_string, ipv4_to_string.
    rewrite (is_empty_false _ (ntop_nonempty a Hl)). rewrite (cstr_nonul_id _ (ntop_nonul a)).
    apply ntop_pton; assumption.
  Qed.

  Lemma sockaddr_roundtrip a port : length a = 4%nat -> bytes_ok a = true -> port <= 65535 ->
    sockaddr_from_string pton (sockaddr_to_string ntop (a, port)) = Some (a, port).
  Proof.
    intros Hl Hb Hp. unfold sockaddr_to_string, sockaddr_from_string. cbn [fst snd app].
    unfold ipv4_to_string at 1 2 3.
    rewrite find_char_app by (intros Hin; destruct (ntop_chars a 58 Hin) as [Hx _]; apply Hx; reflexivity).
    rewrite firstn_app_exact, skipn_app_cons.
    fold (ipv4_to_string ntop a). rewrite (ipv4_roundtrip a Hl Hb).
    assert (string_to_u16 true (to_dec port) = Some port) as ->.
    { apply string_to_u16_spec. apply (udec_roundtrip UINT16_MAX true port). unfold UINT16_MAX. exact Hp. }
    reflexivity.
  Qed.

  Lemma sockaddr_sound t a port : sockaddr_from_string pton t = Some (a, port) ->
    exists h pt, t = h ++ [58] ++ pt /\ ~ In 58 h /\ h <> [] /\ pton (cstr h) = Some a /\
                 udec_spec UINT16_MAX true pt port.
  Proof.
    unfold sockaddr_from_string. destruct (find_char 58 t) as [pos|] eqn:Ef; [|discriminate].
    destruct (find_char_some _ _ _ Ef) as (Ht & Hn).
    unfold ipv4_from_string. destruct (is_empty (firstn pos t)) eqn:Ee; [discriminate|].
    destruct (pton (cstr (firstn pos t))) as [a'|] eqn:Ep; [|discriminate].
    destruct (string_to_u16 true (skipn (S pos) t)) as [p'|] eqn:Es; [|discriminate].
    intros H. inversion H. subst. exists (firstn pos t), (skipn (S pos) t).
    repeat split; auto.
    - intros E. rewrite E in Ee. discriminate.
    - apply string_to_u16_spec, Es.
  Qed.

  (* exactly one ':' in an accepted socket address text; none -> rejected *)
  Lemma sockaddr_fieldcount t x : sockaddr_from_string pton t = Some x -> count_chars [58] t = 1%nat.
  Proof.
    destruct x as [a port]. intros H. destruct (sockaddr_sound _ _ _ H) as (h & pt & -> & Hn & _ & _ & Hs).
    destruct Hs as (rest & (p & Hpt & Hp & _) & _ & Hr). rewrite (Hr eq_refl), app_nil_r in Hpt. subst pt.
    rewrite !count_chars_app.
    rewrite (count_chars_notin [58] h), (count_chars_notin [58] p); [reflexivity| |].
    - intros c Hc. cbn. rewrite orb_false_r. apply N.eqb_neq. intros ->. apply (dec_number_no_colon _ _ _ Hp Hc).
    - intros c Hc. cbn. rewrite orb_false_r. apply N.eqb_neq. intros ->. apply (Hn Hc).
  Qed.
  Lemma sockaddr_no_colon t : ~ In 58 t -> sockaddr_from_string pton t = None.
  Proof.
    intros H. unfold sockaddr_from_string. destruct (find_char 58 t) as [pos|] eqn:Ef; [|reflexivity].
    destruct (find_char_some _ _ _ Ef) as (Ht & _). exfalso. apply H. rewrite Ht. apply in_or_app. right. left. reflexivity.
  Qed.
End Net.

Section Uuid.
  Variable parse : str -> option (list N).
  Variable unparse : list N -> str.
  Hypothesis parse_unparse : forall u, length u = 16%nat -> bytes_ok u = true -> parse (unparse u) = Some u.
  Hypothesis unparse_nonul : forall u c, In c (unparse u) -> c <> 0.

  Lemma cid_roundtrip u : length u = 16%nat -> bytes_ok u = true ->
    cid_from_string parse (cid_to_string unparse u) = u.
  Proof.
    intros Hl Hb. unfold cid_from_string, cid_to_string.
    rewrite cstr_nonul_id, (parse_unparse u Hl Hb); [reflexivity|].
    apply forallb_forall. intros c Hc. unfold nonul. apply negb_true_iff, N.eqb_neq, (unparse_nonul u c Hc).
  Qed.
  Lemma cid_from_string_cases t :
    (exists u, parse (cstr t) = Some u /\ cid_from_string parse t = u) \/
    (parse (cstr t) = None /\ cid_from_string parse t = nil_uuid).
  Proof. unfold cid_from_string. destruct (parse (cstr t)); eauto. Qed.
End Uuid.
