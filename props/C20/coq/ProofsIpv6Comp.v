(* C20.ProofsIpv6Comp: inet_pton(AF_INET6) model, accepts => denotes with "::" compression.      *)
From OlaBase Require Import Bytes.
From Coq Require Import ZifyBool ZifyN ZifyNat.
From C20 Require Import Libc Spec Model Ipv6 ProofsDigits ProofsInt ProofsHex ProofsText ProofsIpv6 ProofsExt ProofsIpv6Full.
Local Open Scope N_scope.

Definition compressed_form (t : str) (ws : list N) : Prop :=
  exists g1 g2, Forall group_ok g1 /\ Forall group_ok g2 /\ (length g1 + length g2 <= 7)%nat /\
    t = join [58] g1 ++ [58; 58] ++ join [58] g2 /\
    ws = map (text_value 16) g1 ++ repeat 0 (8 - (length g1 + length g2)) ++ map (text_value 16) g2.

(* after "::" (colonp stays Some k): the rest is groups separated by single colons *)
Lemma after_sound s : forall ct acc k val seen acc' cp',
  pton6_loop s ct acc (Some k) val seen = Some (acc', cp') -> ~ In 46 s -> (seen <= 4)%nat ->
  exists d gs, s = d ++ gtail gs /\ forallb is_hex_char d = true /\ (seen + length d <= 4)%nat /\
    Forall group_ok gs /\ ((seen + length d = 0)%nat -> gs = []) /\
    acc' = acc ++ (if (seen + length d =? 0)%nat then [] else [hval 16 val d]) ++ map (text_value 16) gs.
Proof.
  induction s as [|ch r IH]; intros ct acc k val seen acc' cp' H Hdot Hseen; cbn [pton6_loop] in H.
  - exists [], []. cbn [app gtail map concat length]. rewrite Nat.add_0_r.
    split; [reflexivity|]. split; [reflexivity|]. split; [exact Hseen|]. split; [constructor|].
    split; [reflexivity|].
    destruct (0 <? seen)%nat eqn:E.
    + destruct (8 <? length acc + 1)%nat; [discriminate|]. inversion H. apply Nat.ltb_lt in E.
      assert ((seen =? 0)%nat = false) as -> by (apply Nat.eqb_neq; lia).
      cbn [hval fold_left]. rewrite app_nil_r. reflexivity.
    + inversion H. apply Nat.ltb_ge in E. assert (seen = 0%nat) as -> by lia. cbn [Nat.eqb].
      rewrite app_nil_r. reflexivity.
  - destruct (hex_digit ch) as [dg|] eqn:Eh.
    + destruct (hex_digit_inv ch dg Eh) as (Hc & ->).
      destruct (seen =? 4)%nat eqn:E4; [discriminate|]. apply Nat.eqb_neq in E4. cbv zeta in H.
      destruct (65535 <? val * 16 + char_val ch); [discriminate|].
      destruct (IH _ _ _ _ _ _ _ H ltac:(intros Hx; apply Hdot; right; exact Hx) ltac:(lia))
        as (d & gs & Hr & Hd & Hl & Hg & Hz & Hacc).
      exists (ch :: d), gs. cbn [app forallb length]. rewrite Hc, Hd.
      replace (seen + S (length d))%nat with (S seen + length d)%nat by lia.
      split; [rewrite Hr; reflexivity|]. split; [reflexivity|]. split; [exact Hl|]. split; [exact Hg|].
      split; [intros Habs; discriminate|]. exact Hacc.
    + destruct (ch =? 58) eqn:E58.
      * apply N.eqb_eq in E58. subst ch. destruct (seen =? 0)%nat eqn:E0; [discriminate|].
        apply Nat.eqb_neq in E0. destruct (is_empty6 r) eqn:Er; [discriminate|].
        destruct (8 <? length acc + 1)%nat; [discriminate|].
        destruct (IH _ _ _ _ _ _ _ H ltac:(intros Hx; apply Hdot; right; exact Hx) ltac:(lia))
          as (d & gs & Hr & Hd & Hl & Hg & Hz & Hacc).
        cbn [plus] in Hl, Hz, Hacc.
        destruct d as [|c0 d0].
        -- rewrite (Hz eq_refl) in Hr. cbn in Hr. subst r. discriminate.
        -- exists [], ((c0 :: d0) :: gs). cbn [app length]. rewrite Nat.add_0_r.
           assert ((seen =? 0)%nat = false) as -> by (apply Nat.eqb_neq; lia).
           split; [unfold gtail; cbn [map concat]; fold (gtail gs); rewrite Hr; reflexivity|].
           split; [reflexivity|]. split; [lia|]. split.
           { constructor; [|exact Hg]. split; [cbn [length] in *; lia|exact Hd]. }
           split; [intros; lia|].
           cbn [length Nat.eqb] in Hacc. cbn [hval fold_left map]. rewrite Hacc.
           rewrite hval_0. rewrite <- !app_assoc. reflexivity.
      * destruct ((ch =? 46) && (length acc + 2 <=? 8)%nat) eqn:E46; [|discriminate].
        apply andb_prop in E46 as [E46 _]. apply N.eqb_eq in E46. subst ch. exfalso. apply Hdot. left. reflexivity.
Qed.

(* before "::": groups, then "::" (or a lone ':' when no group is open), then the loop goes on
   with colonp = the number of words stored so far *)
Lemma before_sound s : forall ct acc val seen acc' k,
  pton6_loop s ct acc None val seen = Some (acc', Some k) -> ~ In 46 s -> (seen <= 4)%nat ->
  (seen = 0%nat -> val = 0) ->
  exists d gs s2, forallb is_hex_char d = true /\ (seen + length d <= 4)%nat /\ Forall group_ok gs /\
    (((seen + length d = 0)%nat /\ gs = [] /\ s = 58 :: s2) \/
     ((seen + length d <> 0)%nat /\ s = d ++ gtail gs ++ 58 :: 58 :: s2)) /\
    let acck := acc ++ (if (seen + length d =? 0)%nat then [] else [hval 16 val d]) ++ map (text_value 16) gs in
    k = length acck /\ pton6_loop s2 s2 acck (Some k) 0 0 = Some (acc', Some k).
Proof.
  induction s as [|ch r IH]; intros ct acc val seen acc' k H Hdot Hseen Hv0; cbn [pton6_loop] in H.
  - destruct (0 <? seen)%nat; [destruct (8 <? length acc + 1)%nat; [discriminate|]|]; inversion H.
  - destruct (hex_digit ch) as [dg|] eqn:Eh.
    + destruct (hex_digit_inv ch dg Eh) as (Hc & ->).
      destruct (seen =? 4)%nat eqn:E4; [discriminate|]. apply Nat.eqb_neq in E4. cbv zeta in H.
      destruct (65535 <? val * 16 + char_val ch); [discriminate|].
      destruct (IH _ _ _ _ _ _ H ltac:(intros Hx; apply Hdot; right; exact Hx) ltac:(lia) ltac:(intros; lia))
        as (d & gs & s2 & Hd & Hl & Hg & Hcase & Hk).
      exists (ch :: d), gs, s2. cbn [forallb length]. rewrite Hc, Hd.
      replace (seen + S (length d))%nat with (S seen + length d)%nat by lia.
      split; [reflexivity|]. split; [exact Hl|]. split; [exact Hg|]. split.
      * right. destruct Hcase as [(Habs & _)|(_ & Hr)]; [discriminate|].
        split; [discriminate|]. rewrite Hr. reflexivity.
      * exact Hk.
    + destruct (ch =? 58) eqn:E58.
      * apply N.eqb_eq in E58. subst ch. destruct (seen =? 0)%nat eqn:E0.
        -- apply Nat.eqb_eq in E0. subst seen. rewrite (Hv0 eq_refl) in H.
           pose proof (colonp_kept _ _ _ _ _ _ _ _ H) as Hk. inversion Hk. subst k.
           exists [], [], r. cbn [length plus Nat.eqb app map]. rewrite app_nil_r.
           split; [reflexivity|]. split; [lia|]. split; [constructor|]. split; [left; auto|].
           split; [reflexivity|exact H].
        -- apply Nat.eqb_neq in E0. destruct (is_empty6 r) eqn:Er; [discriminate|].
           destruct (8 <? length acc + 1)%nat; [discriminate|].
           destruct (IH _ _ _ _ _ _ H ltac:(intros Hx; apply Hdot; right; exact Hx) ltac:(lia) ltac:(reflexivity))
             as (d & gs & s2 & Hd & Hl & Hg & Hcase & Hk).
           cbn [plus] in Hl, Hcase, Hk.
           destruct Hcase as [(Hz & -> & ->)|(Hnz & ->)].
           ++ (* "g::" : the group is closed by the first colon *)
              destruct d; [|discriminate Hz].
              exists [], [], s2. cbn [length app map]. rewrite Nat.add_0_r.
              assert ((seen =? 0)%nat = false) as -> by (apply Nat.eqb_neq; lia).
              split; [reflexivity|]. split; [lia|]. split; [constructor|]. split.
              { right. split; [lia|reflexivity]. }
              cbn [length Nat.eqb app map] in Hk. cbn [hval fold_left]. rewrite app_nil_r in *. exact Hk.
           ++ destruct d as [|c0 d0]; [exfalso; apply Hnz; reflexivity|].
              exists [], ((c0 :: d0) :: gs), s2. cbn [length app]. rewrite Nat.add_0_r.
              assert ((seen =? 0)%nat = false) as -> by (apply Nat.eqb_neq; lia).
              split; [reflexivity|]. split; [lia|]. split.
              { constructor; [|exact Hg]. split; [cbn [length] in *; lia|exact Hd]. }
              split.
              { right. split; [lia|]. unfold gtail. cbn [map concat app]. fold (gtail gs).
                rewrite <- !app_assoc. reflexivity. }
              cbn [length Nat.eqb] in Hk. cbn [hval fold_left map]. rewrite hval_0 in Hk.
              rewrite <- !app_assoc in Hk. cbn [app] in Hk. cbn [app]. exact Hk.
      * destruct ((ch =? 46) && (length acc + 2 <=? 8)%nat) eqn:E46; [|discriminate].
        apply andb_prop in E46 as [E46 _]. apply N.eqb_eq in E46. subst ch. exfalso. apply Hdot. left. reflexivity.
Qed.

Lemma loop_len s : forall ct acc cp val seen acc' cp',
  pton6_loop s ct acc cp val seen = Some (acc', cp') -> ~ In 46 s -> (length acc <= 8)%nat ->
  (length acc' <= 8)%nat.
Proof.
  induction s as [|ch r IH]; intros ct acc cp val seen acc' cp' H Hdot Hl; cbn [pton6_loop] in H.
  - destruct (0 <? seen)%nat.
    + destruct (8 <? length acc + 1)%nat eqn:E; [discriminate|]. inversion H. apply Nat.ltb_ge in E.
      rewrite app_length. cbn [length]. lia.
    + inversion H. subst. exact Hl.
  - assert (~ In 46 r) as Hr by (intros Hx; apply Hdot; right; exact Hx).
    destruct (hex_digit ch) as [dg|].
    + destruct (seen =? 4)%nat; [discriminate|]. cbv zeta in H.
      destruct (65535 <? val * 16 + dg); [discriminate|]. eapply IH; eauto.
    + destruct (ch =? 58) eqn:E58.
      * destruct (seen =? 0)%nat.
        -- destruct cp; [discriminate|]. eapply IH; eauto.
        -- destruct (is_empty6 r); [discriminate|].
           destruct (8 <? length acc + 1)%nat eqn:E; [discriminate|]. apply Nat.ltb_ge in E.
           eapply IH; eauto. rewrite app_length. cbn [length]. lia.
      * destruct ((ch =? 46) && (length acc + 2 <=? 8)%nat) eqn:E46; [|discriminate].
        apply andb_prop in E46 as [E46 _]. apply N.eqb_eq in E46. subst ch. exfalso. apply Hdot. left. reflexivity.
Qed.

Lemma tail_groups d gs : forallb is_hex_char d = true -> (length d <= 4)%nat -> Forall group_ok gs ->
  (length d = 0%nat -> gs = []) ->
  exists G, Forall group_ok G /\ d ++ gtail gs = join [58] G /\
    (if (length d =? 0)%nat then [] else [hval 16 0 d]) ++ map (text_value 16) gs = map (text_value 16) G.
Proof.
  intros Hd Hl Hg Hz. destruct d as [|c d'].
  - rewrite (Hz eq_refl). exists []. repeat split. constructor.
  - exists ((c :: d') :: gs). split; [|split].
    + constructor; [|exact Hg]. split; [cbn [length] in *; lia|exact Hd].
    + rewrite join_gtail. reflexivity.
    + cbn [length Nat.eqb map app]. rewrite hval_0. reflexivity.
Qed.

Lemma skipn_app_exact {A} (a b : list A) : skipn (length a) (a ++ b) = b.
Proof. rewrite skipn_app, Nat.sub_diag, skipn_all. reflexivity. Qed.

Lemma compressed_sound t ws : ~ In 46 t -> inet_pton6 t = Some ws -> full_form t ws \/ compressed_form t ws.
Proof.
  intros Hdot H. unfold inet_pton6 in H. destruct t as [|c0 r0]; [discriminate|].
  destruct (c0 =? 58) eqn:E0.
  - (* leading "::" *)
    apply N.eqb_eq in E0. subst c0. destruct r0 as [|c1 r1]; [discriminate|].
    destruct (c1 =? 58) eqn:E1; [|discriminate]. apply N.eqb_eq in E1. subst c1. cbv zeta in H.
    rewrite loop_dcolon in H. cbn [length] in H.
    assert (~ In 46 r1) as Hd1 by (intros Hx; apply Hdot; right; right; exact Hx).
    destruct (pton6_loop r1 r1 [] (Some 0%nat) 0 0) as [[acc' cp']|] eqn:El; [|discriminate].
    pose proof (colonp_kept _ _ _ _ _ _ _ _ El) as Hcp. subst cp'.
    pose proof (loop_len _ _ _ _ _ _ _ _ El Hd1 ltac:(cbn; lia)) as Hlen.
    destruct (after_sound _ _ _ _ _ _ _ _ El Hd1 ltac:(lia)) as (d & gs & Hr & Hd & Hl & Hg & Hz & Hacc).
    cbn [plus app] in Hl, Hz, Hacc.
    destruct (tail_groups d gs Hd Hl Hg Hz) as (G & HG & HtG & HvG). rewrite HvG in Hacc.
    cbn [finish6] in H. destruct (length acc' =? 8)%nat eqn:E8; [discriminate|]. apply Nat.eqb_neq in E8.
    inversion H. subst ws. right. exists [], G.
    assert (length acc' = length G) as HlG by (rewrite Hacc, map_length; reflexivity).
    split; [constructor|]. split; [exact HG|]. split; [cbn [length]; lia|]. split.
    + cbn [join app]. rewrite Hr, HtG. reflexivity.
    + cbn [firstn skipn map app length plus]. rewrite HlG, Hacc. reflexivity.
  - cbv zeta in H.
    destruct (pton6_loop (c0 :: r0) (c0 :: r0) [] None 0 0) as [[acc' [k|]]|] eqn:El; [| |discriminate].
    + (* a "::" inside *)
      destruct (before_sound _ _ _ _ _ _ _ El Hdot ltac:(lia) ltac:(reflexivity))
        as (d & gs & s2 & Hd & Hl & Hg & Hcase & Hk).
      cbn [plus app] in Hl, Hcase, Hk.
      destruct Hcase as [(_ & _ & Habs)|(Hnz & Ht)]; [inversion Habs; subst; discriminate|].
      destruct d as [|x d0]; [exfalso; apply Hnz; reflexivity|].
      cbn [length Nat.eqb] in Hk. rewrite hval_0 in Hk. destruct Hk as (Hk & El2).
      set (acck := [text_value 16 (x :: d0)] ++ map (text_value 16) gs) in *.
      assert (~ In 46 s2) as Hd2.
      { intros Hx. apply Hdot. rewrite Ht. apply in_or_app. right. apply in_or_app. right. right. right. exact Hx. }
      pose proof (loop_len _ _ _ _ _ _ _ _ El Hdot ltac:(cbn; lia)) as Hlen.
      destruct (after_sound _ _ _ _ _ _ _ _ El2 Hd2 ltac:(lia)) as (d2 & gs2 & Hr2 & Hdd & Hl2 & Hg2 & Hz2 & Hacc).
      cbn [plus] in Hl2, Hz2, Hacc.
      destruct (tail_groups d2 gs2 Hdd Hl2 Hg2 Hz2) as (G & HG & HtG & HvG). rewrite HvG in Hacc.
      cbn [finish6] in H. destruct (length acc' =? 8)%nat eqn:E8; [discriminate|]. apply Nat.eqb_neq in E8.
      inversion H. subst ws. right. exists ((x :: d0) :: gs), G.
      assert (length acck = S (length gs)) as Hlk by (unfold acck; cbn [app length]; rewrite map_length; reflexivity).
      assert (length acc' = (S (length gs) + length G)%nat) as HlG by (rewrite Hacc, app_length, map_length, Hlk; reflexivity).
      split; [constructor; [split; [cbn [length] in *; lia|exact Hd]|exact Hg]|].
      split; [exact HG|]. split; [cbn [length]; lia|]. split.
      * rewrite join_gtail, Ht, Hr2, HtG. rewrite <- !app_assoc. reflexivity.
      * rewrite Hk, Hacc. rewrite firstn_app_exact, skipn_app_exact.
        rewrite app_length, map_length, Hlk. cbn [length map]. unfold acck. cbn [app]. reflexivity.
    + (* no "::" at all: the full form *)
      cbn [finish6] in H. destruct (length acc' =? 8)%nat eqn:E8; [|discriminate]. inversion H. subst ws.
      apply Nat.eqb_eq in E8. left.
      destruct (full_sound_gen _ _ _ _ _ _ El Hdot ltac:(lia)) as (d & gs & Ht & Hd & Hl & Hg & Hz & Hacc).
      cbn [plus app] in Hl, Hz, Hacc.
      destruct d as [|x d0]; [rewrite (Hz eq_refl) in Ht; discriminate|].
      cbn [length Nat.eqb] in Hacc. rewrite hval_0 in Hacc.
      exists ((x :: d0) :: gs). split; [|split; [|split]].
      * rewrite Hacc in E8. cbn [app length] in E8. rewrite map_length in E8. cbn [length]. lia.
      * constructor; [|exact Hg]. split; [cbn [length] in *; lia|exact Hd].
      * rewrite join_gtail. exact Ht.
      * rewrite Hacc. reflexivity.
Qed.

(* the other direction *)
Lemma join_group_nonempty g gs : group_ok g -> join [58] (g :: gs) <> [].
Proof. intros (Hl & _). apply join_nonempty. destruct g; [cbn in Hl; lia|discriminate]. Qed.
Lemma loop_gtexts_colon gs : forall ct acc cp rest, gs <> [] -> Forall group_ok gs ->
  (length acc + length gs <= 8)%nat -> rest <> [] ->
  pton6_loop (join [58] gs ++ 58 :: rest) ct acc cp 0 0 = pton6_loop rest rest (acc ++ map (text_value 16) gs) cp 0 0.
Proof.
  induction gs as [|g gs IH]; intros ct acc cp rest Hne Hf Hl Hr; [congruence|].
  inversion Hf as [|? ? Hg Hf']; subst. cbn [length] in Hl. destruct gs as [|h gs].
  - cbn [join map]. rewrite (loop_gtext g _ ct acc cp Hg).
    apply loop_colon; [destruct Hg; lia|lia|exact Hr].
  - rewrite join_cons_ne by discriminate. rewrite <- !app_assoc. cbn [app].
    rewrite (loop_gtext g _ ct acc cp Hg).
    rewrite loop_colon; [|destruct Hg; lia|lia|].
    2: { intros E. apply app_eq_nil in E as [E _]. revert E. apply join_group_nonempty. inversion Hf'; assumption. }
    rewrite IH; [|discriminate|exact Hf'|rewrite app_length; cbn [length] in *; lia|exact Hr].
    cbn [map]. rewrite <- app_assoc. reflexivity.
Qed.
Lemma compressed_complete t ws : compressed_form t ws -> inet_pton6 t = Some ws.
Proof.
  intros (g1 & g2 & H1 & H2 & Hl & -> & ->). destruct g1 as [|g gs].
  - cbn [join app map length plus]. rewrite inet_pton6_dcolon.
    rewrite loop_gtexts_end; [|exact H2|cbn [length] in *; lia]. cbn [app finish6].
    rewrite map_length. assert ((length g2 =? 8)%nat = false) as -> by (apply Nat.eqb_neq; cbn [length] in Hl; lia).
    reflexivity.
  - inversion H1 as [|? ? Hg _]; subst.
    assert (exists c r, join [58] (g :: gs) = c :: r /\ is_hex_char c = true) as (c & r & Ej & Hc).
    { rewrite join_gtail. destruct Hg as (Hgl & Hgh). destruct g as [|c g']; [cbn in Hgl; lia|].
      cbn [forallb] in Hgh. apply andb_prop in Hgh as [Hc _]. exists c, (g' ++ gtail gs). auto. }
    assert (join [58] (g :: gs) ++ [58; 58] ++ join [58] g2 = c :: (r ++ [58; 58] ++ join [58] g2)) as Et
      by (rewrite Ej; reflexivity).
    rewrite Et, (inet_pton6_hexstart c _ Hc), <- Et. cbn [app].
    rewrite loop_gtexts_colon; [|discriminate|exact H1|cbn [length] in *; lia|discriminate].
    cbn [app]. rewrite loop_dcolon.
    rewrite loop_gtexts_end; [|exact H2|rewrite map_length; lia].
    cbn [finish6]. rewrite firstn_app_exact, skipn_app_exact. rewrite app_length, !map_length.
    assert ((length (g :: gs) + length g2 =? 8)%nat = false) as -> by (apply Nat.eqb_neq; lia).
    reflexivity.
Qed.
