(* C20.Libc: executable models of the C library conversions OLA's parsers are built on.
   These are ORDINARY DEFINITIONS (no axioms): the correspondence harness runs the real
   strtoull/strtoll/strtoul/strtol/atoi/inet_pton/inet_ntop/uuid_parse/uuid_unparse of the
   platform on the same texts on every run (ops "strtoull", "strtoll", ... of the line protocol),
   so a wrong model shows up as a divergence, not as a false theorem about OLA.
   A C string is the list of its bytes (N) WITHOUT the terminating NUL; callers that hand
   std::string::data() to libc pass [cstr value] (the prefix before the first NUL).          *)
From OlaBase Require Import Bytes.
Local Open Scope N_scope.

Definition str := list N.

(* ---- character classes of the "C" locale -------------------------------------------- *)
Definition is_space (c : N) : bool := (c =? 32) || ((9 <=? c) && (c <=? 13)).
Definition is_digit (c : N) : bool := (48 <=? c) && (c <=? 57).
Definition is_hex_char (c : N) : bool :=
  is_digit c || ((65 <=? c) && (c <=? 70)) || ((97 <=? c) && (c <=? 102)).

(* value of an alphanumeric character as a digit (glibc: 0-9, then letters = 10..35) *)
Definition digit_of (c : N) : option N :=
  if is_digit c then Some (c - 48)
  else if (97 <=? c) && (c <=? 122) then Some (c - 87)
  else if (65 <=? c) && (c <=? 90) then Some (c - 55)
  else None.
Definition digit_in (base c : N) : option N :=
  match digit_of c with
  | Some d => if d <? base then Some d else None
  | None => None
  end.

(* the C string seen through std::string::data(): bytes before the first NUL *)
Fixpoint cstr (s : str) : str :=
  match s with
  | [] => []
  | c :: r => if c =? 0 then [] else c :: cstr r
  end.

(* ---- the strto* family ---------------------------------------------------------------- *)
Fixpoint skip_space (s : str) : str :=
  match s with
  | c :: r => if is_space c then skip_space r else s
  | [] => []
  end.

Definition strip_sign (s : str) : bool * str :=
  match s with
  | c :: r => if c =? 45 then (true, r) else if c =? 43 then (false, r) else (false, s)
  | [] => (false, s)
  end.

(* glibc: with base 16 a leading "0x"/"0X" is skipped *)
Definition strip_0x (base : N) (s : str) : str :=
  if base =? 16 then
    match s with
    | z :: x :: r => if (z =? 48) && ((x =? 120) || (x =? 88)) then r else s
    | _ => s
    end
  else s.

(* accumulate digits into an unbounded N; returns the value and the unconsumed rest *)
Fixpoint scan_digits (base acc : N) (s : str) : N * str :=
  match s with
  | c :: r =>
    match digit_in base c with
    | Some d => scan_digits base (acc * base + d) r
    | None => (acc, s)
    end
  | [] => (acc, [])
  end.

Definition starts_with_digit (base : N) (s : str) : bool :=
  match s with
  | c :: _ => match digit_in base c with Some _ => true | None => false end
  | [] => false
  end.

(* Common scanner: (magnitude, negative, rest after the number).
   No digits: libc returns 0 and sets endptr to the start of the text, except for a dangling
   "0x" (base 16) where endptr is left at the 'x'.                                          *)
Definition strto_core (base : N) (s : str) : N * bool * str :=
  let s1 := skip_space s in
  let '(neg, s2) := strip_sign s1 in
  let s3 := strip_0x base s2 in
  if starts_with_digit base s3 then
    let '(m, rest) := scan_digits base 0 s3 in (m, neg, rest)
  else if len s3 <? len s2 then (0, false, tl s2)
  else (0, false, s).

Definition ULLONG_MAX : N := 18446744073709551615.
Definition LLONG_MAX : N := 9223372036854775807.
Definition TWO63 : N := 9223372036854775808.
Definition TWO64 : N := 18446744073709551616.

(* unsigned long long strtoull(s, &end, base): (value, errno = ERANGE, rest at end pointer).
   A '-' negates in unsigned arithmetic; overflow saturates to ULLONG_MAX whatever the sign. *)
Definition strtoull (base : N) (s : str) : N * bool * str :=
  let '(m, neg, rest) := strto_core base s in
  if ULLONG_MAX <? m then (ULLONG_MAX, true, rest)
  else ((if neg then u64 (TWO64 - m) else m), false, rest).

(* long long strtoll(s, &end, base): saturates to LLONG_MIN / LLONG_MAX with ERANGE *)
Definition strtoll (base : N) (s : str) : Z * bool * str :=
  let '(m, neg, rest) := strto_core base s in
  if neg then
    if TWO63 <? m then ((- Z.of_N TWO63)%Z, true, rest) else ((- Z.of_N m)%Z, false, rest)
  else
    if LLONG_MAX <? m then (Z.of_N LLONG_MAX, true, rest) else (Z.of_N m, false, rest).

(* LP64: unsigned long = unsigned long long, long = long long (checked by the harness, which
   calls the real strtoul / strtol for these two). *)
Definition strtoul := strtoull.
Definition strtol := strtoll.

(* offset of the end pointer inside the text handed to strto*  *)
Definition end_offset (s rest : str) : N := len s - len rest.

(* conversion of an integer value to a signed w-bit type (modular, as g++ does it) *)
Definition wrap_signed (w : N) (z : Z) : Z :=
  let m := Z.of_N (2 ^ w) in
  let r := (z mod m)%Z in
  if (r <? Z.of_N (2 ^ (w - 1)))%Z then r else (r - m)%Z.
(* conversion to an unsigned w-bit type *)
Definition wrap_unsigned (w : N) (z : Z) : N := Z.to_N (z mod Z.of_N (2 ^ w)).

(* int atoi(s) = (int) strtol(s, NULL, 10) *)
Definition atoi (s : str) : Z := wrap_signed 32 (fst (fst (strtol 10 s))).

(* ---- printing: what operator<<(ostream, integer) produces in the "C" locale ------------ *)
Definition digit_char (d : N) : N := if d <? 10 then 48 + d else 87 + d.

(* [fuel] bounds the number of digits; S (size n) is always enough (Proofs: to_base_fuel_enough
   and the round-trip theorems, which would fail if a digit were ever dropped). *)
Fixpoint to_base_fuel (fuel : nat) (base n : N) (acc : str) : str :=
  match fuel with
  | O => acc
  | S f =>
    let acc' := digit_char (n mod base) :: acc in
    if n / base =? 0 then acc' else to_base_fuel f base (n / base) acc'
  end.
Definition to_base (base n : N) : str := to_base_fuel (S (N.size_nat n)) base n [].
Definition to_dec (n : N) : str := to_base 10 n.
Definition to_hex (n : N) : str := to_base 16 n.
Definition to_dec_z (z : Z) : str :=
  if (z <? 0)%Z then 45 :: to_dec (Z.to_N (- z)) else to_dec (Z.to_N z).

(* std::setw(width) << std::setfill(c): pad on the left, never truncate *)
Definition pad_left (width : nat) (c : N) (s : str) : str := repeat c (width - length s) ++ s.

(* ---- inet_pton(AF_INET) / inet_ntop(AF_INET) (glibc inet_pton4: dotted quad, decimal octets,
   no leading zeros, exactly four fields).  Address = the four bytes in network order.      *)
Fixpoint pton4_loop (s : str) (saw_digit : bool) (octets : N) (cur : N) (done : list N)
  : option (list N) :=
  match s with
  | [] => if octets <? 4 then None else Some (rev (cur :: done))
  | c :: r =>
    if is_digit c then
      let nw := cur * 10 + (c - 48) in
      if saw_digit && (cur =? 0) then None
      else if 255 <? nw then None
      else if saw_digit then pton4_loop r true octets nw done
      else if 4 <? octets + 1 then None
      else pton4_loop r true (octets + 1) nw done
    else if (c =? 46) && saw_digit then
      if octets =? 4 then None else pton4_loop r false octets 0 (cur :: done)
    else None
  end.
Definition inet_pton4 (s : str) : option (list N) := pton4_loop s false 0 0 [].

Fixpoint join (sep : str) (l : list str) : str :=
  match l with
  | [] => []
  | [x] => x
  | x :: r => x ++ sep ++ join sep r
  end.
Definition inet_ntop4 (a : list N) : str := join [46] (map to_dec a).

(* ---- libuuid uuid_parse / uuid_unparse (36 characters 8-4-4-4-12, lower case output) ---- *)
Fixpoint hex_pairs (s : str) : option (list N) :=
  match s with
  | [] => Some []
  | a :: b :: r =>
    match digit_in 16 a, digit_in 16 b, hex_pairs r with
    | Some x, Some y, Some t => Some (x * 16 + y :: t)
    | _, _, _ => None
    end
  | _ => None
  end.
Definition uuid_parse (s : str) : option (list N) :=
  if negb (len s =? 36) then None else
  match s with
  | a1::a2::a3::a4::a5::a6::a7::a8::h1::b1::b2::b3::b4::h2::c1::c2::c3::c4::h3::d1::d2::d3::d4::h4::r =>
    if (h1 =? 45) && (h2 =? 45) && (h3 =? 45) && (h4 =? 45) then
      hex_pairs ([a1;a2;a3;a4;a5;a6;a7;a8;b1;b2;b3;b4;c1;c2;c3;c4;d1;d2;d3;d4] ++ r)
    else None
  | _ => None
  end.
Definition hex2 (b : N) : str := pad_left 2 48 (to_hex b).
Definition uuid_unparse (u : list N) : str :=
  let h := map hex2 u in
  concat (firstn 4 h) ++ [45] ++ concat (firstn 2 (skipn 4 h)) ++ [45] ++
  concat (firstn 2 (skipn 6 h)) ++ [45] ++ concat (firstn 2 (skipn 8 h)) ++ [45] ++
  concat (skipn 10 h).
