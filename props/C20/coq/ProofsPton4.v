(* C20.ProofsPton4: the inet_pton(AF_INET) model accepts exactly the texts inet_ntop(AF_INET)
   prints: four canonical decimal numerals 0..255 (to_dec: digits denoting the octet, no leading
   zero) separated by '.'.                                                                      *)
From OlaBase Require Import Bytes.
From Coq Require Import ZifyBool ZifyN ZifyNat.
From C20 Require Import Libc Spec Model Ipv6 ProofsDigits ProofsInt ProofsHex ProofsText ProofsIpv6 ProofsIpv6v4 ProofsExt.
Local Open Scope N_scope.

(* appending a digit to the numeral of a non-zero number <= 25 (the only case the scanner allows) *)
Definition snoc_check (cur d : N) : bool :=
  (cur =? 0) || (255 <? cur * 10 + d) || str_eqb (to_dec (cur * 10 + d)) (to_dec cur ++ [48 + d]).
Lemma snoc_check_all :
  forallb (fun cur => forallb (snoc_check cur) (map N.of_nat (seq 0 10))) (map N.of_nat (seq 0 256)) = true.
Proof. vm_compute. reflexivity. Qed.
Lemma digit_cases d : d < 10 -> In d (map N.of_nat (seq 0 10)).
Proof. intros H. rewrite <- (N2Nat.id d). apply in_map, in_seq. lia. Qed.
Lemma to_dec_snoc cur c : cur <= 255 -> cur <> 0 -> is_digit c = true -> cur * 10 + (c - 48) <= 255 ->
  to_dec (cur * 10 + (c - 48)) = to_dec cur ++ [c].
Proof.
  intros Hc Hnz Hd Hnw. apply is_digit_range in Hd.
  pose proof snoc_check_all as H. rewrite forallb_forall in H. specialize (H cur (byte_cases cur Hc)).
  rewrite forallb_forall in H. assert (c - 48 < 10) as Hd10 by lia. specialize (H (c - 48) (digit_cases (c - 48) Hd10)).
  unfold snoc_check in H. replace (48 + (c - 48)) with c in H by lia.
  apply orb_prop in H as [H|H]; [apply orb_prop in H as [H|H]; lia|]. apply str_eqb_eq, H.
Qed.
Lemma to_dec_small d : d < 10 -> to_dec d = [48 + d].
Proof.
  intros H. apply digit_cases in H. vm_compute in H.
  repeat (destruct H as [H|H]; [subst d; reflexivity|]). contradiction.
Qed.
Lemma to_dec_digit c : is_digit c = true -> to_dec (c - 48) = [c].
Proof.
  intros Hd. apply is_digit_range in Hd. rewrite to_dec_small by lia. f_equal. lia.
Qed.

Definition tailtxt (bs : list N) : str := concat (map (fun b => 46 :: to_dec b) bs).

Lemma pton4_sound_gen s : forall saw octets cur done res,
  pton4_loop s saw octets cur done = Some res ->
  cur <= 255 -> (saw = false -> cur = 0 /\ octets <= 3) -> octets <= 4 ->
  exists c' bs, res = rev done ++ c' :: bs /\ c' <= 255 /\ Forall (fun b => b <= 255) bs /\
    (if saw then octets + len bs = 4 else octets + 1 + len bs = 4) /\
    (if saw then to_dec cur else []) ++ s = to_dec c' ++ tailtxt bs.
Proof.
  induction s as [|c r IH]; intros saw octets cur done res H Hcur Hns Ho.
  - cbn [pton4_loop] in H. destruct (octets <? 4) eqn:E; [discriminate|]. inversion H. subst res.
    destruct saw; [|destruct (Hns eq_refl); lia].
    exists cur, []. cbn [rev]. split; [reflexivity|]. split; [exact Hcur|]. split; [constructor|].
    split; [|reflexivity]. apply N.ltb_ge in E. change (len (@nil N)) with 0. lia.
  - cbn [pton4_loop] in H. destruct (is_digit c) eqn:Ed.
    + cbv zeta in H.
      destruct (saw && (cur =? 0)) eqn:Ez; [discriminate|].
      destruct (255 <? cur * 10 + (c - 48)) eqn:E255; [discriminate|].
      destruct saw.
      * cbn [andb] in Ez.
        destruct (IH true octets _ done res H ltac:(lia) ltac:(discriminate) Ho) as (c' & bs & Hr & Hc' & Hbs & Hn & Ht).
        exists c', bs. split; [exact Hr|]. split; [exact Hc'|]. split; [exact Hbs|]. split; [exact Hn|].
        rewrite (to_dec_snoc cur c Hcur ltac:(lia) Ed ltac:(lia)) in Ht. rewrite <- app_assoc in Ht. exact Ht.
      * destruct (Hns eq_refl) as (Hc0 & Ho3). subst cur.
        destruct (4 <? octets + 1) eqn:E4; [discriminate|].
        destruct (IH true (octets + 1) _ done res H ltac:(lia) ltac:(discriminate) ltac:(lia)) as (c' & bs & Hr & Hc' & Hbs & Hn & Ht).
        exists c', bs. split; [exact Hr|]. split; [exact Hc'|]. split; [exact Hbs|]. split; [lia|].
        change (0 * 10 + (c - 48)) with (c - 48) in Ht. rewrite (to_dec_digit c Ed) in Ht. exact Ht.
    + destruct ((c =? 46) && saw) eqn:Edot; [|discriminate].
      apply andb_prop in Edot as [E46 Esaw]. apply N.eqb_eq in E46. subst c saw.
      destruct (octets =? 4) eqn:E4; [discriminate|].
      destruct (IH false octets 0 (cur :: done) res H ltac:(lia) ltac:(intros _; split; lia) Ho) as (c' & bs & Hr & Hc' & Hbs & Hn & Ht).
      exists cur, (c' :: bs). cbn [rev] in Hr. rewrite <- app_assoc in Hr.
      split; [exact Hr|]. split; [exact Hcur|]. split; [constructor; assumption|]. split.
      * rewrite len_cons. lia.
      * cbn [app] in Ht. unfold tailtxt. cbn [map concat]. fold (tailtxt bs). rewrite Ht. reflexivity.
Qed.

Lemma join_tailtxt c bs : join [46] (map to_dec (c :: bs)) = to_dec c ++ tailtxt bs.
Proof.
  revert c. induction bs as [|b bs IH]; intros c.
  - cbn. rewrite app_nil_r. reflexivity.
  - change (map to_dec (c :: b :: bs)) with (to_dec c :: map to_dec (b :: bs)).
    rewrite join_cons_ne by discriminate. rewrite IH. unfold tailtxt. cbn [map concat app]. reflexivity.
Qed.

(* inet_pton4 accepts exactly what inet_ntop4 prints, and returns the printed address *)
Lemma pton4_exact t a : inet_pton4 t = Some a <->
  (length a = 4%nat /\ Forall (fun b => b <= 255) a /\ t = inet_ntop4 a).
Proof.
  split.
  - intros H. unfold inet_pton4 in H.
    destruct (pton4_sound_gen t false 0 0 [] a H ltac:(lia) ltac:(intros _; split; lia) ltac:(lia))
      as (c' & bs & Hr & Hc' & Hbs & Hn & Ht).
    cbn [rev app] in Hr, Ht. subst a. split; [|split].
    + cbn [length]. unfold len in Hn. lia.
    + constructor; assumption.
    + unfold inet_ntop4. rewrite join_tailtxt. exact Ht.
  - intros (Hl & Hb & ->). destruct a as [|a0 [|a1 [|a2 [|a3 [|? ?]]]]]; try discriminate.
    inversion Hb as [|? ? H0 Hb1]; subst. inversion Hb1 as [|? ? H1 Hb2]; subst.
    inversion Hb2 as [|? ? H2 Hb3]; subst. inversion Hb3 as [|? ? H3 _]; subst.
    apply pton4_ntop4; assumption.
Qed.

(* consequently, for the libc model, IPV4Address / IPV4SocketAddress::FromString return exactly the
   address whose canonical dotted quad the (C string of the) text is *)
Lemma ipv4_libc_exact t a : ipv4_from_string inet_pton4 t = Some a <->
  (t <> [] /\ length a = 4%nat /\ Forall (fun b => b <= 255) a /\ cstr t = inet_ntop4 a).
Proof.
  rewrite ipv4_exact, pton4_exact. tauto.
Qed.
Lemma sockaddr_libc_exact t a port : sockaddr_from_string inet_pton4 t = Some (a, port) <->
  exists h pt, t = h ++ [58] ++ pt /\ ~ In 58 h /\ h <> [] /\
               length a = 4%nat /\ Forall (fun b => b <= 255) a /\ cstr h = inet_ntop4 a /\
               udec_spec UINT16_MAX true pt port.
Proof.
  rewrite sockaddr_exact. split.
  - intros (h & pt & Ht & Hn & Hne & Hp & Hs). apply pton4_exact in Hp as (H1 & H2 & H3).
    exists h, pt. repeat split; auto.
  - intros (h & pt & Ht & Hn & Hne & H1 & H2 & H3 & Hs). exists h, pt. repeat split; auto.
    apply pton4_exact. auto.
Qed.
