(* C20 model driver.  payload: "<op> args..." with texts hex-encoded ("-" = empty).
   Only parsing/printing and the class= / known= labels live here; all logic is extracted. *)
let txt = bytes_of_hex
let hx = hex_of_bytes
let string_of_z (x : z) : string =
  match x with Z0 -> "0" | Zpos p -> string_of_n (Npos p) | Zneg p -> "-" ^ string_of_n (Npos p)
let z_of_string (s : string) : z =
  if String.length s > 0 && s.[0] = '-' then
    (match n_of_string (String.sub s 1 (String.length s - 1)) with N0 -> Z0 | Npos p -> Zneg p)
  else (match n_of_string s with N0 -> Z0 | Npos p -> Zpos p)
let two_pow w = N.pow (n_of_int 2) (n_of_int w)

let res_u ?(ok="ok") ?(vk="v") (r : n option) =
  match r with None -> ok ^ "=0" | Some v -> Printf.sprintf "%s=1;%s=%s" ok vk (string_of_n v)
let res_s ?(ok="ok") ?(vk="v") (r : z option) =
  match r with None -> ok ^ "=0" | Some v -> Printf.sprintf "%s=1;%s=%s" ok vk (string_of_z v)

let dec_u w strict t = match w with
  | 8 -> string_to_u8 strict t | 16 -> string_to_u16 strict t
  | 32 -> string_to_u32 strict t | _ -> string_to_u64 strict t
let dec_s w strict t = match w with
  | 8 -> string_to_i8 strict t | 16 -> string_to_i16 strict t
  | 32 -> string_to_i32 strict t | _ -> string_to_i64 strict t
let hex_u w t = match w with
  | 8 -> hex_to_u8 t | 16 -> hex_to_u16 t | 32 -> hex_to_u32 t | _ -> hex_to_u64 t
let hex_s w t = match w with
  | 8 -> hex_to_i8 t | 16 -> hex_to_i16 t | 32 -> hex_to_i32 t | _ -> hex_to_i64 t

(* input classes (evidence only) *)
let has_nul t = List.exists (fun c -> c = N0) t
let cls_dec name w strict t accepted wide_accepts lax_accepts =
  let k =
    if accepted then "accept"
    else if t = [] then "reject-empty"
    else if strict && lax_accepts then "reject-trailing"
    else if wide_accepts then "reject-range"
    else "reject-other" in
  Printf.sprintf "class=%s%d%s:%s%s" name w (if strict then "s" else "") k (if has_nul t then "+nul" else "")

let uid_n (u : n * n) = N.add (N.mul (fst u) (two_pow 32)) (snd u)
let rec bytes_be k (v : n) : n list =
  if k = 0 then [] else
    let q, r = N.div_eucl v (n_of_int 256) in bytes_be (k - 1) q @ [r]

let rec handle (p : string) : string =
  match split p with
  (* dirty-target dimension: the same case with every parse target pre-loaded with an earlier value.
     Parsers are functions of the text: all property observables are those of the plain case; a
     rejected text leaves the target as it was (keep, internal), a copy-on-write sibling of the
     DMX target is untouched (sib). *)
  | "dirty" :: _ :: ((op :: _) as inner) ->
    let r = handle (String.concat " " inner) in
    let parts = String.split_on_char ';' r in
    let outparam = List.mem op ["su"; "ss"; "hu"; "hs"; "phu"; "phs"; "bool"; "boolt"; "mac"; "ip4"; "ip6"; "sa";
                                "rtu"; "rts"; "rthu"; "rths"] in
    let parts = List.map (fun x -> if String.length x > 6 && String.sub x 0 6 = "class=" then
                                     "class=dirty-" ^ String.sub x 6 (String.length x - 6) else x) parts in
    let extra = (if outparam && List.mem "ok=0" parts then ["keep=1"] else [])
                @ (if op = "dmx" then ["sib=1"] else []) in
    String.concat ";" (parts @ extra)
  | "dmxseq" :: steps ->
    (* the stateful object model: block + length, frame printed after every SetFromString *)
    let i = ref 0 and o = ref dmx_new in
    String.concat ";" (List.map (fun h -> incr i;
        if h = "R" then (o := dmx_step !o (OpRange (n_of_int 201, nat_of_int 300)); Printf.sprintf "r%d=1" !i)
        else if h = "S" then (o := dmx_step !o (OpSet (List.init 20 (fun _ -> n_of_int 238))); Printf.sprintf "r%d=1" !i)
        else (o := dmx_step !o (OpText (txt h)); Printf.sprintf "d%d=%s" !i (hx (dmx_frame !o)))) steps) ^ ";class=dmxseq"
  | ["su"; w; st; h] ->
    let w = ios w and strict = st = "1" and t = txt h in
    let r = dec_u w strict t in
    res_u r ^ ";od=" ^ string_of_n (or_default r (n_of_int 42)) ^ ";" ^ cls_dec "su" w strict t (r <> None)
      ((dec_u 64 strict t <> None) || (string_to_i64 strict t <> None)) (dec_u w false t <> None)
  | ["ss"; w; st; h] ->
    let w = ios w and strict = st = "1" and t = txt h in
    let r = dec_s w strict t in
    res_s r ^ ";od=" ^ string_of_z (or_default r (z_of_int 42)) ^ ";" ^ cls_dec "ss" w strict t (r <> None) (dec_s 64 strict t <> None) (dec_s w false t <> None)
  | ["hu"; w; h] ->
    let w = ios w and t = txt h in
    let r = hex_u w t in
    res_u r ^ Printf.sprintf ";class=hu%d:%s" w
      (if r <> None then "accept" else if t = [] then "reject-empty"
       else if List.for_all is_hex_char t then "reject-range" else "reject-char")
  | ["hs"; w; h] ->
    let w = ios w and t = txt h in
    let r = hex_s w t in
    res_s r ^ Printf.sprintf ";class=hs%d:%s" w
      (if r <> None then "accept" else if t = [] then "reject-empty"
       else if List.for_all is_hex_char t then "reject-range" else "reject-char")
  | ["phu"; w; h] ->
    let r = prefixed_hex (hex_u (ios w)) (txt h) in
    res_u r ^ Printf.sprintf ";class=phu%s:%s" w (if r <> None then "accept" else "reject")
  | ["phs"; w; h] ->
    let r = prefixed_hex (hex_s (ios w)) (txt h) in
    res_s r ^ Printf.sprintf ";class=phs%s:%s" w (if r <> None then "accept" else "reject")
  | ["rtu"; w; v] ->
    let w = ios w and v = n_of_string v in
    let t = int_to_string_u v in
    let r = dec_u w true t in
    Printf.sprintf "t=%s;%s;od=%s;class=rtu%d" (hx t) (res_u r) (string_of_n (or_default r (n_of_int 42))) w
  | ["rts"; w; v] ->
    let w = ios w and v = z_of_string v in
    let t = int_to_string_s v in
    let r = dec_s w true t in
    Printf.sprintf "t=%s;%s;od=%s;class=rts%d" (hx t) (res_s r) (string_of_z (or_default r (z_of_int 42))) w
  | ["rthu"; w; v] ->
    let w = ios w and v = z_of_string v in
    let t = to_hex_w (n_of_int w) false false v and p = to_hex_w (n_of_int w) false true v in
    Printf.sprintf "t=%s;p=%s;%s;%s;class=rthu%d" (hx t) (hx p) (res_u (hex_u w t))
      (res_u ~ok:"pok" ~vk:"pv" (prefixed_hex (hex_u w) p)) w
  | ["rths"; w; v] ->
    let w = ios w and v = z_of_string v in
    let t = to_hex_w (n_of_int w) true false v and p = to_hex_w (n_of_int w) true true v in
    Printf.sprintf "t=%s;p=%s;%s;%s;class=rths%d" (hx t) (hx p) (res_s (hex_s w t))
      (res_s ~ok:"pok" ~vk:"pv" (prefixed_hex (hex_s w) p)) w
  | ["bool"; h] ->
    (match string_to_bool (txt h) with
     | None -> "ok=0;class=bool:reject" | Some b -> "ok=1;v=" ^ bool01 b ^ ";class=bool:accept")
  | ["boolt"; h] ->
    (match string_to_bool_tolerant (txt h) with
     | None -> "ok=0;class=boolt:reject" | Some b -> "ok=1;v=" ^ bool01 b ^ ";class=boolt:accept")
  | ["uid"; h] ->
    (match uid_from_string (txt h) with
     | None -> Printf.sprintf "ok=0;class=uid:reject-%dfields" (List.length (string_split [n_of_int 58] (txt h)))
     | Some u ->
       let s = uid_to_string u in
       Printf.sprintf "ok=1;v=%s;s=%s;rt=%s;class=uid:accept" (string_of_n (uid_n u)) (hx s)
         (bool01 (uid_from_string s = Some u)))
  | ["uidv"; v] ->
    let v = n_of_string v in
    let q, r = N.div_eucl v (two_pow 32) in
    let s = uid_to_string (q, r) in
    Printf.sprintf "s=%s;%s;class=uidv" (hx s)
      (match uid_from_string s with None -> "ok=0" | Some u -> "ok=1;v=" ^ string_of_n (uid_n u))
  | ["mac"; h] ->
    (match mac_from_string (txt h) with
     | None -> Printf.sprintf "ok=0;ep=1;class=mac:reject-%dfields"
                 (List.length (string_split [n_of_int 58; n_of_int 46] (txt h)))
     | Some m ->
       let s = mac_to_string m in
       Printf.sprintf "ok=1;v=%s;s=%s;rt=%s;ep=1;class=mac:accept" (hx m) (hx s) (bool01 (mac_from_string s = Some m)))
  | ["macv"; h] ->
    let s = mac_to_string (txt h) in
    Printf.sprintf "s=%s;%s;class=macv" (hx s)
      (match mac_from_string s with None -> "ok=0" | Some m -> "ok=1;v=" ^ hx m)
  | ["dmx"; h] ->
    let t = txt h in
    let d = dmx_set_from_string t in
    let s = dmx_to_string d in
    let fin = dmx_text_in_finding t in
    Printf.sprintf "d=%s;s=%s;rt=%s;class=dmx:%s%s" (hx d) (hx s) (bool01 (dmx_set_from_string s = d))
      (if fin then "truncating" else "in-range") (if fin then ";known=C20-dmx-atoi-truncation" else "")
  | ["dmxv"; h] ->
    let s = dmx_to_string (txt h) in
    Printf.sprintf "s=%s;back=%s;class=dmxv" (hx s) (hx (dmx_set_from_string s))
  | ["ip4"; h] ->
    let t = txt h in
    let raw = match inet_pton4 (cstr t) with None -> "none" | Some a -> hx a in
    (match ipv4_from_string inet_pton4 t with
     | None -> Printf.sprintf "lraw=%s;ok=0;ep=1;class=ip4:reject" raw
     | Some a -> Printf.sprintf "lraw=%s;ok=1;a=%s;ep=1;class=ip4:accept" raw (hx a))
  | ["ip4v"; h] ->
    let s = ipv4_to_string inet_ntop4 (txt h) in
    Printf.sprintf "s=%s;%s;class=ip4v" (hx s)
      (match ipv4_from_string inet_pton4 s with None -> "ok=0" | Some a -> "ok=1;a=" ^ hx a)
  | ["sa"; h] ->
    (match sockaddr_from_string inet_pton4 (txt h) with
     | None -> "ok=0;ep=1;class=sa:reject"
     | Some (a, port) ->
       let s = sockaddr_to_string inet_ntop4 (a, port) in
       Printf.sprintf "ok=1;a=%s;p=%s;s=%s;rt=%s;ep=1;class=sa:accept" (hx a) (string_of_n port) (hx s)
         (bool01 (sockaddr_from_string inet_pton4 s = Some (a, port))))
  | ["sav"; h; port] ->
    let s = sockaddr_to_string inet_ntop4 (txt h, n_of_string port) in
    Printf.sprintf "s=%s;%s;class=sav" (hx s)
      (match sockaddr_from_string inet_pton4 s with
       | None -> "ok=0" | Some (a, p) -> Printf.sprintf "ok=1;a=%s;p=%s" (hx a) (string_of_n p))
  (* IPv6 text belongs to libc entirely: the theorem c20_ipv6_wrapper says the OLA wrapper is
     the libc function guarded by the empty-text check; the harness reports whether it is. *)
  | ["ip6"; h] ->
    let t = txt h in
    let raw = match ipv6_of_text (cstr t) with None -> "none" | Some a -> hx a in
    (match ipv6_from_string t with
     | None -> Printf.sprintf "lraw=%s;ok=0;ep=1;class=ip6:reject" raw
     | Some a -> Printf.sprintf "lraw=%s;ok=1;a=%s;s=%s;ep=1;class=ip6:accept%s" raw (hx a) (hx (ipv6_to_text a))
                   (if v4_form (words_of_bytes a) then "-v4" else ""))
  | ["ip6v"; h] ->
    let a = txt h in
    let s = ipv6_to_text a in
    Printf.sprintf "s=%s;lt6=%s;%s;class=ip6v:len%d%s" (hx s) (hx s)
      (match ipv6_from_string s with None -> "ok=0" | Some b -> "ok=1;a=" ^ hx b) (List.length s)
      (if v4_form (words_of_bytes a) then "-v4" else "")
  | ["cid"; h] ->
    let t = txt h in
    let a = cid_from_string uuid_parse t in
    let raw = match uuid_parse (cstr t) with None -> "none" | Some u -> hx u in
    Printf.sprintf "a=%s;s=%s;nil=%s;lraw=%s;class=cid:%s" (hx a) (hx (cid_to_string uuid_unparse a))
      (bool01 (a = nil_uuid)) raw (if raw = "none" then "reject" else "accept")
  | ["cidv"; h] ->
    let u = txt h in
    let s = cid_to_string uuid_unparse u in
    let back = cid_from_string uuid_parse s in
    Printf.sprintf "s=%s;back=%s;eq=%s;class=cidv" (hx s) (hx back) (bool01 (back = u))
  | [("strtoull" | "strtoul") as f; base; h] ->
    let t = txt h in
    let (v, e), rest = (if f = "strtoull" then strtoull else strtoul) (n_of_int (ios base)) t in
    Printf.sprintf "lv=%s;le=%s;lend=%s;class=%s%s:%s" (string_of_n v) (bool01 e) (string_of_n (end_offset t rest))
      f base (if e then "erange" else if end_offset t rest = N0 then "noconv" else "conv")
  | [("strtoll" | "strtol") as f; base; h] ->
    let t = txt h in
    let (v, e), rest = (if f = "strtoll" then strtoll else strtol) (n_of_int (ios base)) t in
    Printf.sprintf "lv=%s;le=%s;lend=%s;class=%s%s:%s" (string_of_z v) (bool01 e) (string_of_n (end_offset t rest))
      f base (if e then "erange" else if end_offset t rest = N0 then "noconv" else "conv")
  | ["atoi"; h] -> Printf.sprintf "lv=%s;class=atoi" (string_of_z (atoi (txt h)))
  (* operator<< on a caller's stream: printers are pure functions of the value, stream state unchanged *)
  | "strm" :: ty :: adj :: base :: fill :: w :: n :: rest ->
    let text = match ty, rest with
      | "uid", [v] -> let q, r = N.div_eucl (n_of_string v) (two_pow 32) in Some (uid_to_string (q, r))
      | "mac", [h] -> Some (mac_to_string (txt h))
      | "cid", [h] -> Some (cid_to_string uuid_unparse (txt h))
      | "dmx", [h] -> Some (dmx_to_string (txt h))
      | "ip4", [h] -> Some (ipv4_to_string inet_ntop4 (txt h))
      | "sa", [h; port] -> Some (sockaddr_to_string inet_ntop4 (txt h, n_of_string port))
      | "ip6", [h] -> Some (ipv6_to_text (txt h))
      | _ -> None in
    let cls = Printf.sprintf ";class=strm-%s:adj%s-base%s-w%s" ty adj base (if w = "0" then "0" else "n") in
    (match text with
     | None -> "pure=1" ^ cls
     | Some v -> "pure=1;s=" ^ hx (stream_seq (nat_of_int (ios w)) (n_of_int (ios fill)) (adj = "1") (base = "16")
                                      (n_of_string n) v) ^ cls)
  (* printers are pure, hence re-entrant: no conversion may go wrong when several threads print at once *)
  (* printers on long-lived objects: the text is a function of the current value only *)
  | ["reprint"; ty; mode; v1; v2] ->
    let text v = match ty with
      | "uid" -> let q, r = N.div_eucl (n_of_string v) (two_pow 32) in uid_to_string (q, r)
      | "mac" -> mac_to_string (txt v)
      | "cid" -> cid_to_string uuid_unparse (txt v)
      | "dmx" -> dmx_to_string (txt v)
      | "ip4" -> ipv4_to_string inet_ntop4 (txt v)
      | "ip6" -> ipv6_to_text (txt v)
      | _ -> (match String.split_on_char '/' v with
              | [h; port] -> sockaddr_to_string inet_ntop4 (txt h, n_of_string port)
              | _ -> []) in
    Printf.sprintf "s1=%s;s2=%s;o=1;eq=1;class=reprint-%s:mode%s%s" (hx (text v1)) (hx (text v2)) ty mode
      (if v1 = v2 then "-same" else "")
  | ["thr"; t; n; _] -> Printf.sprintf "mis=0;cnt=%d;class=thr%s" (11 * ios t * ios n) t
  | ["thrf"; t; n; _; r] -> Printf.sprintf "mis=0;dead=0;cnt=%d;class=thrf%s" (11 * ios t * ios n * ios r) t
  | ["split"; d; h] ->
    let toks = string_split (txt d) (txt h) in
    Printf.sprintf "n=%d;t=%s;class=split" (List.length toks) (String.concat "," (List.map hx toks))
  | ["trim"; h] -> Printf.sprintf "t=%s;class=trim" (hx (string_trim (txt h)))
  | _ -> "bad-op"
let () = vh_run (fun p -> handle p ^ ";exc=0")
