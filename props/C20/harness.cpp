// C20 correspondence harness: every OLA text parser / printer (and the libc functions the
// Coq models of Libc.v stand for) on the texts the generator produces.  Texts are hex-encoded
// in the payload ("-" = empty) and may contain any byte, including NUL.
#include <arpa/inet.h>
#include <errno.h>
#include <stdlib.h>
#include <string.h>
#include <uuid/uuid.h>
#include <pthread.h>
#include <sched.h>
#include <iomanip>
#include <memory>
#include <sstream>
#include <stdexcept>
#include <string>
#include <vector>
#include "ola/DmxBuffer.h"
#include "ola/Logging.h"
#include "ola/StringUtils.h"
#include "ola/acn/CID.h"
#include "ola/network/IPV4Address.h"
#include "ola/network/IPV6Address.h"
#include "ola/network/MACAddress.h"
#include "ola/network/SocketAddress.h"
#include "ola/rdm/UID.h"
#include "ola/strings/Format.h"
#include "vh.h"

using std::string;
using std::vector;

static string text_of(const string &h) {
  vector<uint8_t> b = vh::unhex(h);
  return string(reinterpret_cast<const char*>(b.data()), b.size());
}
static string hx(const string &s) { return vh::hex(s); }
static string sdec(long long v) { std::ostringstream o; o << v; return o.str(); }
static string udec(unsigned long long v) { std::ostringstream o; o << v; return o.str(); }

// ---- "dirty target" dimension: every parse entry point that writes into an out-parameter or into
// the object itself is also run on a target that already holds an earlier, non-default value; the
// result must depend on the text only (op "dirty <k> <inner case>").
static bool g_dirty_on = false;
static unsigned long long g_dirty = 0;
static ola::DmxBuffer *g_sibling = NULL;
template <typename T> static T dirty_init() { return g_dirty_on ? static_cast<T>(g_dirty * 0x9e3779b97f4a7c15ULL >> 7 | 1) : 0; }
static string keep_key(bool unchanged) { return g_dirty_on ? string(";keep=") + (unchanged ? "1" : "0") : string(); }
// gives the buffer earlier contents by one of the public ways, so that it owns used memory
static void dirty_dmx(ola::DmxBuffer *b) {
  if (!g_dirty_on) return;
  uint8_t fill[512];
  for (unsigned i = 0; i < 512; i++) fill[i] = static_cast<uint8_t>(1 + (g_dirty + i * 7) % 255);   // never 0
  switch (g_dirty % 5) {
    case 0: b->SetFromString("9,9,9,9,9,9,9,9,9,9,9,9,9,9,9,9,9,9,9,9,9,9,9,9,9,9,9,9,9,9,9,9,9,9,9,9,9,9,9,9"); break;
    case 1: b->Set(fill, 512); break;
    case 2: b->SetRangeToValue(0, 200, 512); break;
    case 3: b->Set(fill, 64); b->SetChannel(3, 77); break;
    default:   // copy-on-write shared with a sibling that stays alive and must not change
      delete g_sibling;
      g_sibling = new ola::DmxBuffer(fill, 100);
      *b = *g_sibling;
      break;
  }
}
static bool sibling_intact() {
  if (!g_dirty_on || g_dirty % 5 != 4 || !g_sibling) return true;
  if (g_sibling->Size() != 100) return false;
  for (unsigned i = 0; i < 100; i++)
    if (g_sibling->Get(i) != static_cast<uint8_t>(1 + (g_dirty + i * 7) % 255)) return false;
  return true;
}
static void dirty_bytes(uint8_t *p, unsigned n) {
  for (unsigned i = 0; i < n; i++) p[i] = g_dirty_on ? static_cast<uint8_t>(0xa5 ^ (g_dirty + 13 * i)) : 0;
}

template <typename T>
static string parse_dec(const string &t, bool strict, bool is_signed) {
  T v = dirty_init<T>();
  const T v0 = v;
  // StringToIntOrDefault<T> is the second public entry point of every overload
  T dflt = ola::StringToIntOrDefault(t, static_cast<T>(42), strict);
  string od = ";od=" + (is_signed ? sdec(static_cast<long long>(dflt)) : udec(static_cast<unsigned long long>(dflt)));
  if (!ola::StringToInt(t, &v, strict)) return "ok=0" + od + keep_key(v == v0);
  return "ok=1;v=" + (is_signed ? sdec(static_cast<long long>(v)) : udec(static_cast<unsigned long long>(v))) + od;
}
template <typename T>
static string parse_hex(const string &t, bool is_signed, const char *ok = "ok", const char *vk = "v") {
  T v = dirty_init<T>();
  const T v0 = v;
  if (!ola::HexStringToInt(t, &v)) return string(ok) + "=0" + (string(ok) == "ok" ? keep_key(v == v0) : string());
  return string(ok) + "=1;" + vk + "=" +
      (is_signed ? sdec(static_cast<long long>(v)) : udec(static_cast<unsigned long long>(v)));
}
template <typename T>
static string parse_phex(const string &t, bool is_signed, const char *ok = "ok", const char *vk = "v") {
  T v = dirty_init<T>();
  const T v0 = v;
  if (!ola::PrefixedHexStringToInt(t, &v)) return string(ok) + "=0" + (string(ok) == "ok" ? keep_key(v == v0) : string());
  return string(ok) + "=1;" + vk + "=" +
      (is_signed ? sdec(static_cast<long long>(v)) : udec(static_cast<unsigned long long>(v)));
}
template <typename T>
static string hex_rt(T v, bool is_signed) {
  std::ostringstream a, b;
  a << ola::strings::ToHex(v, false);
  b << ola::strings::ToHex(v, true);
  return "t=" + hx(a.str()) + ";p=" + hx(b.str()) + ";" + parse_hex<T>(a.str(), is_signed) + ";" +
      parse_phex<T>(b.str(), is_signed, "pok", "pv");
}

static string uid_val(const ola::rdm::UID &u) { return udec(u.ToUInt64()); }

static string dmx_data(const ola::DmxBuffer &b) {
  return vh::hex(b.GetRaw(), b.Size());
}

template <typename F>
static string libc_u(F f, const string &t, int base) {
  char *end = NULL;
  errno = 0;
  unsigned long long v = f(t.c_str(), &end, base);
  int e = errno;
  return "lv=" + udec(v) + ";le=" + (e == ERANGE ? "1" : (e == 0 ? "0" : "other")) + ";lend=" +
      udec(end - t.c_str());
}
template <typename F>
static string libc_s(F f, const string &t, int base) {
  char *end = NULL;
  errno = 0;
  long long v = f(t.c_str(), &end, base);
  int e = errno;
  return "lv=" + sdec(v) + ";le=" + (e == ERANGE ? "1" : (e == 0 ? "0" : "other")) + ";lend=" +
      udec(end - t.c_str());
}

// ---- operator<< on a stream that already carries format state (op "strm") ------------------
static void prep(std::ostream *o, int adj, int base, int fill) {
  if (adj == 1) *o << std::left; else if (adj == 2) *o << std::right; else if (adj == 3) *o << std::internal;
  if (base == 16) *o << std::hex;
  *o << std::setfill(static_cast<char>(fill));
}
template <typename V>
static string strm(const V &v, int adj, int base, int fill, int w, unsigned long long n, bool with_text) {
  std::ostringstream o, ref;
  prep(&o, adj, base, fill);
  prep(&ref, adj, base, fill);
  o << std::setw(w) << v << '|' << n << '|' << v << '|' << std::setw(12) << n;
  // the same sequence with the value's ToString() text inserted as a plain string
  ref << std::setw(w) << v.ToString() << '|' << n << '|' << v.ToString() << '|' << std::setw(12) << n;
  string r = string("pure=") + (o.str() == ref.str() ? "1" : "0");
  if (with_text) r += ";s=" + hx(o.str());
  return r;
}

// ---- printers/parsers called from several threads at once (ops "thr", "thrf") ------------------
// The work is split into phases, one per printer/parser pair; all threads pass a barrier before
// each phase, so that the FIRST use of every conversion happens on all threads at the same time.
// Each thread works on its own objects; a correct (pure, re-entrant) tree can never mismatch.
enum { THR_PHASES = 11 };
struct ThrShared { volatile int go; volatile int arrived[THR_PHASES]; int nthreads; };
struct ThrArg { unsigned id; unsigned n; unsigned long long seed; unsigned long mis; ThrShared *sh; };
static unsigned long long lcg(unsigned long long *s) {
  *s = *s * 6364136223846793005ULL + 1442695040888963407ULL;
  return *s;
}
static unsigned long thr_phase(int phase, unsigned long long *s) {
  unsigned long mis = 0;
  char buf[4200];
  unsigned long long r = lcg(s);
  unsigned long long v = r >> (lcg(s) % 64);   // vary the number of digits
  switch (phase) {
    case 0: {  // IntToString(uint64_t) -> strict StringToInt, and the text itself
      string t = ola::strings::IntToString(static_cast<uint64_t>(v));
      snprintf(buf, sizeof(buf), "%llu", v);
      uint64_t back = 0;
      if (t != buf || !ola::StringToInt(t, &back, true) || back != v) mis++;
      break;
    }
    case 1: {  // IntToString(int64_t)
      long long sv = static_cast<long long>(v >> 1);
      if (r & 1) sv = -sv;
      string t = ola::strings::IntToString(static_cast<int64_t>(sv));
      snprintf(buf, sizeof(buf), "%lld", sv);
      int64_t back = 0;
      if (t != buf || !ola::StringToInt(t, &back, true) || back != sv) mis++;
      break;
    }
    case 2: {  // ToHex(uint32_t) -> HexStringToInt
      uint32_t hv = static_cast<uint32_t>(v);
      std::ostringstream o;
      o << ola::strings::ToHex(hv, false);
      snprintf(buf, sizeof(buf), "%08x", hv);
      uint32_t back = 0;
      if (o.str() != buf || !ola::HexStringToInt(o.str(), &back) || back != hv) mis++;
      break;
    }
    case 3: {  // UID
      ola::rdm::UID u(static_cast<uint64_t>(r & 0xffffffffffffULL));
      string t = u.ToString();
      snprintf(buf, sizeof(buf), "%04x:%08x", u.ManufacturerId(), u.DeviceId());
      ola::rdm::UID *b = ola::rdm::UID::FromString(t);
      if (t != buf || !b || !(*b == u)) mis++;
      delete b;
      break;
    }
    case 4: {  // IPV4Address
      uint32_t av = static_cast<uint32_t>(r >> 16);
      ola::network::IPV4Address ip(av);
      string t = ip.ToString();
      const uint8_t *q = reinterpret_cast<const uint8_t*>(&av);
      snprintf(buf, sizeof(buf), "%u.%u.%u.%u", q[0], q[1], q[2], q[3]);
      ola::network::IPV4Address back;
      if (t != buf || !ola::network::IPV4Address::FromString(t, &back) || !(back == ip)) mis++;
      break;
    }
    case 5: case 6: {  // DmxBuffer::ToString / operator<<  -> SetFromString
      uint8_t d[24];
      unsigned n = 1 + (r >> 8) % 24;
      string ref;
      for (unsigned i = 0; i < n; i++) {
        d[i] = static_cast<uint8_t>(lcg(s) >> 33);
        char one[8];
        snprintf(one, sizeof(one), "%s%u", i ? "," : "", d[i]);
        ref += one;
      }
      ola::DmxBuffer b(d, n);
      string t;
      if (phase == 5) { t = b.ToString(); } else { std::ostringstream o; o << b; t = o.str(); }
      ola::DmxBuffer back;
      if (t != ref || !back.SetFromString(t) || !(back == b)) mis++;
      break;
    }
    case 7: {  // MACAddress
      uint8_t m[6];
      for (unsigned i = 0; i < 6; i++) m[i] = static_cast<uint8_t>(r >> (8 * i));
      ola::network::MACAddress mac(m);
      string t = mac.ToString();
      snprintf(buf, sizeof(buf), "%02x:%02x:%02x:%02x:%02x:%02x", m[0], m[1], m[2], m[3], m[4], m[5]);
      ola::network::MACAddress back;
      if (t != buf || !ola::network::MACAddress::FromString(t, &back) || !(back == mac)) mis++;
      break;
    }
    case 8: {  // IPV6Address
      uint8_t a6[16];
      unsigned long long r2 = lcg(s);
      for (unsigned i = 0; i < 8; i++) { a6[i] = (r >> (8 * i)) & ((r2 >> i) & 1 ? 0xff : 0); a6[8 + i] = r2 >> (8 * i); }
      ola::network::IPV6Address ip(a6);
      string t = ip.ToString();
      char ref[INET6_ADDRSTRLEN];
      ola::network::IPV6Address back;
      if (!inet_ntop(AF_INET6, a6, ref, sizeof(ref)) || t != ref ||
          !ola::network::IPV6Address::FromString(t, &back) || !(back == ip)) mis++;
      break;
    }
    case 9: {  // CID
      uint8_t c[16];
      unsigned long long r2 = lcg(s);
      memcpy(c, &r, 8); memcpy(c + 8, &r2, 8);
      ola::acn::CID cid = ola::acn::CID::FromData(c);
      string t = cid.ToString();
      snprintf(buf, sizeof(buf), "%02x%02x%02x%02x-%02x%02x-%02x%02x-%02x%02x-%02x%02x%02x%02x%02x%02x",
               c[0], c[1], c[2], c[3], c[4], c[5], c[6], c[7], c[8], c[9], c[10], c[11], c[12], c[13], c[14], c[15]);
      ola::acn::CID back = ola::acn::CID::FromString(t);
      if (t != buf || !(back == cid)) mis++;
      break;
    }
    default: {  // IPV4SocketAddress and booleans
      uint32_t av = static_cast<uint32_t>(r >> 20);
      uint16_t port = static_cast<uint16_t>(r);
      ola::network::IPV4SocketAddress sa((ola::network::IPV4Address(av)), port);
      string t = sa.ToString();
      const uint8_t *q = reinterpret_cast<const uint8_t*>(&av);
      snprintf(buf, sizeof(buf), "%u.%u.%u.%u:%u", q[0], q[1], q[2], q[3], port);
      ola::network::IPV4SocketAddress back;
      bool bv = false;
      if (t != buf || !ola::network::IPV4SocketAddress::FromString(t, &back) || !(back == sa)) mis++;
      if (!ola::StringToBoolTolerant((r & 4) ? "EnAbLeD" : "off", &bv) || bv != ((r & 4) != 0)) mis++;
      break;
    }
  }
  return mis;
}
static void *thr_main(void *p) {
  ThrArg *a = static_cast<ThrArg*>(p);
  ThrShared *sh = a->sh;
  unsigned long long s = a->seed + 0x9e3779b97f4a7c15ULL * (a->id + 1);
  while (!sh->go) { sched_yield(); }
  unsigned long mis = 0;
  for (int phase = 0; phase < THR_PHASES; phase++) {
    __sync_fetch_and_add(&sh->arrived[phase], 1);
    while (sh->arrived[phase] < sh->nthreads) { sched_yield(); }   // yield: the box may be oversubscribed
    for (unsigned i = 0; i < a->n; i++) mis += thr_phase(phase, &s);
  }
  a->mis = mis;
  return NULL;
}
static unsigned long run_threads_raw(unsigned nthreads, unsigned n, unsigned long long seed) {
  if (nthreads > 16) nthreads = 16;
  static ThrShared sh;
  memset(&sh, 0, sizeof(sh));
  ThrArg args[16];
  pthread_t th[16];
  unsigned started = 0;
  for (unsigned i = 0; i < nthreads; i++) {
    args[i].id = i; args[i].n = n; args[i].seed = seed; args[i].mis = 0; args[i].sh = &sh;
    if (pthread_create(&th[i], NULL, thr_main, &args[i]) != 0) break;
    started++;
  }
  sh.nthreads = static_cast<int>(started);
  __sync_synchronize();
  sh.go = 1;
  unsigned long mis = 0;
  for (unsigned i = 0; i < started; i++) { pthread_join(th[i], NULL); mis += args[i].mis; }
  return mis;
}
static string run_threads(unsigned nthreads, unsigned n, unsigned long long seed) {
  return "mis=" + udec(run_threads_raw(nthreads, n, seed)) + ";cnt=" + udec(1ULL * THR_PHASES * nthreads * n);
}
// The same phases in FRESH processes (this binary re-executed with --thr): nothing has been
// converted in them before the threads start, so first-use races (lazily filled tables, static
// locals) are reachable.  A child that dies counts as failed.
static string run_threads_fresh(unsigned nthreads, unsigned n, unsigned long long seed, unsigned rounds) {
  char exe[4096];
  ssize_t len = readlink("/proc/self/exe", exe, sizeof(exe) - 1);
  if (len <= 0) return "mis=0;dead=0;cnt=0;env=no-proc-self-exe";
  exe[len] = 0;
  unsigned long mis = 0, dead = 0;
  for (unsigned k = 0; k < rounds; k++) {
    string cmd = string("'") + exe + "' --thr " + udec(nthreads) + " " + udec(n) + " " + udec(seed + k) + " 2>/dev/null";
    FILE *f = popen(cmd.c_str(), "r");
    unsigned long m = 0;
    bool got = false;
    if (f) {
      char line[128];
      while (fgets(line, sizeof(line), f)) { if (sscanf(line, "THR %lu", &m) == 1) got = true; }
      pclose(f);
    }
    if (got) mis += m; else dead++;
  }
  return "mis=" + udec(mis) + ";dead=" + udec(dead) + ";cnt=" + udec(1ULL * THR_PHASES * nthreads * n * rounds);
}

// ---- printers on long-lived objects (op "reprint"): an object that has been printed is given a new
// value (operator= from an object / from a temporary, std::swap, via a printed copy; DmxBuffer also
// through Set / SetFromString) and printed again: the text must be that of the current value.
template <typename V>
static string reprint(const V &a, const V &b, int mode) {
  V obj(a);
  string s1 = obj.ToString();
  std::ostringstream o1;
  o1 << obj;
  switch (mode) {
    case 0: obj = b; break;
    case 1: obj = V(b); break;
    case 2: { V tmp(b); tmp.ToString(); std::swap(obj, tmp); break; }
    default: { V copy(obj); copy.ToString(); copy = b; obj = copy; break; }
  }
  string s2 = obj.ToString();
  std::ostringstream o2;
  o2 << obj;
  string s3 = obj.ToString();   // and once more, now that any cache is warm again
  bool o = o1.str() == s1 && o2.str() == s2 && s3 == s2;
  return "s1=" + hx(s1) + ";s2=" + hx(s2) + ";o=" + (o ? "1" : "0") + ";eq=" + (obj == b ? "1" : "0");
}
static string reprint_dmx(const vector<uint8_t> &d1, const vector<uint8_t> &d2, int mode) {
  ola::DmxBuffer a(d1.data(), d1.size()), b(d2.data(), d2.size());
  if (mode < 4) return reprint(a, b, mode);
  ola::DmxBuffer obj(a);
  string s1 = obj.ToString();
  std::ostringstream o1;
  o1 << obj;
  uint8_t none = 0;   // Set(NULL, 0) is refused by design: pass a valid pointer for the empty frame
  if (mode == 4) { obj.Set(d2.empty() ? &none : d2.data(), d2.size()); } else { obj.SetFromString(b.ToString()); }
  string s2 = obj.ToString();
  std::ostringstream o2;
  o2 << obj;
  bool o = o1.str() == s1 && o2.str() == s2;
  return "s1=" + hx(s1) + ";s2=" + hx(s2) + ";o=" + (o ? "1" : "0") + ";eq=" + (obj == b ? "1" : "0");
}
static ola::network::IPV4SocketAddress sa_of(const string &v) {
  vector<string> p = vh::split(v, '/');
  vector<uint8_t> d = vh::unhex(p[0]);
  uint32_t v4;
  memcpy(&v4, d.data(), 4);
  return ola::network::IPV4SocketAddress(ola::network::IPV4Address(v4), static_cast<uint16_t>(vh::num(p[1])));
}

static string handle(const string &p) {
  vector<string> a = vh::split(p);
  const string &op = a[0];
  if (op == "su" || op == "ss") {
    int w = vh::num(a[1]);
    bool strict = a[2] == "1";
    string t = text_of(a[3]);
    if (op == "su") {
      switch (w) {
        case 8: return parse_dec<uint8_t>(t, strict, false);
        case 16: return parse_dec<uint16_t>(t, strict, false);
        case 32: return parse_dec<unsigned int>(t, strict, false);
        default: return parse_dec<uint64_t>(t, strict, false);
      }
    }
    switch (w) {
      case 8: return parse_dec<int8_t>(t, strict, true);
      case 16: return parse_dec<int16_t>(t, strict, true);
      case 32: return parse_dec<int>(t, strict, true);
      default: return parse_dec<int64_t>(t, strict, true);
    }
  }
  if (op == "hu" || op == "hs" || op == "phu" || op == "phs") {
    int w = vh::num(a[1]);
    string t = text_of(a[2]);
    if (op == "hu") {
      switch (w) {
        case 8: return parse_hex<uint8_t>(t, false);
        case 16: return parse_hex<uint16_t>(t, false);
        case 32: return parse_hex<uint32_t>(t, false);
        default: return parse_hex<uint64_t>(t, false);
      }
    } else if (op == "hs") {
      switch (w) {
        case 8: return parse_hex<int8_t>(t, true);
        case 16: return parse_hex<int16_t>(t, true);
        case 32: return parse_hex<int32_t>(t, true);
        default: return parse_hex<int64_t>(t, true);
      }
    } else if (op == "phu") {
      switch (w) {
        case 8: return parse_phex<uint8_t>(t, false);
        case 16: return parse_phex<uint16_t>(t, false);
        case 32: return parse_phex<uint32_t>(t, false);
        default: return parse_phex<uint64_t>(t, false);
      }
    } else {
      switch (w) {
        case 8: return parse_phex<int8_t>(t, true);
        case 16: return parse_phex<int16_t>(t, true);
        case 32: return parse_phex<int32_t>(t, true);
        default: return parse_phex<int64_t>(t, true);
      }
    }
  }
  if (op == "rtu") {   // value -> IntToString -> strict StringToInt of the same width
    int w = vh::num(a[1]);
    unsigned long long v = vh::num(a[2]);
    string t = w == 64 ? ola::strings::IntToString(static_cast<uint64_t>(v))
                       : ola::IntToString(static_cast<unsigned int>(v));
    string r = "t=" + hx(t) + ";";
    switch (w) {
      case 8: return r + parse_dec<uint8_t>(t, true, false);
      case 16: return r + parse_dec<uint16_t>(t, true, false);
      case 32: return r + parse_dec<unsigned int>(t, true, false);
      default: return r + parse_dec<uint64_t>(t, true, false);
    }
  }
  if (op == "rts") {
    int w = vh::num(a[1]);
    long long v = vh::snum(a[2]);
    string t = w == 64 ? ola::strings::IntToString(static_cast<int64_t>(v))
                       : ola::IntToString(static_cast<int>(v));
    string r = "t=" + hx(t) + ";";
    switch (w) {
      case 8: return r + parse_dec<int8_t>(t, true, true);
      case 16: return r + parse_dec<int16_t>(t, true, true);
      case 32: return r + parse_dec<int>(t, true, true);
      default: return r + parse_dec<int64_t>(t, true, true);
    }
  }
  if (op == "rthu") {
    int w = vh::num(a[1]);
    unsigned long long v = vh::num(a[2]);
    switch (w) {
      case 8: return hex_rt<uint8_t>(v, false);
      case 16: return hex_rt<uint16_t>(v, false);
      case 32: return hex_rt<uint32_t>(v, false);
      default: return hex_rt<uint64_t>(v, false);
    }
  }
  if (op == "rths") {
    int w = vh::num(a[1]);
    long long v = vh::snum(a[2]);
    switch (w) {
      case 8: return hex_rt<int8_t>(v, true);
      case 16: return hex_rt<int16_t>(v, true);
      case 32: return hex_rt<int32_t>(v, true);
      default: return hex_rt<int64_t>(v, true);
    }
  }
  if (op == "bool" || op == "boolt") {
    bool b = g_dirty_on && (g_dirty & 1);
    const bool b0 = b;
    string t = text_of(a[1]);
    bool ok = op == "bool" ? ola::StringToBool(t, &b) : ola::StringToBoolTolerant(t, &b);
    return ok ? string("ok=1;v=") + (b ? "1" : "0") : "ok=0" + keep_key(b == b0);
  }
  if (op == "uid") {
    std::auto_ptr<ola::rdm::UID> u(ola::rdm::UID::FromString(text_of(a[1])));
    if (!u.get()) return "ok=0";
    ola::rdm::UID target(dirty_init<uint64_t>());   // an existing object that is re-assigned
    target = *u;
    string s = target.ToString();
    std::auto_ptr<ola::rdm::UID> back(ola::rdm::UID::FromString(s));
    return "ok=1;v=" + uid_val(target) + ";s=" + hx(s) + ";rt=" + (back.get() && *back == *u ? "1" : "0");
  }
  if (op == "uidv") {
    ola::rdm::UID u(static_cast<uint64_t>(vh::num(a[1])));
    string s = u.ToString();
    std::auto_ptr<ola::rdm::UID> back(ola::rdm::UID::FromString(s));
    return "s=" + hx(s) + ";" + (back.get() ? "ok=1;v=" + uid_val(*back) : string("ok=0"));
  }
  if (op == "mac") {
    uint8_t m0b[ola::network::MACAddress::LENGTH];
    dirty_bytes(m0b, sizeof(m0b));
    ola::network::MACAddress m(m0b);
    const ola::network::MACAddress m0(m0b);
    std::auto_ptr<ola::network::MACAddress> m2(ola::network::MACAddress::FromString(text_of(a[1])));
    if (!ola::network::MACAddress::FromString(text_of(a[1]), &m)) {
      return m2.get() ? "ok=inconsistent" : "ok=0;ep=1" + keep_key(m == m0);
    }
    // the other entry points: pointer-returning FromString and FromStringOrDie
    bool ep = m2.get() && *m2 == m && ola::network::MACAddress::FromStringOrDie(text_of(a[1])) == m;
    uint8_t b[ola::network::MACAddress::LENGTH];
    m.Get(b);
    string s = m.ToString();
    ola::network::MACAddress back(m0b);
    bool rt = ola::network::MACAddress::FromString(s, &back) && back == m;
    return "ok=1;v=" + vh::hex(b, sizeof(b)) + ";s=" + hx(s) + ";rt=" + (rt ? "1" : "0") + ";ep=" + (ep ? "1" : "0");
  }
  if (op == "macv") {
    vector<uint8_t> b = vh::unhex(a[1]);
    ola::network::MACAddress m(b.data());
    string s = m.ToString();
    ola::network::MACAddress back;
    if (!ola::network::MACAddress::FromString(s, &back)) return "s=" + hx(s) + ";ok=0";
    uint8_t o[ola::network::MACAddress::LENGTH];
    back.Get(o);
    return "s=" + hx(s) + ";ok=1;v=" + vh::hex(o, sizeof(o));
  }
  if (op == "dmx") {
    ola::DmxBuffer b;
    dirty_dmx(&b);
    if (!b.SetFromString(text_of(a[1]))) return "ok=0";
    string sib = g_dirty_on ? string(";sib=") + (sibling_intact() ? "1" : "0") : string();
    string s = b.ToString();
    ola::DmxBuffer back;
    dirty_dmx(&back);
    back.SetFromString(s);
    return "d=" + dmx_data(b) + ";s=" + hx(s) + ";rt=" + (back == b ? "1" : "0") + sib;
  }
  if (op == "dmxseq") {   // several texts into ONE long-lived buffer; the frame after every call
    ola::DmxBuffer b;
    string r;
    for (size_t i = 1; i < a.size(); i++) {
      if (a[i] == "R") { b.SetRangeToValue(0, 201, 300); r += (i > 1 ? ";" : "") + string("r") + udec(i) + "=1"; continue; }
      if (a[i] == "S") { uint8_t f[20]; memset(f, 0xee, sizeof(f)); b.Set(f, sizeof(f)); r += (i > 1 ? ";" : "") + string("r") + udec(i) + "=1"; continue; }
      bool ok = b.SetFromString(text_of(a[i]));
      r += (i > 1 ? ";" : "") + string("d") + udec(i) + "=" + (ok ? dmx_data(b) : string("fail"));
    }
    return r;
  }
  if (op == "dmxv") {
    vector<uint8_t> d = vh::unhex(a[1]);
    ola::DmxBuffer b(d.data(), d.size());
    string s = b.ToString();
    ola::DmxBuffer back;
    dirty_dmx(&back);
    back.SetFromString(s);
    return "s=" + hx(s) + ";back=" + dmx_data(back);
  }
  if (op == "ip4") {
    string t = text_of(a[1]);
    ola::network::IPV4Address ip(dirty_init<uint32_t>());
    const ola::network::IPV4Address ip0(ip);
    struct in_addr raw;
    // the bare libc call on the same C string (validates Libc.inet_pton4)
    bool rok = inet_pton(AF_INET, t.c_str(), &raw) == 1;
    string r = string("lraw=") + (rok ? vh::hex(reinterpret_cast<uint8_t*>(&raw), 4) : "none");
    std::auto_ptr<ola::network::IPV4Address> ip2(ola::network::IPV4Address::FromString(t));
    if (!ola::network::IPV4Address::FromString(t, &ip)) return r + ";ok=0;ep=" + (ip2.get() ? "0" : "1") + keep_key(ip == ip0);
    bool ep = ip2.get() && *ip2 == ip && ola::network::IPV4Address::FromStringOrDie(t) == ip;
    uint32_t v = ip.AsInt();
    return r + ";ok=1;a=" + vh::hex(reinterpret_cast<uint8_t*>(&v), 4) + ";ep=" + (ep ? "1" : "0");
  }
  if (op == "ip4v") {
    vector<uint8_t> d = vh::unhex(a[1]);
    uint32_t v;
    memcpy(&v, d.data(), 4);
    ola::network::IPV4Address ip(v);
    string s = ip.ToString();
    ola::network::IPV4Address back;
    bool ok = ola::network::IPV4Address::FromString(s, &back);
    uint32_t bv = back.AsInt();
    return "s=" + hx(s) + ";" + (ok ? "ok=1;a=" + vh::hex(reinterpret_cast<uint8_t*>(&bv), 4) : string("ok=0"));
  }
  if (op == "sa") {
    ola::network::IPV4SocketAddress sa(ola::network::IPV4Address(dirty_init<uint32_t>()), dirty_init<uint16_t>());
    const ola::network::IPV4SocketAddress sa0(sa);
    if (!ola::network::IPV4SocketAddress::FromString(text_of(a[1]), &sa)) return "ok=0;ep=1" + keep_key(sa == sa0);
    bool ep = ola::network::IPV4SocketAddress::FromStringOrDie(text_of(a[1])) == sa;
    uint32_t v = sa.Host().AsInt();
    string s = sa.ToString();
    ola::network::IPV4SocketAddress back;
    bool rt = ola::network::IPV4SocketAddress::FromString(s, &back) && back == sa;
    return "ok=1;a=" + vh::hex(reinterpret_cast<uint8_t*>(&v), 4) + ";p=" + udec(sa.Port()) +
        ";s=" + hx(s) + ";rt=" + (rt ? "1" : "0") + ";ep=" + (ep ? "1" : "0");
  }
  if (op == "sav") {
    vector<uint8_t> d = vh::unhex(a[1]);
    uint32_t v;
    memcpy(&v, d.data(), 4);
    ola::network::IPV4SocketAddress sa(ola::network::IPV4Address(v), static_cast<uint16_t>(vh::num(a[2])));
    string s = sa.ToString();
    ola::network::IPV4SocketAddress back;
    if (!ola::network::IPV4SocketAddress::FromString(s, &back)) return "s=" + hx(s) + ";ok=0";
    uint32_t bv = back.Host().AsInt();
    return "s=" + hx(s) + ";ok=1;a=" + vh::hex(reinterpret_cast<uint8_t*>(&bv), 4) + ";p=" + udec(back.Port());
  }
  if (op == "ip6") {
    string t = text_of(a[1]);
    struct in6_addr raw;
    // the bare libc call on the same C string (validates Ipv6.inet_pton6)
    bool rok = inet_pton(AF_INET6, t.c_str(), &raw) == 1;
    string r = string("lraw=") + (rok ? vh::hex(reinterpret_cast<uint8_t*>(&raw), 16) : "none");
    uint8_t i60[16];
    dirty_bytes(i60, sizeof(i60));
    ola::network::IPV6Address ip(i60);
    const ola::network::IPV6Address ip0(i60);
    std::auto_ptr<ola::network::IPV6Address> ip2(ola::network::IPV6Address::FromString(t));
    if (!ola::network::IPV6Address::FromString(t, &ip)) return r + ";ok=0;ep=" + (ip2.get() ? "0" : "1") + keep_key(ip == ip0);
    bool ep = ip2.get() && *ip2 == ip && ola::network::IPV6Address::FromStringOrDie(t) == ip;
    uint8_t b[16];
    ip.Get(b);
    return r + ";ok=1;a=" + vh::hex(b, 16) + ";s=" + hx(ip.ToString()) + ";ep=" + (ep ? "1" : "0");
  }
  if (op == "ip6v") {
    vector<uint8_t> d = vh::unhex(a[1]);
    ola::network::IPV6Address ip(d.data());
    string s = ip.ToString();
    char buf[INET6_ADDRSTRLEN];
    // the bare libc call (validates Ipv6.ipv6_to_text)
    string lt = inet_ntop(AF_INET6, d.data(), buf, sizeof(buf)) ? string(buf) : string("?");
    ola::network::IPV6Address back;
    string r = "s=" + hx(s) + ";lt6=" + hx(lt);
    if (!ola::network::IPV6Address::FromString(s, &back)) return r + ";ok=0";
    uint8_t b[16];
    back.Get(b);
    return r + ";ok=1;a=" + vh::hex(b, 16);
  }
  if (op == "cid") {
    string t = text_of(a[1]);
    uint8_t c0[ola::acn::CID::CID_LENGTH];
    dirty_bytes(c0, sizeof(c0));
    ola::acn::CID c = ola::acn::CID::FromData(c0);   // an existing object that is re-assigned
    c = ola::acn::CID::FromString(t);
    uint8_t b[ola::acn::CID::CID_LENGTH];
    c.Pack(b);
    uuid_t raw;
    bool rok = uuid_parse(t.c_str(), raw) == 0;   // validates Libc.uuid_parse
    return "a=" + vh::hex(b, sizeof(b)) + ";s=" + hx(c.ToString()) + ";nil=" + (c.IsNil() ? "1" : "0") +
        ";lraw=" + (rok ? vh::hex(raw, 16) : string("none"));
  }
  if (op == "cidv") {
    vector<uint8_t> d = vh::unhex(a[1]);
    ola::acn::CID c = ola::acn::CID::FromData(d.data());
    string s = c.ToString();
    ola::acn::CID back = ola::acn::CID::FromString(s);
    uint8_t b[ola::acn::CID::CID_LENGTH];
    back.Pack(b);
    return "s=" + hx(s) + ";back=" + vh::hex(b, sizeof(b)) + ";eq=" + (back == c ? "1" : "0");
  }
  if (op == "strtoull") return libc_u(strtoull, text_of(a[2]), vh::num(a[1]));
  if (op == "strtoul") return libc_u(strtoul, text_of(a[2]), vh::num(a[1]));
  if (op == "strtoll") return libc_s(strtoll, text_of(a[2]), vh::num(a[1]));
  if (op == "strtol") return libc_s(strtol, text_of(a[2]), vh::num(a[1]));
  if (op == "atoi") return "lv=" + sdec(atoi(text_of(a[1]).c_str()));
  if (op == "strm") {   // strm <type> <adj> <base> <fill> <w> <n> <value...>
    const string &ty = a[1];
    int adj = vh::num(a[2]), base = vh::num(a[3]), fill = vh::num(a[4]), w = vh::num(a[5]);
    unsigned long long n = vh::num(a[6]);
    vector<uint8_t> d = ty == "uid" ? vector<uint8_t>() : vh::unhex(a[7]);
    if (ty == "uid") return strm(ola::rdm::UID(static_cast<uint64_t>(vh::num(a[7]))), adj, base, fill, w, n, true);
    if (ty == "mac") return strm(ola::network::MACAddress(d.data()), adj, base, fill, w, n, true);
    if (ty == "cid") return strm(ola::acn::CID::FromData(d.data()), adj, base, fill, w, n, true);
    if (ty == "dmx") return strm(ola::DmxBuffer(d.data(), d.size()), adj, base, fill, w, n, true);
    if (ty == "ip6") return strm(ola::network::IPV6Address(d.data()), adj, base, fill, w, n, true);
    uint32_t v4;
    memcpy(&v4, d.data(), 4);
    if (ty == "ip4") return strm(ola::network::IPV4Address(v4), adj, base, fill, w, n, true);
    if (ty == "sa")
      return strm(ola::network::IPV4SocketAddress(ola::network::IPV4Address(v4),
                                                  static_cast<uint16_t>(vh::num(a[8]))), adj, base, fill, w, n, true);
    return "bad-type";
  }
  if (op == "dirty") {   // dirty <k> <inner case>: the inner case with every parse target pre-loaded
    size_t p1 = p.find(' ');
    size_t p2 = p.find(' ', p1 + 1);
    g_dirty = vh::num(a[1]);
    g_dirty_on = true;
    string r;
    try { r = handle(p.substr(p2 + 1)); } catch (...) { g_dirty_on = false; throw; }
    g_dirty_on = false;
    return r;
  }
  if (op == "reprint") {   // reprint <type> <mode> <value1> <value2>
    const string &ty = a[1];
    int mode = vh::num(a[2]);
    if (ty == "uid") return reprint(ola::rdm::UID(static_cast<uint64_t>(vh::num(a[3]))),
                                    ola::rdm::UID(static_cast<uint64_t>(vh::num(a[4]))), mode);
    if (ty == "sa") return reprint(sa_of(a[3]), sa_of(a[4]), mode);
    vector<uint8_t> d1 = vh::unhex(a[3]), d2 = vh::unhex(a[4]);
    if (ty == "dmx") return reprint_dmx(d1, d2, mode);
    if (ty == "mac") return reprint(ola::network::MACAddress(d1.data()), ola::network::MACAddress(d2.data()), mode);
    if (ty == "cid") return reprint(ola::acn::CID::FromData(d1.data()), ola::acn::CID::FromData(d2.data()), mode);
    if (ty == "ip6") return reprint(ola::network::IPV6Address(d1.data()), ola::network::IPV6Address(d2.data()), mode);
    if (ty == "ip4") {
      uint32_t x, y;
      memcpy(&x, d1.data(), 4); memcpy(&y, d2.data(), 4);
      return reprint(ola::network::IPV4Address(x), ola::network::IPV4Address(y), mode);
    }
    return "bad-type";
  }
  if (op == "thr") return run_threads(vh::num(a[1]), vh::num(a[2]), vh::num(a[3]));
  if (op == "thrf") return run_threads_fresh(vh::num(a[1]), vh::num(a[2]), vh::num(a[3]), vh::num(a[4]));
  if (op == "split") {
    vector<string> tokens;
    ola::StringSplit(text_of(a[2]), &tokens, text_of(a[1]));
    string r = "n=" + udec(tokens.size()) + ";t=";
    for (size_t i = 0; i < tokens.size(); i++) r += (i ? "," : "") + hx(tokens[i]);
    return r;
  }
  if (op == "trim") {
    string t = text_of(a[1]);
    ola::StringTrim(&t);
    return "t=" + hx(t);
  }
  return "bad-op";
}

// A printer or parser that throws is a failed conversion on a concrete input, not a harness crash.
static string guarded(const string &p) {
  try {
    return handle(p) + ";exc=0";
  } catch (const std::exception &e) {
    return "exc=1";
  } catch (...) {
    return "exc=1";
  }
}

int main(int argc, char **argv) {
  ola::InitLogging(ola::OLA_LOG_NONE, ola::OLA_LOG_NULL);
  if (argc == 5 && string(argv[1]) == "--thr") {   // fresh-process round of op "thrf": threads first
    signal(SIGALRM, vh::on_alarm);
    alarm(60);
    unsigned long m = 0;
    try { m = run_threads_raw(vh::num(argv[2]), vh::num(argv[3]), vh::num(argv[4])); } catch (...) { m = 1000000; }
    printf("THR %lu\n", m);
    return 0;
  }
  return vh::run(argc, argv, guarded, 120);   // threaded cases need head-room on a loaded machine
}
