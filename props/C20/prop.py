ID = 'C20'
GROUPS = ['common']
CXX_SOURCES = ['libs/acn/CID.cpp', 'libs/acn/CIDImpl.cpp']

# Keys that are property-determined.  The remaining keys (lv, le, lend, lraw) only validate the
# Coq models of libc / libuuid (Libc.v) against the platform's functions: a mismatch there means
# the libc model is wrong, not that OLA violates the property.
SPEC_KEYS = ['ok', 'v', 'pok', 'pv', 't', 'p', 's', 'rt', 'd', 'back', 'a', 'eq', 'nil', 'wrap', 'n',
             'pure', 'mis', 'cnt', 'exc', 'ep', 'od', 'sib', 'dead', 's1', 's2', 'o'] + ['d%d' % i for i in range(1, 12)]
# keep (out-parameter untouched by a rejected text) is what the code does but is not documented: internal
INTERNAL_KEYS = []

RULE = ('every value -> text -> value for ALL 8-bit and ALL 16-bit values (both tiers) of every '
        'integer printer/parser pair, decimal and hex, plus boundary-biased values (+-2 around every power '
        'of two, power of ten and type limit) for 32/64-bit, UID, MAC, IPv4, socket address, CID and DMX '
        'frames; malformed texts from a grammar (white space, + and - signs, leading zeros, overflow by '
        'one, 17-30 digits, trailing junk, embedded NUL, missing/extra separators, wrong field widths) '
        'for every parser; the libc/libuuid models are run against the real functions on the same texts; '
        'IPv6: all groups >= 0x1000 (39 characters), all-ones, a single zero group / every zero run at every position, '
        'competing runs, ::, ::1, v4-mapped/-compatible forms and neighbours, random, through ToString -> FromString '
        'and operator<<, plus malformed IPv6 texts; every case runs under an exception guard (exc=1 = a conversion threw); '
        'DIRTY TARGETS every parse entry point that writes into an out-parameter or into the object itself '
        '(StringToInt/HexStringToInt/PrefixedHex x8, StringToBool(Tolerant), MAC/IPv4/IPv6/socket address FromString(.., T*), '
        'UID/CID assigned onto an existing object, DmxBuffer::SetFromString) is also run on a long-lived target holding an '
        'earlier non-default value (DMX: filled by SetFromString/Set/SetRangeToValue/SetChannel or copy-on-write shared with a '
        'live sibling; op dirty, 1/6 of all parse cases) and DMX texts with empty fields are applied in sequences to ONE '
        'buffer (op dmxseq): the result must be a function of the text only; '
        'REPRINT every value type (CID, UID, IPv4, IPv6, socket address, MAC, DmxBuffer) is printed (ToString and operator<<), '
        'given another value (operator= from an object / a temporary, std::swap, through a printed copy; DmxBuffer also Set and '
        'SetFromString) and printed again: both texts must be those of the value held at the time (op reprint); '
        'CONTRACT printers are pure functions of the value: (1) operator<< of every value type (UID, IPv4, IPv6, '
        'socket address, MAC, CID, DmxBuffer) on a caller stream that already carries state (left/right/internal, '
        'hex, fill, pending setw) must insert exactly the ToString() text as one string field and leave the '
        'stream state unchanged - a following integer keeps the caller base, a later setw field the caller fill '
        'and adjustment (op strm, text compared with the model); (2) IntToString/ToHex/UID::ToString/'
        'IPV4Address/IPV6Address/MAC/CID/socket address/DmxBuffer ToString + operator<< and their parsers called from 2-8 '
        'threads at once, phase by phase behind a barrier, must give 0 wrong conversions, both in the running harness '
        '(op thr) and in FRESH re-executed processes where the first use of every conversion happens inside the threaded '
        'phase (op thrf: first-use races; a dead child counts); a correct tree can never produce a mismatch, detection of a '
        'race is probabilistic; BYTES every byte >= 0x80 and every control byte replacing the first/middle/last character of a '
        'valid text, prepended, appended and inserted, for every parse entry point (ints, hex, UID, MAC, IPv4/6, socket '
        'address, CID, booleans, DMX) and the libc models; '
        'non-trivial = the model accepts the text or the value round-trips; distinct = distinct model output line')
ASSUMPTIONS = ['LP64 glibc in the "C" locale (strtoul = strtoull, isspace = " \\t\\n\\v\\f\\r"); validated on every run '
               'by the strtoull/strtoll/strtoul/strtol/atoi/inet_pton/uuid_parse cases',
               'libuuid (e2fsprogs flavour, USE_OSSP_UUID undefined) and HAVE_INET_PTON/HAVE_INET_NTOP as in /repo/config.h',
               'operator new does not fail']
TRUSTED = ['modelled rather than verified: StringUtils.cpp StringSplit/StringTrim/StringToBool(Tolerant)/'
           'StringToInt x8/HexStringToInt x8/PrefixedHexStringToInt, strings/Format IntToString/ToHex, '
           'UID::FromString/ToString, MACAddress StringToEther/ToString, IPV4Address::FromString/ToString, '
           'IPV4SocketAddress::FromString/ToString, DmxBuffer::SetFromString/ToString, CIDImpl::FromString/ToString',
           'libc strtoull/strtoll/atoi, ostream integer formatting, inet_pton/inet_ntop (AF_INET, AF_INET6) and '
           'uuid_parse/uuid_unparse are ordinary Coq definitions (Libc.v, Ipv6.v) validated against the platform on '
           'every run; the older IPv4 / socket address / CID theorems additionally hold for ANY such functions under named hypotheses',
           'public entry points enumerated from the headers and compared on every case: StringToInt + StringToIntOrDefault (x8), '
           'HexStringToInt + PrefixedHexStringToInt (x8), StringToBool(Tolerant), UID::FromString, MACAddress::FromString x2 + '
           'FromStringOrDie, IPV4Address/IPV6Address::FromString x2 + FromStringOrDie, IPV4SocketAddress::FromString + '
           'FromStringOrDie, CID::FromString, DmxBuffer::SetFromString (keys ep, od)',
           'IPv6 text: inet_ntop/inet_pton(AF_INET6) are ordinary Coq definitions (Ipv6.v, glibc 2.36 inet_ntop6/inet_pton6), '
           'validated against the platform on boundary-biased addresses and malformed texts on every run (keys lt6, lraw)']

LEVEL_TEXT = ('Coq theorems over an executable model of OLA\'s text conversions, for all texts and all values. '
              'Exact acceptance (iff: accepted <=> the text has the documented form and denotes a value in range, '
              'and then exactly that value is returned) for StringToInt x8 (strict and lenient), HexStringToInt x8, '
              'StringToBool/StringToBoolTolerant (incl. embedded NUL), UID, MAC, IPv4 address and IPv4 socket address '
              '(for any inet_pton, and without hypothesis for the validated glibc model, which is proved to accept '
              'exactly the inet_ntop outputs), StringSplit; StringToIntOrDefault; value -> text -> value round trips for '
              'EVERY value of every integer width (decimal and hex), UID, MAC, DMX frame, IPv4, socket address, IPv6 '
              '(glibc model, length <= 39) and CID (libuuid model); wrong field counts rejected. Partial: '
              'DmxBuffer::SetFromString never rejects - its result is characterised exactly for every text '
              '(c20_dmx_text_exact) and equals the denoted slots only when every item is in 0..255 '
              '(c20_dmx_text_partial / c20_dmx_text_refuted, known finding C20-dmx-atoi-truncation). Not proved: '
              'nothing of the libc/libuuid grammars: inet_pton(AF_INET), inet_pton(AF_INET6) (full, "::" and embedded-IPv4 forms, '
              'c20_ipv6_exact) and uuid_parse (c20_cid_exact) are characterised exactly on their validated models. '
              'The model is tied to the C++ by a differential correspondence check on an ASan/UBSan build of the '
              'working tree; constants used by the model are regenerated from the headers and pinned (c20_consts).')
LEVEL_NOTE = ('Trusted: Coq kernel, extraction (ExtrOcamlBasic), OCaml/C++ glue, the generator\'s coverage of the '
              'correspondence (model = code is tested, not proved), the Libc.v models of strtoull/strtoll/atoi/'
              'ostream<< (validated against glibc on every run), and the stated hypotheses on inet_pton/inet_ntop/'
              'uuid_parse/uuid_unparse.')
TECHNIQUE = 'Coq proof on hand-written executable model + extracted-model/implementation differential correspondence'
DESIGN_REF = 'DESIGN.md §4 C20'


def gen_consts(v):
    """constants the model uses as literals, regenerated from the headers the code is compiled with"""
    import os
    ents = [('G_DMX_UNIVERSE_SIZE', 'ola::DMX_UNIVERSE_SIZE'),
            ('G_MAC_LENGTH', 'ola::network::MACAddress::LENGTH'),
            ('G_CID_LENGTH', 'ola::acn::CID::CID_LENGTH'),
            ('G_IPV6_LENGTH', 'ola::network::IPV6Address::LENGTH'),
            ('G_INET_ADDRSTRLEN', 'INET_ADDRSTRLEN'), ('G_INET6_ADDRSTRLEN', 'INET6_ADDRSTRLEN'),
            ('G_UINT8_MAX', 'UINT8_MAX'), ('G_UINT16_MAX', 'UINT16_MAX'), ('G_UINT32_MAX', 'UINT32_MAX'),
            ('G_UINT64_MAX', 'UINT64_MAX'), ('G_ULLONG_MAX', 'ULLONG_MAX'), ('G_LLONG_MAX', 'LLONG_MAX'),
            ('G_INT8_MAX', 'INT8_MAX'), ('G_INT16_MAX', 'INT16_MAX'), ('G_INT32_MAX', 'INT32_MAX'),
            ('G_INT64_MAX', 'INT64_MAX'),
            ('G_NEG_INT8_MIN', '-(long long)INT8_MIN'), ('G_NEG_INT16_MIN', '-(long long)INT16_MIN'),
            ('G_NEG_INT32_MIN', '-(long long)INT32_MIN'), ('G_NEG_INT64_MIN', '0ULL - (unsigned long long)INT64_MIN'),
            ('G_SIZEOF_LONG', 'sizeof(long)'), ('G_SIZEOF_INT', 'sizeof(int)'),
            ('G_HEX_BIT_WIDTH', 'ola::strings::HEX_BIT_WIDTH'),
            ('G_DIGITS_U8', 'std::numeric_limits<uint8_t>::digits'), ('G_DIGITS_I8', 'std::numeric_limits<int8_t>::digits'),
            ('G_DIGITS_U64', 'std::numeric_limits<uint64_t>::digits'), ('G_DIGITS_I64', 'std::numeric_limits<int64_t>::digits')]
    return v.gen_consts_cpp(ID, ['ola/Constants.h', 'ola/network/MACAddress.h', 'ola/network/IPV6Address.h',
                                 'ola/acn/CID.h', 'ola/strings/Format.h', 'arpa/inet.h', 'limits.h', 'limits'],
                            ents, os.path.join(v.VERIF, 'props', ID, 'coq', 'Gen.v'),
                            prelude='#define __STDC_LIMIT_MACROS\n#include <stdint.h>')


def hx(s):
    if isinstance(s, str):
        s = s.encode('latin-1')
    return s.hex() if s else '-'


WS = ['', '', '', ' ', '\t', '  ', '\n', '\v', '\f', '\r', ' \t ']
SIGNS = ['', '', '', '+', '-', '-', '+-', '--', '- ', '+ ']
TRAIL = ['', '', '', ' ', 'x', '.5', '\0', '\0junk', ' 1', ',', 'e3', '0x', ':', '-', '+', '\n', 'a', 'f']
SPECIAL = ['', ' ', '-', '+', '0x10', 'x', '\0', '\0 12', '0', '-0', '+0', '00', ' -', 'inf', 'nan', '0x', '0X1',
           '1\0', '1\0002', ' \0 1', '\xff', '+\0', '-\0001']


def pow_edges():
    vs = set()
    for k in range(0, 70):
        for d in (-2, -1, 0, 1, 2):
            vs.add((1 << k) + d)
    for k in range(0, 25):
        for d in (-1, 0, 1):
            vs.add(10 ** k + d)
    vs |= {0, 1, 9, 10, 99, 100, 127, 128, 129, 255, 256, 32767, 32768, 65535, 65536, 2147483647, 2147483648,
           4294967295, 4294967296, 9223372036854775807, 9223372036854775808, 9223372036854775809,
           18446744073709551615, 18446744073709551616, 18446744073709551617, 18446744073709551614,
           99999999999999999999, 184467440737095516150, 10 ** 30 + 7, 36893488147419103231}
    return sorted(v for v in vs if v >= 0)


EDGES = pow_edges()


def rand_mag(rng):
    r = rng.random()
    if r < 0.55:
        return rng.choice(EDGES)
    if r < 0.7:
        return rng.randrange(1 << rng.choice([8, 16, 32, 64, 65, 70]))
    if r < 0.85:
        return rng.randrange(300)
    return int(''.join(rng.choice('0123456789') for _ in range(rng.choice([17, 19, 20, 21, 25, 30]))))


def dec_text(rng):
    if rng.random() < 0.08:
        return rng.choice(SPECIAL)
    m = rand_mag(rng)
    ds = str(m)
    if rng.random() < 0.15:
        ds = '0' * rng.choice([1, 2, 20]) + ds
    return rng.choice(WS) + rng.choice(SIGNS) + ds + rng.choice(TRAIL)


def hex_digits(rng, m):
    s = '%x' % m
    r = rng.random()
    if r < 0.3:
        s = s.upper()
    elif r < 0.45:
        s = ''.join(c.upper() if rng.random() < 0.5 else c for c in s)
    if rng.random() < 0.2:
        s = '0' * rng.choice([1, 2, 8, 16, 17]) + s
    return s


def hex_text(rng, prefixed=False):
    if rng.random() < 0.08:
        return rng.choice(SPECIAL + ['g', 'fg', '0xg', 'ff ff', ' ff', 'ff ', '0x', '0X', 'x1', '0x0x1', '0x-1', '0x+1'])
    s = hex_digits(rng, rand_mag(rng))
    r = rng.random()
    if prefixed:
        s = rng.choice(['0x', '0x', '0x', '0X', '0X', '', '0', 'x', '0x0x', ' 0x', '0x ']) + s
    elif r < 0.1:
        s = rng.choice(['0x', '0X', '-', '+', ' ', '\t']) + s
    if rng.random() < 0.12:
        s += rng.choice(['g', ' ', 'x', '\0', '\0ff', '.', ':', 'G', 'h', '\n'])
    return s


def uid_text(rng):
    e = rng.choice([0, 1, 0x7a70, 0xffff, 0x8000, rng.randrange(65536)])
    d = rng.choice([0, 1, 0xffffffff, 0x80000000, 0xfffffffe, rng.randrange(1 << 32)])
    a, b = '%04x' % e, '%08x' % d
    r = rng.random()
    if r < 0.45:
        if rng.random() < 0.3:
            a, b = a.upper(), b.upper()
        return a + ':' + b
    k = rng.randrange(14)
    if k == 0: return a + b
    if k == 1: return a + ':' + b + ':' + rng.choice(['', '0', b])
    if k == 2: return a[1:] + ':' + b
    if k == 3: return a + ':' + b[1:]
    if k == 4: return a + '0:' + b
    if k == 5: return a + ':' + b + '0'
    if k == 6: return a[:3] + 'g:' + b
    if k == 7: return a + ':' + b[:7] + rng.choice(['g', ' ', '\0', '-', 'x'])
    if k == 8: return rng.choice(['', ':', '::', '0:0', ' ', a + ':', ':' + b])
    if k == 9: return ' ' + a[1:] + ':' + b
    if k == 10: return a + ':' + '+' + b[1:]
    if k == 11: return a + ':' + b + '\0'
    if k == 12: return '0x' + a[2:] + ':' + b
    return a + ';' + b


def mac_text(rng):
    bs = [rng.choice([0, 1, 0xff, 0x7f, 0x80, 0x0a, rng.randrange(256)]) for _ in range(6)]
    toks = ['%02x' % b for b in bs]
    r = rng.random()
    if r < 0.15:
        toks = [t.upper() for t in toks]
    elif r < 0.3:
        toks = ['%x' % b for b in bs]
    sep = rng.choice([':', ':', '.', None])
    def join(ts):
        if sep:
            return sep.join(ts)
        return ''.join(t + rng.choice(':.') for t in ts)[:-1]
    if rng.random() < 0.5:
        return join(toks)
    k = rng.randrange(12)
    if k == 0: return join(toks[:5])
    if k == 1: return join(toks + ['00'])
    if k == 2: toks[rng.randrange(6)] = rng.choice(['100', '0ff', '000', '1ff', 'fff', '00000001', '100000001'])
    elif k == 3: toks[rng.randrange(6)] = ''
    elif k == 4: toks[rng.randrange(6)] = rng.choice(['g0', ' 1', '1 ', '-1', '+1', '0x', '0x1', '1\0'])
    elif k == 5: return join(toks) + rng.choice([':', '.', ' ', '\0', 'x'])
    elif k == 6: return rng.choice([':', '.']) + join(toks)
    elif k == 7: return rng.choice(['', ':', ':::::', '.....', '::::::', 'foo', '0:0:0:0:0:0'])
    elif k == 8: return join(toks).replace(sep or ':', '-')
    elif k == 9: return join(toks).replace(sep or ':', '::', 1)
    elif k == 10: return ''.join(toks)
    return join(toks)


def dmx_text(rng):
    n = rng.choice([0, 1, 2, 3, 5, 16, 511, 512, 513, 600]) if rng.random() < 0.4 else rng.randrange(1, 12)
    items = []
    for _ in range(n):
        r = rng.random()
        if r < 0.6:
            items.append(str(rng.choice([0, 1, 9, 10, 99, 100, 127, 128, 254, 255, rng.randrange(256)])))
        elif r < 0.75:
            items.append(rng.choice(['', '', ' ', 'a', '0', '00', '007', ' 12', '12 ', '+5', '1x', '2.5', '\t3', '1\0002']))
        else:
            items.append(rng.choice(['256', '257', '300', '266', '511', '512', '1000', '-1', '-0', '-255', '-256',
                                     '65535', '65536', '2147483647', '2147483648', '4294967295', '4294967296',
                                     '4294967301', '-2147483648', '-2147483649', '9223372036854775807',
                                     '9223372036854775808', '18446744073709551615', '18446744073709551616',
                                     '-9223372036854775808', '-9223372036854775809', ' 266', '99999999999999999999999']))
    s = ','.join(items)
    if rng.random() < 0.1:
        s += rng.choice([',', ',,', ' ', '\0'])
    return s


def ip4_text(rng):
    o = [rng.choice([0, 1, 9, 10, 99, 100, 127, 192, 254, 255, rng.randrange(256)]) for _ in range(4)]
    s = '.'.join(str(x) for x in o)
    if rng.random() < 0.5:
        return s
    k = rng.randrange(14)
    if k == 0: return '.'.join(str(x) for x in o[:3])
    if k == 1: return s + '.5'
    if k == 2: return s.replace(str(o[1]), '256', 1)
    if k == 3: return '0' + s
    if k == 4: return ' ' + s
    if k == 5: return s + rng.choice([' ', '\0', '\0junk', '.', 'x', '\n'])
    if k == 6: return s.replace('.', '..', 1)
    if k == 7: return '.' + s
    if k == 8: return rng.choice(['', 'foo', '0x1.2.3.4', '1', '1.2', '16909060', '...', '1.2.3.-4', '1.2.3.+4'])
    if k == 9: return s.replace('.', ',', 1)
    if k == 10: return '%d.%d.%d.%03d' % tuple(o)
    if k == 11: return '1.2.3.%d' % rng.choice([255, 256, 260, 999, 1000])
    if k == 12: return '%d.0.0.00' % o[0]
    return s


def port_text(rng):
    r = rng.random()
    if r < 0.5:
        return str(rng.choice([0, 1, 80, 9010, 65534, 65535, rng.randrange(65536)]))
    return rng.choice(['65536', '65537', '99999', '-1', '-0', ' 80', '80 ', '80x', '80:90', '', '+80', '080', '0x50',
                       '80\0', '80\x0090', '4294967376', '18446744073709551696', ':80', '8 0', '\t80'])


def uuid_text(rng, bs=None):
    bs = bs or bytes(rng.randrange(256) for _ in range(16))
    h = bs.hex()
    return '-'.join([h[0:8], h[8:12], h[12:16], h[16:20], h[20:32]])


def cid_text(rng):
    s = uuid_text(rng, rng.choice([None, bytes(16), bytes([255] * 16)]))
    r = rng.random()
    if r < 0.4:
        return s
    if r < 0.55:
        return s.upper() if rng.random() < 0.5 else ''.join(c.upper() if rng.random() < 0.5 else c for c in s)
    k = rng.randrange(11)
    if k == 0: return s[:-1]
    if k == 1: return s + rng.choice(['0', ' ', '}', '\0', '\0junk'])
    if k == 2: return s.replace('-', '', 1)
    if k == 3: return s.replace('-', ':', 1)
    if k == 4:
        i = rng.choice([0, 7, 9, 35, 20])
        return s[:i] + rng.choice(['g', ' ', '-', '+', 'x']) + s[i + 1:]
    if k == 5: return rng.choice(['', 'foo', '{' + s + '}', ' ' + s[1:], s.replace('-', '')])
    if k == 6: return s[:8] + s[9] + '-' + s[10:]       # dash one position late
    if k == 7: return s[:36 - 13] + '\0' + s[36 - 12:]
    if k == 8: return '0x' + s[2:]
    if k == 9: return s[:13] + s[14:18] + '-' + s[18:]
    return s + s


def ip6_values(rng, n):
    """boundary-biased 128-bit values as lists of eight 16-bit groups"""
    big = lambda: rng.choice([0x1000, 0xffff, 0xabcd, 0x8000, rng.randrange(0x1000, 0x10000)])
    any16 = lambda: rng.choice([0, 0, 1, 0xf, 0x10, 0xff, 0x100, 0xfff, 0x1000, 0xffff, rng.randrange(65536)])
    out = [[0xffff] * 8, [0x1000] * 8, [0] * 8, [0] * 7 + [1], [1] + [0] * 7, [0] * 7 + [0x1000]]
    for k in range(8):                       # a single zero group in every position (never compressed)
        out.append([big() if i != k else 0 for i in range(8)])
        out.append([big() if i != k else 1 for i in range(8)])      # 36..38 characters
    for start in range(8):                   # one zero run of every length at every position
        for ln in range(2, 9 - start):
            out.append([0 if start <= i < start + ln else big() for i in range(8)])
    # two runs: equal length (leftmost wins), longer second, longer first
    out += [[1, 0, 0, 2, 0, 0, 3, 4], [1, 0, 0, 2, 0, 0, 0, 4], [1, 0, 0, 0, 2, 0, 0, 4], [0, 0, 1, 0, 0, 2, 0, 0],
            [0, 0, 1, 2, 3, 0, 0, 0], [0, 1, 0, 1, 0, 1, 0, 1], [1, 0, 1, 0, 1, 0, 1, 0], [0, 0, 1, 1, 1, 1, 0, 0]]
    # v4-mapped / v4-compatible and their neighbours
    for hi, lo in [(0x0102, 0x0304), (0xffff, 0xffff), (0, 1), (1, 0), (0, 0x0100), (0xc0a8, 0x00ff), (0, 0xffff)]:
        out += [[0, 0, 0, 0, 0, 0xffff, hi, lo], [0, 0, 0, 0, 0, 0, hi, lo], [0, 0, 0, 0, 0, 0xfffe, hi, lo],
                [0, 0, 0, 0, 1, 0xffff, hi, lo], [1, 0, 0, 0, 0, 0xffff, hi, lo], [0, 0, 0, 0, 0xffff, 0, hi, lo],
                [0, 0, 0, 0, 0xffff, 0xffff, hi, lo]]
    out += [[0xfe80, 0, 0, 0, 0x0202, 0xb3ff, 0xfe1e, 0x8329], [0x2001, 0xdb8, 0, 0, 0, 0, 0, 1],
            [0x2001, 0xdb8, 0x85a3, 0, 0, 0x8a2e, 0x370, 0x7334], [0xff02, 0, 0, 0, 0, 0, 0, 0xfb]]
    for _ in range(n):
        r = rng.random()
        if r < 0.3:
            out.append([big() for _ in range(8)])
        elif r < 0.7:
            out.append([any16() for _ in range(8)])
        else:
            out.append([rng.choice([0, 0, 0, big(), 1]) for _ in range(8)])
    return out


def ip6_hex(ws):
    return ''.join('%04x' % w for w in ws)


def ip6_text(rng):
    ws = rng.choice(ip6_values(rng, 3))
    import ipaddress
    good = [str(ipaddress.IPv6Address(int(ip6_hex(ws), 16))), ':'.join('%x' % w for w in ws),
            ':'.join('%04X' % w for w in ws), ':'.join('%x' % w for w in ws[:6]) + ':%d.%d.%d.%d' % (ws[6] >> 8, ws[6] & 255, ws[7] >> 8, ws[7] & 255)]
    t = rng.choice(good)
    r = rng.random()
    if r < 0.45:
        return t
    k = rng.randrange(20)
    if k == 0: return t + rng.choice([':', '::', ' ', '\0', '\0x', '%eth0', '/64', '.', ':0', ':1.2.3.4'])
    if k == 1: return rng.choice([':', ' ', '0', '::', '0:']) + t
    if k == 2: return t.replace(':', '::', 1)
    if k == 3: return t.replace(':', '', 1)
    if k == 4:
        i = rng.randrange(len(t) + 1)
        return t[:i] + rng.choice(['g', ' ', '-', '+', 'x', ':', '.', '0', 'f', 'fffff', '00000']) + t[i:]
    if k == 5: return t[:-1] if t else t
    if k == 6: return rng.choice(['', ':', '::', ':::', '::::', '1', '1:', ':1', '1::', '::1', '1::1', '1:2:3:4:5:6:7::', '::2:3:4:5:6:7:8',
                                  '1:2:3:4:5:6:7:8::', '::1:2:3:4:5:6:7:8', '1::2:3:4:5:6:7:8', '1:2:3:4::5:6:7:8', '1:2:3:4:5:6:7:8:9',
                                  '1::2::3', '12345::', '::12345', '0000::', '::0000', '00000::', '::ffff:1.2.3.4', '::1.2.3.4', '::ffff:1.2.3',
                                  '::ffff:1.2.3.4.5', '::ffff:256.2.3.4', '::ffff:01.2.3.4', '1:2:3:4:5:6:1.2.3.4', '1:2:3:4:5:6:7:1.2.3.4',
                                  '1:2:3:4:5:1.2.3.4', '::1.2.3.4:5', '1.2.3.4', '1.2.3.4::', '::1.2.3.4.', '::.1.2.3', '::1..2.3', '::ffff:1.2.3.4 ',
                                  'fe80::1%eth0', '[::1]', '::g', 'G::', '::0x1', '0x1::', '1:2:3:4:5:6:7', '::f.1.2.3', '::1f.1.2.3', '::1:1.2.3.4',
                                  'a:b:c:d:e:f:1.2.3.4', 'A:B:C:D:E:F:0:1', '1:2:3:4:5:6::1.2.3.4', '1:2:3:4:5::1.2.3.4', '::1.2.3.4::'])
    if k == 7: return t.upper()
    if k == 8: return t.replace(':', ':0', 1)
    if k == 9: return t.replace(':', ':000', 1)
    if k == 10: return t.replace('.', '..', 1) if '.' in t else t + '.1'
    if k == 11: return t + ':' + rng.choice(['1', 'ffff', '1.2.3.4'])
    if k == 12: return t.replace('::', ':') if '::' in t else t.replace(':', '::', 2)
    if k == 13: return t.replace(':', ' :', 1)
    if k == 14: return t[1:]
    return t


def sweep_values(bits, signed):
    if signed:
        return range(-(1 << (bits - 1)), 1 << (bits - 1))
    return range(0, 1 << bits)


INJECT_BASES = [('su 64 0', '12345'), ('su 8 1', '200'), ('ss 32 1', '-12345'), ('ss 64 0', '77'),
                ('hu 8', '1f'), ('hu 16', '7a70'), ('hu 32', '89abcdef'), ('hu 64', '0123456789abcdef'),
                ('hs 8', '7f'), ('hs 64', 'fedcba9876543210'), ('phu 32', '0x89abcdef'), ('phs 16', '0x7fff'),
                ('uid', '7a70:00000001'), ('mac', '01:23:45:67:89:ab'), ('mac', '1.2.3.4.5.f'),
                ('ip4', '192.168.1.20'), ('ip6', 'fe80::1:2'), ('ip6', '::ffff:1.2.3.4'), ('sa', '10.0.0.1:5568'),
                ('cid', '01020304-0506-0708-090a-0b0c0d0e0f10'), ('bool', 'true'), ('boolt', 'enabled'),
                ('dmx', '1,22,255'), ('strtoull 16', '1f'), ('strtoll 10', '42'), ('atoi', '42')]


def byte_injection_cases(rng):
    specials = list(range(128, 256)) + list(range(1, 32)) + [127]
    for op, base in INJECT_BASES:
        b = base.encode('latin-1')
        n = len(b)
        libc = op.split(' ')[0] in ('strtoull', 'strtoll', 'atoi')
        for x in specials:
            ch = bytes([x])
            variants = [ch + b[1:], b[:n // 2] + ch + b[n // 2 + 1:], b[:-1] + ch, ch + b, b + ch,
                        b[:n // 2] + ch + b[n // 2:]]
            for v in variants:
                if libc and b'\0' in v:
                    continue
                yield '%s %s' % (op, v.hex())


PARSE_OPS = ('su', 'ss', 'hu', 'hs', 'phu', 'phs', 'bool', 'boolt', 'uid', 'mac', 'dmx', 'dmxv', 'ip4', 'ip6', 'sa', 'cid')


def gen_cases(rng, tier):
    """every parse case is additionally run, with probability 1/6, on dirty targets (op dirty)"""
    for c in gen_cases0(rng, tier):
        yield c
        if c.split(' ', 1)[0] in PARSE_OPS and rng.random() < 0.17:
            yield 'dirty %d %s' % (rng.randrange(1, 1000), c)


DMX_FIELD_TEXTS = ['1,,3', ',2,', '255,,,', ',', ',,', ',,,5', '7', '', '9,9,9', '1,2,3,4,5,6,7,8', ' ,x,', '0,0,0', '10,,30',
                   '5,', ',5', '1,,,,,,,,,,,,,,,,,,,,,,2', 'a,b', '300,,-1', '1, ,2', ',' * 511, ',' * 512, ',' * 600]


def gen_cases0(rng, tier):
    quick = tier == 'quick'
    # ---- several texts into ONE long-lived DmxBuffer, frame compared after every call -------------------
    for i in range(300 if quick else 3000):
        steps = []
        for _ in range(rng.choice([2, 2, 3, 4, 6])):
            r = rng.random()
            if r < 0.12:
                steps.append(rng.choice(['R', 'S']))
            elif r < 0.6:
                steps.append(hx(rng.choice(DMX_FIELD_TEXTS)))
            else:
                steps.append(hx(dmx_text(rng)))
        yield 'dmxseq ' + ' '.join(steps)
    for t in DMX_FIELD_TEXTS:
        for k in range(5):
            yield 'dirty %d dmx %s' % (k + 5 * rng.randrange(1, 100), hx(t))
    # ---- printers from several threads at once (first, so that they land in different shards) ------
    for i in range(4 if quick else 8):
        yield 'thr %d %d %d' % ((2, 4)[i % 2], 8000 if quick else 10000, rng.randrange(1 << 32))
    # the same conversions in FRESH processes, so that the first use of every printer/parser happens
    # on all threads at once (first-use races on lazily filled tables / static locals)
    for i in range(4 if quick else 8):
        yield 'thrf %d %d %d %d' % ((2, 4, 3, 8)[i % 4], 200, rng.randrange(1 << 32), 5 if quick else 10)
    # ---- every byte >= 0x80 and every control byte at the first / middle / last position of a valid
    # text (replacing a character, and prepended / appended), for every parse entry point ------------
    for c in byte_injection_cases(rng):
        yield c
    # ---- printers on long-lived objects: print, give the object another value, print again ------------
    for i in range(1400 if quick else 14000):
        ty = ('cid', 'uid', 'ip4', 'ip6', 'sa', 'mac', 'dmx')[i % 7]
        def val():
            if ty == 'uid':
                return str(rng.choice([0, 1, 0x7a7000000001, (1 << 48) - 1, rng.randrange(1 << 48)]))
            if ty == 'ip4':
                return bytes(rng.choice([0, 1, 10, 255, rng.randrange(256)]) for _ in range(4)).hex()
            if ty == 'sa':
                return '%s/%d' % (bytes(rng.choice([0, 10, 255, rng.randrange(256)]) for _ in range(4)).hex(),
                                  rng.choice([0, 80, 65535, rng.randrange(65536)]))
            if ty == 'mac':
                return bytes(rng.choice([0, 1, 255, rng.randrange(256)]) for _ in range(6)).hex()
            if ty == 'ip6':
                return ip6_hex(rng.choice(ip6_values(rng, 2)))
            if ty == 'dmx':
                k = rng.choice([0, 1, 2, 3, 8, 24, 512])
                return bytes(rng.choice([0, 1, 10, 100, 255, rng.randrange(256)]) for _ in range(k)).hex() or '-'
            return bytes(rng.choice([0, 255, rng.randrange(256)]) for _ in range(16)).hex()
        v1 = val()
        v2 = v1 if rng.random() < 0.1 else val()
        yield 'reprint %s %d %s %s' % (ty, rng.randrange(6 if ty == 'dmx' else 4), v1, v2)
    # ---- operator<< on a stream that already carries format state ---------------------------------
    for i in range(1400 * (1 if quick else 10)):
        ty = ('uid', 'ip4', 'ip6', 'sa', 'mac', 'cid', 'dmx')[i % 7]
        adj = rng.choice([0, 1, 1, 2, 3])
        base = rng.choice([10, 10, 16])
        fill = rng.choice([32, 32, 48, 42, 46])
        w = rng.choice([0, 0, 1, 5, 13, 14, 15, 20, 40, 48])
        n = rng.choice([0, 9, 10, 15, 16, 80, 255, 256, 4095, 65535, 1 << 31, (1 << 32) - 1, (1 << 64) - 1,
                        rng.randrange(1 << 16), rng.randrange(1 << 40)])
        if ty == 'uid':
            val = str(rng.choice([0, 1, 0x7a7000000001, (1 << 48) - 1, 0x000100000010, rng.randrange(1 << 48)]))
        elif ty == 'ip4':
            val = bytes(rng.choice([0, 1, 10, 255, rng.randrange(256)]) for _ in range(4)).hex()
        elif ty == 'sa':
            val = '%s %d' % (bytes(rng.choice([0, 1, 10, 255, rng.randrange(256)]) for _ in range(4)).hex(),
                             rng.choice([0, 80, 65535, rng.randrange(65536)]))
        elif ty == 'mac':
            val = bytes(rng.choice([0, 1, 15, 16, 255, rng.randrange(256)]) for _ in range(6)).hex()
        elif ty == 'dmx':
            k = rng.choice([0, 1, 2, 3, 8, 24])
            val = bytes(rng.choice([0, 1, 10, 100, 255, rng.randrange(256)]) for _ in range(k)).hex() or '-'
        else:
            val = bytes(rng.choice([0, 0, 255, 1, rng.randrange(256)]) for _ in range(16)).hex()
        yield 'strm %s %d %d %d %d %d %s' % (ty, adj, base, fill, w, n, val)
    # ---- value -> text -> value sweeps -------------------------------------------------------
    for v in sweep_values(8, False):
        yield 'rtu 8 %d' % v
        yield 'rthu 8 %d' % v
    for v in sweep_values(8, True):
        yield 'rts 8 %d' % v
        yield 'rths 8 %d' % v
    v16u = list(sweep_values(16, False))
    v16s = list(sweep_values(16, True))
    for v in v16u:
        yield 'rtu 16 %d' % v
        yield 'rthu 16 %d' % v
    for v in v16s:
        yield 'rts 16 %d' % v
        yield 'rths 16 %d' % v
    n = 1 if quick else 12
    for bits in (32, 64):
        lim = 1 << bits
        us = {v for v in EDGES if v < lim} | {lim - 1 - v for v in EDGES if v < lim} | \
             {rng.randrange(lim) for _ in range(400 * n)}
        for v in sorted(us):
            yield 'rtu %d %d' % (bits, v)
            yield 'rthu %d %d' % (bits, v)
        half = lim >> 1
        ss = {v for v in EDGES if v < half} | {-v for v in EDGES if v <= half} | {half - 1 - v for v in EDGES if v < half} | \
             {v - half for v in EDGES if v < half} | {rng.randrange(-half, half) for _ in range(400 * n)}
        for v in sorted(ss):
            yield 'rts %d %d' % (bits, v)
            yield 'rths %d %d' % (bits, v)
    # ---- decimal texts -----------------------------------------------------------------------
    # systematic: every edge magnitude x sign x (bare | trailing) for every width/signedness
    for m in EDGES:
        for sg in ('', '-', '+'):
            for tr in ('', 'x'):
                t = hx(sg + str(m) + tr)
                w = rng.choice([8, 16, 32, 64]) if quick else None
                for ww in ([w] if w else [8, 16, 32, 64]):
                    st = rng.choice('01')
                    yield 'su %d %s %s' % (ww, st, t)
                    yield 'ss %d %s %s' % (ww, st, t)
    for i in range(6000 * (1 if quick else 25)):
        t = hx(dec_text(rng))
        yield '%s %d %s %s' % (rng.choice(['su', 'ss']), rng.choice([8, 16, 32, 64]), rng.choice('01'), t)
    # ---- hex texts -----------------------------------------------------------------------------
    for m in EDGES:
        t = hx('%x' % m)
        for ww in ([rng.choice([8, 16, 32, 64])] if quick else [8, 16, 32, 64]):
            yield 'hu %d %s' % (ww, t)
            yield 'hs %d %s' % (ww, t)
    for i in range(4000 * (1 if quick else 25)):
        op = rng.choice(['hu', 'hs', 'phu', 'phs'])
        yield '%s %d %s' % (op, rng.choice([8, 16, 32, 64]), hx(hex_text(rng, op[0] == 'p')))
    # ---- libc models vs libc -------------------------------------------------------------------
    for i in range(3000 * (1 if quick else 20)):
        f = rng.choice(['strtoull', 'strtoul', 'strtoll', 'strtol'])
        base = rng.choice([10, 10, 16])
        t = dec_text(rng) if base == 10 or rng.random() < 0.2 else \
            rng.choice(WS) + rng.choice(SIGNS) + rng.choice(['', '', '0x', '0X', '0x0x', '0']) + hex_text(rng)
        if '\0' in t:
            t = t[:t.index('\0')]
        yield '%s %d %s' % (f, base, hx(t))
    for i in range(800 * (1 if quick else 20)):
        t = dec_text(rng)
        if '\0' in t:
            t = t[:t.index('\0')]
        yield 'atoi %s' % hx(t)
    # ---- booleans ------------------------------------------------------------------------------
    words = ['true', 't', '1', 'false', 'f', '0', 'on', 'off', 'enable', 'disable', 'enabled', 'disabled',
             '', '2', '-1', 'a', 'yes', 'no', 'tru', 'truee', ' true', 'true ', 'o', 'of', 'onn', 'enables',
             'disabl', '01', '10', 'T\0', '\0', 'tr\0ue', 'TRUe', 'FALSE', 'fALSe', 'ON', 'oFf', 'EnAbLeD', 'DISABLE']
    for w in words:
        for v in {w, w.upper(), w.capitalize()}:
            yield 'bool %s' % hx(v)
            yield 'boolt %s' % hx(v)
    for i in range(300):
        w = rng.choice(words[:12])
        w = ''.join(c.upper() if rng.random() < 0.5 else c for c in w)
        if rng.random() < 0.3:
            j = rng.randrange(len(w) + 1)
            w = w[:j] + rng.choice(' x\0e1') + w[j:]
        yield '%s %s' % (rng.choice(['bool', 'boolt']), hx(w))
    # ---- UID -----------------------------------------------------------------------------------
    m = 1 if quick else 20
    for i in range(1500 * m):
        yield 'uid %s' % hx(uid_text(rng))
    uv = {0, 1, (1 << 48) - 1, (1 << 48) - 2, 0x7a7000000001, 0xffff00000000, 0x0000ffffffff, 1 << 32, (1 << 32) - 1}
    uv |= {v for v in EDGES if v < (1 << 48)} | {rng.randrange(1 << 48) for _ in range(500 * m)}
    for v in sorted(uv):
        yield 'uidv %d' % v
    # ---- MAC -----------------------------------------------------------------------------------
    for i in range(1500 * m):
        yield 'mac %s' % hx(mac_text(rng))
    for i in range(500 * m):
        yield 'macv %s' % bytes(rng.choice([0, 1, 15, 16, 255, 127, 128, rng.randrange(256)]) for _ in range(6)).hex()
    for b in range(256):
        yield 'macv %s' % bytes([b, 255 - b, b, 0, 255, b ^ 0x55]).hex()
    # ---- DMX text ------------------------------------------------------------------------------
    for i in range(1200 * m):
        yield 'dmx %s' % hx(dmx_text(rng))
    for b in range(256):
        yield 'dmx %s' % hx(str(b))
        yield 'dmxv %02x' % b
    for b in list(range(256, 520)) + [-b for b in range(1, 260)]:
        yield 'dmx %s' % hx('1,%d,2' % b)
    for i in range(300 * m):
        n = rng.choice([0, 1, 2, 3, 24, 255, 256, 511, 512])
        if rng.random() < 0.5:
            n = rng.randrange(0, 40)
        d = bytes(rng.choice([0, 0, 255, 1, 10, 100, rng.randrange(256)]) for _ in range(n))
        yield 'dmxv %s' % (d.hex() if d else '-')
    # ---- IPv4, socket address, IPv6, CID -----------------------------------------------------------
    for i in range(1200 * m):
        yield 'ip4 %s' % hx(ip4_text(rng))
    for i in range(500 * m):
        yield 'ip4v %s' % bytes(rng.choice([0, 1, 9, 10, 99, 100, 255, rng.randrange(256)]) for _ in range(4)).hex()
    for i in range(1500 * m):
        r = rng.random()
        if r < 0.85:
            t = ip4_text(rng) + ':' + port_text(rng)
        elif r < 0.93:
            t = ip4_text(rng)
        else:
            t = rng.choice(['', ':', '::', ':80', 'foo', 'foo:80', '1.2.3.4:', '1.2.3.4::80', '1.2.3.4:80:', ' 1.2.3.4:80'])
        yield 'sa %s' % hx(t)
    for i in range(600 * m):
        a = bytes(rng.choice([0, 1, 10, 127, 255, rng.randrange(256)]) for _ in range(4)).hex()
        yield 'sav %s %d' % (a, rng.choice([0, 1, 9, 10, 80, 65535, 65534, 32768, rng.randrange(65536)]))
    for ws in ip6_values(rng, 600 * m):
        yield 'ip6v %s' % ip6_hex(ws)
    for ws in ip6_values(rng, 100 * m):
        yield 'strm ip6 %d %d %d %d %d %s' % (rng.choice([0, 1, 2, 3]), rng.choice([10, 16]), rng.choice([32, 48, 42]),
                                              rng.choice([0, 5, 38, 39, 40, 46, 50]), rng.choice([0, 80, 255, 65535, 1 << 31]),
                                              ip6_hex(ws))
    for i in range(2500 * m):
        yield 'ip6 %s' % hx(ip6_text(rng))
    for i in range(800 * m):
        yield 'cid %s' % hx(cid_text(rng))
    for i in range(400 * m):
        bs = rng.choice([None, bytes(16), bytes([255] * 16)]) or bytes(rng.randrange(256) for _ in range(16))
        yield 'cidv %s' % bs.hex()
    # ---- StringSplit / StringTrim --------------------------------------------------------------
    for i in range(600 * m):
        alphabet = rng.choice(['a:.', 'ab, ', '0:1.', 'x\0:'])
        t = ''.join(rng.choice(alphabet) for _ in range(rng.choice([0, 1, 2, 3, 5, 9, 17])))
        yield 'split %s %s' % (hx(rng.choice([':', ',', ':.', '.', '\0', ' ,'])), hx(t))
    for i in range(400 * m):
        t = ''.join(rng.choice(' \t\n\rab\v\f\0') for _ in range(rng.choice([0, 1, 2, 3, 5, 9])))
        yield 'trim %s' % hx(t)


def nontrivial(payload, md):
    if md.get('ok') == '1' or md.get('pok') == '1' or md.get('rt') == '1' or md.get('eq') == '1' or 'pure' in md or 'mis' in md:
        return True
    op = payload.split(' ', 1)[0]
    if op == 'dirty':
        op = payload.split(' ')[2]
    if op == 'reprint':
        return md.get('s1') != md.get('s2')
    if op == 'dmxseq':
        return any(k.startswith('d') and v != '-' for k, v in md.items())
    if op in ('dmx', 'dmxv'):
        return md.get('d', md.get('back', '-')) != '-'
    if op in ('strtoull', 'strtoul', 'strtoll', 'strtol'):
        return md.get('lend', '0') != '0'
    if op == 'cid':
        return md.get('nil') == '0'
    if op == 'split':
        return md.get('n', '1') != '1'
    return False
