// C14 exporter: loads the shipped PID store with the REAL loader (RootPidStore::LoadFromDirectory,
// strict validation) and prints every GET/SET request/response descriptor as a Gallina term.
// usage: exporter <data dir> <out PidDescs.v> <out listing.tsv>
#include <stdio.h>
#include <map>
#include <memory>
#include <string>
#include <iostream>
#include <sstream>
#include <set>
#include <vector>
#include "ola/messaging/Descriptor.h"
#include "ola/rdm/UID.h"
#define private public
#include "ola/rdm/PidStore.h"
#include "common/rdm/PidStoreLoader.h"
#include "ola/messaging/Message.h"
#include "ola/rdm/MessageSerializer.h"
#undef private
#include "ola/rdm/RDMCommandSerializer.h"
#include "ola/Logging.h"
#include <dirent.h>
#include <fstream>
#include <algorithm>
#include <google/protobuf/io/zero_copy_stream_impl.h>
#include <google/protobuf/text_format.h>
#include "common/rdm/Pids.pb.h"
#include "c14_desc.h"

using ola::rdm::PidDescriptor;
using ola::rdm::PidStore;
using ola::rdm::RootPidStore;
using std::string;
using std::vector;

static string name_bytes(const string &s) {
  std::ostringstream o;
  o << "[";
  for (size_t i = 0; i < s.size(); i++) o << (i ? ";" : "") << static_cast<unsigned>(static_cast<uint8_t>(s[i]));
  o << "]";
  return o.str();
}

// ---- the data files as the real protobuf text parser reads them, printed as a Gallina AST ----
static void print_field(std::ostringstream *o, const ola::rdm::pid::Field &f) {
  *o << "PF " << static_cast<int>(f.type()) << " ";
  if (f.has_min_size()) *o << "(Some " << f.min_size() << ") "; else *o << "None ";
  if (f.has_max_size()) *o << "(Some " << f.max_size() << ") "; else *o << "None ";
  *o << "[";
  for (int i = 0; i < f.field_size(); i++) { if (i) *o << "; "; print_field(o, f.field(i)); }
  *o << "]";
}
static void print_frame(std::ostringstream *o, bool has, const ola::rdm::pid::FrameFormat &fr) {
  if (!has) { *o << "None"; return; }
  *o << "Some [";
  for (int i = 0; i < fr.field_size(); i++) { if (i) *o << "; "; print_field(o, fr.field(i)); }
  *o << "]";
}
template <typename T>
static void print_block(std::ostringstream *o, const T &blk) {
  *o << "[";
  for (int i = 0; i < blk.pid_size(); i++) {
    const ola::rdm::pid::Pid &p = blk.pid(i);
    *o << (i ? ";\n    " : "\n    ") << "(" << name_bytes(p.name()) << ", " << p.value() << ", [";
    print_frame(o, p.has_get_request(), p.get_request()); *o << "; ";
    print_frame(o, p.has_get_response(), p.get_response()); *o << "; ";
    print_frame(o, p.has_set_request(), p.set_request()); *o << "; ";
    print_frame(o, p.has_set_response(), p.set_response()); *o << "])";
  }
  *o << "]";
}
// merges the PID files of the directory exactly as PidStoreLoader::LoadFromDirectory does
static bool print_proto(const char *dir, FILE *v) {
  std::vector<string> files;
  DIR *dp = opendir(dir);
  if (!dp) return false;
  while (struct dirent *e = readdir(dp)) {
    string n = e->d_name;
    if (n.size() > 6 && n.substr(n.size() - 6) == ".proto" && n != "overrides.proto" &&
        n != "manufacturer_names.proto")
      files.push_back(string(dir) + "/" + n);
  }
  closedir(dp);
  std::sort(files.begin(), files.end());
  ola::rdm::pid::PidStore pb;
  for (size_t i = 0; i < files.size(); i++) {
    std::ifstream in(files[i].c_str());
    google::protobuf::io::IstreamInputStream is(&in);
    if (!google::protobuf::TextFormat::Merge(&is, &pb)) return false;
  }
  std::ostringstream o;
  o << "Definition shipped_proto : pstore :=\n  (";
  print_block(&o, pb);
  o << ",\n   [";
  for (int m = 0; m < pb.manufacturer_size(); m++) {
    o << (m ? ";\n    " : "") << "(" << pb.manufacturer(m).manufacturer_id() << ", ";
    print_block(&o, pb.manufacturer(m));
    o << ")";
  }
  o << "]).\n";
  fprintf(v, "(* the PID files of data/rdm merged by the real protobuf text parser (what LoadFromProto gets) *)\n%s",
          o.str().c_str());
  fprintf(v, "Definition FIELD_TYPE_CODES : list N := [%d; %d; %d; %d; %d; %d; %d; %d; %d; %d; %d; %d; %d; %d; %d].\n",
          ola::rdm::pid::BOOL, ola::rdm::pid::UINT8, ola::rdm::pid::UINT16, ola::rdm::pid::UINT32,
          ola::rdm::pid::STRING, ola::rdm::pid::GROUP, ola::rdm::pid::INT8, ola::rdm::pid::INT16,
          ola::rdm::pid::INT32, ola::rdm::pid::IPV4, ola::rdm::pid::UID, ola::rdm::pid::MAC,
          ola::rdm::pid::IPV6, ola::rdm::pid::UINT64, ola::rdm::pid::INT64);
  return true;
}

int main(int argc, char **argv) {
  if (argc < 4) return 2;
  ola::InitLogging(ola::OLA_LOG_WARN, ola::OLA_LOG_STDERR);
  std::auto_ptr<const RootPidStore> store(RootPidStore::LoadFromDirectory(argv[1], true));
  if (!store.get()) {
    fprintf(stderr, "LOAD-FAILED: RootPidStore::LoadFromDirectory(%s) returned NULL\n", argv[1]);
    return 3;
  }
  FILE *v = fopen(argv[2], "w");
  FILE *tsv = fopen(argv[3], "w");
  if (!v || !tsv) return 4;
  // (manufacturer id, store); the ESTA store is exported under manufacturer id 0, as the loader keeps it
  vector<std::pair<unsigned, const PidStore*> > stores;
  stores.push_back(std::make_pair(0u, store->EstaStore()));
  RootPidStore::ManufacturerMap::const_iterator it = store->m_manufacturer_store.begin();
  for (; it != store->m_manufacturer_store.end(); ++it)
    stores.push_back(std::make_pair(static_cast<unsigned>(it->first), it->second));

  fprintf(v, "(* REGENERATED on every run by props/C14/exporter.cpp from the PID store that the real\n"
             "   RootPidStore::LoadFromDirectory builds from data/rdm. Do not edit. *)\n"
             "From Coq Require Import List NArith ZArith.\nFrom C14 Require Import Model Loader.\n"
             "Import ListNotations.\nLocal Open Scope N_scope.\n\n");
  std::ostringstream all, pids;
  unsigned n_desc = 0, n_pid = 0;
  for (size_t s = 0; s < stores.size(); s++) {
    if (!stores[s].second) continue;
    vector<const PidDescriptor*> list;
    stores[s].second->AllPids(&list);
    unsigned by_name = stores[s].second->m_pid_by_name.size();
    fprintf(tsv, "S\t%u\t%u\t%u\n", stores[s].first, static_cast<unsigned>(list.size()), by_name);
    for (size_t p = 0; p < list.size(); p++) {
      const PidDescriptor *pd = list[p];
      pids << (n_pid++ ? ";\n  " : "  ") << "(" << stores[s].first << ", " << pd->Value() << ", "
           << name_bytes(pd->Name()) << ")";
      const ola::messaging::Descriptor *ds[4] = {pd->GetRequest(), pd->GetResponse(),
                                                 pd->SetRequest(), pd->SetResponse()};
      for (int k = 0; k < 4; k++) {
        if (!ds[k]) continue;
        all << (n_desc++ ? ";\n  " : "  ") << "((" << stores[s].first << ", " << pd->Value() << ", " << k
            << "), " << c14::desc_str(ds[k], true) << ")";
        fprintf(tsv, "D\t%u\t%u\t%d\t%s\t%s\n", stores[s].first, pd->Value(), k,
                c14::desc_str(ds[k]).c_str(), pd->Name().c_str());
      }
    }
  }
  fprintf(v, "(* ((manufacturer id (0 = ESTA), PID value, 0 GET request | 1 GET response | 2 SET request |\n"
             "    3 SET response), top-level fields) *)\n"
             "Definition all : list ((N * N * N) * list fd) := [\n%s\n].\n\n", all.str().c_str());
  fprintf(v, "(* every PidDescriptor of every store: (manufacturer id, PID value, name as bytes) *)\n"
             "Definition pids : list (N * N * list N) := [\n%s\n].\n\n", pids.str().c_str());
  // constants the model / theorems mention
  fprintf(v, "Definition ESTA_MANUFACTURER_ID : N := %u.\nDefinition MANUFACTURER_PID_MIN : N := %u.\n"
             "Definition MANUFACTURER_PID_MAX : N := %u.\nDefinition UNLIMITED_BLOCKS : Z := (%d)%%Z.\n"
             "Definition INITIAL_BUFFER_SIZE : N := %u.\nDefinition MAX_PARAM_DATA_LENGTH : N := %u.\n"
             "Definition SIZE_IPV4 : N := %u.\nDefinition SIZE_IPV6 : N := %u.\nDefinition SIZE_MAC : N := %u.\n"
             "Definition SIZE_UID : N := %u.\n",
          static_cast<unsigned>(ola::rdm::PidStoreLoader::ESTA_MANUFACTURER_ID),
          static_cast<unsigned>(ola::rdm::PidStoreLoader::MANUFACTURER_PID_MIN),
          static_cast<unsigned>(ola::rdm::PidStoreLoader::MANUFACTURER_PID_MAX),
          static_cast<int>(ola::messaging::FieldDescriptorGroup::UNLIMITED_BLOCKS),
          static_cast<unsigned>(ola::rdm::MessageSerializer::INITIAL_BUFFER_SIZE),
          static_cast<unsigned>(ola::rdm::RDMCommandSerializer::MAX_PARAM_DATA_LENGTH),
          static_cast<unsigned>(ola::network::IPV4Address::LENGTH),
          static_cast<unsigned>(ola::network::IPV6Address::LENGTH),
          static_cast<unsigned>(ola::network::MACAddress::LENGTH),
          static_cast<unsigned>(ola::rdm::UID::LENGTH));
  fprintf(v, "Definition n_descriptors : N := %u.\nDefinition n_pids : N := %u.\n", n_desc, n_pid);
  // per store: number of descriptors by value and by name (the two indexes of PidStore)
  fprintf(v, "Definition store_index_sizes : list (N * N * N) := [");
  bool first = true;
  for (size_t s = 0; s < stores.size(); s++) {
    if (!stores[s].second) continue;
    fprintf(v, "%s(%u, %u, %u)", first ? "" : "; ", stores[s].first,
            static_cast<unsigned>(stores[s].second->m_pid_by_value.size()),
            static_cast<unsigned>(stores[s].second->m_pid_by_name.size()));
    first = false;
  }
  fprintf(v, "].\n");
  if (!print_proto(argv[1], v)) {
    fprintf(stderr, "LOAD-FAILED: the data files do not parse as protobuf text\n");
    return 5;
  }
  fclose(v);
  fclose(tsv);
  return 0;
}
