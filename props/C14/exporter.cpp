// C14 exporter: loads the shipped PID store with the REAL loader (RootPidStore::LoadFromDirectory,
// strict validation) and prints every GET/SET request/response descriptor as a Gallina term.
// usage: exporter <data dir> <out PidDescs.v> <out listing.tsv>
#include <stdio.h>
#include <map>
#include <memory>
#include <string>
#include <iostream>
#include <sstream>
#include <set>
#include <vector>
#include "ola/messaging/Descriptor.h"
#include "ola/rdm/UID.h"
#define private public
#include "ola/rdm/PidStore.h"
#undef private
#include "ola/Logging.h"
#include "c14_desc.h"

using ola::rdm::PidDescriptor;
using ola::rdm::PidStore;
using ola::rdm::RootPidStore;
using std::string;
using std::vector;

static string name_bytes(const string &s) {
  std::ostringstream o;
  o << "[";
  for (size_t i = 0; i < s.size(); i++) o << (i ? ";" : "") << static_cast<unsigned>(static_cast<uint8_t>(s[i]));
  o << "]";
  return o.str();
}

int main(int argc, char **argv) {
  if (argc < 4) return 2;
  ola::InitLogging(ola::OLA_LOG_WARN, ola::OLA_LOG_STDERR);
  std::auto_ptr<const RootPidStore> store(RootPidStore::LoadFromDirectory(argv[1], true));
  if (!store.get()) {
    fprintf(stderr, "LOAD-FAILED: RootPidStore::LoadFromDirectory(%s) returned NULL\n", argv[1]);
    return 3;
  }
  FILE *v = fopen(argv[2], "w");
  FILE *tsv = fopen(argv[3], "w");
  if (!v || !tsv) return 4;
  // (manufacturer id, store); the ESTA store is exported under manufacturer id 0, as the loader keeps it
  vector<std::pair<unsigned, const PidStore*> > stores;
  stores.push_back(std::make_pair(0u, store->EstaStore()));
  RootPidStore::ManufacturerMap::const_iterator it = store->m_manufacturer_store.begin();
  for (; it != store->m_manufacturer_store.end(); ++it)
    stores.push_back(std::make_pair(static_cast<unsigned>(it->first), it->second));

  fprintf(v, "(* REGENERATED on every run by props/C14/exporter.cpp from the PID store that the real\n"
             "   RootPidStore::LoadFromDirectory builds from data/rdm. Do not edit. *)\n"
             "From Coq Require Import List NArith ZArith.\nFrom C14 Require Import Model.\n"
             "Import ListNotations.\nLocal Open Scope N_scope.\n\n");
  std::ostringstream all, pids;
  unsigned n_desc = 0, n_pid = 0;
  for (size_t s = 0; s < stores.size(); s++) {
    if (!stores[s].second) continue;
    vector<const PidDescriptor*> list;
    stores[s].second->AllPids(&list);
    unsigned by_name = stores[s].second->m_pid_by_name.size();
    fprintf(tsv, "S\t%u\t%u\t%u\n", stores[s].first, static_cast<unsigned>(list.size()), by_name);
    for (size_t p = 0; p < list.size(); p++) {
      const PidDescriptor *pd = list[p];
      pids << (n_pid++ ? ";\n  " : "  ") << "(" << stores[s].first << ", " << pd->Value() << ", "
           << name_bytes(pd->Name()) << ")";
      const ola::messaging::Descriptor *ds[4] = {pd->GetRequest(), pd->GetResponse(),
                                                 pd->SetRequest(), pd->SetResponse()};
      for (int k = 0; k < 4; k++) {
        if (!ds[k]) continue;
        all << (n_desc++ ? ";\n  " : "  ") << "((" << stores[s].first << ", " << pd->Value() << ", " << k
            << "), " << c14::desc_str(ds[k], true) << ")";
        fprintf(tsv, "D\t%u\t%u\t%d\t%s\t%s\n", stores[s].first, pd->Value(), k,
                c14::desc_str(ds[k]).c_str(), pd->Name().c_str());
      }
    }
  }
  fprintf(v, "(* ((manufacturer id (0 = ESTA), PID value, 0 GET request | 1 GET response | 2 SET request |\n"
             "    3 SET response), top-level fields) *)\n"
             "Definition all : list ((N * N * N) * list fd) := [\n%s\n].\n\n", all.str().c_str());
  fprintf(v, "(* every PidDescriptor of every store: (manufacturer id, PID value, name as bytes) *)\n"
             "Definition pids : list (N * N * list N) := [\n%s\n].\n\n", pids.str().c_str());
  fprintf(v, "Definition n_descriptors : N := %u.\nDefinition n_pids : N := %u.\n", n_desc, n_pid);
  // per store: number of descriptors by value and by name (the two indexes of PidStore)
  fprintf(v, "Definition store_index_sizes : list (N * N * N) := [");
  bool first = true;
  for (size_t s = 0; s < stores.size(); s++) {
    if (!stores[s].second) continue;
    fprintf(v, "%s(%u, %u, %u)", first ? "" : "; ", stores[s].first,
            static_cast<unsigned>(stores[s].second->m_pid_by_value.size()),
            static_cast<unsigned>(stores[s].second->m_pid_by_name.size()));
    first = false;
  }
  fprintf(v, "].\n");
  fclose(v);
  fclose(tsv);
  return 0;
}
