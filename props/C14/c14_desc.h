// C14: canonical text form of descriptors and messages, shared by the exporter and the harness.
// Descriptor syntax (no spaces): fields separated by ','; "-" is the empty descriptor.
//   b | u8 u16 u32 u64 i8 i16 i32 i64 (suffix l = little endian) | ip4 | ip6 | mac | uid
//   s<min>:<max> | g<min>:<max>[<fields>]      (max = -1: unlimited)
#ifndef VERIF_PROPS_C14_DESC_H_
#define VERIF_PROPS_C14_DESC_H_
#include <stdint.h>
#include <sstream>
#include <string>
#include <vector>
#include "ola/messaging/Descriptor.h"
#include "ola/messaging/DescriptorVisitor.h"
#include "ola/messaging/Message.h"
#include "ola/messaging/MessageVisitor.h"
#include "ola/network/IPV4Address.h"
#include "ola/rdm/UID.h"

namespace c14 {
using namespace ola::messaging;  // NOLINT

// ---- descriptor -> text / Gallina (Descend() is false: groups are walked here) ----
class DescPrinter : public FieldDescriptorVisitor {
 public:
  explicit DescPrinter(bool gallina) : m_gallina(gallina), m_first(true) {}
  bool Descend() const { return false; }
  std::string Str() const { return m_out.str(); }

  void Visit(const BoolFieldDescriptor*) { Atom("b", "FBool"); }
  void Visit(const IPV4FieldDescriptor*) { Atom("ip4", "FIPv4"); }
  void Visit(const IPV6FieldDescriptor*) { Atom("ip6", "FIPv6"); }
  void Visit(const MACFieldDescriptor*) { Atom("mac", "FMAC"); }
  void Visit(const UIDFieldDescriptor*) { Atom("uid", "FUID"); }
  void Visit(const StringFieldDescriptor *d) {
    std::ostringstream t, g;
    t << "s" << d->MinSize() << ":" << d->MaxSize();
    g << "FString " << d->MinSize() << " " << d->MaxSize();
    Atom(t.str(), g.str());
  }
  void Visit(const UInt8FieldDescriptor *d) { Int(1, false, d->IsLittleEndian()); }
  void Visit(const UInt16FieldDescriptor *d) { Int(2, false, d->IsLittleEndian()); }
  void Visit(const UInt32FieldDescriptor *d) { Int(4, false, d->IsLittleEndian()); }
  void Visit(const UInt64FieldDescriptor *d) { Int(8, false, d->IsLittleEndian()); }
  void Visit(const Int8FieldDescriptor *d) { Int(1, true, d->IsLittleEndian()); }
  void Visit(const Int16FieldDescriptor *d) { Int(2, true, d->IsLittleEndian()); }
  void Visit(const Int32FieldDescriptor *d) { Int(4, true, d->IsLittleEndian()); }
  void Visit(const Int64FieldDescriptor *d) { Int(8, true, d->IsLittleEndian()); }
  void Visit(const FieldDescriptorGroup *d) {
    Sep();
    if (m_gallina) {
      m_out << "FGroup " << d->MinBlocks() << " (" << static_cast<int>(d->MaxBlocks()) << ")%Z [";
    } else {
      m_out << "g" << d->MinBlocks() << ":" << static_cast<int>(d->MaxBlocks()) << "[";
    }
    bool saved = m_first;
    m_first = true;
    for (unsigned int i = 0; i < d->FieldCount(); ++i)
      d->GetField(i)->Accept(this);
    m_first = saved;
    m_out << "]";
    m_first = false;
  }
  void PostVisit(const FieldDescriptorGroup*) {}

 private:
  bool m_gallina, m_first;
  std::ostringstream m_out;
  void Sep() { if (!m_first) m_out << (m_gallina ? "; " : ","); }
  void Atom(const std::string &t, const std::string &g) {
    Sep();
    m_out << (m_gallina ? g : t);
    m_first = false;
  }
  void Int(int w, bool sg, bool le) {
    std::ostringstream t, g;
    t << (sg ? "i" : "u") << 8 * w << (le ? "l" : "");
    g << "FInt " << w << " " << (sg ? "true" : "false") << " " << (le ? "true" : "false");
    Atom(t.str(), g.str());
  }
};

inline std::string desc_str(const Descriptor *d, bool gallina = false) {
  DescPrinter p(gallina);
  d->Accept(&p);   // Descriptor::Accept visits the top-level fields only
  std::string s = p.Str();
  if (gallina) return "[" + s + "]";
  return s.empty() ? "-" : s;
}

// ---- descriptor -> protobuf text format (fields of a FrameFormat), for generated overrides.proto
class ProtoPrinter : public FieldDescriptorVisitor {
 public:
  bool Descend() const { return false; }
  std::string Str() const { return m_out.str(); }
  void Visit(const BoolFieldDescriptor*) { Simple("BOOL"); }
  void Visit(const IPV4FieldDescriptor*) { Simple("IPV4"); }
  void Visit(const IPV6FieldDescriptor*) { Simple("IPV6"); }
  void Visit(const MACFieldDescriptor*) { Simple("MAC"); }
  void Visit(const UIDFieldDescriptor*) { Simple("UID"); }
  void Visit(const StringFieldDescriptor *d) {
    m_out << "field { type: STRING name: \"f\" min_size: " << d->MinSize() << " max_size: " << d->MaxSize() << " } ";
  }
  void Visit(const UInt8FieldDescriptor*) { Simple("UINT8"); }
  void Visit(const UInt16FieldDescriptor*) { Simple("UINT16"); }
  void Visit(const UInt32FieldDescriptor*) { Simple("UINT32"); }
  void Visit(const UInt64FieldDescriptor*) { Simple("UINT64"); }
  void Visit(const Int8FieldDescriptor*) { Simple("INT8"); }
  void Visit(const Int16FieldDescriptor*) { Simple("INT16"); }
  void Visit(const Int32FieldDescriptor*) { Simple("INT32"); }
  void Visit(const Int64FieldDescriptor*) { Simple("INT64"); }
  void Visit(const FieldDescriptorGroup *d) {
    m_out << "field { type: GROUP name: \"g\" min_size: " << d->MinBlocks();
    if (d->MaxBlocks() != FieldDescriptorGroup::UNLIMITED_BLOCKS) m_out << " max_size: " << d->MaxBlocks();
    m_out << " ";
    for (unsigned int i = 0; i < d->FieldCount(); ++i) d->GetField(i)->Accept(this);
    m_out << "} ";
  }
  void PostVisit(const FieldDescriptorGroup*) {}
 private:
  std::ostringstream m_out;
  void Simple(const char *t) { m_out << "field { type: " << t << " name: \"f\" } "; }
};
inline std::string proto_fields(const Descriptor *d) {
  ProtoPrinter p;
  d->Accept(&p);
  return p.Str();
}

// ---- text -> descriptor (synthetic descriptors of the generator) ----
struct DescParser {
  const std::string &s;
  size_t i;
  bool ok;
  explicit DescParser(const std::string &str) : s(str), i(0), ok(true) {}
  long Num() {
    bool neg = false;
    if (i < s.size() && s[i] == '-') { neg = true; i++; }
    long v = 0;
    bool any = false;
    while (i < s.size() && s[i] >= '0' && s[i] <= '9') { v = v * 10 + (s[i++] - '0'); any = true; }
    if (!any) ok = false;
    return neg ? -v : v;
  }
  bool Eat(const char *lit) {
    size_t n = strlen(lit);
    if (s.compare(i, n, lit) == 0) { i += n; return true; }
    return false;
  }
  template <typename D> const FieldDescriptor *MkInt() {
    bool le = Eat("l");
    return new D("f", le, 0);
  }
  const FieldDescriptor *Field() {
    if (Eat("ip4")) return new IPV4FieldDescriptor("f");
    if (Eat("ip6")) return new IPV6FieldDescriptor("f");
    if (Eat("mac")) return new MACFieldDescriptor("f");
    if (Eat("uid")) return new UIDFieldDescriptor("f");
    if (Eat("u8")) return MkInt<UInt8FieldDescriptor>();
    if (Eat("u16")) return MkInt<UInt16FieldDescriptor>();
    if (Eat("u32")) return MkInt<UInt32FieldDescriptor>();
    if (Eat("u64")) return MkInt<UInt64FieldDescriptor>();
    if (Eat("i8")) return MkInt<Int8FieldDescriptor>();
    if (Eat("i16")) return MkInt<Int16FieldDescriptor>();
    if (Eat("i32")) return MkInt<Int32FieldDescriptor>();
    if (Eat("i64")) return MkInt<Int64FieldDescriptor>();
    if (Eat("b")) return new BoolFieldDescriptor("f");
    if (Eat("s")) {
      long mn = Num(); if (!Eat(":")) ok = false; long mx = Num();
      return new StringFieldDescriptor("f", static_cast<uint8_t>(mn), static_cast<uint8_t>(mx));
    }
    if (Eat("g")) {
      long mn = Num(); if (!Eat(":")) ok = false; long mx = Num();
      if (!Eat("[")) ok = false;
      std::vector<const FieldDescriptor*> fs = Fields(']');
      if (!Eat("]")) ok = false;
      return new FieldDescriptorGroup("g", fs, static_cast<uint16_t>(mn), static_cast<int16_t>(mx));
    }
    ok = false;
    return NULL;
  }
  std::vector<const FieldDescriptor*> Fields(char end) {
    std::vector<const FieldDescriptor*> out;
    if (i >= s.size() || s[i] == end) return out;
    while (ok) {
      const FieldDescriptor *f = Field();
      if (!f) break;
      out.push_back(f);
      if (!Eat(",")) break;
    }
    return out;
  }
};

inline const Descriptor *parse_desc(const std::string &s) {
  std::vector<const FieldDescriptor*> fs;
  if (s != "-") {
    DescParser p(s);
    fs = p.Fields('\0');
    if (!p.ok || p.i != s.size()) {
      for (size_t k = 0; k < fs.size(); k++) delete fs[k];
      return NULL;
    }
  }
  return new Descriptor("", fs);
}

// ---- message -> text ----
inline std::string hexs(const uint8_t *d, size_t n) {
  static const char *digits = "0123456789abcdef";
  std::string s;
  for (size_t i = 0; i < n; i++) { s.push_back(digits[d[i] >> 4]); s.push_back(digits[d[i] & 15]); }
  return s;
}

class MsgPrinter : public MessageVisitor {
 public:
  MsgPrinter() : m_first(true) {}
  std::string Str() const { return m_out.str().empty() ? "-" : m_out.str(); }
  void Visit(const BoolMessageField *m) { Sep(); m_out << "b" << (m->Value() ? 1 : 0); }
  void Visit(const IPV4MessageField *m) {
    uint32_t v = m->Value().AsInt();
    Sep(); m_out << "ip4:" << hexs(reinterpret_cast<const uint8_t*>(&v), 4);
  }
  void Visit(const IPV6MessageField *m) {
    uint8_t b[16]; m->Value().Get(b);
    Sep(); m_out << "ip6:" << hexs(b, 16);
  }
  void Visit(const MACMessageField *m) {
    uint8_t b[6]; m->Value().Get(b);
    Sep(); m_out << "mac:" << hexs(b, 6);
  }
  void Visit(const UIDMessageField *m) {
    Sep(); m_out << "uid:" << m->Value().ManufacturerId() << ":" << m->Value().DeviceId();
  }
  void Visit(const StringMessageField *m) {
    const std::string &v = m->Value();
    Sep(); m_out << "s:" << hexs(reinterpret_cast<const uint8_t*>(v.data()), v.size());
  }
  void Visit(const BasicMessageField<uint8_t> *m) { Sep(); m_out << "u8:" << static_cast<unsigned>(m->Value()); }
  void Visit(const BasicMessageField<uint16_t> *m) { Sep(); m_out << "u16:" << m->Value(); }
  void Visit(const BasicMessageField<uint32_t> *m) { Sep(); m_out << "u32:" << m->Value(); }
  void Visit(const BasicMessageField<uint64_t> *m) { Sep(); m_out << "u64:" << m->Value(); }
  void Visit(const BasicMessageField<int8_t> *m) { Sep(); m_out << "i8:" << static_cast<int>(m->Value()); }
  void Visit(const BasicMessageField<int16_t> *m) { Sep(); m_out << "i16:" << m->Value(); }
  void Visit(const BasicMessageField<int32_t> *m) { Sep(); m_out << "i32:" << m->Value(); }
  void Visit(const BasicMessageField<int64_t> *m) { Sep(); m_out << "i64:" << m->Value(); }
  void Visit(const GroupMessageField*) { Sep(); m_out << "["; m_first = true; }
  void PostVisit(const GroupMessageField*) { m_out << "]"; m_first = false; }

 private:
  bool m_first;
  std::ostringstream m_out;
  void Sep() { if (!m_first) m_out << ","; m_first = false; }
};

inline std::string msg_str(const Message *m) {
  MsgPrinter p;
  m->Accept(&p);
  return p.Str();
}
}  // namespace c14
#endif  // VERIF_PROPS_C14_DESC_H_
