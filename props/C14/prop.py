ID = 'C14'
CXX_SOURCES = []
GROUPS = ['common']
COQ_TIMEOUT = 1500
PROC_TIMEOUT = 1500

import os
import re
import shutil
import subprocess

_TSV = None


class _ExporterCfg:
    GROUPS = ['common']
    CXX_SOURCES = []
    HARNESS_SOURCES = ['exporter.cpp']


def gen_consts(v):
    """Regenerate coq/PidDescs.v: compile props/C14/exporter.cpp against the repository's working tree
    (same objects as the harness) and let the REAL RootPidStore::LoadFromDirectory load data/rdm."""
    global _TSV
    exe, err = v.build_harness(ID, _ExporterCfg)
    if exe is None:
        return 'exporter build failed: ' + err
    bdir = os.path.join(v.BUILD, ID)
    exporter = os.path.join(bdir, 'exporter')
    shutil.copy(exe, exporter)
    out_v = os.path.join(bdir, 'PidDescs.v.new')
    tsv = os.path.join(bdir, 'descs.tsv')
    data = os.path.join(v.REPO, 'data', 'rdm')
    p = subprocess.run([exporter, data, out_v, tsv], stdout=subprocess.PIPE, stderr=subprocess.PIPE, timeout=300)
    if p.returncode != 0:
        return ('the shipped PID data does not load (RootPidStore::LoadFromDirectory(%s) failed, rc=%d): %s'
                % (data, p.returncode, p.stderr.decode(errors='replace')[-1500:]))
    new = open(out_v).read()
    dst = os.path.join(v.VERIF, 'props', ID, 'coq', 'PidDescs.v')
    old = open(dst).read() if os.path.exists(dst) else None
    if new != old:
        with open(dst, 'w') as f:
            f.write(new)
    _TSV = tsv
    # independent reading of the data files (Python text-format reader below) vs what the loader built
    err = _compare_with_data_files(data, tsv)
    if err:
        return 'PidStoreLoader output differs from an independent reading of data/rdm: ' + err
    return None


# ---------------------------------------------------------------- independent reader of data/rdm/*.proto
_TOK = re.compile(r'\s+|#[^\n]*|([A-Za-z_][A-Za-z0-9_]*)|(-?\d+)|"((?:[^"\\\\]|\\\\.)*)"|([{}:])')


def _pb_text(txt):
    """protobuf text format -> nested [(key, value)] lists (value: str | int | list)"""
    toks = []
    pos = 0
    while pos < len(txt):
        m = _TOK.match(txt, pos)
        if not m:
            raise ValueError('bad text format at %d: %r' % (pos, txt[pos:pos + 30]))
        pos = m.end()
        if m.group(1) is not None: toks.append(('id', m.group(1)))
        elif m.group(2) is not None: toks.append(('num', int(m.group(2))))
        elif m.group(3) is not None: toks.append(('str', m.group(3)))
        elif m.group(4) is not None: toks.append((m.group(4), None))
    i = [0]

    def block(top):
        out = []
        while i[0] < len(toks):
            k, v = toks[i[0]]
            if k == '}':
                if top: raise ValueError('unbalanced }')
                i[0] += 1
                return out
            if k != 'id': raise ValueError('key expected')
            i[0] += 1
            k2, v2 = toks[i[0]]
            if k2 == ':':
                i[0] += 1
                k2, v2 = toks[i[0]]
            if k2 == '{':
                i[0] += 1
                out.append((v, block(False)))
            else:
                i[0] += 1
                out.append((v, v2))
        if not top: raise ValueError('unbalanced {')
        return out
    return block(True)


_TYPES = {'BOOL': 'b', 'UINT8': 'u8', 'UINT16': 'u16', 'UINT32': 'u32', 'UINT64': 'u64', 'INT8': 'i8',
          'INT16': 'i16', 'INT32': 'i32', 'INT64': 'i64', 'IPV4': 'ip4', 'IPV6': 'ip6', 'MAC': 'mac', 'UID': 'uid'}


def _field_str(f):
    d = {}
    subs = []
    for k, v in f:
        if k == 'field': subs.append(v)
        elif k in ('type', 'min_size', 'max_size'): d[k] = v
    t = d['type']
    # the loader stores string sizes in uint8_t and block counts in uint16_t / int16_t
    # (the shipped files use max_size: 4294967295 for "as long as it gets", which becomes 255)
    if t == 'STRING':
        return 's%d:%d' % (d.get('min_size', 0) & 255, d['max_size'] & 255)
    if t == 'GROUP':
        mx = d.get('max_size', -1) & 0xffff
        mx = mx - 0x10000 if mx >= 0x8000 else mx
        return 'g%d:%d[%s]' % (d.get('min_size', 0) & 0xffff, mx, ','.join(_field_str(x) for x in subs))
    return _TYPES[t]


def _frame_str(fr):
    fs = [_field_str(v) for k, v in fr if k == 'field']
    return ','.join(fs) if fs else '-'


def _compare_with_data_files(data, tsv):
    expect = {}      # (man, pid, kind) -> set of descriptor strings the files give
    kinds = {'get_request': 0, 'get_response': 1, 'set_request': 2, 'set_response': 3}

    def add_pids(man, items):
        for k, v in items:
            if k != 'pid':
                continue
            val = [x for kk, x in v if kk == 'value'][0]
            for kk, x in v:
                if kk in kinds:
                    expect.setdefault((man, val, kinds[kk]), set()).add(_frame_str(x))
    try:
        for fn in sorted(os.listdir(data)):
            if not fn.endswith('.proto') or fn in ('manufacturer_names.proto', 'overrides.proto'):
                continue
            tree = _pb_text(open(os.path.join(data, fn), encoding='utf-8', errors='replace').read())
            add_pids(0, tree)
            for k, v in tree:
                if k == 'manufacturer':
                    man = [x for kk, x in v if kk == 'manufacturer_id'][0]
                    add_pids(man, v)
    except Exception as e:       # the reader is an aid: an unreadable file is reported, not ignored
        return 'independent reader failed: %r' % (e,)
    got = {}
    for line in open(tsv):
        f = line.rstrip('\n').split('\t')
        if f[0] == 'D':
            got[(int(f[1]), int(f[2]), int(f[3]))] = f[4]
    bad = []
    for key, d in sorted(got.items()):
        if key not in expect:
            bad.append('loader has %s=%s, not in the data files' % (key, d))
        elif d not in expect[key]:
            bad.append('%s: loader built %s, data files say %s' % (key, d, sorted(expect[key])))
    for key in sorted(expect):
        if key not in got:
            bad.append('%s (%s) is in the data files but not in the loaded store' % (key, sorted(expect[key])))
    return '; '.join(bad[:5]) if bad else None


RULE = ('every descriptor the real loader exports (ESTA + manufacturer, GET/SET request/response) x payload '
        'lengths 0-255 (quick: every distinct descriptor shape x all lengths, every descriptor x its boundary '
        'lengths; thorough: every descriptor x every length) x {zeros, 0xff, ramp, random, NULs at the '
        'first/middle/last byte of every string field, boolean bytes 0/1/2/255} + synthetic descriptors '
        '(nested groups, little endian, limited groups, ill-formed ones); every accepted case is re-encoded twice: '
        'by a fresh MessageSerializer and by ONE serializer shared by the whole run whose buffer was just '
        'filled with 0xff by another message (key shared), both must equal the model; likewise every case is decoded by a fresh MessageDeserializer and by ONE '
        'long-lived deserializer (key ldes), and `reload k` operations delete the RootPidStore, disturb the heap, '
        'load data/rdm again and sweep all descriptors x lengths 0-47 with the long-lived deserializer against '
        'a fresh one (key sweep); `look` cases are histories of RootPidStore::ManufacturerStore / GetDescriptor '
        '(by value, by name, with known / unknown / repeated manufacturer ids) on the one long-lived store with '
        'the identity of every result compared (key h), also through the long-lived PidStoreHelper (GetDescriptor, '
        'SupportedPids); every decode/re-encode case additionally goes through PidStoreHelper::DeserializeMessage / '
        'SerializeMessage (key helper); `load k` loads data/rdm through 9 spellings of its path (trailing /, //, '
        '/./, relative, empty = default location) and compares a digest of the whole table (keys ld, dg); '
        '`ldf`: every shipped file alone through RootPidStore::LoadFromFile / PidStoreLoader::LoadFromFile / '
        'LoadFromStream, validate on and off, against an independent reading of that file; `ldo`: the shipped files '
        '(symlinked into a scratch directory) plus a generated overrides.proto (one PID of every multi-PID '
        'manufacturer, ESTA PIDs, new PIDs, new manufacturers, mixtures; or none) through LoadFromDirectory of '
        'RootPidStore and PidStoreLoader and LoadFromStream, validate on and off, against the model table '
        'override_descs/override_pids (key lx + digest; the digest also checks the by-name index); '
        '`seq`: ONE long-lived PidStoreLoader through sequences of loads (shipped directory, single shipped files, '
        'and 8 kinds of texts that must be refused after they already defined clashing PIDs: duplicate value / '
        'name, ESTA value in the manufacturer range, parse error, manufacturer twice, string without max_size, '
        'inconsistent frame), outcome of every load compared (key sq); `many N`: N rounds of every loader entry point in one process under RLIMIT_NOFILE = open descriptors + 24; '
        'every load must succeed with the same table and the number of open descriptors must not change; '
        '`race T R`: R fresh validate=false stores, T threads (own deserializer each) make the first use of every '
        'group-bearing descriptor simultaneously (barrier per item), answers compared with the single-threaded '
        'ones and the store swept again afterwards (probabilistic; a correct tree cannot fail); '
        '`conc T N`: T threads with their own deserializer/serializer decode a fixed work list N times and count '
        'results differing from the single-threaded answers (key conc; races are detected probabilistically, a '
        'correct tree cannot fail) - detection of pointer-keyed caches depends on heap address reuse and is '
        'therefore probabilistic; non-trivial = payload accepted and '
        're-encoded to a non-empty byte string; distinct = distinct model output line')
ASSUMPTIONS = ['operator new does not fail',
               'payloads are exact-size heap copies so ASan reports any read past the supplied length',
               'the PID data directory is the repository\'s data/rdm (PID_DATA_DIR of the checked tree)']
TRUSTED = ['modelled rather than verified: Descriptor.h/.cpp size functions, DescriptorConsistencyChecker, '
           'VariableFieldSizeCalculator::CalculateFieldSize, MessageDeserializer (all Visit methods, CheckForData), '
           'MessageSerializer (all Visit methods as byte lists; CheckForFreeSpace / buffer growth as size bookkeeping '
           'of the code corrected by fixes/01, compared through the harness key cap = m_buffer_size; a reused '
           'serializer as a buffer with arbitrary stale contents, c14_serialize_stateless), ShortenString',
           'that the C++ MessageSerializer object carries no state from one message to the next is validated by '
           'the reuse harness (long-lived serializer dirtied with 0xff before every case), not proved; likewise '
           'that MessageDeserializer keeps nothing but m_variable_field_size between calls (c14_inflate_stateless '
           'covers that member) is validated by the long-lived deserializer + store delete/reload operations',
           'props/C14/exporter.cpp + c14_desc.h print the descriptors the real loader built as Gallina terms '
           '(coq/PidDescs.v, regenerated every run); the harness prints the descriptor it used (key d) and the '
           'model prints the exported one, so a mis-export shows up as a divergence',
           'PidStoreLoader is modelled from the protobuf messages on (coq/Loader.v; the exporter prints the messages '
           'the real text parser produced, c14_loader_model_shipped equates model output and real loader output); '
           'the protobuf text parser itself is trusted; additionally the real loader output (all 1368 descriptors) '
           'is compared with an independent Python reading of data/rdm/*.proto '
           '(prop.py _compare_with_data_files, mirroring the uint8_t/uint16_t/int16_t truncation of sizes); '
           'GroupSizeCalculator is modelled (gcalc) and compared on every case with the payload length as token '
           'count (key gs, internal); PidStoreHelper, StringMessageBuilder and the message printers are outside '
           'the decode/re-encode path and not covered']
SPEC_KEYS = ['h', 'sq', 'many', 'race', 'post', 'ld', 'lx', 'nstores', 'dg', 'conc', 'items', 'helper', 'r', 'ser', 'same', 'again', 'shared', 'ldes', 'sweep', 'n', 'cc', 'specfail', 'ndesc', 'npids', 'load']
# not property-determined (internal): d (descriptor text), cs (calculator state), gs (GroupSizeCalculator state),
# m (message text), cap (m_buffer_size)
INTERNAL_KEYS = []

# ---------------------------------------------------------------- descriptor text -> layout (aiming only)
def _parse(s):
    pos = [0]

    def eat(l):
        if s.startswith(l, pos[0]):
            pos[0] += len(l)
            return True
        return False

    def num():
        m = re.compile(r'-?\d+').match(s, pos[0])
        pos[0] = m.end()
        return int(m.group(0))

    def field():
        for name, size in (('ip4', 4), ('ip6', 16), ('mac', 6), ('uid', 6)):
            if eat(name):
                return ('o', size)
        for name, size in (('u8', 1), ('u16', 2), ('u32', 4), ('u64', 8), ('i8', 1), ('i16', 2), ('i32', 4), ('i64', 8)):
            if eat(name):
                eat('l')
                return ('o', size)
        if eat('b'):
            return ('b', 1)
        if eat('s'):
            mn = num(); eat(':'); mx = num()
            return ('s', mn, mx)
        if eat('g'):
            mn = num(); eat(':'); mx = num(); eat('[')
            fs = fields(']'); eat(']')
            return ('g', mn, mx, fs)
        raise ValueError(s)

    def fields(end):
        out = []
        if pos[0] >= len(s) or s[pos[0]] == end:
            return out
        while True:
            out.append(field())
            if not eat(','):
                return out

    return [] if s == '-' else fields('\0')


def _fixed(f):
    if f[0] == 's':
        return f[1] == f[2]
    if f[0] == 'g':
        return f[1] == f[2] and all(_fixed(x) for x in f[3])
    return True


def _atoms(f, v):
    """flat atoms (kind, size) of a field; v = variable field size"""
    if f[0] in 'ob':
        return [(f[0], f[1])]
    if f[0] == 's':
        return [('s', f[2] if f[1] == f[2] else v)]
    n = f[1] if _fixed(f) else v
    blk = [a for x in f[3] for a in _atoms(x, v)]
    return blk * n


def accepted_lengths(fs, limit=300):
    """{length: atoms} for the lengths a well-formed descriptor accepts (aiming aid, not an oracle)"""
    var = [f for f in fs if not _fixed(f)]
    fsum = sum(sum(a[1] for a in _atoms(f, 0)) for f in fs if _fixed(f))
    out = {}
    if len(var) > 1 or fsum > limit:
        return out
    if not var:
        out[fsum] = [a for f in fs for a in _atoms(f, 0)]
        return out
    g = var[0]
    if g[0] == 's':
        for v in range(g[1], g[2] + 1):
            if fsum + v <= limit:
                out[fsum + v] = [a for f in fs for a in _atoms(f, v)]
        return out
    if not all(_fixed(x) for x in g[3]):
        return out
    bsz = sum(a[1] for x in g[3] for a in _atoms(x, 0))
    if bsz == 0:
        return out
    v = g[1]
    while fsum + v * bsz <= limit and (g[2] == -1 or v <= g[2]) and v < 400:
        out[fsum + v * bsz] = [a for f in fs for a in _atoms(f, v)]
        v += 1
    return out


def hx(bs):
    return ''.join('%02x' % b for b in bs) if bs else '-'


PATTERNS = ['zeros', 'ff', 'ramp', 'rand', 'nul', 'bool']


def fill(rng, L, atoms, pat):
    """payload of L bytes; atoms (if the length is accepted) aim NULs and boolean bytes at the right offsets"""
    if pat == 'zeros':
        return [0] * L
    if pat == 'ff':
        return [255] * L
    if pat == 'ramp':
        return [(i + 1) & 255 for i in range(L)]
    bs = [rng.randrange(1, 256) for _ in range(L)]
    if pat == 'rand':
        return [rng.randrange(256) for _ in range(L)]
    o = 0
    for kind, size in (atoms or []):
        if kind == 's' and size > 0 and pat == 'nul':
            where = rng.choice(['first', 'mid', 'last', 'two', 'none', 'all'])
            if where == 'first': bs[o] = 0
            elif where == 'mid': bs[o + size // 2] = 0
            elif where == 'last': bs[o + size - 1] = 0
            elif where == 'two':
                bs[o + rng.randrange(size)] = 0
                bs[o + rng.randrange(size)] = 0
            elif where == 'all':
                for i in range(size): bs[o + i] = 0
        if kind == 'b':
            bs[o] = rng.choice([0, 1, 2, 255]) if pat == 'bool' else rng.choice([0, 1])
        o += size
    return bs


def boundary_lengths(acc):
    ls = set([0, 1, 255])
    if acc:
        ks = sorted(acc)
        for k in (ks[0], ks[-1], ks[len(ks) // 2]) + tuple(ks[:3]):
            ls.update([k - 1, k, k + 1])
    return sorted(l for l in ls if 0 <= l <= 255)


SYNTHETIC = [
    '-', 'b', 'u8', 'i8', 'u16', 'u16l', 'i16', 'i16l', 'u32', 'u32l', 'i32', 'i32l', 'u64', 'u64l', 'i64', 'i64l',
    'ip4', 'ip6', 'mac', 'uid', 's0:0', 's4:4', 's0:8', 's3:8', 's5:3', 's0:255',
    'b,u16,s0:8,u8', 's2:6,b', 'u8,s4:4,s0:5,s3:3', 'uid,g0:-1[u16l,b]', 'g2:2[u8,g3:3[b]],u8',
    'g0:-1[g2:2[u16,s2:2],b]', 'g1:3[u8,u16]', 'g0:4[s3:3]', 'u8,g2:-1[ip4,i8],u16', 'g0:0[u8]', 'g3:3[]',
    'g2:2[s0:0],u8', 'g0:-1[u8,g0:0[u64]]', 'g1:1[g1:1[g1:1[i32l,b]]]', 'b,b,b', 'g0:-1[b]', 'g0:-1[mac,ip6]',
    # ill-formed (DescriptorConsistencyChecker rejects them; the decoder must still be safe)
    's0:4,s0:4', 's0:4,g0:-1[u8]', 'g0:-1[u8],g0:-1[u16]', 'g0:-1[s0:4]', 'g2:2[s0:4]', 'g0:-1[g0:-1[u8]]',
    'g0:-1[g0:2[u8]]', 'g3:1[u8]', 'u8,g3:1[u16],b', 'g1:2[u8,s1:2]',
    # variable groups whose blocks carry no data (accepted by the loader; fixes/02: used to divide by zero)
    'g0:-1[]', 'g1:-1[]', 'g0:5[]', 'u8,g0:-1[s0:0]', 'g0:-1[g0:0[u8]],u16', 'g0:-1[g2:2[]]',
    # values that do not fit uint8_t / uint16_t / int16_t (the C++ constructors truncate them)
    'g0:40000[u8]', 'g0:-2[u16]', 'g65537:-1[u8]', 's300:260', 'g0:32767[u8]', 'g0:65535[b,u8]',
]


def _load_tsv():
    path = _TSV
    if path is None:
        import hashlib
        verif = os.path.dirname(os.path.dirname(os.path.dirname(os.path.abspath(__file__))))
        repo = os.environ.get('VERIF_REPO', '/repo')
        build = os.path.join(verif, 'build')
        if repo != '/repo':
            build = os.path.join(build, 'alt_' + hashlib.sha1(repo.encode()).hexdigest()[:8])
        path = os.path.join(build, ID, 'descs.tsv')
    ents = []
    for line in open(path):
        f = line.rstrip('\n').split('\t')
        if f[0] == 'D':
            ents.append((int(f[1]), int(f[2]), int(f[3]), f[4], f[5] if len(f) > 5 else ''))
    return ents


def gen_cases(rng, tier):
    """the decode/re-encode cases, with delete/reload operations of the PID store interleaved: the harness
    keeps ONE long-lived MessageDeserializer (and MessageSerializer); cases are dealt round-robin to <= 16
    harness processes, so the reloads are spread so that every process gets some, early and late"""
    inner = list(_gen_cases(rng, tier))
    quick = tier == 'quick'
    # the data directory through 9 spellings of its path; T threads x N rounds of concurrent decoding
    extra = ['load %d' % k for k in range(9)] * (2 if quick else 4)
    extra += ['conc %d %d' % (t, n) for t in (2, 4) for n in ((30, 60) if quick else (30, 60, 120, 250))] * (8 if quick else 16)
    # repeated loads under a lowered descriptor limit; first-use races on cold (validate=false) stores
    extra += ['many %d' % n for n in ((6, 10) if quick else (6, 10, 12, 16))] * (2 if quick else 6)   # one case stays well below the 20 s watchdog
    extra += ['race %d %d' % (t, r) for t in (2, 4) for r in ((3, 5) if quick else (3, 5, 10))] * (4 if quick else 8)
    rng.shuffle(extra)
    every = max(1, len(inner) // len(extra))
    merged = []
    for i, c in enumerate(inner):
        if i % every == 3 % every and extra:
            merged.append(extra.pop())
        merged.append(c)
    inner = merged + extra
    n_reload = 48 if tier == 'quick' else 160
    step = max(1, len(inner) // n_reload)
    k = 0
    for i, c in enumerate(inner):
        if i % step == 7 % step:
            # shift by k so that consecutive reloads do not all land in the same process
            yield 'reload %d' % k
            k += 1
        yield c


def _gen_lookups(rng, ents, n):
    """histories of RootPidStore lookups: known / unknown manufacturer ids, ESTA id 0, repeats,
    alternations known-unknown-unknown, PIDs and names of the same / another manufacturer / nobody"""
    by_man = {}
    for m, pid, kind, d, name in ents:
        by_man.setdefault(m, {})[pid] = name
    known = sorted(k for k in by_man if k != 0)
    allpids = [(m, p, nm) for m in by_man for p, nm in by_man[m].items()]

    def unknown():
        return rng.choice([1, 2, 0x7fff, 0xffff, rng.choice(known) + 1, rng.choice(known) - 1, rng.randrange(1, 65536)])

    def man_id(prev):
        r = rng.random()
        if prev and r < 0.35: return rng.choice(prev)          # repeat an id used earlier in this history
        if r < 0.6: return rng.choice(known)
        if r < 0.9:
            u = unknown()
            return u if u not in by_man else 0
        return 0

    def hexname(nm):
        nm = rng.choice([nm, nm.lower(), nm.title(), nm + 'X', nm[:-1]]) if rng.random() < 0.5 else nm
        return ''.join('%02x' % ord(c) for c in nm) or '-'

    for _ in range(n):
        used = []
        ops = []
        for _ in range(rng.choice([3, 4, 6, 8, 12])):
            m = man_id(used)
            used.append(m)
            k = rng.random()
            src = rng.choice([m, m, rng.choice(known), 0])       # whose PID / name is asked for
            pid, nm = rng.choice(list(by_man[src].items())) if src in by_man and by_man[src] else (0x8000, 'NOPE')
            if rng.random() < 0.15:
                pid, nm = rng.choice([0x8000, 0xffdf, 0, 0x7fe0, rng.randrange(65536)]), 'NO_SUCH_PID'
            if k < 0.3: ops.append('M%d' % m)
            elif k < 0.6: ops.append('V%d:%d' % (pid, m))
            elif k < 0.8: ops.append('N%s:%d' % (hexname(nm), m))
            elif k < 0.84: ops.append('v%d' % pid)
            elif k < 0.88: ops.append(rng.choice(['HV%d:%d' % (pid, m), 'HN%s:%d' % (hexname(nm), m), 'HS%d' % m]))
            elif k < 0.94: ops.append('n%s' % hexname(nm))
            else: ops.append('E')
        yield 'look ' + ','.join(ops)
    # the shortest alternations, for every known manufacturer: known, unknown, unknown again
    for m in known:
        u = unknown()
        if u in by_man: u = 1
        pid, nm = sorted(by_man[m].items())[0]
        yield 'look M%d,M%d,M%d,V%d:%d,V%d:%d,N%s:%d' % (m, u, u, pid, u, pid, m, hexname(nm), u)


# ---------------------------------------------------------------- loader entry points / overrides
def _digest(entries):
    """order-independent digest, same definition as in harness.cpp / driver.ml"""
    s1 = s2 = 0
    for t in entries:
        h1, h2 = 7, 11
        for c in t.encode('latin-1', 'replace'):
            h1 = (h1 * 131 + c) % 1000000007
            h2 = (h2 * 257 + c) % 998244353
        s1 = (s1 + h1) % 1000000007
        s2 = (s2 + h2) % 998244353
    return '%d.%d' % (s1, s2)


def _read_file_table(path):
    """independent reading of ONE data file: (descriptor entries, pid entries, store ids, duplicate?)"""
    tree = _pb_text(open(path, encoding='utf-8', errors='replace').read())
    kinds = {'get_request': 0, 'get_response': 1, 'set_request': 2, 'set_response': 3}
    descs, pids, stores = {}, {}, [0]
    dup = False

    def add(man, items):
        nonlocal dup
        names = set()
        for k, v in items:
            if k != 'pid':
                continue
            val = [x for kk, x in v if kk == 'value'][0]
            name = [x for kk, x in v if kk == 'name'][0]
            if (man, val) in pids or name in names:
                dup = True
                continue
            names.add(name)
            pids[(man, val)] = name
            for kk, x in v:
                if kk in kinds:
                    descs[(man, val, kinds[kk])] = _frame_str(x)
    add(0, tree)
    for k, v in tree:
        if k == 'manufacturer':
            man = [x for kk, x in v if kk == 'manufacturer_id'][0]
            if man in stores:
                dup = True
            else:
                stores.append(man)
            add(man, v)
    return descs, pids, stores, dup


OVR_SHAPES = ['-', 'u8', 'b', 'u16,s0:32', 'g0:-1[u8,u16]', 's2:2', 'u32,u8,u8', 'g0:4[uid]', 'ip4,mac', 'i16,i8']


def _gen_loader_cases(rng, ents, tier):
    quick = tier == 'quick'
    data = os.path.join(os.environ.get('VERIF_REPO', '/repo'), 'data', 'rdm')
    # (1) every single shipped file through LoadFromFile / PidStoreLoader::LoadFromFile / LoadFromStream
    for fn in sorted(os.listdir(data)):
        if not fn.endswith('.proto'):
            continue
        try:
            descs, pids, stores, dup = _read_file_table(os.path.join(data, fn))
        except Exception:
            continue
        ent = (['D:%d:%d:%d:%s' % (k + (d,)) for k, d in descs.items()] +
               ['P:%d:%d:%s' % (k + (n,)) for k, n in pids.items()] + ['S:%d' % m for m in stores])
        for validate in (1, 0):
            if dup and validate:
                continue      # strict validation refuses duplicates; the shipped files have none
            for entry in ('file', 'loader', 'stream'):
                yield 'ldf %d %s %s %d %d %d %s' % (validate, entry, fn, len(descs), len(pids), len(stores), _digest(ent))
    # (1b) ONE long-lived PidStoreLoader through sequences of loads, refused ones included
    fexp = []
    for i, fn in enumerate(sorted(f for f in os.listdir(data) if f.endswith('.proto'))):
        try:
            descs, pids, stores, dup = _read_file_table(os.path.join(data, fn))
        except Exception:
            continue
        if dup:
            continue
        ent = (['D:%d:%d:%d:%s' % (k + (d,)) for k, d in descs.items()] +
               ['P:%d:%d:%s' % (k + (n,)) for k, n in pids.items()] + ['S:%d' % m for m in stores])
        fexp.append((i, len(descs), len(pids), len(stores), _digest(ent)))
    for k in range(8):                                  # every kind of refusal directly before a directory load
        yield 'seq B%d,D1' % k
        yield 'seq D%d,B%d,D%d' % (rng.randrange(2), k, rng.randrange(2))
    for _ in range(6 if quick else 60):
        steps = []
        for _ in range(rng.choice([3, 4, 6])):
            r = rng.random()
            if r < 0.45: steps.append('B%d' % rng.randrange(8))
            elif r < 0.8 or not fexp: steps.append('D%d' % rng.randrange(2))
            else:
                e = rng.choice(fexp)
                steps.append('F%d:%d:%d:%d:%d:%s' % (e[0], rng.randrange(2), e[1], e[2], e[3], e[4]))
        steps.append('D%d' % rng.randrange(2))
        yield 'seq ' + ','.join(steps)
    # (2) the whole directory (+ generated overrides.proto) through every entry point and flag
    by_man = {}
    for m, pid, kind, d, name in ents:
        by_man.setdefault(m, {})[pid] = name
    known = sorted(k for k in by_man if k != 0)
    multi = [m for m in known if len(by_man[m]) >= 2]

    def frames():
        f = [rng.choice(OVR_SHAPES) if rng.random() < 0.7 else '~' for _ in range(4)]
        return '/'.join(f)

    def entry_existing(m):
        pid = rng.choice(sorted(by_man[m]))
        return '%d/%d/%s/%s' % (m, pid, by_man[m][pid], frames())

    def entry_new_pid(m, i):
        # ESTA PIDs must stay outside the manufacturer range (strict validation), manufacturer PIDs inside
        lo = 0x7f00 if m == 0 else 0x8000
        pid = rng.choice([p for p in range(lo, lo + 0x40) if p not in by_man.get(m, {})])
        return '%d/%d/OVR_NEW_%d/%s' % (m, pid, i, frames())

    specs = ['none']
    for m in (rng.sample(multi, min(5, len(multi))) if quick else multi):   # one PID of a multi-PID manufacturer
        specs.append(entry_existing(m))
    for _ in range(2 if quick else 30):
        specs.append(entry_existing(0))               # an ESTA PID
        newman = rng.choice([x for x in (1, 2, 0x7ff0, 0x1234, 65535, rng.randrange(1, 65536)) if x not in by_man])
        specs.append(entry_new_pid(newman, 0))        # a manufacturer nobody ships
        specs.append(entry_new_pid(rng.choice(known), 1))   # a new PID of a shipped manufacturer
        parts = {}                                    # a mixture (distinct (manufacturer, pid) keys and names)
        for i in range(rng.choice([2, 3, 5])):
            m = rng.choice([0, rng.choice(known), rng.choice(multi), newman])
            e = entry_new_pid(m, i) if (m not in by_man or rng.random() < 0.3) else entry_existing(m)
            parts[tuple(e.split('/')[:2])] = e
        if len(set(e.split('/')[2] + '@' + e.split('/')[0] for e in parts.values())) == len(parts):
            specs.append('+'.join(parts.values()))
    for spec in specs:
        for validate in (1, 0):
            for entry in (('dir', 'dirl', 'stream') if spec == 'none' else ('dir', 'dirl')):
                if quick and spec != 'none' and rng.random() < 0.5:
                    continue
                yield 'ldo %d %s %s' % (validate, entry, spec)


def _gen_cases(rng, tier):
    quick = tier == 'quick'
    ents = _load_tsv()
    yield 'store'
    for c in _gen_loader_cases(rng, ents, tier):
        yield c
    for c in _gen_lookups(rng, ents, 600 if quick else 6000):
        yield c
    shapes = {}
    for e in ents:
        shapes.setdefault(e[3], []).append(e)
    acc_cache = {}

    def acc_of(d):
        if d not in acc_cache:
            acc_cache[d] = accepted_lengths(_parse(d), 255)
        return acc_cache[d]

    def prev():
        return rng.choice([0, 0, 1, 3, 7, 200, 255])

    def case_p(e, L, pat):
        acc = acc_of(e[3])
        bs = fill(rng, L, acc.get(L), pat)
        return 'p %d %d %d %d %s %s' % (e[0], e[1], e[2], prev(), hx(bs), pat)

    if quick:
        # every distinct shape x every length (one pattern; all patterns on accepted lengths)
        for d in sorted(shapes):
            e = rng.choice(shapes[d])
            acc = acc_of(d)
            ks = sorted(acc)
            full = set(ks if len(ks) <= 12 else ks[:4] + ks[-4:] + rng.sample(ks, 4))
            for L in range(256):
                if L in full:
                    for pat in PATTERNS:
                        yield case_p(e, L, pat)
                else:
                    yield case_p(e, L, rng.choice(PATTERNS))
        # every descriptor x its boundary lengths
        for e in ents:
            for L in boundary_lengths(acc_of(e[3])):
                yield case_p(e, L, rng.choice(PATTERNS))
    else:
        for e in ents:
            acc = acc_of(e[3])
            for L in range(256):
                if L in acc:
                    for pat in PATTERNS:
                        yield case_p(e, L, pat)
                    yield case_p(e, L, 'nul')
                    yield case_p(e, L, 'bool')
                else:
                    yield case_p(e, L, rng.choice(PATTERNS))
    # long payloads (beyond one RDM frame; ACK_OVERFLOW reassembly produces them): descriptors with an
    # unlimited group or long strings accept them; the re-encoding then has to grow the serializer's buffer
    big = sorted(d for d in shapes if 'g0:-1' in d)
    for d in big:
        fs = _parse(d)
        acc = accepted_lengths(fs, 1400)
        ks = [k for k in sorted(acc) if k > 255]
        near = lambda t: [k for k in ks if abs(k - t) <= 16][:3]
        pick = near(256) + near(512) + near(1024) + ([ks[-1]] if ks else [])
        if not quick:
            pick += rng.sample(ks, min(12, len(ks)))
        for e in ([rng.choice(shapes[d])] if quick else shapes[d][:3]):
            for L in sorted(set(pick)):
                pat = rng.choice(PATTERNS)
                bs = fill(rng, L, acc.get(L), pat)
                yield 'p %d %d %d %d %s %s' % (e[0], e[1], e[2], prev(), hx(bs), 'big-' + pat)
    for d in ('u64,u16,s255:255', 'u8,s0:255,s255:255,s64:64', 'g0:-1[u64]', 'g0:-1[s31:31,b]'):
        acc = accepted_lengths(_parse(d), 1400)
        for L in [k for k in sorted(acc) if k > 255][:: (7 if quick else 1)][:60]:
            pat = rng.choice(['zeros', 'nul', 'rand'])
            yield 's %s %d %s %s' % (d, prev(), hx(fill(rng, L, acc.get(L), pat)), 'big-' + pat)
    # synthetic descriptors
    for d in SYNTHETIC:
        acc = accepted_lengths(_parse(d), 300)
        lens = list(range(0, 40)) + [254, 255, 256, 257, 300] if quick else list(range(0, 301))
        for L in lens:
            pats = PATTERNS if (L in acc or not quick) else [rng.choice(PATTERNS)]
            for pat in pats:
                bs = fill(rng, L, acc.get(L), pat)
                yield 's %s %d %s %s' % (d, prev(), hx(bs), pat)


def nontrivial(payload, md):
    return md.get('r') == 'msg' and md.get('ser', '-') != '-'


LEVEL_TEXT = ('Coq theorems over an executable model of the PID message codec and of the loader: for every descriptor '
              'whose sizes stay inside unsigned int (wf_desc; no other hypothesis since fixes/02) and every byte string '
              'decoding never reads outside the payload and either rejects or yields a message whose re-encoding is '
              'exactly the specified normal form (c14_total, c14_roundtrip_partial); acceptance, layout and counts depend '
              'on the length only; serializer and deserializer results do not depend on earlier calls '
              '(c14_serialize_stateless, c14_inflate_stateless) and the serializer stays inside its buffer '
              '(c14_serialize_in_bounds); the loader model, run on the data files as the real protobuf parser reads '
              'them, yields exactly the tables the real loader built (c14_loader_model_shipped) and whatever it accepts '
              'has unique (manufacturer, PID) keys, consistent frame formats, unique names per store unless a manufacturer '
              'block is numbered 0, and merges overrides first / skip-if-present so that no main definition vanishes '
              '(c14_loader_model_rules, c14_loader_model_names, c14_loader_merge, c14_loader_model_overrides_shipped, '
              'c14_loader_rules, c14_store_lookup, c14_override_semantics); every shipped descriptor is well-formed '
              '(c14_shipped). PARTIAL: a boolean byte >= 2 re-encodes as 1 (c14_bool_refuted, known finding), so the '
              'byte-exact statement is proved under the guard that boolean bytes are 0/1 (c14_roundtrip). Not proved, '
              'correspondence only: stability of a second decode, statelessness / thread independence of the C++ '
              'objects, PidStoreHelper; the real loader with overrides.proto is tied to the loader model by the ldo '
              'correspondence (generated overrides), not by a regenerated table.')
LEVEL_NOTE = ('Trusted: Coq kernel (vm_compute for the finite check over the exported descriptors), extraction '
              '(ExtrOcamlBasic), the exporter that prints the loaded store as Gallina, OCaml/C++ glue, generator '
              'coverage; model = code is validated by differential testing (ASan/UBSan build of the working '
              'tree, exact-size inputs), not proved.')
TECHNIQUE = 'Coq proof on hand-written executable model + regenerated descriptor table + differential correspondence'
DESIGN_REF = 'DESIGN.md §4 C14'
