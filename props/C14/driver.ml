(* C14 model driver.  payloads:
     p <manufacturer> <pid> <kind> <prev> <hex> <label>     shipped descriptor (looked up in PidDescs.all)
     s <descriptor text> <prev> <hex> <label>               synthetic descriptor
     store                                                  store summary
   Only parsing/printing here; all logic is the extracted model. *)

(* ---- descriptor text <-> fd list (same grammar as c14_desc.h) ---- *)
let rec fd_str (f : fd) : string =
  match f with
  | FBool -> "b"
  | FInt (w, sg, le) ->
    Printf.sprintf "%s%d%s" (if sg then "i" else "u") (8 * int_of_n w) (if le then "l" else "")
  | FIPv4 -> "ip4" | FIPv6 -> "ip6" | FMAC -> "mac" | FUID -> "uid"
  | FString (mn, mx) -> Printf.sprintf "s%d:%d" (int_of_n mn) (int_of_n mx)
  | FGroup (mn, mx, fs) ->
    Printf.sprintf "g%d:%d[%s]" (int_of_n mn) (int_of_z mx) (String.concat "," (List.map fd_str fs))
let desc_str (fs : fd list) : string =
  if fs = [] then "-" else String.concat "," (List.map fd_str fs)

exception Bad_desc
let parse_desc (s : string) : fd list =
  let n = String.length s in
  let i = ref 0 in
  let eat lit =
    let l = String.length lit in
    if !i + l <= n && String.sub s !i l = lit then (i := !i + l; true) else false in
  let num () =
    let neg = eat "-" in
    let st = !i in
    while !i < n && s.[!i] >= '0' && s.[!i] <= '9' do incr i done;
    if !i = st then raise Bad_desc;
    let v = int_of_string (String.sub s st (!i - st)) in
    if neg then - v else v in
  let mkint w sg = let le = eat "l" in FInt (n_of_int w, sg, le) in
  (* C++ side casts to uint8_t / uint16_t / int16_t *)
  let i16 v = let v = v land 0xffff in if v >= 0x8000 then v - 0x10000 else v in
  let rec field () : fd =
    if eat "ip4" then FIPv4 else if eat "ip6" then FIPv6 else if eat "mac" then FMAC
    else if eat "uid" then FUID
    else if eat "u8" then mkint 1 false else if eat "u16" then mkint 2 false
    else if eat "u32" then mkint 4 false else if eat "u64" then mkint 8 false
    else if eat "i8" then mkint 1 true else if eat "i16" then mkint 2 true
    else if eat "i32" then mkint 4 true else if eat "i64" then mkint 8 true
    else if eat "b" then FBool
    else if eat "s" then begin
      let mn = num () in if not (eat ":") then raise Bad_desc;
      let mx = num () in FString (n_of_int (mn land 255), n_of_int (mx land 255)) end
    else if eat "g" then begin
      let mn = num () in if not (eat ":") then raise Bad_desc;
      let mx = num () in if not (eat "[") then raise Bad_desc;
      let fs = fields ']' in
      if not (eat "]") then raise Bad_desc;
      FGroup (n_of_int (mn land 0xffff), z_of_int (i16 mx), fs) end
    else raise Bad_desc
  and fields (endc : char) : fd list =
    if !i >= n || s.[!i] = endc then [] else begin
      let f = field () in
      if eat "," then f :: fields_more endc else [f] end
  and fields_more endc = let f = field () in if eat "," then f :: fields_more endc else [f] in
  if s = "-" then [] else begin
    let fs = fields '\000' in
    if !i <> n then raise Bad_desc;
    fs end

(* ---- message -> text ---- *)
let hexb (l : n list) : string =
  String.concat "" (List.map (fun x -> Printf.sprintf "%02x" (int_of_n x land 255)) l)
let z_str (v : z) : string =
  match v with
  | Z0 -> "0" | Zpos p -> string_of_n (Npos p) | Zneg p -> "-" ^ string_of_n (Npos p)
let rec mf_str (m : mf) : string =
  match m with
  | MBool b -> if b then "b1" else "b0"
  | MInt (w, sg, le, v) ->
    Printf.sprintf "%s%d:%s" (if sg then "i" else "u") (8 * int_of_n w) (z_str (int_shown w sg v))
  | MIPv4 v -> "ip4:" ^ hexb (serialize [m])
  | MIPv6 v -> "ip6:" ^ hexb (serialize [m])
  | MMAC v -> "mac:" ^ hexb (serialize [m])
  | MUID (man, dev) -> Printf.sprintf "uid:%s:%s" (string_of_n man) (string_of_n dev)
  | MStr (_, _, v) -> "s:" ^ hexb v
  | MGroup fs -> "[" ^ String.concat "," (List.map mf_str fs) ^ "]"
let msg_str (m : mf list) : string = if m = [] then "-" else String.concat "," (List.map mf_str m)

let cstate_str (c : cstate) : string =
  match c with
  | TooSmall -> "TOO_SMALL" | TooLarge -> "TOO_LARGE" | FixedSz -> "FIXED_SIZE"
  | VarString k -> Printf.sprintf "VARIABLE_STRING:%d" (int_of_n k)
  | VarGroup k -> Printf.sprintf "VARIABLE_GROUP:%d" (int_of_n k)
  | MultipleVar -> "MULTIPLE_VARIABLE_FIELDS" | NestedVar -> "NESTED_VARIABLE_GROUPS"
  | Mismatched -> "MISMATCHED_SIZE" | CDivZero -> "DIVZERO" | CBug -> "MODELBUG"

let gstate_str (g : gstate) : string =
  match g with
  | GInsufficient -> "INSUFFICIENT_TOKENS" | GExtra -> "EXTRA_TOKENS" | GMismatched -> "MISMATCHED_TOKENS"
  | GMultipleVar -> "MULTIPLE_VARIABLE_GROUPS" | GNestedVar -> "NESTED_VARIABLE_GROUPS"
  | GSingleVar k -> Printf.sprintf "SINGLE_VARIABLE_GROUP:%d" (int_of_n k)
  | GNoVar -> "NO_VARIABLE_GROUPS" | GDivZero -> "DIVZERO"

(* order-independent digest of a store table; same definition as in harness.cpp *)
let digest_line (ds : (((n * n) * n) * fd list) list) (ps : ((n * n) * n list) list) (ids : n list) : string =
  let s1 = ref 0 and s2 = ref 0 in
  let add (t : string) =
    let h1 = ref 7 and h2 = ref 11 in
    String.iter (fun c ->
        h1 := (!h1 * 131 + Char.code c) mod 1000000007;
        h2 := (!h2 * 257 + Char.code c) mod 998244353) t;
    s1 := (!s1 + !h1) mod 1000000007; s2 := (!s2 + !h2) mod 998244353 in
  List.iter (fun (((m, p), k), fs) ->
      add (Printf.sprintf "D:%d:%d:%d:%s" (int_of_n m) (int_of_n p) (int_of_n k) (desc_str fs))) ds;
  List.iter (fun ((m, p), nm) ->
      add (Printf.sprintf "P:%d:%d:%s" (int_of_n m) (int_of_n p)
             (String.concat "" (List.map (fun c -> String.make 1 (Char.chr (int_of_n c))) nm)))) ps;
  List.iter (fun m -> add (Printf.sprintf "S:%d" (int_of_n m))) ids;
  Printf.sprintf "ok;ndesc=%d;npids=%d;nstores=%d;dg=%d.%d" (List.length ds) (List.length ps)
    (List.length ids) !s1 !s2

(* override spec: "none" | entries joined by '+': man/pid/NAME/d0/d1/d2/d3 (di = descriptor text or "~") *)
let parse_ovr (spec : string) =
  if spec = "none" then [] else
    List.map (fun e ->
        match String.split_on_char '/' e with
        | [m; p; nm; d0; d1; d2; d3] ->
          let d x = if x = "~" then None else Some (parse_desc x) in
          let name = List.init (String.length nm) (fun i -> n_of_int (Char.code nm.[i])) in
          (((n_of_int (ios m), n_of_int (ios p)), name), [d d0; d d1; d d2; d d3])
        | _ -> raise Bad_desc) (String.split_on_char '+' spec)

let lookup (man : int) (pid : int) (kind : int) : fd list option =
  let rec go l = match l with
    | [] -> None
    | (((m, p), k), fs) :: r ->
      if int_of_n m = man && int_of_n p = pid && int_of_n k = kind then Some fs else go r in
  go all

let run (src : string) (fs : fd list) (prev : int) (hex : string) (label : string) : string =
  let bs = bytes_of_hex hex in
  let cs = calc (len bs) fs in
  (* GroupSizeCalculator, with the payload length taken as the token count *)
  let head = Printf.sprintf "d=%s;cc=%s;cs=%s;gs=%s" (desc_str fs) (bool01 (consistent fs)) (cstate_str cs)
      (gstate_str (gcalc (len bs) fs)) in
  let csk = match cs with VarString _ -> "VARIABLE_STRING" | VarGroup _ -> "VARIABLE_GROUP" | c -> cstate_str c in
  let cls = Printf.sprintf ";class=%s:%s:%s:%s" src (if wf_desc fs then "wf" else "nonwf") csk label in
  match inflate (n_of_int prev) fs bs with
  | Oob -> head ^ ";r=OOB" ^ cls
  | DivZero -> head ^ ";r=DIVZERO" ^ cls
  | Bug -> head ^ ";r=MODELBUG" ^ cls
  | Null -> head ^ ";r=null;ldes=same;helper=same" ^ cls
  | Msg m ->
    let out = serialize m in
    let again = match inflate (n_of_int prev) fs out with
      | Msg m2 -> bool01 (m2 = m && serialize m2 = out) | _ -> "0" in
    let known =
      match layout fs (len bs) with
      | Some l when not (bools_canonical l bs) -> ";known=C14-bool-byte-normalised"
      | _ -> "" in
    (* the specification's expectation, evaluated on this input (must agree with ser by theorem) *)
    let spec = match layout fs (len bs) with
      | Some l -> if wf_desc fs && reenc l bs <> out then ";specfail=1" else ""
      | None -> ";specfail=nolayout" in
    (* the serializer's buffer after re-encoding with the default initial size of 256 bytes *)
    let capk = match serialize_space (n_of_int 256) m with
      | SOk st -> string_of_int (int_of_n st.cap)
      | SOverflow -> "OVERFLOW" | SNoFuel -> "NOFUEL" in
    (* the same message through a reused serializer whose buffer is full of 0xff *)
    let stale = List.init (List.length bs + 64) (fun _ -> n_of_int 255) in
    let sh = serialize_into stale m in
    let shk = if sh = out then "same" else hex_of_bytes sh in
    Printf.sprintf "%s;r=msg;m=%s;ser=%s;same=%s;again=%s;cap=%s;shared=%s;ldes=same;helper=same%s%s%s" head (msg_str m) (hex_of_bytes out)
      (bool01 (out = bs)) again capk shk known cls spec

let handle (p : string) : string =
  match split p with
  | ["p"; man; pid; kind; prev; hex; label] ->
    (match lookup (ios man) (ios pid) (ios kind) with
     | None -> "d=missing"
     | Some fs -> run "pid" fs (ios prev) hex label)
  | ["s"; d; prev; hex; label] ->
    (match (try Some (parse_desc d) with _ -> None) with
     | None -> "d=unparsable"
     | Some fs -> run "syn" fs (ios prev) hex label)
  | ["reload"; _] ->
    (* the model is a pure function of descriptor and bytes (c14_inflate_stateless): a long-lived
       deserializer agrees with a fresh one on every descriptor of the reloaded store *)
    Printf.sprintf "sweep=ok;n=%d;class=reload" (List.length all)
  | ["look"; ops] ->
    (* a history of store lookups; the model's store is the exported table, every lookup is a function
       of its arguments (c14_store_lookup) *)
    let ids = List.map (fun ((m, _), _) -> m) store_index_sizes in
    let ent e = match e with
      | None -> "-"
      | Some ((m, p), nm) ->
        Printf.sprintf "%d:%d:%s" (int_of_n m) (int_of_n p)
          (String.concat "" (List.map (fun c -> String.make 1 (Char.chr (int_of_n c))) nm)) in
    let name_of_hex h = bytes_of_hex h in
    let one (t : string) : string =
      let body = String.sub t 1 (String.length t - 1) in
      match t.[0] with
      | 'E' -> Printf.sprintf "0#%d" (int_of_n (store_count pids N0))
      | 'M' -> let m = n_of_int (ios body) in
        if has_store ids m then Printf.sprintf "%d#%d" (int_of_n m) (int_of_n (store_count pids m)) else "-"
      | 'V' -> (match String.split_on_char ':' body with
          | [p; m] -> ent (get_by_pid pids ids (n_of_int (ios p)) (n_of_int (ios m))) | _ -> "?")
      | 'v' -> ent (find_pid pids N0 (n_of_int (ios body)))
      | 'N' -> (match String.split_on_char ':' body with
          | [h; m] -> ent (get_by_name pids ids (name_of_hex h) (n_of_int (ios m))) | _ -> "?")
      | 'n' -> ent (get_by_name pids ids (name_of_hex body) N0)
      | 'H' when String.length body > 0 ->
        let rest = String.sub body 1 (String.length body - 1) in
        (match body.[0], String.split_on_char ':' rest with
         | 'V', [p; m] -> ent (get_by_pid pids ids (n_of_int (ios p)) (n_of_int (ios m)))
         | 'N', [h; m] -> ent (get_by_name pids ids (name_of_hex h) (n_of_int (ios m)))
         | 'S', [m] ->
           let m = n_of_int (ios m) in
           let c = int_of_n (store_count pids N0) + (if has_store ids m then int_of_n (store_count pids m) else 0) in
           Printf.sprintf "%d/%d" c c
         | _ -> "?")
      | _ -> "?" in
    "h=" ^ String.concat "|" (List.map one (String.split_on_char ',' ops)) ^ ";class=lookup"
  | ["load"; _] ->
    (* every spelling of the data directory loads the same table: the exported one *)
    let ids = List.map (fun ((m, _), _) -> m) store_index_sizes in
    "ld=" ^ digest_line all pids ids ^ ";class=load"
  | ["ldo"; _; entry; spec] ->
    (* shipped files + generated overrides.proto: shipped definitions with the overridden ones replaced *)
    let ids = List.map (fun ((m, _), _) -> m) store_index_sizes in
    (match (try Some (parse_ovr spec) with _ -> None) with
     | None -> "lx=unparsable"
     | Some os ->
       "lx=" ^ digest_line (override_descs all os) (override_pids pids os) (override_ids ids os)
       ^ ";class=loader:" ^ entry ^ ":" ^ (if os = [] then "plain" else "overrides"))
  | "ldf" :: _ :: entry :: _ :: [nd; np; ns; dg] ->
    (* one shipped file: the expectation comes from prop.py's independent reading of that file *)
    Printf.sprintf "lx=ok;ndesc=%s;npids=%s;nstores=%s;dg=%s;class=loader:%s:single-file" nd np ns dg entry
  | ["seq"; spec] ->
    (* a load is a function of its inputs (c14_loader_stateless): the shipped directory always gives the
       exported table, whatever the same loader object was asked before; bad texts are refused *)
    let ids = List.map (fun ((m, _), _) -> m) store_index_sizes in
    let shipped = digest_line all pids ids in
    let one (t : string) =
      match t.[0] with
      | 'D' -> shipped
      | 'B' -> "refused"
      | 'F' -> (match String.split_on_char ':' t with
          | [_; _; nd; np; ns; dg] -> Printf.sprintf "ok;ndesc=%s;npids=%s;nstores=%s;dg=%s" nd np ns dg
          | _ -> "?")
      | _ -> "?" in
    "sq=" ^ String.concat "|" (List.map one (String.split_on_char ',' spec)) ^ ";class=loader-sequence"
  | ["many"; _] ->
    (* loading is a function of the files: the N-th load succeeds like the first and holds no descriptor *)
    "many=ok;class=repeated-loads"
  | ["race"; _; _] ->
    (* sizes of a descriptor are functions of the descriptor: first uses cannot interfere *)
    "race=0;post=0;class=first-use-race"
  | ["conc"; _; _] ->
    (* decoding is a function of descriptor and bytes: concurrent decoders cannot disagree with the
       single-threaded answer *)
    "conc=0;items=1;class=concurrent"
  | ["store"] ->
    Printf.sprintf "ndesc=%d;npids=%d;class=store" (List.length all) (List.length pids)
  | _ -> "bad-op"
let () = vh_run handle
