(* C14 proofs, part C: corollaries in the form used by Properties.v; the finite checks over the
   regenerated descriptor table. *)
From OlaBase Require Import Bytes.
From C14 Require Import Model Spec PidDescs ProofsA ProofsB.
Local Open Scope N_scope.

Lemma inflate_total prev fs bs :
  wf_desc fs = true -> bytes_ok bs = true -> len bs < 4294967296 ->
  inflate prev fs bs <> Oob /\ inflate prev fs bs <> DivZero /\ inflate prev fs bs <> Bug.
Proof.
  intros Hwf Hbs Hlen. pose proof (inflate_spec prev fs bs Hwf Hbs Hlen) as H. unfold outcome_ok in H.
  destruct (layout fs (len bs)), (shape_layout fs (len bs)); try contradiction.
  - destruct H as (m & -> & _). repeat split; discriminate.
  - rewrite H. repeat split; discriminate.
Qed.

Lemma inflate_roundtrip prev fs bs m :
  wf_desc fs = true -> bytes_ok bs = true -> len bs < 4294967296 ->
  inflate prev fs bs = Msg m ->
  exists L, layout fs (len bs) = Some L /\ sumN (map asize L) = len bs /\ serialize m = reenc L bs.
Proof.
  intros Hwf Hbs Hlen E. pose proof (inflate_spec prev fs bs Hwf Hbs Hlen) as H. unfold outcome_ok in H.
  destruct (layout fs (len bs)) as [L|], (shape_layout fs (len bs)); try contradiction.
  - destruct H as (m' & E' & S & A & _). rewrite E in E'. inversion E'; subst m'. eauto.
  - rewrite E in H. discriminate.
Qed.

Lemma inflate_accepts_iff prev fs bs :
  wf_desc fs = true -> bytes_ok bs = true -> len bs < 4294967296 ->
  (inflate prev fs bs = Null <-> layout fs (len bs) = None).
Proof.
  intros Hwf Hbs Hlen. pose proof (inflate_spec prev fs bs Hwf Hbs Hlen) as H. unfold outcome_ok in H.
  destruct (layout fs (len bs)) as [L|], (shape_layout fs (len bs)); try contradiction.
  - destruct H as (m & -> & _). split; discriminate.
  - tauto.
Qed.

Lemma inflate_counts prev prev' fs bs bs' :
  wf_desc fs = true -> bytes_ok bs = true -> bytes_ok bs' = true ->
  len bs < 4294967296 -> len bs = len bs' ->
  match inflate prev fs bs, inflate prev' fs bs' with
  | Null, Null => True
  | Msg m, Msg m' => map shape_of m = map shape_of m' /\
                     shape_layout fs (len bs) = Some (map shape_of m)
  | _, _ => False
  end.
Proof.
  intros Hwf Hbs Hbs' Hlen El.
  pose proof (inflate_spec prev fs bs Hwf Hbs Hlen) as H.
  assert (Hlen' : len bs' < 4294967296) by lia.
  pose proof (inflate_spec prev' fs bs' Hwf Hbs' Hlen') as H'.
  unfold outcome_ok in *. rewrite <- El in H'.
  destruct (layout fs (len bs)) as [L|], (shape_layout fs (len bs)) as [S|]; try contradiction.
  - destruct H as (m & -> & _ & _ & Sh). destruct H' as (m' & -> & _ & _ & Sh').
    subst S. split; [now rewrite Sh'|reflexivity].
  - now rewrite H, H'.
Qed.

(* with every boolean byte 0/1 the code's re-encoding is the one the property demands *)
Lemma reenc_bools_canonical L : forall bs,
  sumN (map asize L) <= len bs -> bools_canonical L bs = true -> reenc L bs = reenc_strict L bs.
Proof.
  unfold reenc, reenc_strict.
  induction L as [|a r IH]; intros bs Hl Hb; cbn [reenc_with]; [reflexivity|].
  cbn [map sumN bools_canonical] in *. apply andb_prop in Hb as [Hb1 Hb2].
  rewrite IH; [|rewrite drop_len; lia|assumption]. f_equal.
  destruct a; try reflexivity. cbn [asize renorm renorm_strict] in *.
  destruct bs as [|b bs]; [rewrite len_nil in Hl; lia|].
  cbn [hd] in Hb1. apply N.ltb_lt in Hb1.
  change (take 1 (b :: bs)) with [b]. cbn [hd].
  destruct (b =? 0) eqn:E; [apply N.eqb_eq in E|apply N.eqb_neq in E]; f_equal; lia.
Qed.

(* a layout without strings: the demanded re-encoding is the payload itself *)
Lemma reenc_strict_no_strings L : forall bs,
  sumN (map asize L) = len bs -> no_strings L = true -> reenc_strict L bs = bs.
Proof.
  unfold reenc_strict, no_strings.
  induction L as [|a r IH]; intros bs Hl Hn; cbn [reenc_with map sumN forallb] in *.
  - destruct bs; [reflexivity|rewrite len_cons in Hl; lia].
  - apply andb_prop in Hn as [Hn1 Hn2].
    rewrite IH; [|rewrite drop_len; lia|assumption].
    destruct a; try discriminate; cbn [renorm_strict]; apply take_drop.
Qed.

(* what DescriptorConsistencyChecker buys: no payload length is refused for structural reasons *)
Lemma cc_count_ge f :
  (if is_var_string f then 1 else 0) + (if is_var_group f then 1 else 0) +
  (if fixed_block f then 0 else 1) <= cc_count f.
Proof.
  destruct f; cbn [cc_count is_var_string is_var_group fixed_block]; try (cbn; lia).
  - destruct (fixed_size (FString mn mx)); cbn; lia.
  - unfold is_var_group.
    destruct (fixed_size (FGroup mn mx fs)) eqn:E, (fixed_block (FGroup mn mx fs)) eqn:F; cbn [negb]; try lia.
Qed.
Lemma consistent_counts fs :
  len (filter is_var_string fs) + len (filter is_var_group fs) +
  len (filter (fun f => negb (fixed_block f)) fs) <= sumN (map cc_count fs).
Proof.
  induction fs as [|f r IH]; cbn [filter map sumN]; [cbn; lia|].
  pose proof (cc_count_ge f) as H.
  destruct (is_var_string f), (is_var_group f), (fixed_block f); cbn [negb];
    rewrite ?len_cons; lia.
Qed.
Ltac solve_ne :=
  repeat match goal with |- context [if ?c then _ else _] => destruct c end; split; discriminate.
Lemma consistent_sound fs n :
  consistent fs = true -> calc n fs <> MultipleVar /\ calc n fs <> NestedVar.
Proof.
  unfold consistent. intros H. apply N.leb_le in H.
  pose proof (consistent_counts fs) as C.
  unfold calc.
  destruct (n <? u32 (sumN (map fixed_part fs))); [split; discriminate|].
  remember (filter is_var_string fs) as vs eqn:Evs.
  remember (filter is_var_group fs) as vg eqn:Evg.
  destruct (1 <? len vs + len vg) eqn:E1; [apply N.ltb_lt in E1; lia|].
  destruct (len vs + len vg =? 0); [solve_ne|].
  destruct vs as [|[] ?]; try solve_ne.
  - destruct vg as [|[] ?]; try solve_ne.
    destruct (fixed_block (FGroup mn mx fs0)) eqn:F; cbn [negb].
    + solve_ne.
    + exfalso.
      assert (In (FGroup mn mx fs0) (filter (fun f => negb (fixed_block f)) fs)) as X.
      { apply filter_In. split; [|now rewrite F].
        assert (In (FGroup mn mx fs0) (filter is_var_group fs)) as Y by (rewrite <- Evg; now left).
        now apply filter_In in Y. }
      destruct (filter (fun f => negb (fixed_block f)) fs); [contradiction|].
      rewrite !len_cons in *. lia.
Qed.

(* ---------------------------------------------------------------- the shipped descriptors *)
Lemma shipped_wf :
  forallb (fun e => wf_desc (snd e) && consistent (snd e) && forallb nonzero_block (snd e)) PidDescs.all = true.
Proof. vm_compute. reflexivity. Qed.

Lemma shipped_store_consistent :
  store_consistent PidDescs.pids (map fst PidDescs.all) PidDescs.store_index_sizes = true /\
  len PidDescs.all = PidDescs.n_descriptors /\ len PidDescs.pids = PidDescs.n_pids.
Proof. vm_compute. repeat split; reflexivity. Qed.

Lemma shipped_nonempty : 1000 <=? len PidDescs.all = true.
Proof. vm_compute. reflexivity. Qed.

(* SET IDENTIFY_DEVICE request (ESTA PID 0x1000): payload 0x02 is accepted and comes back as 0x01 *)
Lemma bool_refuted :
  In ((0, 4096, 2), [FBool]) PidDescs.all /\
  exists m, inflate 0 [FBool] [2] = Msg m /\ serialize m = [1] /\ reenc_strict [ABool] [2] = [2].
Proof.
  split.
  - assert (existsb (fun e => match e with ((a, b, c), d) =>
       (a =? 0) && (b =? 4096) && (c =? 2) && (match d with [FBool] => true | _ => false end) end)
       PidDescs.all = true) as H by (vm_compute; reflexivity).
    apply existsb_exists in H as ([[[a b] c] d] & Hin & H).
    repeat (apply andb_prop in H as [H ?]).
    destruct d as [|[] []]; try discriminate.
    apply N.eqb_eq in H, H1, H2. subst. exact Hin.
  - eexists. vm_compute. repeat split; reflexivity.
Qed.

(* ---------------------------------------------------------------- GroupSizeCalculator *)
Lemma gloop_tok gs : forall a a',
  forallb (fun g => fixed_size g || negb (fst (block_tokens g) =? 0)) gs = true ->
  (g_cnt a = 0 \/ g_tok a <> 0) -> gloop gs a = inr a' -> g_cnt a' = 0 \/ g_tok a' <> 0.
Proof.
  induction gs as [|g r IH]; intros a a' Hok Ha E; cbn [gloop forallb] in *.
  - now inversion E; subst.
  - apply andb_prop in Hok as [Hg Hr].
    destruct (block_tokens g) as [t v] eqn:Eb. cbn [fst] in Hg.
    destruct v; [discriminate|].
    destruct g; try (now apply (IH a a' Hr Ha E)).
    destruct (fixed_size (FGroup mn mx fs)) eqn:Ef.
    + apply (IH _ a' Hr) in E; [assumption|]. cbn [g_cnt g_tok]. assumption.
    + destruct (1 <? g_cnt a + 1); [discriminate|].
      apply (IH _ a' Hr) in E; [assumption|]. cbn [g_cnt g_tok]. right.
      cbn [orb] in Hg. destruct (t =? 0) eqn:Et; [discriminate|]. now apply N.eqb_neq.
Qed.

Lemma gcalc_no_divzero tc fs : gcalc tc fs <> GDivZero.
Proof.
  unfold gcalc.
  destruct (tc <? _); [discriminate|].
  destruct (filter is_group fs) as [|g r] eqn:Eg; [destruct (_ =? _); discriminate|].
  destruct (gloop (g :: r) _) as [s|a] eqn:El.
  - (* early returns are GNestedVar / GMultipleVar only *)
    clear - El. revert El. generalize {| g_req := len (filter (fun f => negb (is_group f)) fs);
                                        g_cnt := 0; g_tok := 0; g_mx := 0 |}.
    generalize (g :: r). intros l. induction l as [|x l IH]; intros a0 E; cbn [gloop] in E; [discriminate|].
    destruct (block_tokens x) as [t v]. destruct v; [injection E as <-; discriminate|].
    destruct x; try (now apply (IH _ E)).
    destruct (fixed_size (FGroup mn mx fs0)); [now apply (IH _ E)|].
    destruct (1 <? g_cnt a0 + 1); [injection E as <-; discriminate|now apply (IH _ E)].
  - repeat match goal with |- context [if ?c then _ else _] => destruct c end; discriminate.
Qed.

Lemma shipped_gtok : forallb (fun e => gtok_ok (snd e)) PidDescs.all = true.
Proof. vm_compute. reflexivity. Qed.

(* ---------------------------------------------------------------- InflateMessage is stateless *)
Lemma fields_with_ext vis vis' fs :
  (forall x, In x fs -> forall st, vis x st = vis' x st) ->
  forall st, fields_with vis fs st = fields_with vis' fs st.
Proof.
  induction fs as [|x r IH]; intros H st; cbn [fields_with]; [reflexivity|].
  rewrite (H x (or_introl eq_refl)). destruct (vis' x st) as [|ms st1]; [reflexivity|].
  rewrite (IH (fun y Hy => H y (or_intror Hy))). reflexivity.
Qed.
Lemma loop_with_ext b b' : (forall st, b st = b' st) -> forall k st, loop_with b k st = loop_with b' k st.
Proof.
  intros H. induction k as [|k IH]; intros st; cbn [loop_with]; [reflexivity|].
  rewrite H. destruct (b' st) as [|ms st1]; [reflexivity|]. now rewrite IH.
Qed.
(* a fixed-size field never looks at m_variable_field_size *)
Lemma visit_fixed_indep bs v v' f : fixed_size f = true -> forall st, visit bs v f st = visit bs v' f st.
Proof.
  induction f as [| | | | | |mn mx|mn mx fs IH] using fd_ind'; intros Hf st; try reflexivity.
  - cbn [fixed_size] in Hf. cbn [visit]. now rewrite Hf.
  - rewrite !visit_group, Hf. unfold visit_loop.
    rewrite fixed_group in Hf. apply andb_prop in Hf as [Hf _].
    apply loop_with_ext. intros st'. apply fields_with_ext. intros x Hx st''.
    rewrite Forall_forall in IH. apply IH; [assumption|].
    rewrite forallb_forall in Hf. now apply Hf.
Qed.
Lemma calc_fixed_all n fs : calc n fs = FixedSz -> forall f, In f fs -> fixed_size f = true.
Proof.
  unfold calc. intros H.
  destruct (n <? _); [discriminate|].
  destruct (1 <? _); [discriminate|].
  destruct (len (filter is_var_string fs) + len (filter is_var_group fs) =? 0) eqn:E0.
  - apply N.eqb_eq in E0. intros f Hin. destruct (fixed_size f) eqn:Ef; [reflexivity|exfalso].
    destruct (var_cases f Ef) as (_ & [[E1 _]|[_ E1]]).
    + assert (In f (filter is_var_string fs)) as X by (apply filter_In; auto).
      destruct (filter is_var_string fs); [contradiction|rewrite len_cons in E0; lia].
    + assert (In f (filter is_var_group fs)) as X by (apply filter_In; auto).
      destruct (filter is_var_group fs); [contradiction|rewrite len_cons in E0; lia].
  - exfalso. clear E0.
    destruct (filter is_var_string fs) as [|[] ?]; try discriminate.
    + destruct (filter is_var_group fs) as [|[] ?]; try discriminate.
      repeat match type of H with context [if ?c then _ else _] => destruct c end; discriminate.
    + repeat match type of H with context [if ?c then _ else _] => destruct c end; discriminate.
Qed.
Lemma inflate_stateless prev prev' fs bs : inflate prev fs bs = inflate prev' fs bs.
Proof.
  unfold inflate. destruct (calc (len bs) fs) eqn:E; try reflexivity.
  assert (forall st, visit_fields bs prev fs st = visit_fields bs prev' fs st) as ->; [|reflexivity].
  intros st. unfold visit_fields. apply fields_with_ext. intros x Hx st'.
  apply visit_fixed_indep. exact (calc_fixed_all _ _ E x Hx).
Qed.

(* ---------------------------------------------------------------- store lookups are finite-map lookups *)
Lemma list_eqb_eq a : forall b, list_eqb a b = true <-> a = b.
Proof.
  induction a as [|x a IH]; intros [|y b]; cbn [list_eqb]; split; intros H; try discriminate; try reflexivity.
  - apply andb_prop in H as [H1 H2]. apply N.eqb_eq in H1. apply IH in H2. now subst.
  - inversion H; subst. rewrite N.eqb_refl. now apply IH.
Qed.
Lemma find_unique {A} (keq : A -> A -> bool) (p : A -> bool) l :
  nodupb keq l = true -> (forall a b, p a = true -> p b = true -> keq a b = true) ->
  forall e, find p l = Some e -> forall e', In e' l -> p e' = true -> e' = e.
Proof.
  intros Hn Hk. induction l as [|x r IH]; intros e Hf e' Hin Hp; [contradiction|].
  cbn [nodupb find] in *. apply andb_prop in Hn as [Hx Hr].
  destruct (p x) eqn:Px.
  - inversion Hf; subst e. destruct Hin as [->|Hin]; [reflexivity|exfalso].
    assert (existsb (keq x) r = true) as X by (apply existsb_exists; exists e'; split; auto).
    now rewrite X in Hx.
  - destruct Hin as [->|Hin]; [congruence|]. now apply IH.
Qed.

Lemma shipped_nodup_value : nodupb keq_value PidDescs.pids = true.
Proof. vm_compute. reflexivity. Qed.
Lemma shipped_nodup_name : nodupb keq_name PidDescs.pids = true.
Proof. vm_compute. reflexivity. Qed.

Lemma lookup_pid_unique tbl man pid :
  nodupb keq_value tbl = true ->
  match find_pid tbl man pid with
  | Some e => In e tbl /\ fst (fst e) = man /\ snd (fst e) = pid /\
              forall e', In e' tbl -> fst (fst e') = man -> snd (fst e') = pid -> e' = e
  | None => forall e', In e' tbl -> ~ (fst (fst e') = man /\ snd (fst e') = pid)
  end.
Proof.
  intros Hc. pose proof Hc as Hcn.
  unfold find_pid.
  match goal with |- context [find ?p tbl] => destruct (find p tbl) as [e|] eqn:E end.
  - pose proof (find_some _ _ E) as [Hin Hp]. apply andb_prop in Hp as [K1 K2].
    apply N.eqb_eq in K1, K2. repeat split; try assumption.
    intros e' Hin' M P.
    refine (find_unique keq_value _ _ Hc _ e E e' Hin' _).
    + intros a b Ha Hb. apply andb_prop in Ha as [A1 A2]. apply andb_prop in Hb as [B1 B2].
      apply N.eqb_eq in A1, A2, B1, B2. apply andb_true_intro. split; apply N.eqb_eq; congruence.
    + apply andb_true_intro. split; apply N.eqb_eq; assumption.
  - intros e' Hin [M P]. pose proof (find_none _ _ E e' Hin) as X. cbn beta in X.
    rewrite M, P, !N.eqb_refl in X. discriminate.
Qed.

Lemma lookup_name_unique tbl man name :
  nodupb keq_name tbl = true ->
  match find_name tbl man name with
  | Some e => In e tbl /\ fst (fst e) = man /\ snd e = name /\
              forall e', In e' tbl -> fst (fst e') = man -> snd e' = name -> e' = e
  | None => forall e', In e' tbl -> ~ (fst (fst e') = man /\ snd e' = name)
  end.
Proof.
  intros Hc. pose proof Hc as Hcn.
  unfold find_name.
  match goal with |- context [find ?p tbl] => destruct (find p tbl) as [e|] eqn:E end.
  - pose proof (find_some _ _ E) as [Hin Hp]. apply andb_prop in Hp as [H2 H3].
    apply N.eqb_eq in H2. apply list_eqb_eq in H3. repeat split; try assumption.
    intros e' Hin' M P.
    refine (find_unique keq_name _ _ Hcn _ e E e' Hin' _).
    + intros a b Ha Hb. apply andb_prop in Ha as [A1 A2]. apply andb_prop in Hb as [B1 B2].
      apply N.eqb_eq in A1, B1. apply list_eqb_eq in A2, B2. apply andb_true_intro.
      split; [apply N.eqb_eq|apply list_eqb_eq]; congruence.
    + apply andb_true_intro. split; [apply N.eqb_eq|apply list_eqb_eq]; assumption.
  - intros e' Hin [M P]. pose proof (find_none _ _ E e' Hin) as X. cbn beta in X.
    rewrite M, N.eqb_refl in X. apply (proj2 (list_eqb_eq _ _)) in P. rewrite P in X. discriminate.
Qed.

Lemma shipped_lookup_pid man pid :
  match find_pid PidDescs.pids man pid with
  | Some e => In e PidDescs.pids /\ fst (fst e) = man /\ snd (fst e) = pid /\
              forall e', In e' PidDescs.pids -> fst (fst e') = man -> snd (fst e') = pid -> e' = e
  | None => forall e', In e' PidDescs.pids -> ~ (fst (fst e') = man /\ snd (fst e') = pid)
  end.
Proof. exact (lookup_pid_unique PidDescs.pids man pid shipped_nodup_value). Qed.
Lemma shipped_lookup_name man name :
  match find_name PidDescs.pids man name with
  | Some e => In e PidDescs.pids /\ fst (fst e) = man /\ snd e = name /\
              forall e', In e' PidDescs.pids -> fst (fst e') = man -> snd e' = name -> e' = e
  | None => forall e', In e' PidDescs.pids -> ~ (fst (fst e') = man /\ snd e' = name)
  end.
Proof. exact (lookup_name_unique PidDescs.pids man name shipped_nodup_name). Qed.

Lemma shipped_loader_rules :
  loader_rules PidDescs.MANUFACTURER_PID_MIN PidDescs.MANUFACTURER_PID_MAX PidDescs.pids = true.
Proof. vm_compute. reflexivity. Qed.
Lemma loader_rules_nodup lo hi tbl :
  loader_rules lo hi tbl = true -> nodupb keq_value tbl = true /\ nodupb keq_name tbl = true.
Proof.
  unfold loader_rules. intros H. apply andb_prop in H as [H _]. apply andb_prop in H. exact H.
Qed.

(* ---------------------------------------------------------------- overrides *)
Lemma override_descs_spec tbl os key fs :
  In (key, fs) (override_descs tbl os) <->
  (In (key, fs) tbl /\ overridden os (fst (fst key)) (snd (fst key)) = false) \/ In (key, fs) (ovr_descs os).
Proof.
  unfold override_descs. rewrite in_app_iff, filter_In. cbn [fst snd].
  split; intros [[H1 H2]|H]; auto; left; split; auto.
  - now destruct (overridden os _ _).
  - now rewrite H2.
Qed.
Lemma override_pids_spec tbl os (e : pid_entry) :
  In e (override_pids tbl os) <->
  (In e tbl /\ overridden os (fst (fst e)) (snd (fst e)) = false) \/
  In e (map (fun o => (ovr_man o, ovr_pid o, snd (fst o))) os).
Proof.
  unfold override_pids. rewrite in_app_iff, filter_In.
  split; intros [[H1 H2]|H]; auto; left; split; auto.
  - now destruct (overridden os _ _).
  - now rewrite H2.
Qed.
Lemma override_none tbl ptbl : override_descs tbl [] = tbl /\ override_pids ptbl [] = ptbl.
Proof.
  unfold override_descs, override_pids, overridden. cbn [existsb negb ovr_descs flat_map map].
  rewrite !app_nil_r. split.
  - induction tbl as [|x r IH]; cbn [filter]; [reflexivity|now rewrite IH].
  - induction ptbl as [|x r IH]; cbn [filter]; [reflexivity|now rewrite IH].
Qed.
