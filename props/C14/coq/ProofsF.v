(* C14 proofs, part F: the loader model's merge of overrides and main data. *)
From OlaBase Require Import Bytes.
From C14 Require Import Model Spec Loader PidDescs ProofsC ProofsE.
Local Open Scope N_scope.

(* ---------------------------------------------------------------- merge order: nothing vanishes *)
Definition pkey16 (p : ppid) : N := snd (fst p) mod 65536.

Lemma has_key_app acc ext man v : has_key acc man v = true -> has_key (acc ++ ext) man v = true.
Proof. unfold has_key. rewrite existsb_app. intros H. apply orb_true_intro. now left. Qed.

Lemma get_pid_list_prefix validate limit lo hi man blk : forall sv sn acc acc',
  get_pid_list validate limit lo hi man blk sv sn acc = Some acc' ->
  (exists ext, acc' = acc ++ ext) /\ (forall p, In p blk -> has_key acc' man (pkey16 p) = true).
Proof.
  induction blk as [|[[name value] frames] r IH]; intros sv sn acc acc' H; cbn [get_pid_list] in H.
  - inversion H; subst. split; [exists []; now rewrite app_nil_r|intros p []].
  - destruct (validate && _); [discriminate|].
    destruct (has_key acc man (value mod 65536)) eqn:Ek.
    + destruct (IH _ _ _ _ H) as [[ext E] Hp]. split; [now exists ext|].
      intros p [<-|Hin]; [|now apply Hp]. unfold pkey16. cbn [fst snd]. subst acc'. now apply has_key_app.
    + destruct (conv_frames validate frames) as [ds|]; [|discriminate].
      destruct (IH _ _ _ _ H) as [[ext E] Hp]. split.
      * exists ([(man, value mod 65536, name, ds)] ++ ext). now rewrite app_assoc.
      * intros p [<-|Hin]; [|now apply Hp]. unfold pkey16. cbn [fst snd]. subst acc'.
        apply has_key_app. unfold has_key. rewrite existsb_app. cbn [existsb fst snd].
        rewrite !N.eqb_refl. cbn. now rewrite orb_true_r.
Qed.

Lemma load_mans_prefix validate lo hi ms : forall seen acc ids acc' ids',
  load_mans validate lo hi ms seen acc ids = Some (acc', ids') ->
  (exists ext, acc' = acc ++ ext) /\
  (forall id blk p, In (id, blk) ms -> In p blk -> has_key acc' (id mod 65536) (pkey16 p) = true).
Proof.
  induction ms as [|[id blk] r IH]; intros seen acc ids acc' ids' H; cbn [load_mans] in H.
  - inversion H; subst. split; [exists []; now rewrite app_nil_r|intros ? ? ? []].
  - destruct (existsb _ seen); [discriminate|].
    destruct (get_pid_list validate false lo hi (id mod 65536) blk [] [] acc) as [acc1|] eqn:E; [|discriminate].
    destruct (get_pid_list_prefix _ _ _ _ _ _ _ _ _ _ E) as [[e1 E1] P1].
    destruct (IH _ _ _ _ _ H) as [[e2 E2] P2]. split.
    + exists (e1 ++ e2). subst. now rewrite app_assoc.
    + intros id' blk' p [Heq|Hin] Hp; [|now apply (P2 id' blk' p)].
      inversion Heq; subst id' blk'. rewrite E2. apply has_key_app. now apply P1.
Qed.

Lemma get_pid_list_nodup validate limit lo hi man blk : forall sv sn acc acc',
  get_pid_list validate limit lo hi man blk sv sn acc = Some acc' ->
  NoDup (map lkey acc) -> NoDup (map lkey acc').
Proof.
  induction blk as [|[[name value] frames] r IH]; intros sv sn acc acc' H Hn; cbn [get_pid_list] in H.
  - now inversion H; subst.
  - destruct (validate && _); [discriminate|].
    destruct (has_key acc man (value mod 65536)) eqn:Ek; [now apply (IH _ _ _ _ H)|].
    destruct (conv_frames validate frames) as [ds|]; [|discriminate].
    apply (IH _ _ _ _ H). rewrite map_app. cbn [map]. apply NoDup_snoc; [assumption|]. now apply has_key_false.
Qed.
Lemma load_mans_nodup validate lo hi ms : forall seen acc ids acc' ids',
  load_mans validate lo hi ms seen acc ids = Some (acc', ids') ->
  NoDup (map lkey acc) -> NoDup (map lkey acc').
Proof.
  induction ms as [|[id blk] r IH]; intros seen acc ids acc' ids' H Hn; cbn [load_mans] in H.
  - now inversion H; subst.
  - destruct (existsb _ seen); [discriminate|].
    destruct (get_pid_list validate false lo hi (id mod 65536) blk [] [] acc) as [acc1|] eqn:E; [|discriminate].
    apply (IH _ _ _ _ _ H). now apply (get_pid_list_nodup _ _ _ _ _ _ _ _ _ _ E).
Qed.

(* BuildStore's merge: what was loaded from the overrides stays, unchanged and in place; every
   definition of the main data has its (manufacturer, value) present afterwards -- none vanishes --
   and no key occurs twice, so an overridden key denotes the override's definition *)
Lemma load_proto_merge validate lo hi main Lo io L ids :
  NoDup (map lkey Lo) ->
  load_proto validate lo hi main Lo io = Some (L, ids) ->
  (exists ext, L = Lo ++ ext) /\ NoDup (map lkey L) /\
  (forall p, In p (fst main) -> has_key L 0 (pkey16 p) = true) /\
  (forall id blk p, In (id, blk) (snd main) -> In p blk -> has_key L (id mod 65536) (pkey16 p) = true).
Proof.
  unfold load_proto. intros Hn H.
  destruct (get_pid_list validate true lo hi 0 (fst main) [] [] Lo) as [acc|] eqn:E; [|discriminate].
  destruct (get_pid_list_prefix _ _ _ _ _ _ _ _ _ _ E) as [[e1 E1] P1].
  destruct (load_mans_prefix _ _ _ _ _ _ _ _ _ H) as [[e2 E2] P2].
  assert (Hnd : NoDup (map lkey L)).
  { apply (load_mans_nodup _ _ _ _ _ _ _ _ _ H). apply (get_pid_list_nodup _ _ _ _ _ _ _ _ _ _ E). exact Hn. }
  repeat split; try assumption.
  - exists (e1 ++ e2). subst. now rewrite app_assoc.
  - intros p Hp. rewrite E2. apply has_key_app. now apply P1.
Qed.

(* ---------------------------------------------------------------- names *)
Definition lman (e : lentry) : N := fst (fst (fst e)).
Definition lname (e : lentry) : list N := snd (fst e).
Definition nkey (e : lentry) : N * list N := (lman e, lname e).

Lemma not_seen name sn : existsb (list_eqb name) sn = false -> ~ In name sn.
Proof.
  intros H Hin. assert (existsb (list_eqb name) sn = true) as X; [|congruence].
  apply existsb_exists. exists name. split; [assumption|now apply list_eqb_eq].
Qed.

Lemma get_pid_list_names limit lo hi man blk : forall sv sn acc acc',
  NoDup (map nkey acc) -> (forall e, In e acc -> lman e = man -> In (lname e) sn) ->
  get_pid_list true limit lo hi man blk sv sn acc = Some acc' ->
  NoDup (map nkey acc') /\ (forall e, In e acc' -> In e acc \/ lman e = man).
Proof.
  induction blk as [|[[name value] frames] r IH]; intros sv sn acc acc' Hn Hs H; cbn [get_pid_list] in H.
  - inversion H; subst. split; [assumption|auto].
  - cbn [andb] in H.
    destruct (existsb (N.eqb (value mod 65536)) sv); [discriminate|].
    destruct (existsb (list_eqb name) sn) eqn:En; [discriminate|]. cbn [orb] in H.
    destruct (limit && (lo <? value) && (value <? hi)); [discriminate|].
    pose proof (not_seen _ _ En) as Hnot.
    destruct (has_key acc man (value mod 65536)).
    + apply (IH _ _ _ _ Hn) in H; [assumption|]. intros e He Hm. right. now apply Hs.
    + destruct (conv_frames true frames) as [ds|]; [|discriminate].
      apply IH in H.
      * destruct H as [H1 H2]. split; [assumption|]. intros e He. destruct (H2 e He) as [Hin|Hm]; [|now right].
        apply in_app_iff in Hin as [Hin|[<-|[]]]; [now left|right; reflexivity].
      * rewrite map_app. cbn [map]. apply NoDup_snoc; [assumption|].
        intros Hin. apply in_map_iff in Hin as (e & Ek & He). unfold nkey in Ek. cbn in Ek.
        inversion Ek as [[Em Enm]]. apply Hnot. rewrite <- Enm. now apply Hs.
      * intros e He Hm. apply in_app_iff in He as [He|[<-|[]]]; [right; now apply Hs|left; reflexivity].
Qed.

Lemma load_mans_names lo hi ms : forall seen acc ids acc' ids',
  (forall id blk, In (id, blk) ms -> id mod 65536 <> 0) ->
  NoDup (map nkey acc) -> (forall e, In e acc -> lman e = 0 \/ In (lman e) seen) ->
  load_mans true lo hi ms seen acc ids = Some (acc', ids') -> NoDup (map nkey acc').
Proof.
  induction ms as [|[id blk] r IH]; intros seen acc ids acc' ids' Hz Hn Hm H; cbn [load_mans] in H.
  - now inversion H; subst.
  - destruct (existsb (N.eqb (id mod 65536)) seen) eqn:Es; [discriminate|].
    destruct (get_pid_list true false lo hi (id mod 65536) blk [] [] acc) as [acc1|] eqn:E; [|discriminate].
    assert (Hfresh : forall e, In e acc -> lman e = id mod 65536 -> In (lname e) []).
    { intros e He Hmn. exfalso. destruct (Hm e He) as [H0|Hin].
      - apply (Hz id blk (or_introl eq_refl)). congruence.
      - assert (existsb (N.eqb (id mod 65536)) seen = true) as X; [|congruence].
        apply existsb_exists. exists (lman e). split; [assumption|]. apply N.eqb_eq. congruence. }
    destruct (get_pid_list_names _ _ _ _ _ _ _ _ _ Hn Hfresh E) as [N1 M1].
    apply (IH _ _ _ _ _) in H; try assumption.
    + intros id' blk' Hin. apply (Hz id' blk'). now right.
    + intros e He. destruct (M1 e He) as [Hin|Hmn].
      * destruct (Hm e Hin) as [H0|Hs]; [now left|right; now right].
      * right. left. now rewrite Hmn.
Qed.

Lemma nodup_nkey_name l : NoDup (map nkey l) -> nodupb keq_name (pids_of l) = true.
Proof.
  induction l as [|e r IH]; cbn [map pids_of nodupb]; intros H; [reflexivity|].
  inversion H as [|? ? Hx Hr]; subst. fold (pids_of r). rewrite (IH Hr), andb_true_r.
  destruct (existsb _ (pids_of r)) eqn:E; [exfalso|reflexivity].
  apply existsb_exists in E as (x & Hin & Hk). apply Hx.
  unfold pids_of in Hin. apply in_map_iff in Hin as (e' & Ex & He'). subst x.
  apply in_map_iff. exists e'. split; [|assumption].
  unfold keq_name in Hk. cbn [fst snd] in Hk. apply andb_prop in Hk as [K1 K2].
  apply N.eqb_eq in K1. apply list_eqb_eq in K2. unfold nkey, lman, lname.
  destruct e as [[[m p] nm0] ds], e' as [[[m' p'] nm'] ds']. cbn in *. congruence.
Qed.

(* a validating load of data without a manufacturer block numbered 0 (mod 2^16): no manufacturer
   (and not the ESTA store) has two definitions with the same name *)
Lemma load_model_names lo hi p L ids :
  (forall id blk, In (id, blk) (snd p) -> id mod 65536 <> 0) ->
  load_model true lo hi p = Some (L, ids) -> nodupb keq_name (pids_of L) = true.
Proof.
  unfold load_model. intros Hz H.
  destruct (get_pid_list true true lo hi 0 (fst p) [] [] []) as [acc|] eqn:E; [|discriminate].
  destruct (get_pid_list_names true lo hi 0 (fst p) [] [] [] acc (NoDup_nil _)) as [N1 M1];
    [intros e []|exact E|].
  apply nodup_nkey_name. apply (load_mans_names _ _ _ _ _ _ _ _ Hz N1) in H; [assumption|].
  intros e He. left. destruct (M1 e He) as [[]|Hm]. exact Hm.
Qed.
