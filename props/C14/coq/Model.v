(* C14 — executable model of the PID message codec of /repo:
     include/ola/messaging/Descriptor.h + common/messaging/Descriptor.cpp   (sizes of descriptors)
     common/rdm/DescriptorConsistencyChecker.cpp                            (consistency)
     common/rdm/VariableFieldSizeCalculator.cpp                             (calc)
     common/rdm/MessageDeserializer.cpp                                     (visit / inflate)
     common/rdm/MessageSerializer.cpp + common/messaging/Message.cpp        (ser / serialize)
   No proofs here.  `unsigned int` arithmetic is written with u32 where the C++ has it. *)
From OlaBase Require Import Bytes.
Local Open Scope N_scope.

(* ---------------------------------------------------------------- descriptors *)
Inductive fd : Type :=
| FBool
| FInt (w : N) (sg le : bool)          (* IntegerFieldDescriptor<T>: sizeof(T), signed?, little endian? *)
| FIPv4 | FIPv6 | FMAC | FUID
| FString (mn mx : N)                  (* uint8_t min_size, max_size *)
| FGroup (mn : N) (mx : Z) (fs : list fd).   (* uint16_t min_blocks, int16_t max_blocks (-1 = unlimited) *)

(* int16_t -> (int ->) unsigned int conversion *)
Definition u32z (z : Z) : N := Z.to_N (z mod 4294967296).

Fixpoint sumN (l : list N) : N := match l with [] => 0 | x :: r => x + sumN r end.

(* FieldDescriptorInterface::FixedSize *)
Fixpoint fixed_size (f : fd) : bool :=
  match f with
  | FString mn mx => mn =? mx
  | FGroup mn mx fs => forallb fixed_size fs && (Z.of_N mn =? mx)%Z   (* FixedBlockSize && FixedBlockCount *)
  | _ => true
  end.

(* FieldDescriptorInterface::LimitedSize *)
Fixpoint limited_size (f : fd) : bool :=
  match f with
  | FGroup mn mx fs => if (mx =? -1)%Z then false else forallb limited_size fs
  | _ => true
  end.

(* FieldDescriptorInterface::MaxSize; for groups PopulateIfRequired's `size += MaxSize()` in unsigned int *)
Fixpoint max_size (f : fd) : N :=
  match f with
  | FBool => 1
  | FInt w _ _ => w
  | FIPv4 => 4
  | FIPv6 => 16
  | FMAC => 6
  | FUID => 6
  | FString _ mx => mx
  | FGroup mn mx fs =>
    if (mx =? -1)%Z then 0 else
    if forallb limited_size fs
    then u32 (u32 (sumN (map max_size fs)) * u32z mx)     (* MaxBlockSize() * m_max_blocks *)
    else 0
  end.

(* FieldDescriptorGroup::BlockSize (0 unless every field is of fixed size) *)
Definition block_size (f : fd) : N :=
  match f with
  | FGroup _ _ fs => if forallb fixed_size fs then u32 (sumN (map max_size fs)) else 0
  | _ => 0
  end.

Definition fixed_block (f : fd) : bool :=
  match f with FGroup _ _ fs => forallb fixed_size fs | _ => true end.

(* ---------------------------------------------------------------- DescriptorConsistencyChecker *)
Definition cc_count (f : fd) : N :=
  match f with
  | FString _ _ => if fixed_size f then 0 else 1
  | FGroup _ _ _ => (if fixed_size f then 0 else 1) + (if fixed_block f then 0 else 1)
  | _ => 0
  end.
(* CheckConsistency: only the top-level fields are visited (Descend() is false) *)
Definition consistent (fs : list fd) : bool := sumN (map cc_count fs) <=? 1.

(* ---------------------------------------------------------------- VariableFieldSizeCalculator *)
Inductive cstate :=
| TooSmall | TooLarge | FixedSz | VarString (n : N) | VarGroup (n : N)
| MultipleVar | NestedVar | Mismatched
| CDivZero        (* hazard: `bytes_remaining % block_size` with block_size == 0; unreachable since fixes/02 *)
| CBug.           (* unreachable default branches of the model *)

Definition is_var_string (f : fd) : bool :=
  match f with FString _ _ => negb (fixed_size f) | _ => false end.
Definition is_var_group (f : fd) : bool :=
  match f with FGroup _ _ _ => negb (fixed_size f) | _ => false end.
(* what Visit() adds to m_fixed_size_sum *)
Definition fixed_part (f : fd) : N :=
  if is_var_string f || is_var_group f then 0 else max_size f.

Definition calc (data_size : N) (fs : list fd) : cstate :=
  let fsum := u32 (sumN (map fixed_part fs)) in
  if data_size <? fsum then TooSmall else
  let vs := filter is_var_string fs in
  let vg := filter is_var_group fs in
  let nv := len vs + len vg in
  if 1 <? nv then MultipleVar else
  if nv =? 0 then (if fsum <? data_size then TooLarge else FixedSz) else
  let rem := data_size - fsum in
  match vs with
  | FString mn mx :: _ =>
    if rem <? mn then TooSmall else
    if mx <? rem then TooLarge else VarString rem
  | _ :: _ => CBug
  | [] =>
    match vg with
    | FGroup mn mx gfs :: _ =>
      let g := FGroup mn mx gfs in
      if negb (fixed_block g) then NestedVar else
      let bsz := block_size g in
      (* blocks without data (fixes/02): only "nothing left" is acceptable, as zero blocks *)
      if bsz =? 0 then (if 0 <? rem then TooLarge else if 0 <? mn then TooSmall else VarGroup 0) else
      if limited_size g && (u32 (bsz * u32z mx) <? rem) then TooLarge else
      if negb (rem mod bsz =? 0) then Mismatched else
      let rc := rem / bsz in
      if rc <? mn then TooSmall else
      if negb (mx =? -1)%Z && (u32z mx <? rc) then TooLarge else
      VarGroup rc
    | _ => CBug
    end
  end.

(* ---------------------------------------------------------------- messages *)
Inductive mf : Type :=
| MBool (b : bool)
| MInt (w : N) (sg le : bool) (v : N)      (* value as the unsigned bit pattern *)
| MIPv4 (v : N)                             (* the 4 / 16 / 6 address bytes, read as a big-endian number *)
| MIPv6 (v : N)
| MMAC (v : N)
| MUID (man dev : N)
| MStr (mn mx : N) (v : list N)             (* descriptor's MinSize/MaxSize + the (shortened) value *)
| MGroup (fs : list mf).

(* little/big endian composition and decomposition *)
Fixpoint le_val (l : list N) : N := match l with [] => 0 | b :: r => b + 256 * le_val r end.
Definition be_val (l : list N) : N := le_val (rev l).
Fixpoint le_bytes (w : nat) (v : N) : list N :=
  match w with O => [] | S k => v mod 256 :: le_bytes k (v / 256) end.
Definition be_bytes (w : nat) (v : N) : list N := rev (le_bytes w v).

(* ola::ShortenString: erase from the first NUL *)
Fixpoint shorten (l : list N) : list N :=
  match l with [] => [] | b :: r => if b =? 0 then [] else b :: shorten r end.

(* reads n bytes at offset o, every byte through rd *)
Fixpoint rdn (bs : list N) (o : N) (n : nat) : option (list N) :=
  match n with
  | O => Some []
  | S k => match rd bs o with
           | None => None
           | Some b => match rdn bs (o + 1) k with None => None | Some r => Some (b :: r) end
           end
  end.

(* ---------------------------------------------------------------- MessageDeserializer *)
Record vst := { off : N; insuf : bool }.          (* m_offset, m_insufficient_data *)
Inductive vres := VOob | VOk (ms : list mf) (st : vst).

(* CheckForData: required_size <= m_length - m_offset  (unsigned) *)
Definition check_for_data (bs : list N) (req : N) (st : vst) : bool :=
  req <=? usub32 (len bs) (off st).

Definition visit_scalar (bs : list N) (n : N) (mk : list N -> mf) (st : vst) : vres :=
  if check_for_data bs n st then
    match rdn bs (off st) (N.to_nat n) with
    | None => VOob
    | Some seg => VOk [mk seg] {| off := u32 (off st + n); insuf := insuf st |}
    end
  else VOk [] {| off := off st; insuf := true |}.

Definition mk_bool (seg : list N) : mf := MBool (negb (hd 0 seg =? 0)).
Definition mk_int (w : N) (sg le : bool) (seg : list N) : mf :=
  MInt w sg le (if le then le_val seg else be_val seg).
Definition mk_ip4 (seg : list N) : mf := MIPv4 (be_val seg).
Definition mk_ip6 (seg : list N) : mf := MIPv6 (be_val seg).
Definition mk_mac (seg : list N) : mf := MMAC (be_val seg).
Definition mk_uid (seg : list N) : mf := MUID (be_val (firstn 2 seg)) (be_val (skipn 2 seg)).
Definition mk_str (mn mx : N) (seg : list N) : mf := MStr mn mx (shorten seg).

(* the two loops of Visit(FieldDescriptorGroup): over the fields of a block, over the blocks *)
Definition fields_with (vis : fd -> vst -> vres) : list fd -> vst -> vres :=
  fix fields (l : list fd) (st : vst) : vres :=
    match l with
    | [] => VOk [] st
    | x :: r =>
      match vis x st with
      | VOob => VOob
      | VOk ms st1 =>
        match fields r st1 with
        | VOob => VOob
        | VOk ms2 st2 => VOk (ms ++ ms2) st2
        end
      end
    end.
Definition loop_with (block : vst -> vres) : nat -> vst -> vres :=
  fix loop (k : nat) (st : vst) : vres :=
    match k with
    | O => VOk [] st
    | S k' =>
      match block st with
      | VOob => VOob
      | VOk ms st1 =>
        match loop k' st1 with
        | VOob => VOob
        | VOk rest st2 => VOk (MGroup ms :: rest) st2
        end
      end
    end.

Section Visit.
  Variable bs : list N.
  Variable vfs : N.                 (* m_variable_field_size *)

  Fixpoint visit (f : fd) (st : vst) : vres :=
    match f with
    | FBool => visit_scalar bs 1 mk_bool st
    | FInt w sg le => visit_scalar bs w (mk_int w sg le) st
    | FIPv4 => visit_scalar bs 4 mk_ip4 st
    | FIPv6 => visit_scalar bs 16 mk_ip6 st
    | FMAC => visit_scalar bs 6 mk_mac st
    | FUID => visit_scalar bs 6 mk_uid st
    | FString mn mx =>
      visit_scalar bs (if mn =? mx then mx else vfs) (mk_str mn mx) st
    | FGroup mn mx fs =>
      let iterations := if fixed_size (FGroup mn mx fs) then mn else vfs in
      loop_with (fields_with visit fs) (N.to_nat iterations) st
    end.

  (* Descriptor::Accept: the top-level fields in order *)
  Definition visit_fields (l : list fd) (st : vst) : vres := fields_with visit l st.
  Definition visit_loop (fs : list fd) (k : nat) (st : vst) : vres :=
    loop_with (fields_with visit fs) k st.
End Visit.

Inductive res :=
| Oob            (* hazard: a read outside the supplied bytes *)
| DivZero        (* hazard: division by a zero block size *)
| Bug            (* unreachable model branch *)
| Null           (* InflateMessage returned NULL *)
| Msg (m : list mf).

(* InflateMessage; prev = value of m_variable_field_size left by the previous call *)
Definition inflate (prev : N) (fs : list fd) (bs : list N) : res :=
  let run (v : N) :=
    match visit_fields bs v fs {| off := 0; insuf := false |} with
    | VOob => Oob
    | VOk ms st => if insuf st then Null else Msg ms
    end in
  match calc (len bs) fs with
  | TooSmall | TooLarge | MultipleVar | NestedVar | Mismatched => Null
  | CDivZero => DivZero
  | CBug => Bug
  | FixedSz => run prev
  | VarString n => run n
  | VarGroup n => run n
  end.

(* ---------------------------------------------------------------- MessageSerializer *)
Fixpoint ser (m : mf) : list N :=
  match m with
  | MBool b => [if b then 1 else 0]
  | MInt w sg le v => if le then le_bytes (N.to_nat w) v else be_bytes (N.to_nat w) v
  | MIPv4 v => be_bytes 4 v
  | MIPv6 v => be_bytes 16 v
  | MMAC v => be_bytes 6 v
  | MUID man dev => be_bytes 2 man ++ be_bytes 4 dev
  | MStr mn mx v =>
    let size := N.min (len v) mx in
    let used := N.max size mn in
    take size v ++ repeat 0 (N.to_nat (used - size))
  | MGroup fs => flat_map ser fs            (* Visit/PostVisit of a group emit nothing *)
  end.
Definition serialize (m : list mf) : list N := flat_map ser m.

(* value shown for signed integer fields *)
Definition int_shown (w : N) (sg : bool) (v : N) : Z :=
  if sg && (2 ^ (8 * w - 1) <=? v) then (Z.of_N v - Z.of_N (2 ^ (8 * w)))%Z else Z.of_N v.

(* ---------------------------------------------------------------- MessageSerializer's buffer
   (CheckForFreeSpace as corrected by props/C14/fixes/01: the new size is recorded, doubling is
   repeated until the request fits, strings reserve their padded size).  Only sizes are tracked
   here; the bytes are `ser`.  SOverflow = a write (or the copy into the new block) outside the
   allocated block; SNoFuel = the model's loop fuel ran out. *)
Record sst := { cap : N; soff : N }.          (* m_buffer_size = bytes allocated, m_offset *)
Inductive sres := SOverflow | SNoFuel | SOk (st : sst).

(* while (new_size - m_offset <= required_size) new_size *= 2;     (unsigned int) *)
Fixpoint grow (fuel : nat) (ns o req : N) : option N :=
  match fuel with
  | O => None
  | S k => if usub32 ns o <=? req then grow k (u32 (2 * ns)) o req else Some ns
  end.

Definition check_free (req : N) (st : sst) : sres :=
  if req <? usub32 (cap st) (soff st) then SOk st else
  match grow 40 (if cap st =? 0 then 256 else u32 (2 * cap st)) (soff st) req with
  | None => SNoFuel
  | Some ns =>
    if ns <? soff st then SOverflow        (* memcpy(m_data, old_buffer, m_offset) *)
    else SOk {| cap := ns; soff := soff st |}
  end.

(* CheckForFreeSpace(n) followed by n bytes written at m_offset *)
Definition write (n : N) (st : sst) : sres :=
  match check_free n st with
  | SOk st1 => if cap st1 <? soff st1 + n then SOverflow
               else SOk {| cap := cap st1; soff := u32 (soff st1 + n) |}
  | r => r
  end.

Definition space_list (f : mf -> sst -> sres) : list mf -> sst -> sres :=
  fix go (l : list mf) (st : sst) : sres :=
    match l with
    | [] => SOk st
    | m :: r => match f m st with SOk st1 => go r st1 | e => e end
    end.

Fixpoint ser_space (m : mf) (st : sst) : sres :=
  match m with
  | MGroup fs => space_list ser_space fs st
  | _ => write (len (ser m)) st          (* every field reserves exactly what it then writes *)
  end.

(* SerializeMessage of a fresh serializer: new uint8_t[m_initial_buffer_size], m_offset = 0 *)
Definition serialize_space (init : N) (m : list mf) : sres :=
  space_list ser_space m {| cap := init; soff := 0 |}.

(* ---------------------------------------------------------------- a REUSED MessageSerializer
   m_data keeps the bytes of earlier messages.  The buffer is a list with arbitrary stale contents;
   every memcpy/memset of the Visit methods overwrites len(bytes) bytes at m_offset.  A string is
   two writes: memcpy of the characters, memset of the NUL padding up to MinSize. *)
Definition bwrite (bytes : list N) (s : list N * N) : list N * N :=
  let (buf, o) := s in
  (take o buf ++ bytes ++ drop (o + len bytes) buf, o + len bytes).

Definition into_list (f : mf -> list N * N -> list N * N) : list mf -> list N * N -> list N * N :=
  fix go (l : list mf) (s : list N * N) : list N * N :=
    match l with [] => s | m :: r => go r (f m s) end.

Fixpoint ser_into (m : mf) (s : list N * N) : list N * N :=
  match m with
  | MStr mn mx v =>
    let size := N.min (len v) mx in
    let used := N.max size mn in
    bwrite (repeat 0 (N.to_nat (used - size))) (bwrite (take size v) s)
  | MGroup fs => into_list ser_into fs s
  | _ => bwrite (ser m) s
  end.

(* SerializeMessage on a serializer whose buffer holds `stale`: m_offset = 0, visit, return the
   first m_offset bytes *)
Definition serialize_into (stale : list N) (m : list mf) : list N :=
  let (buf, o) := into_list ser_into m (stale, 0) in take o buf.

(* ---------------------------------------------------------------- GroupSizeCalculator
   (common/rdm/GroupSizeCalculator.cpp; used by StringMessageBuilder when a message is built from
   text tokens: the number of blocks of the variable group is derived from the token count) *)
(* StaticGroupTokenCalculator: (tokens, a variable-sized group was met) for one field *)
Fixpoint tokens (f : fd) : N * bool :=
  match f with
  | FGroup mn mx fs =>
    let inner := map tokens fs in
    (u32 (u32 (sumN (map fst inner)) * mn),                       (* PostVisit: top += length * MinBlocks *)
     negb (fixed_size (FGroup mn mx fs)) || existsb snd inner)
  | _ => (1, false)
  end.
(* CalculateTokensRequired(group): the tokens of ONE block *)
Definition block_tokens (g : fd) : N * bool :=
  match g with
  | FGroup _ _ fs => let inner := map tokens fs in (u32 (sumN (map fst inner)), existsb snd inner)
  | _ => (0, false)
  end.

Inductive gstate :=
| GInsufficient | GExtra | GMismatched | GMultipleVar | GNestedVar | GSingleVar (n : N) | GNoVar
| GDivZero.       (* hazard: remaining_tokens % 0 *)

Definition is_group (f : fd) : bool := match f with FGroup _ _ _ => true | _ => false end.

Record gacc := { g_req : N; g_cnt : N; g_tok : N; g_mx : Z }.
(* the loop over m_groups; None = early return with the given state *)
Fixpoint gloop (gs : list fd) (a : gacc) : gstate + gacc :=
  match gs with
  | [] => inr a
  | g :: r =>
    let (t, v) := block_tokens g in
    if v then inl GNestedVar else
    match g with
    | FGroup mn mx _ =>
      if fixed_size g then gloop r {| g_req := u32 (g_req a + u32 (mn * t)); g_cnt := g_cnt a;
                                      g_tok := g_tok a; g_mx := g_mx a |}
      else if 1 <? g_cnt a + 1 then inl GMultipleVar
      else gloop r {| g_req := g_req a; g_cnt := g_cnt a + 1; g_tok := t; g_mx := mx |}
    | _ => gloop r a
    end
  end.

Definition gcalc (tc : N) (fs : list fd) : gstate :=
  let groups := filter is_group fs in
  let req := len (filter (fun f => negb (is_group f)) fs) in
  if tc <? req then GInsufficient else
  match groups with
  | [] => if req =? tc then GNoVar else GExtra
  | _ =>
    match gloop groups {| g_req := req; g_cnt := 0; g_tok := 0; g_mx := 0 |} with
    | inl s => s
    | inr a =>
      if tc <? g_req a then GInsufficient else
      if g_cnt a =? 0 then (if g_req a =? tc then GNoVar else GExtra) else
      let rem := tc - g_req a in
      if negb (g_mx a =? -1)%Z && (u32 (u32z (g_mx a) * g_tok a) <? rem) then GExtra else
      (* a group without tokens per block (fixes/02) *)
      if g_tok a =? 0 then (if 0 <? rem then GExtra else GSingleVar 0) else
      if negb (rem mod g_tok a =? 0) then GMismatched else
      GSingleVar (rem / g_tok a)
    end
  end.
