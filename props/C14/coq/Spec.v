(* C14 — specification-level definitions, written from the property text:
   well-formed descriptors, the byte layout a descriptor prescribes for a payload of a given LENGTH,
   and the expected re-encoding of a payload ("strings compared up to their first NUL"). *)
From OlaBase Require Import Bytes.
From C14 Require Import Model.
Local Open Scope N_scope.

(* ---------------------------------------------------------------- well-formedness *)
(* sizes of nested groups do not leave `unsigned int`; min <= max; widths are real C++ widths *)
Fixpoint sane (f : fd) : bool :=
  match f with
  | FInt w _ _ => (w =? 1) || (w =? 2) || (w =? 4) || (w =? 8)
  | FString mn mx => (mn <=? mx) && (mx <? 256)
  | FGroup mn mx fs =>
    forallb sane fs && (mn <? 65536) && (mx <? 32768)%Z &&
    ((mx =? -1)%Z || (Z.of_N mn <=? mx)%Z) &&
    (sumN (map max_size fs) <? 4294967296) &&
    ((mx =? -1)%Z || (sumN (map max_size fs) * Z.to_N mx <? 4294967296))
  | _ => true
  end.

(* a variable-size group with a non-zero block size (before fixes/02 the calculator divided by zero
   otherwise; no longer part of wf_desc, still checked of the shipped data) *)
Definition nonzero_block (f : fd) : bool :=
  match f with
  | FGroup _ _ _ => fixed_size f || negb (block_size f =? 0)
  | _ => true
  end.

(* None of this is enforced by the loader (DescriptorConsistencyChecker = `consistent` only counts
   variable-size fields); it is therefore proved of the shipped data (c14_shipped), together with
   `consistent`, rather than assumed. *)
Definition wf_desc (fs : list fd) : bool :=
  forallb sane fs && (sumN (map fixed_part fs) <? 4294967296).

(* ---------------------------------------------------------------- layout *)
Inductive atom :=
| ABool                   (* one byte holding a boolean *)
| AOpaque (n : N)         (* n bytes of an integer / address / UID field *)
| AStr (n mn : N).        (* n bytes of a string field whose descriptor has MinSize mn *)

Definition asize (a : atom) : N :=
  match a with ABool => 1 | AOpaque n => n | AStr n _ => n end.

(* the atoms of one field; v = length of the variable string / block count of the variable group *)
Fixpoint flatten (v : N) (f : fd) : list atom :=
  match f with
  | FBool => [ABool]
  | FInt w _ _ => [AOpaque w]
  | FIPv4 => [AOpaque 4]
  | FIPv6 => [AOpaque 16]
  | FMAC => [AOpaque 6]
  | FUID => [AOpaque 6]
  | FString mn mx => [AStr (if mn =? mx then mx else v) mn]
  | FGroup mn mx fs =>
    concat (repeat (flat_map (flatten v) fs)
                   (N.to_nat (if fixed_size (FGroup mn mx fs) then mn else v)))
  end.

(* The layout of a payload of n bytes: a function of the descriptor and of n ONLY.
   None = payloads of this length are rejected. *)
Definition layout (fs : list fd) (n : N) : option (list atom) :=
  match calc n fs with
  | FixedSz => Some (flat_map (flatten 0) fs)
  | VarString k => Some (flat_map (flatten k) fs)
  | VarGroup k => Some (flat_map (flatten k) fs)
  | _ => None
  end.

(* ---------------------------------------------------------------- expected re-encoding *)
Definition pad_string (mn : N) (seg : list N) : list N :=
  let v := shorten seg in v ++ repeat 0 (N.to_nat (N.max (len v) mn - len v)).

(* what the property demands: everything byte-identical, strings up to their first NUL
   (then NUL padding up to the descriptor's minimum size) *)
Definition renorm_strict (a : atom) (seg : list N) : list N :=
  match a with AStr _ mn => pad_string mn seg | _ => seg end.

(* what the code does today: as above, but a boolean byte b >= 2 comes back as 1
   (known finding C14-bool-byte-normalised) *)
Definition renorm (a : atom) (seg : list N) : list N :=
  match a with
  | ABool => [if hd 0 seg =? 0 then 0 else 1]
  | _ => renorm_strict a seg
  end.

Fixpoint reenc_with (rn : atom -> list N -> list N) (l : list atom) (bs : list N) : list N :=
  match l with
  | [] => []
  | a :: r => rn a (take (asize a) bs) ++ reenc_with rn r (drop (asize a) bs)
  end.
Definition reenc := reenc_with renorm.
Definition reenc_strict := reenc_with renorm_strict.

(* every boolean byte of the payload is 0 or 1 *)
Fixpoint bools_canonical (l : list atom) (bs : list N) : bool :=
  match l with
  | [] => true
  | a :: r =>
    (match a with ABool => hd 0 bs <? 2 | _ => true end) && bools_canonical r (drop (asize a) bs)
  end.

(* no string atom: the payload must come back byte for byte *)
Definition no_strings (l : list atom) : bool :=
  forallb (fun a => match a with AStr _ _ => false | _ => true end) l.

(* ---------------------------------------------------------------- shapes (for c14_counts) *)
(* a message with every value erased: kinds of fields and the number of blocks of every group *)
Inductive shape := SBool | SInt (w : N) | SIPv4 | SIPv6 | SMAC | SUID | SStr | SGroup (l : list shape).
Fixpoint shape_of (m : mf) : shape :=
  match m with
  | MBool _ => SBool | MInt w _ _ _ => SInt w | MIPv4 _ => SIPv4 | MIPv6 _ => SIPv6
  | MMAC _ => SMAC | MUID _ _ => SUID | MStr _ _ _ => SStr
  | MGroup fs => SGroup (map shape_of fs)
  end.

(* the shape of the message a field decodes to; v as in flatten *)
Fixpoint fshape (v : N) (f : fd) : list shape :=
  match f with
  | FBool => [SBool] | FInt w _ _ => [SInt w] | FIPv4 => [SIPv4] | FIPv6 => [SIPv6]
  | FMAC => [SMAC] | FUID => [SUID] | FString _ _ => [SStr]
  | FGroup mn mx fs =>
    repeat (SGroup (flat_map (fshape v) fs))
           (N.to_nat (if fixed_size (FGroup mn mx fs) then mn else v))
  end.
Definition shape_layout (fs : list fd) (n : N) : option (list shape) :=
  match calc n fs with
  | FixedSz => Some (flat_map (fshape 0) fs)
  | VarString k => Some (flat_map (fshape k) fs)
  | VarGroup k => Some (flat_map (fshape k) fs)
  | _ => None
  end.

(* ---------------------------------------------------------------- store consistency *)
Fixpoint nodupb {A} (eqb : A -> A -> bool) (l : list A) : bool :=
  match l with
  | [] => true
  | x :: r => negb (existsb (eqb x) r) && nodupb eqb r
  end.
Fixpoint list_eqb (a b : list N) : bool :=
  match a, b with
  | [], [] => true
  | x :: a', y :: b' => (x =? y) && list_eqb a' b'
  | _, _ => false
  end.
Definition store_consistent (pids : list (N * N * list N)) (keys : list (N * N * N))
           (idx : list (N * N * N)) : bool :=
  nodupb (fun a b => (fst (fst a) =? fst (fst b)) && (snd (fst a) =? snd (fst b))) pids &&
  nodupb (fun a b => (fst (fst a) =? fst (fst b)) && list_eqb (snd a) (snd b)) pids &&
  nodupb (fun a b => (fst (fst a) =? fst (fst b)) && (snd (fst a) =? snd (fst b)) && (snd a =? snd b)) keys &&
  forallb (fun t => snd (fst t) =? snd t) idx.

(* ---------------------------------------------------------------- GroupSizeCalculator *)
(* every variable-size top-level group has at least one token per block *)
Definition gtok_ok (fs : list fd) : bool :=
  forallb (fun g => fixed_size g || negb (fst (block_tokens g) =? 0)) (filter is_group fs).

(* ---------------------------------------------------------------- store lookups
   RootPidStore as a finite map over the exported table: tbl = (manufacturer id, PID value, name),
   ids = manufacturer ids that own a store (0 = the ESTA store, which is kept apart).
   Mirrors RootPidStore::ManufacturerStore / GetDescriptor (4 overloads) / PidStore::LookupPID. *)
Definition pid_entry : Type := (N * N * list N)%type.
Definition find_pid (tbl : list pid_entry) (man pid : N) : option pid_entry :=
  find (fun e => (fst (fst e) =? man) && (snd (fst e) =? pid)) tbl.
Definition find_name (tbl : list pid_entry) (man : N) (name : list N) : option pid_entry :=
  find (fun e => (fst (fst e) =? man) && list_eqb (snd e) name) tbl.
(* m_manufacturer_store.find(id): the ESTA store is not in that map *)
Definition has_store (ids : list N) (man : N) : bool := negb (man =? 0) && existsb (N.eqb man) ids.
Definition to_upper (b : N) : N := if (97 <=? b) && (b <=? 122) then b - 32 else b.   (* ola::ToUpper *)
(* GetDescriptor(pid_value, manufacturer_id): ESTA store first, then that manufacturer's store *)
Definition get_by_pid (tbl : list pid_entry) (ids : list N) (pid man : N) : option pid_entry :=
  match find_pid tbl 0 pid with
  | Some e => Some e
  | None => if has_store ids man then find_pid tbl man pid else None
  end.
(* GetDescriptor(pid_name, manufacturer_id): the name is upper-cased first *)
Definition get_by_name (tbl : list pid_entry) (ids : list N) (name : list N) (man : N) : option pid_entry :=
  let n := map to_upper name in
  match find_name tbl 0 n with
  | Some e => Some e
  | None => if has_store ids man then find_name tbl man n else None
  end.
Definition store_count (tbl : list pid_entry) (man : N) : N :=
  len (filter (fun e => fst (fst e) =? man) tbl).

(* ---------------------------------------------------------------- loading with a site overrides.proto
   An override entry replaces the WHOLE definition of (manufacturer, PID value): name and the four
   optional frame formats; everything else that is shipped stays (PidStoreLoader::BuildStore loads the
   overrides first and GetPidList skips a PID value that is already present). *)
Definition ovr_entry : Type := (N * N * list N * list (option (list fd)))%type.
Definition ovr_man (o : ovr_entry) : N := fst (fst (fst o)).
Definition ovr_pid (o : ovr_entry) : N := snd (fst (fst o)).
Definition overridden (os : list ovr_entry) (man pid : N) : bool :=
  existsb (fun o => (ovr_man o =? man) && (ovr_pid o =? pid)) os.
Fixpoint kinds_from (k : N) (ds : list (option (list fd))) (man pid : N) : list ((N * N * N) * list fd) :=
  match ds with
  | [] => []
  | None :: r => kinds_from (k + 1) r man pid
  | Some fs :: r => ((man, pid, k), fs) :: kinds_from (k + 1) r man pid
  end.
Definition ovr_descs (os : list ovr_entry) : list ((N * N * N) * list fd) :=
  flat_map (fun o => kinds_from 0 (snd o) (ovr_man o) (ovr_pid o)) os.
Definition override_descs (tbl : list ((N * N * N) * list fd)) (os : list ovr_entry) :=
  filter (fun e => negb (overridden os (fst (fst (fst e))) (snd (fst (fst e))))) tbl ++ ovr_descs os.
Definition override_pids (tbl : list pid_entry) (os : list ovr_entry) : list pid_entry :=
  filter (fun e => negb (overridden os (fst (fst e)) (snd (fst e)))) tbl ++
  map (fun o => (ovr_man o, ovr_pid o, snd (fst o))) os.
(* manufacturers owning a store: the shipped ones plus the new ones of the overrides *)
Fixpoint add_ids (ids : list N) (new : list N) : list N :=
  match new with
  | [] => ids
  | m :: r => if existsb (N.eqb m) ids then add_ids ids r else add_ids (ids ++ [m]) r
  end.
Definition override_ids (ids : list N) (os : list ovr_entry) : list N := add_ids ids (map ovr_man os).

(* ---------------------------------------------------------------- what the loader enforces on a store
   PidStoreLoader::GetPidList with validate: within a manufacturer (or the ESTA block) no PID value and
   no PID name twice; an ESTA PID value is not strictly inside (MANUFACTURER_PID_MIN, MANUFACTURER_PID_MAX).
   (Frame formats: DescriptorConsistencyChecker = `consistent`.) *)
Definition keq_value (a b : pid_entry) : bool := (fst (fst a) =? fst (fst b)) && (snd (fst a) =? snd (fst b)).
Definition keq_name (a b : pid_entry) : bool := (fst (fst a) =? fst (fst b)) && list_eqb (snd a) (snd b).
Definition loader_rules (pid_min pid_max : N) (tbl : list pid_entry) : bool :=
  nodupb keq_value tbl && nodupb keq_name tbl &&
  forallb (fun e => negb (fst (fst e) =? 0) ||
                    negb ((pid_min <? snd (fst e)) && (snd (fst e) <? pid_max))) tbl.
