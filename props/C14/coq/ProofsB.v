(* C14 proofs, part B: the calculator, the top level of InflateMessage, the main lemmas. *)
From OlaBase Require Import Bytes.
From C14 Require Import Model Spec ProofsA.
Local Open Scope N_scope.

(* ---------------------------------------------------------------- variable / fixed fields *)
Lemma is_var_string_spec f :
  is_var_string f = true -> exists mn mx, f = FString mn mx /\ (mn =? mx) = false.
Proof.
  destruct f; cbn; try discriminate. intros H. eexists _, _; split; [reflexivity|].
  now destruct (mn =? mx).
Qed.
Lemma is_var_group_spec f :
  is_var_group f = true -> exists mn mx gfs, f = FGroup mn mx gfs /\ fixed_size f = false.
Proof.
  destruct f; try (cbn; discriminate). unfold is_var_group. intros H.
  eexists _, _, _; split; [reflexivity|]. now destruct (fixed_size (FGroup mn mx fs)).
Qed.
Lemma fixed_not_var f :
  fixed_size f = true -> is_var_string f = false /\ is_var_group f = false /\ fixed_part f = max_size f.
Proof.
  intros H. unfold fixed_part. destruct f; unfold is_var_string, is_var_group; try rewrite H; cbn [negb orb];
    repeat split; reflexivity.
Qed.
Lemma var_cases f :
  fixed_size f = false ->
  fixed_part f = 0 /\
  ((is_var_string f = true /\ is_var_group f = false) \/ (is_var_string f = false /\ is_var_group f = true)).
Proof.
  intros H. unfold fixed_part.
  destruct f; try (cbn in H; discriminate); unfold is_var_string, is_var_group; rewrite H; cbn [negb orb];
    split; try reflexivity; [left|right]; split; reflexivity.
Qed.

(* bytes a top-level field consumes; v = variable field size *)
Definition tsz (v : N) (f : fd) : N :=
  if fixed_size f then max_size f else
  match f with FString _ _ => v | _ => v * block_size f end.

Lemma sum_tsz v fs :
  sumN (map (tsz v) fs) =
  sumN (map fixed_part fs) + sumN (map (tsz v) (filter is_var_string fs)) +
  sumN (map (tsz v) (filter is_var_group fs)).
Proof.
  induction fs as [|f r IH]; cbn [map sumN filter]; [reflexivity|].
  destruct (fixed_size f) eqn:E.
  - destruct (fixed_not_var f E) as (E1 & E2 & E3). rewrite E1, E2, E3.
    unfold tsz at 1. rewrite E. lia.
  - destruct (var_cases f E) as (E0 & [[E1 E2]|[E1 E2]]); rewrite E0, E1, E2; cbn [map sumN]; lia.
Qed.

(* ---------------------------------------------------------------- the calculator *)
Lemma len_le1 {A} (a b : list A) :
  len a + len b <= 1 ->
  (a = [] /\ b = []) \/ (exists x, a = [x] /\ b = []) \/ (exists x, a = [] /\ b = [x]).
Proof.
  destruct a as [|x [|y a]], b as [|z [|w b]]; rewrite ?len_cons, ?len_nil; intros H; try lia.
  - left; auto.
  - right; right; eauto.
  - right; left; eauto.
Qed.

Lemma calc_cases n fs :
  sumN (map fixed_part fs) < 4294967296 ->
  match calc n fs with
  | FixedSz =>
    filter is_var_string fs = [] /\ filter is_var_group fs = [] /\ sumN (map fixed_part fs) = n
  | VarString k =>
    exists mn mx, filter is_var_string fs = [FString mn mx] /\ filter is_var_group fs = [] /\
                  sumN (map fixed_part fs) + k = n /\ k <= mx /\ (mn =? mx) = false
  | VarGroup k =>
    exists mn mx gfs, filter is_var_string fs = [] /\ filter is_var_group fs = [FGroup mn mx gfs] /\
                      forallb fixed_size gfs = true /\ fixed_size (FGroup mn mx gfs) = false /\
                      sumN (map fixed_part fs) + k * block_size (FGroup mn mx gfs) = n
  | CDivZero | CBug => False
  | _ => True
  end.
Proof.
  intros Hsum. unfold calc. rewrite (u32_id _ Hsum).
  set (fsum := sumN (map fixed_part fs)) in *.
  destruct (n <? fsum) eqn:E0; [exact I|]. apply N.ltb_ge in E0.
  remember (filter is_var_string fs) as vs eqn:Evs.
  remember (filter is_var_group fs) as vg eqn:Evg.
  destruct (1 <? len vs + len vg) eqn:E1; [exact I|]. apply N.ltb_ge in E1.
  destruct (len_le1 vs vg E1) as [[-> ->]|[(x & -> & ->)|(x & -> & ->)]].
  - cbn. destruct (fsum <? n) eqn:E2; [exact I|]. apply N.ltb_ge in E2. repeat split; lia.
  - assert (Hx : is_var_string x = true).
    { assert (In x (filter is_var_string fs)) as Hin by (rewrite <- Evs; now left).
      now apply filter_In in Hin. }
    destruct (is_var_string_spec x Hx) as (mn & mx & -> & Hne).
    cbn [len length N.of_nat Pos.of_succ_nat N.add N.eqb Pos.eqb].
    destruct (n - fsum <? mn) eqn:E3; [exact I|].
    destruct (mx <? n - fsum) eqn:E4; [exact I|]. apply N.ltb_ge in E4.
    exists mn, mx. repeat split; try assumption; lia.
  - assert (Hin : In x fs /\ is_var_group x = true).
    { apply filter_In. rewrite <- Evg. now left. }
    destruct Hin as [Hin Hx].
    destruct (is_var_group_spec x Hx) as (mn & mx & gfs & -> & Hnf).
    cbn [len length N.of_nat Pos.of_succ_nat N.add N.eqb Pos.eqb].
    destruct (fixed_block (FGroup mn mx gfs)) eqn:Efb; cbn [negb]; [|exact I].
    destruct (block_size (FGroup mn mx gfs) =? 0) eqn:Eb; [apply N.eqb_eq in Eb|apply N.eqb_neq in Eb].
    { destruct (0 <? n - fsum) eqn:Er; [exact I|]. apply N.ltb_ge in Er.
      destruct (0 <? mn); [exact I|].
      exists mn, mx, gfs. repeat split; try assumption. rewrite Eb. lia. }
    destruct (limited_size (FGroup mn mx gfs) &&
              (u32 (block_size (FGroup mn mx gfs) * u32z mx) <? n - fsum)); [exact I|].
    destruct ((n - fsum) mod block_size (FGroup mn mx gfs) =? 0) eqn:Em; cbn [negb]; [|exact I].
    apply N.eqb_eq in Em.
    destruct ((n - fsum) / block_size (FGroup mn mx gfs) <? mn); [exact I|].
    destruct (negb (mx =? -1)%Z && (u32z mx <? (n - fsum) / block_size (FGroup mn mx gfs))); [exact I|].
    exists mn, mx, gfs. repeat split; try assumption.
    pose proof (N.div_mod' (n - fsum) (block_size (FGroup mn mx gfs))) as D.
    rewrite Em in D. lia.
Qed.

(* ---------------------------------------------------------------- top level *)
Section Top.
  Variable bs : list N.
  Hypothesis Hbs : bytes_ok bs = true.
  Hypothesis Hlen : len bs < 4294967296.

  Lemma run_good v fs :
    (forall f, In f fs -> good bs v f (tsz v f)) -> sumN (map (tsz v) fs) = len bs ->
    exists m, visit_fields bs v fs {| off := 0; insuf := false |} =
              VOk m {| off := len bs; insuf := false |} /\
      serialize m = reenc (flat_map (flatten v) fs) bs /\
      sumN (map asize (flat_map (flatten v) fs)) = len bs /\
      map shape_of m = flat_map (fshape v) fs.
  Proof using All.
    intros Hg Hs.
    destruct (fields_good bs Hbs Hlen v fs (tsz v) Hg {| off := 0; insuf := false |}) as (m & E & S & A & Sh).
    { cbn [off]. lia. }
    cbn [off insuf] in *. rewrite N.add_0_l, Hs in E. rewrite Hs in A.
    exists m. repeat split; assumption.
  Qed.

  Lemma fixed_good v f : fixed_size f = true -> sane f = true -> good bs v f (tsz v f).
  Proof using All.
    intros Hf Hs. unfold tsz. rewrite Hf. now apply visit_fixed.
  Qed.

  Lemma var_group_good v mn mx gfs :
    fixed_size (FGroup mn mx gfs) = false -> forallb fixed_size gfs = true ->
    sane (FGroup mn mx gfs) = true ->
    good bs v (FGroup mn mx gfs) (tsz v (FGroup mn mx gfs)).
  Proof using All.
    intros Hnf Hfb Hs. unfold tsz. rewrite Hnf. unfold block_size. rewrite Hfb.
    rewrite sane_group in Hs. repeat (apply andb_prop in Hs as [Hs ?]).
    rewrite u32_id by lia.
    apply good_group; try assumption.
    - now rewrite Hnf.
    - intros f Hin. apply visit_fixed; try assumption.
      + rewrite forallb_forall in Hfb. now apply Hfb.
      + rewrite forallb_forall in Hs. now apply Hs.
  Qed.
End Top.

Definition outcome_ok (prev : N) (fs : list fd) (bs : list N) : Prop :=
  match layout fs (len bs), shape_layout fs (len bs) with
  | Some L, Some Sh =>
    exists m, inflate prev fs bs = Msg m /\ serialize m = reenc L bs /\
              sumN (map asize L) = len bs /\ map shape_of m = Sh
  | None, None => inflate prev fs bs = Null
  | _, _ => False
  end.

Lemma flatten_fixed_indep v v' f : fixed_size f = true -> flatten v f = flatten v' f /\ fshape v f = fshape v' f.
Proof.
  induction f as [| | | | | |mn mx|mn mx fs IH] using fd_ind'; intros H; try (split; reflexivity).
  - cbn [fixed_size] in H. cbn [flatten fshape]. rewrite H. split; reflexivity.
  - rewrite !flatten_group, !fshape_group, H.
    rewrite fixed_group in H. apply andb_prop in H as [H _].
    assert (flat_map (flatten v) fs = flat_map (flatten v') fs /\
            flat_map (fshape v) fs = flat_map (fshape v') fs) as [-> ->]; [|split; reflexivity].
    induction IH as [|f r Hf _ IHr]; [split; reflexivity|].
    cbn [forallb] in H. apply andb_prop in H as [H1 H2].
    cbn [flat_map]. destruct (Hf H1) as [-> ->]. destruct (IHr H2) as [-> ->]. split; reflexivity.
Qed.

Lemma inflate_spec prev fs bs :
  wf_desc fs = true -> bytes_ok bs = true -> len bs < 4294967296 -> outcome_ok prev fs bs.
Proof.
  intros Hwf Hbs Hlen. unfold wf_desc in Hwf.
  apply andb_prop in Hwf as [Hsane Hsum].
  apply N.ltb_lt in Hsum.
  pose proof (calc_cases (len bs) fs Hsum) as C.
  unfold outcome_ok, layout, shape_layout, inflate.
  rewrite forallb_forall in Hsane.
  destruct (calc (len bs) fs) as [| | |k|k| | | | |]; try reflexivity; try contradiction.
  - (* FIXED_SIZE: whatever m_variable_field_size holds is never used *)
    destruct C as (Evs & Evg & Efs).
    assert (Hall : forall f, In f fs -> fixed_size f = true).
    { intros f Hin. destruct (fixed_size f) eqn:E; [reflexivity|].
      destruct (var_cases f E) as (_ & [[E1 _]|[_ E1]]).
      - assert (In f (filter is_var_string fs)) as X by (apply filter_In; auto). now rewrite Evs in X.
      - assert (In f (filter is_var_group fs)) as X by (apply filter_In; auto). now rewrite Evg in X. }
    destruct (run_good bs Hbs Hlen prev fs) as (m & E & S & A & Sh).
    + intros f Hin. apply fixed_good; auto.
    + rewrite sum_tsz, Evs, Evg. cbn [map sumN]. lia.
    + rewrite E. cbn [insuf]. exists m.
      assert (flat_map (flatten prev) fs = flat_map (flatten 0) fs /\
              flat_map (fshape prev) fs = flat_map (fshape 0) fs) as [X Y].
      { clear - Hall. induction fs as [|f r IH]; [split; reflexivity|]. cbn [flat_map].
        destruct (flatten_fixed_indep prev 0 f (Hall f (or_introl eq_refl))) as [-> ->].
        destruct IH as [-> ->]; [intros; apply Hall; now right|]. split; reflexivity. }
      rewrite <- X, <- Y. repeat split; assumption.
  - (* VARIABLE_STRING *)
    destruct C as (mn & mx & Evs & Evg & Efs & Hk & Hne).
    destruct (run_good bs Hbs Hlen k fs) as (m & E & S & A & Sh).
    + intros f Hin. destruct (fixed_size f) eqn:Ef; [apply fixed_good; auto|].
      destruct (var_cases f Ef) as (_ & [[E1 _]|[_ E1]]).
      * assert (In f (filter is_var_string fs)) as X by (apply filter_In; auto).
        rewrite Evs in X. destruct X as [<-|[]].
        unfold tsz. rewrite Ef.
        pose proof (good_string bs Hbs Hlen k mn mx) as G. rewrite Hne in G. now apply G.
      * assert (In f (filter is_var_group fs)) as X by (apply filter_In; auto). now rewrite Evg in X.
    + rewrite sum_tsz, Evs, Evg. cbn [map sumN]. unfold tsz. cbn [fixed_size]. rewrite Hne. lia.
    + rewrite E. cbn [insuf]. exists m. repeat split; assumption.
  - (* VARIABLE_GROUP *)
    destruct C as (mn & mx & gfs & Evs & Evg & Hfb & Hnf & Efs).
    assert (Hin : In (FGroup mn mx gfs) fs).
    { assert (In (FGroup mn mx gfs) (filter is_var_group fs)) as X by (rewrite Evg; now left).
      now apply filter_In in X. }
    destruct (run_good bs Hbs Hlen k fs) as (m & E & S & A & Sh).
    + intros f Hf. destruct (fixed_size f) eqn:Ef; [apply fixed_good; auto|].
      destruct (var_cases f Ef) as (_ & [[E1 _]|[_ E1]]).
      * assert (In f (filter is_var_string fs)) as X by (apply filter_In; auto). now rewrite Evs in X.
      * assert (In f (filter is_var_group fs)) as X by (apply filter_In; auto).
        rewrite Evg in X. destruct X as [<-|[]].
        apply var_group_good; auto.
    + rewrite sum_tsz, Evs, Evg. cbn [map sumN]. unfold tsz at 1. rewrite Hnf. lia.
    + rewrite E. cbn [insuf]. exists m. repeat split; assumption.
Qed.
