(* C14 proofs, part A: byte-level lemmas, induction principle, behaviour of visit on one field. *)
From OlaBase Require Import Bytes.
From C14 Require Import Model Spec.
Local Open Scope N_scope.

(* ---------------------------------------------------------------- induction principle *)
Section FdInd.
  Variable P : fd -> Prop.
  Hypothesis HB : P FBool.
  Hypothesis HI : forall w sg le, P (FInt w sg le).
  Hypothesis H4 : P FIPv4.
  Hypothesis H6 : P FIPv6.
  Hypothesis HM : P FMAC.
  Hypothesis HU : P FUID.
  Hypothesis HS : forall mn mx, P (FString mn mx).
  Hypothesis HG : forall mn mx fs, Forall P fs -> P (FGroup mn mx fs).
  Fixpoint fd_ind' (f : fd) : P f :=
    match f with
    | FBool => HB | FInt w sg le => HI w sg le | FIPv4 => H4 | FIPv6 => H6 | FMAC => HM | FUID => HU
    | FString mn mx => HS mn mx
    | FGroup mn mx fs =>
      HG mn mx fs ((fix go (l : list fd) : Forall P l :=
                      match l with
                      | [] => Forall_nil P
                      | x :: r => Forall_cons x (fd_ind' x) (go r)
                      end) fs)
    end.
End FdInd.

(* ---------------------------------------------------------------- lists and bytes *)
Lemma drop_drop {A} a b (l : list A) : drop a (drop b l) = drop (b + a) l.
Proof.
  unfold drop. replace (N.to_nat (b + a)) with (N.to_nat b + N.to_nat a)%nat by lia.
  generalize (N.to_nat a) as x, (N.to_nat b) as y. intros x y; revert l.
  induction y as [|y IH]; intros l; cbn [skipn Nat.add]; [reflexivity|].
  destruct l; [now rewrite !skipn_nil|apply IH].
Qed.
Lemma drop_0 {A} (l : list A) : drop 0 l = l. Proof. reflexivity. Qed.
Lemma len_take_le {A} n (l : list A) : len (take n l) <= n.
Proof. unfold len, take. pose proof (firstn_le_length (N.to_nat n) l). lia. Qed.
Lemma len_repeat {A} (x : A) k : len (repeat x k) = N.of_nat k.
Proof. unfold len. now rewrite repeat_length. Qed.
Lemma len_length {A} (l : list A) n : len l = n -> length l = N.to_nat n.
Proof. unfold len; lia. Qed.
Lemma bytes_ok_drop n l : bytes_ok l = true -> bytes_ok (drop n l) = true.
Proof. intros H; apply (bytes_ok_take_drop n l H). Qed.
Lemma bytes_ok_take n l : bytes_ok l = true -> bytes_ok (take n l) = true.
Proof. intros H; apply (bytes_ok_take_drop n l H). Qed.
Lemma bytes_ok_firstn n l : bytes_ok l = true -> bytes_ok (firstn n l) = true.
Proof.
  intros H. rewrite <- (firstn_skipn n l) in H. unfold bytes_ok in *. rewrite forallb_app in H.
  apply andb_prop in H. tauto.
Qed.
Lemma bytes_ok_skipn n l : bytes_ok l = true -> bytes_ok (skipn n l) = true.
Proof.
  intros H. rewrite <- (firstn_skipn n l) in H. unfold bytes_ok in *. rewrite forallb_app in H.
  apply andb_prop in H. tauto.
Qed.
Lemma bytes_ok_rev l : bytes_ok l = true -> bytes_ok (rev l) = true.
Proof.
  unfold bytes_ok. rewrite !forallb_forall. intros H x Hx. apply H. now apply in_rev.
Qed.

(* endianness *)
Lemma le_bytes_val l : bytes_ok l = true -> le_bytes (length l) (le_val l) = l.
Proof.
  induction l as [|b r IH]; cbn [length le_bytes le_val bytes_ok forallb]; intros H; [reflexivity|].
  apply andb_prop in H as [Hb Hr]. unfold byte_ok in Hb. apply N.ltb_lt in Hb.
  f_equal.
  - rewrite (N.mul_comm 256), N.mod_add by lia. apply N.mod_small; lia.
  - rewrite (N.mul_comm 256), N.div_add by lia. rewrite (N.div_small b) by lia.
    rewrite N.add_0_l. apply IH, Hr.
Qed.
Lemma be_bytes_val l : bytes_ok l = true -> be_bytes (length l) (be_val l) = l.
Proof.
  intros H. unfold be_bytes, be_val. rewrite <- (rev_length l).
  rewrite le_bytes_val by (now apply bytes_ok_rev). apply rev_involutive.
Qed.

Lemma be_bytes_val' l k : bytes_ok l = true -> length l = k -> be_bytes k (be_val l) = l.
Proof. intros H E; subst k; now apply be_bytes_val. Qed.

(* shorten *)
Lemma len_shorten l : len (shorten l) <= len l.
Proof.
  induction l as [|b r IH]; cbn [shorten]; [lia|].
  destruct (b =? 0); rewrite ?len_cons, ?len_nil; lia.
Qed.
Lemma shorten_no_nul l : forallb (fun b => negb (b =? 0)) (shorten l) = true.
Proof.
  induction l as [|b r IH]; cbn [shorten]; [reflexivity|].
  destruct (b =? 0) eqn:E; cbn [forallb]; [reflexivity|]. now rewrite E, IH.
Qed.
Lemma shorten_app_zeros v k :
  forallb (fun b => negb (b =? 0)) v = true -> shorten (v ++ repeat 0 k) = v.
Proof.
  induction v as [|b r IH]; cbn [forallb app shorten]; intros H.
  - destruct k; reflexivity.
  - apply andb_prop in H as [Hb Hr]. destruct (b =? 0); [discriminate|]. now rewrite IH.
Qed.
(* the specified string normal form is "equal up to the first NUL" *)
Lemma shorten_pad_string mn seg : shorten (pad_string mn seg) = shorten seg.
Proof. unfold pad_string. apply shorten_app_zeros, shorten_no_nul. Qed.

(* rdn: every byte through rd *)
Lemma skipn_nth {A} (l : list A) o b :
  nth_error l o = Some b -> skipn o l = b :: skipn (S o) l.
Proof.
  revert o; induction l as [|x l IH]; intros [|o] H; cbn in *; try discriminate.
  - now inversion H.
  - now apply IH.
Qed.
Lemma rdn_spec bs k o :
  (N.to_nat o + k <= length bs)%nat ->
  rdn bs o k = Some (firstn k (skipn (N.to_nat o) bs)).
Proof.
  revert o; induction k as [|k IH]; intros o H; cbn [rdn firstn]; [reflexivity|].
  unfold rd. destruct (nth_error bs (N.to_nat o)) eqn:E.
  - rewrite IH by lia. rewrite (skipn_nth _ _ _ E). cbn [firstn].
    replace (N.to_nat (o + 1)) with (S (N.to_nat o)) by lia. reflexivity.
  - apply nth_error_None in E. lia.
Qed.

(* reenc over concatenated layouts *)
Lemma reenc_app rn l1 l2 xs :
  reenc_with rn (l1 ++ l2) xs =
  reenc_with rn l1 xs ++ reenc_with rn l2 (drop (sumN (map asize l1)) xs).
Proof.
  revert xs; induction l1 as [|a r IH]; intros xs; cbn [app reenc_with map sumN].
  - now rewrite drop_0.
  - rewrite IH, drop_drop, app_assoc. reflexivity.
Qed.
Lemma sumN_app a b : sumN (a ++ b) = sumN a + sumN b.
Proof. induction a as [|x a IH]; cbn [app sumN]; lia. Qed.

(* ---------------------------------------------------------------- visit: one scalar field *)
Section One.
  Variable bs : list N.
  Hypothesis Hbs : bytes_ok bs = true.
  Hypothesis Hlen : len bs < 4294967296.

  Lemma visit_scalar_ok n mk st :
    off st + n <= len bs ->
    visit_scalar bs n mk st =
    VOk [mk (take n (drop (off st) bs))] {| off := off st + n; insuf := insuf st |}.
  Proof using All.
    intros H. unfold visit_scalar, check_for_data.
    assert (usub32 (len bs) (off st) = len bs - off st) as ->.
    { unfold usub32, u32. rewrite (N.mod_small (off st)) by lia.
      replace (len bs + 4294967296 - off st) with ((len bs - off st) + 1 * 4294967296) by lia.
      rewrite N.mod_add by lia. apply N.mod_small. lia. }
    destruct (n <=? len bs - off st) eqn:E; [|apply N.leb_gt in E; lia].
    rewrite rdn_spec by (unfold len in H; lia).
    unfold take, drop. rewrite u32_id by lia. reflexivity.
  Qed.

  Lemma len_seg n o : o + n <= len bs -> len (take n (drop o bs)) = n.
  Proof using All. intros H. apply take_len. rewrite drop_len. lia. Qed.
  Lemma seg_ok n o : bytes_ok (take n (drop o bs)) = true.
  Proof using All. apply bytes_ok_take, bytes_ok_drop, Hbs. Qed.

End One.

  Lemma ser_int w sg le seg :
    bytes_ok seg = true -> len seg = w -> ser (mk_int w sg le seg) = seg.
  Proof.
    intros Hs Hl. unfold mk_int; cbn [ser]. rewrite <- (len_length _ _ Hl).
    destruct le; [apply le_bytes_val|apply be_bytes_val]; assumption.
  Qed.
  Lemma ser_uid seg : bytes_ok seg = true -> len seg = 6 -> ser (mk_uid seg) = seg.
  Proof.
    intros Hs Hl. unfold mk_uid; cbn [ser]. apply len_length in Hl.
    rewrite (be_bytes_val' (firstn 2 seg) 2), (be_bytes_val' (skipn 2 seg) 4).
    - apply firstn_skipn.
    - now apply bytes_ok_skipn.
    - rewrite skipn_length. lia.
    - now apply bytes_ok_firstn.
    - rewrite firstn_length. lia.
  Qed.
  Lemma ser_str mn mx seg :
    len seg <= mx -> ser (mk_str mn mx seg) = pad_string mn seg.
  Proof.
    intros H. unfold mk_str, pad_string; cbn [ser].
    pose proof (len_shorten seg) as Hs.
    rewrite (N.min_l (len (shorten seg)) mx) by lia.
    f_equal. unfold take, len. rewrite Nat2N.id. apply firstn_all.
  Qed.
  Lemma ser_bool seg : ser (mk_bool seg) = renorm ABool seg.
  Proof. unfold mk_bool; cbn [ser renorm]. destruct (hd 0 seg =? 0); reflexivity. Qed.


(* ---------------------------------------------------------------- visit: fields, blocks, groups *)
Lemma fixed_group mn mx fs :
  fixed_size (FGroup mn mx fs) = forallb fixed_size fs && (Z.of_N mn =? mx)%Z.
Proof. reflexivity. Qed.
Lemma max_size_group mn mx fs :
  max_size (FGroup mn mx fs) =
  if (mx =? -1)%Z then 0 else
  if forallb limited_size fs then u32 (u32 (sumN (map max_size fs)) * u32z mx) else 0.
Proof. reflexivity. Qed.
Lemma sane_group mn mx fs :
  sane (FGroup mn mx fs) =
  forallb sane fs && (mn <? 65536) && (mx <? 32768)%Z &&
  ((mx =? -1)%Z || (Z.of_N mn <=? mx)%Z) &&
  (sumN (map max_size fs) <? 4294967296) &&
  ((mx =? -1)%Z || (sumN (map max_size fs) * Z.to_N mx <? 4294967296)).
Proof. reflexivity. Qed.
Lemma flatten_group v mn mx fs :
  flatten v (FGroup mn mx fs) =
  concat (repeat (flat_map (flatten v) fs)
                 (N.to_nat (if fixed_size (FGroup mn mx fs) then mn else v))).
Proof. reflexivity. Qed.
Lemma fshape_group v mn mx fs :
  fshape v (FGroup mn mx fs) =
  repeat (SGroup (flat_map (fshape v) fs))
         (N.to_nat (if fixed_size (FGroup mn mx fs) then mn else v)).
Proof. reflexivity. Qed.
Lemma visit_group bs vfs mn mx fs st :
  visit bs vfs (FGroup mn mx fs) st =
  visit_loop bs vfs fs (N.to_nat (if fixed_size (FGroup mn mx fs) then mn else vfs)) st.
Proof. reflexivity. Qed.
Lemma ser_group ms : ser (MGroup ms) = flat_map ser ms.
Proof. reflexivity. Qed.
Lemma shape_group ms : shape_of (MGroup ms) = SGroup (map shape_of ms).
Proof. reflexivity. Qed.

Lemma forallb_imp (P Q : fd -> bool) fs :
  Forall (fun f => P f = true -> Q f = true) fs -> forallb P fs = true -> forallb Q fs = true.
Proof.
  induction 1 as [|f r H _ IH]; cbn [forallb]; [reflexivity|].
  intros E; apply andb_prop in E as [E1 E2]. now rewrite H, IH.
Qed.
Lemma fixed_limited f : fixed_size f = true -> limited_size f = true.
Proof.
  induction f as [| | | | | | |mn mx fs IH] using fd_ind'; try reflexivity.
  rewrite fixed_group. intros H; apply andb_prop in H as [H1 H2].
  cbn [limited_size]. destruct (mx =? -1)%Z eqn:E; [lia|].
  now apply (forallb_imp fixed_size limited_size).
Qed.

Section Good.
  Variable bs : list N.
  Hypothesis Hbs : bytes_ok bs = true.
  Hypothesis Hlen : len bs < 4294967296.
  Variable vfs : N.

  (* field f, visited with enough data left, consumes exactly sz bytes, never sets the
     insufficient-data flag, and its fields serialise to the normal form of those bytes *)
  Definition good (f : fd) (sz : N) : Prop :=
    forall st, off st + sz <= len bs ->
    exists ms, visit bs vfs f st = VOk ms {| off := off st + sz; insuf := insuf st |} /\
      flat_map ser ms = reenc (flatten vfs f) (drop (off st) bs) /\
      sumN (map asize (flatten vfs f)) = sz /\
      map shape_of ms = fshape vfs f.

  Lemma good_scalar f n mk a sh :
    (forall st, visit bs vfs f st = visit_scalar bs n mk st) ->
    flatten vfs f = [a] -> asize a = n -> fshape vfs f = [sh] ->
    (forall seg, bytes_ok seg = true -> len seg = n ->
                 ser (mk seg) = renorm a seg /\ shape_of (mk seg) = sh) ->
    good f n.
  Proof using All.
    intros Hv Hf Ha Hs Hmk st H.
    exists [mk (take n (drop (off st) bs))].
    rewrite Hv, (visit_scalar_ok bs Hbs Hlen) by assumption.
    assert (ser (mk (take n (drop (off st) bs))) = renorm a (take n (drop (off st) bs)) /\
            shape_of (mk (take n (drop (off st) bs))) = sh) as [E1 E2].
    { apply Hmk; [apply seg_ok; assumption|apply len_seg; assumption]. }
    rewrite Hf, Hs. unfold reenc. cbn [flat_map reenc_with map sumN]. rewrite Ha, E1, E2.
    repeat split; try reflexivity. lia.
  Qed.

  Lemma good_string mn mx :
    (if mn =? mx then mx else vfs) <= mx ->
    good (FString mn mx) (if mn =? mx then mx else vfs).
  Proof using All.
    intros H.
    apply good_scalar with (mk := mk_str mn mx) (a := AStr (if mn =? mx then mx else vfs) mn) (sh := SStr);
      try reflexivity.
    intros seg _ Hl. split; [|reflexivity]. cbn [renorm renorm_strict]. apply ser_str. lia.
  Qed.

  Lemma fields_good fs szf :
    (forall f, In f fs -> good f (szf f)) ->
    forall st, off st + sumN (map szf fs) <= len bs ->
    exists ms, visit_fields bs vfs fs st =
               VOk ms {| off := off st + sumN (map szf fs); insuf := insuf st |} /\
      flat_map ser ms = reenc (flat_map (flatten vfs) fs) (drop (off st) bs) /\
      sumN (map asize (flat_map (flatten vfs) fs)) = sumN (map szf fs) /\
      map shape_of ms = flat_map (fshape vfs) fs.
  Proof using All.
    induction fs as [|f r IH]; intros Hg st H; cbn [map sumN flat_map] in *; unfold visit_fields in *; cbn [fields_with].
    - exists []. rewrite N.add_0_r. destruct st; repeat split; reflexivity.
    - destruct (Hg f (or_introl eq_refl) st) as (ms1 & E1 & S1 & A1 & Sh1); [lia|].
      destruct (IH (fun g Hin => Hg g (or_intror Hin))
                   {| off := off st + szf f; insuf := insuf st |}) as (ms2 & E2 & S2 & A2 & Sh2);
        [cbn [off]; lia|].
      cbn [off insuf] in *.
      exists (ms1 ++ ms2). rewrite E1, E2. repeat split.
      + f_equal. f_equal. lia.
      + rewrite flat_map_app, S1, S2. unfold reenc. rewrite reenc_app, drop_drop, A1. reflexivity.
      + rewrite map_app, sumN_app, A1, A2. reflexivity.
      + rewrite map_app, Sh1, Sh2. reflexivity.
  Qed.

  Lemma loop_good fs B A S :
    (forall st, off st + B <= len bs ->
       exists ms, visit_fields bs vfs fs st = VOk ms {| off := off st + B; insuf := insuf st |} /\
         flat_map ser ms = reenc A (drop (off st) bs) /\
         sumN (map asize A) = B /\ map shape_of ms = S) ->
    forall k st, off st + N.of_nat k * B <= len bs ->
    exists ms, visit_loop bs vfs fs k st =
               VOk ms {| off := off st + N.of_nat k * B; insuf := insuf st |} /\
      flat_map ser ms = reenc (concat (repeat A k)) (drop (off st) bs) /\
      sumN (map asize (concat (repeat A k))) = N.of_nat k * B /\
      map shape_of ms = repeat (SGroup S) k.
  Proof using All.
    intros Hf. induction k as [|k IH]; intros st H; unfold visit_loop in *; cbn [loop_with repeat concat].
    - exists []. cbn [N.of_nat]. rewrite N.mul_0_l, N.add_0_r. destruct st; repeat split; reflexivity.
    - destruct (Hf st) as (ms1 & E1 & S1 & A1 & Sh1); [lia|].
      destruct (IH {| off := off st + B; insuf := insuf st |}) as (ms2 & E2 & S2 & A2 & Sh2);
        [cbn [off]; lia|].
      cbn [off insuf] in *.
      unfold visit_fields in E1.
      exists (MGroup ms1 :: ms2). rewrite E1, E2. repeat split.
      + f_equal. f_equal. lia.
      + cbn [flat_map]. rewrite ser_group, S1, S2. unfold reenc. rewrite reenc_app, drop_drop, A1.
        reflexivity.
      + rewrite map_app, sumN_app, A1, A2. lia.
      + cbn [map]. rewrite shape_group, Sh1, Sh2. reflexivity.
  Qed.

  Lemma good_group mn mx fs n :
    (if fixed_size (FGroup mn mx fs) then mn else vfs) = n ->
    (forall f, In f fs -> good f (max_size f)) ->
    good (FGroup mn mx fs) (n * sumN (map max_size fs)).
  Proof using All.
    intros Hn Hg st H.
    rewrite visit_group, flatten_group, fshape_group, Hn.
    replace (n * sumN (map max_size fs)) with (N.of_nat (N.to_nat n) * sumN (map max_size fs)) in * by lia.
    apply (loop_good fs (sumN (map max_size fs)) (flat_map (flatten vfs) fs) (flat_map (fshape vfs) fs));
      [|assumption].
    intros st' H'. apply (fields_good fs max_size Hg st' H').
  Qed.

  (* every fixed-size field (recursively: groups of fixed-size fields with a fixed block count) *)
  Lemma visit_fixed f : fixed_size f = true -> sane f = true -> good f (max_size f).
  Proof using All.
    induction f as [|w sg le| | | | |mn mx|mn mx fs IH] using fd_ind'; intros Hfix Hsane.
    - apply good_scalar with (mk := mk_bool) (a := ABool) (sh := SBool); try reflexivity.
      intros seg _ _. split; [apply ser_bool|reflexivity].
    - apply good_scalar with (mk := mk_int w sg le) (a := AOpaque w) (sh := SInt w); try reflexivity.
      intros seg Hs Hl. split; [now apply ser_int|reflexivity].
    - apply good_scalar with (mk := mk_ip4) (a := AOpaque 4) (sh := SIPv4); try reflexivity.
      intros seg Hs Hl. split; [|reflexivity]. apply (be_bytes_val' seg 4 Hs (len_length _ _ Hl)).
    - apply good_scalar with (mk := mk_ip6) (a := AOpaque 16) (sh := SIPv6); try reflexivity.
      intros seg Hs Hl. split; [|reflexivity]. apply (be_bytes_val' seg 16 Hs (len_length _ _ Hl)).
    - apply good_scalar with (mk := mk_mac) (a := AOpaque 6) (sh := SMAC); try reflexivity.
      intros seg Hs Hl. split; [|reflexivity]. apply (be_bytes_val' seg 6 Hs (len_length _ _ Hl)).
    - apply good_scalar with (mk := mk_uid) (a := AOpaque 6) (sh := SUID); try reflexivity.
      intros seg Hs Hl. split; [now apply ser_uid|reflexivity].
    - cbn [fixed_size] in Hfix. pose proof (good_string mn mx) as G. rewrite Hfix in G.
      cbn [max_size]. apply G. lia.
    - rewrite fixed_group in Hfix. apply andb_prop in Hfix as [Hf1 Hf2].
      rewrite sane_group in Hsane.
      repeat (apply andb_prop in Hsane as [Hsane ?]).
      assert (Hlim : forallb limited_size fs = true).
      { apply (forallb_imp fixed_size limited_size); [|assumption].
        apply Forall_forall. intros; now apply fixed_limited. }
      assert (mx = Z.of_N mn) by lia. subst mx.
      rewrite max_size_group, Hlim. destruct (Z.of_N mn =? -1)%Z eqn:E; [lia|].
      assert (u32z (Z.of_N mn) = mn) as ->.
      { unfold u32z. rewrite Z.mod_small by lia. apply N2Z.id. }
      rewrite (u32_id (sumN (map max_size fs))) by lia.
      rewrite N2Z.id in *. rewrite u32_id by lia.
      rewrite N.mul_comm.
      apply good_group.
      + rewrite fixed_group, Hf1. cbn. now rewrite Z.eqb_refl.
      + intros f Hin. rewrite Forall_forall in IH. apply IH; [assumption| |].
        * rewrite forallb_forall in Hf1. now apply Hf1.
        * rewrite forallb_forall in Hsane. now apply Hsane.
  Qed.
End Good.
