(* C14 proofs, part E: the loader model (Loader.v). *)
From OlaBase Require Import Bytes.
From C14 Require Import Model Spec Loader PidDescs.
Local Open Scope N_scope.

Definition lkey (e : lentry) : N * N := fst (fst e).
Definition entry_ok (e : lentry) : Prop := forall fs, In (Some fs) (snd e) -> consistent fs = true.

Lemma NoDup_snoc {A} (l : list A) x : NoDup l -> ~ In x l -> NoDup (l ++ [x]).
Proof.
  induction l as [|y l IH]; intros Hn Hx; cbn [app].
  - constructor; [intros []|constructor].
  - inversion Hn as [|? ? Hy Hl]; subst. constructor.
    + rewrite in_app_iff. intros [H|[H|[]]]; [now apply Hy|]. subst. apply Hx. now left.
    + apply IH; [assumption|]. intros H. apply Hx. now right.
Qed.

Lemma has_key_false acc man v : has_key acc man v = false -> ~ In (man, v) (map lkey acc).
Proof.
  unfold has_key. intros H Hin. apply in_map_iff in Hin as (e & Ek & He).
  assert (existsb (fun e => (fst (fst (fst e)) =? man) && (snd (fst (fst e)) =? v)) acc = true) as X.
  { apply existsb_exists. exists e. split; [assumption|]. unfold lkey in Ek.
    destruct e as [[[m p] nm] ds]. cbn in *. inversion Ek; subst. now rewrite !N.eqb_refl. }
  rewrite X in H. discriminate.
Qed.

Lemma conv_frame_consistent fr d : conv_frame true fr = Some d -> consistent d = true.
Proof.
  unfold conv_frame. destruct (opt_all _) as [fs|]; [|discriminate]. cbn [andb].
  destruct (consistent fs) eqn:E; cbn [negb]; intros H; inversion H; subst; assumption.
Qed.
Lemma conv_frames_consistent frames : forall ds,
  conv_frames true frames = Some ds -> forall fs, In (Some fs) ds -> consistent fs = true.
Proof.
  induction frames as [|[fr|] r IH]; intros ds H fs Hin; cbn [conv_frames] in H.
  - inversion H; subst. contradiction.
  - destruct (conv_frame true fr) as [d|] eqn:Ed; [|discriminate].
    destruct (conv_frames true r) as [r'|]; [|discriminate]. inversion H; subst.
    destruct Hin as [Hin|Hin]; [inversion Hin; subst; now apply (conv_frame_consistent fr)|now apply (IH r')].
  - destruct (conv_frames true r) as [r'|]; [|discriminate]. inversion H; subst.
    destruct Hin as [Hin|Hin]; [discriminate|now apply (IH r')].
Qed.

Definition acc_inv (validate : bool) (acc : list lentry) : Prop :=
  NoDup (map lkey acc) /\ (validate = true -> Forall entry_ok acc).

Lemma get_pid_list_inv validate limit lo hi man blk : forall sv sn acc acc',
  acc_inv validate acc ->
  get_pid_list validate limit lo hi man blk sv sn acc = Some acc' -> acc_inv validate acc'.
Proof.
  induction blk as [|[[name value] frames] r IH]; intros sv sn acc acc' Hi H; cbn [get_pid_list] in H.
  - now inversion H; subst.
  - destruct (validate && _); [discriminate|].
    destruct (has_key acc man (value mod 65536)) eqn:Ek; [now apply (IH _ _ _ _ Hi H)|].
    destruct (conv_frames validate frames) as [ds|] eqn:Ec; [|discriminate].
    apply (IH _ _ _ _) in H; [assumption|].
    destruct Hi as [Hn Hf]. split.
    + rewrite map_app. cbn [map]. apply NoDup_snoc; [assumption|]. now apply has_key_false.
    + intros Hv. apply Forall_app. split; [now apply Hf|]. constructor; [|constructor].
      subst validate. intros fs Hin. cbn [snd] in Hin. now apply (conv_frames_consistent frames ds Ec).
Qed.

Lemma load_mans_inv validate lo hi ms : forall seen acc ids acc' ids',
  acc_inv validate acc ->
  load_mans validate lo hi ms seen acc ids = Some (acc', ids') -> acc_inv validate acc'.
Proof.
  induction ms as [|[id blk] r IH]; intros seen acc ids acc' ids' Hi H; cbn [load_mans] in H.
  - now inversion H; subst.
  - destruct (existsb _ seen); [discriminate|].
    destruct (get_pid_list validate false lo hi (id mod 65536) blk [] [] acc) as [acc1|] eqn:E; [|discriminate].
    apply (IH _ _ _ _ _) in H; [assumption|]. now apply (get_pid_list_inv _ _ _ _ _ _ _ _ _ _ Hi E).
Qed.

Lemma nodup_keys_value l : NoDup (map lkey l) -> nodupb keq_value (pids_of l) = true.
Proof.
  induction l as [|e r IH]; cbn [map pids_of nodupb]; intros H; [reflexivity|].
  inversion H as [|? ? Hx Hr]; subst. fold (pids_of r). rewrite (IH Hr), andb_true_r.
  destruct (existsb _ (pids_of r)) eqn:E; [exfalso|reflexivity].
  apply existsb_exists in E as (x & Hin & Hk). apply Hx.
  unfold pids_of in Hin. apply in_map_iff in Hin as (e' & Ex & He'). subst x.
  apply in_map_iff. exists e'. split; [|assumption].
  unfold keq_value in Hk. cbn [fst snd] in Hk. apply andb_prop in Hk as [K1 K2].
  apply N.eqb_eq in K1, K2. unfold lkey. destruct e as [[[m p] nm] ds], e' as [[[m' p'] nm'] ds'].
  cbn in *. congruence.
Qed.

(* whatever the loader model accepts: no (manufacturer, value) twice; with validation every frame
   format passes the consistency check *)
Lemma load_model_rules validate lo hi p L ids :
  load_model validate lo hi p = Some (L, ids) ->
  nodupb keq_value (pids_of L) = true /\
  (validate = true -> forall e fs, In e L -> In (Some fs) (snd e) -> consistent fs = true).
Proof.
  unfold load_model. intros H.
  destruct (get_pid_list validate true lo hi 0 (fst p) [] [] []) as [acc|] eqn:E; [|discriminate].
  assert (acc_inv validate []) as I0 by (split; [constructor|intros; constructor]).
  pose proof (get_pid_list_inv _ _ _ _ _ _ _ _ _ _ I0 E) as I1.
  destruct (load_mans_inv _ _ _ _ _ _ _ _ _ I1 H) as [Hn Hf].
  split; [now apply nodup_keys_value|].
  intros Hv e fs Hin Hs. specialize (Hf Hv). rewrite Forall_forall in Hf. now apply (Hf e Hin).
Qed.

(* the model, run on the data files as the real protobuf parser reads them, yields exactly the
   tables the real loader built (both regenerated on every run) -- with and without validation *)
Definition loader_matches (validate : bool) : bool :=
  match load_model validate MANUFACTURER_PID_MIN MANUFACTURER_PID_MAX shipped_proto with
  | None => false
  | Some (L, ids) =>
    same_pids (pids_of L) PidDescs.pids && same_pids PidDescs.pids (pids_of L) &&
    same_descs (descs_of L) PidDescs.all && same_descs PidDescs.all (descs_of L) &&
    (len ids =? len store_index_sizes) &&
    forallb (fun t => existsb (N.eqb (fst (fst t))) ids) store_index_sizes
  end.
Lemma shipped_loader_matches : loader_matches true = true /\ loader_matches false = true.
Proof. vm_compute. split; reflexivity. Qed.

(* ---------------------------------------------------------------- overrides through the loader model *)
Lemma load_model_ovr_empty validate lo hi p :
  load_model_ovr validate lo hi ([], []) p = load_model validate lo hi p.
Proof. reflexivity. Qed.

(* a site overrides.proto (as protobuf messages) and the same overrides as specification entries:
   an ESTA PID, one PID of a manufacturer that ships seven, a manufacturer nobody ships *)
Definition nm (l : list N) := l.
Definition ovr_proto : pstore :=
  ([(nm [68;77;88], 240, [Some [PF 2 None None []]; None; None; None])],
   [(31344, [(nm [83;78], 32768, [Some []; Some [PF 5 None (Some 8) []]; None; None])]);
    (4660, [(nm [78;69;87], 32768, [None; Some [PF 1 None None []]; None; None])])]).
Definition ovr_spec : list ovr_entry :=
  [(0, 240, nm [68;77;88], [Some [FInt 1 false false]; None; None; None]);
   (31344, 32768, nm [83;78], [Some []; Some [FString 0 8]; None; None]);
   (4660, 32768, nm [78;69;87], [None; Some [FBool]; None; None])].
Definition loader_ovr_matches (validate : bool) : bool :=
  match load_model_ovr validate MANUFACTURER_PID_MIN MANUFACTURER_PID_MAX ovr_proto shipped_proto with
  | None => false
  | Some (L, ids) =>
    let ep := override_pids PidDescs.pids ovr_spec in
    let ed := override_descs PidDescs.all ovr_spec in
    let ei := override_ids (map (fun t => fst (fst t)) store_index_sizes) ovr_spec in
    same_pids (pids_of L) ep && same_pids ep (pids_of L) &&
    same_descs (descs_of L) ed && same_descs ed (descs_of L) &&
    (len ids =? len ei) && forallb (fun i => existsb (N.eqb i) ids) ei &&
    (* the six other PIDs of manufacturer 0x7a70 are still there *)
    (store_count (pids_of L) 31344 =? store_count PidDescs.pids 31344)
  end.
Lemma shipped_loader_ovr_matches : loader_ovr_matches true = true /\ loader_ovr_matches false = true.
Proof. vm_compute. split; reflexivity. Qed.

