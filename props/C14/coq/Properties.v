(* C14 — PID-described parameter data decodes and re-encodes losslessly for every PID.
   Only theorem statements here (proofs: ProofsA/B/C.v).  Model.v mirrors the C++; Spec.v holds the
   specification-level definitions used below:
     wf_desc fs        sizes stay inside `unsigned int`, min <= max, a variable group has a non-zero
                       block size (NOT enforced by the loader; proved of the shipped data, c14_shipped)
     layout fs n       the flat list of atoms (boolean byte | n opaque bytes | string of n bytes) that
                       the descriptor prescribes for a payload of n bytes; None = length refused.
                       By construction a function of the descriptor and the LENGTH only.
     reenc_strict L bs the re-encoding the property demands: every atom byte-identical, a string atom
                       replaced by its bytes up to the first NUL, NUL-padded to the descriptor's
                       minimum size (pad_string)
     reenc L bs        the same, except that a boolean byte >= 2 becomes 1 (what the code does)
   Byte strings are lists of N with every element < 256 (bytes_ok) and a length that fits
   `unsigned int`.  `prev` is the value a previous call left in m_variable_field_size. *)
From OlaBase Require Import Bytes.
From C14 Require Import Model Spec Loader PidDescs ProofsA ProofsB ProofsC ProofsD ProofsE ProofsF.
Local Open Scope N_scope.

(* Decoding never reads outside the supplied bytes (Oob is the model's outcome for any such read:
   every byte is fetched through rd), never divides by a zero block size, and the model's
   "impossible" branches are indeed impossible: the outcome is NULL or a message. *)
Theorem c14_total : forall prev fs bs,
  wf_desc fs = true -> bytes_ok bs = true -> len bs < 2^32 ->
  inflate prev fs bs <> Oob /\ inflate prev fs bs <> DivZero /\ inflate prev fs bs <> Bug /\
  (inflate prev fs bs = Null \/ exists m, inflate prev fs bs = Msg m).
Proof.
  intros prev fs bs Hwf Hbs Hlen. change (2^32) with 4294967296 in Hlen.
  destruct (inflate_total prev fs bs Hwf Hbs Hlen) as (H1 & H2 & H3).
  repeat split; try assumption.
  destruct (inflate prev fs bs); try congruence; [now left|right; eauto].
Qed.
Print Assumptions c14_total.

(* InflateMessage does not depend on any earlier decode by the same object: the only member that
   survives a call and is read again is m_variable_field_size (`prev`), and its old value never
   influences the result -- for EVERY descriptor and payload, no hypothesis.  (That the C++ object
   carries no other state, e.g. per-descriptor caches, is validated by the harness: a long-lived
   deserializer is used across a delete/reload of the PID store.) *)
Theorem c14_inflate_stateless : forall prev prev' fs bs, inflate prev fs bs = inflate prev' fs bs.
Proof. exact inflate_stateless. Qed.
Print Assumptions c14_inflate_stateless.

(* Acceptance depends on the payload LENGTH only. *)
Theorem c14_rejects_by_length : forall prev fs bs,
  wf_desc fs = true -> bytes_ok bs = true -> len bs < 2^32 ->
  (inflate prev fs bs = Null <-> layout fs (len bs) = None).
Proof.
  intros prev fs bs Hwf Hbs Hlen. change (2^32) with 4294967296 in Hlen.
  exact (inflate_accepts_iff prev fs bs Hwf Hbs Hlen).
Qed.
Print Assumptions c14_rejects_by_length.

(* PARTIAL (weaker than the property because of the boolean clause inside `reenc`): an accepted
   payload is consumed completely by the layout of its length and re-encodes to EXACTLY reenc L bs:
   byte-identical except (a) inside string fields from the first NUL on and (b) boolean bytes >= 2,
   which come back as 1. *)
Theorem c14_roundtrip_partial : forall prev fs bs m,
  wf_desc fs = true -> bytes_ok bs = true -> len bs < 2^32 ->
  inflate prev fs bs = Msg m ->
  exists L, layout fs (len bs) = Some L /\ sumN (map asize L) = len bs /\
            serialize m = reenc L bs.
Proof.
  intros prev fs bs m Hwf Hbs Hlen. change (2^32) with 4294967296 in Hlen.
  exact (inflate_roundtrip prev fs bs m Hwf Hbs Hlen).
Qed.
Print Assumptions c14_roundtrip_partial.

(* The property's statement, under the weakest guard that excludes the boolean finding: if every
   boolean byte of the payload is 0 or 1, the re-encoding is the one the property demands. *)
Theorem c14_roundtrip : forall prev fs bs m,
  wf_desc fs = true -> bytes_ok bs = true -> len bs < 2^32 ->
  inflate prev fs bs = Msg m ->
  exists L, layout fs (len bs) = Some L /\ sumN (map asize L) = len bs /\
            (bools_canonical L bs = true -> serialize m = reenc_strict L bs) /\
            (bools_canonical L bs = true -> no_strings L = true -> serialize m = bs).
Proof.
  intros prev fs bs m Hwf Hbs Hlen E. change (2^32) with 4294967296 in Hlen.
  destruct (inflate_roundtrip prev fs bs m Hwf Hbs Hlen E) as (L & HL & HA & HS).
  exists L. repeat split; try assumption.
  - intros Hb. rewrite HS. apply reenc_bools_canonical; [lia|assumption].
  - intros Hb Hn. rewrite HS, reenc_bools_canonical by (try lia; assumption).
    now apply reenc_strict_no_strings.
Qed.
Print Assumptions c14_roundtrip.

(* The string normal form really is "equal up to the first NUL": the re-encoded string field has
   the same content before its first NUL as the original, and consists of that content followed by
   NULs only. *)
Theorem c14_string_norm : forall mn seg,
  shorten (pad_string mn seg) = shorten seg /\
  exists k, pad_string mn seg = shorten seg ++ repeat 0 k.
Proof.
  intros mn seg. split; [exact (shorten_pad_string mn seg)|].
  unfold pad_string. eauto.
Qed.
Print Assumptions c14_string_norm.

(* Re-encoding never writes outside the serializer's buffer: for every message (of less than 2^30
   bytes) and every initial buffer size, MessageSerializer's buffer management -- as corrected by
   props/C14/fixes/01; the unfixed code overruns the buffer beyond twice the initial size -- ends
   with exactly len (serialize m) bytes written inside the allocated block (SOverflow is the
   model's outcome for any write or copy outside it, SNoFuel for an unbounded growth loop). *)
Theorem c14_serialize_in_bounds : forall init m,
  init <= 2^31 -> len (serialize m) < 2^30 ->
  exists st, serialize_space init m = SOk st /\ soff st = len (serialize m) /\ soff st <= cap st.
Proof.
  intros init m Hi Hn. apply serialize_space_ok; assumption.
Qed.
Print Assumptions c14_serialize_in_bounds.

(* Serialisation is a function of the message only: a MessageSerializer that is reused keeps the
   bytes of earlier messages in its buffer (`stale`, arbitrary), and every field overwrites its own
   bytes -- a string as memcpy of the characters plus memset of the NUL padding -- so the result is
   the same as from a fresh object.  (That the C++ object really has no other state is validated by
   the harness, which re-encodes every case through a long-lived serializer dirtied with 0xff.) *)
Theorem c14_serialize_stateless : forall stale m, serialize_into stale m = serialize m.
Proof. exact serialize_into_eq. Qed.
Print Assumptions c14_serialize_stateless.

(* The unguarded statement is FALSE of today's code: SET IDENTIFY_DEVICE (ESTA PID 0x1000, request)
   is in the shipped table, accepts the payload 0x02 and re-encodes it as 0x01. *)
Theorem c14_bool_refuted :
  In ((0, 4096, 2), [FBool]) PidDescs.all /\
  exists m, inflate 0 [FBool] [2] = Msg m /\ serialize m = [1] /\ reenc_strict [ABool] [2] = [2].
Proof. exact bool_refuted. Qed.
Print Assumptions c14_bool_refuted.

(* Field counts, repeated-group counts (and, through layout, the extent of the variable string)
   are derived from the available length only: two payloads of the same length are both refused,
   or both decode to messages of the same shape (kinds of fields, number of blocks of every group),
   which is the shape computed from the descriptor and the length. *)
Theorem c14_counts : forall prev prev' fs bs bs',
  wf_desc fs = true -> bytes_ok bs = true -> bytes_ok bs' = true ->
  len bs < 2^32 -> len bs = len bs' ->
  match inflate prev fs bs, inflate prev' fs bs' with
  | Null, Null => True
  | Msg m, Msg m' => map shape_of m = map shape_of m' /\
                     shape_layout fs (len bs) = Some (map shape_of m)
  | _, _ => False
  end.
Proof.
  intros prev prev' fs bs bs' Hwf Hbs Hbs' Hlen. change (2^32) with 4294967296 in Hlen.
  exact (inflate_counts prev prev' fs bs bs' Hwf Hbs Hbs' Hlen).
Qed.
Print Assumptions c14_counts.

(* What the loader's DescriptorConsistencyChecker guarantees: a descriptor it accepts never makes
   the size calculator answer MULTIPLE_VARIABLE_FIELDS or NESTED_VARIABLE_GROUPS. *)
Theorem c14_consistent_sound : forall fs n,
  consistent fs = true -> calc n fs <> MultipleVar /\ calc n fs <> NestedVar.
Proof. exact consistent_sound. Qed.
Print Assumptions c14_consistent_sound.

(* Every descriptor the real loader builds from data/rdm (table regenerated on every run) is
   well-formed and passes the consistency check; the table is not trivially small. *)
Theorem c14_shipped :
  forallb (fun e => wf_desc (snd e) && consistent (snd e) && forallb nonzero_block (snd e))
          PidDescs.all = true /\
  1000 <=? len PidDescs.all = true.
Proof. split; [exact shipped_wf|exact shipped_nonempty]. Qed.
Print Assumptions c14_shipped.

(* Hence the generic theorems apply to every shipped parameter definition. *)
Theorem c14_shipped_generic : forall key fs prev bs,
  In (key, fs) PidDescs.all -> bytes_ok bs = true -> len bs < 2^32 ->
  inflate prev fs bs <> Oob /\ inflate prev fs bs <> DivZero /\ inflate prev fs bs <> Bug /\
  (inflate prev fs bs = Null <-> layout fs (len bs) = None) /\
  forall m, inflate prev fs bs = Msg m ->
    exists L, layout fs (len bs) = Some L /\ sumN (map asize L) = len bs /\
              serialize m = reenc L bs /\
              (bools_canonical L bs = true -> serialize m = reenc_strict L bs).
Proof.
  intros key fs prev bs Hin Hbs Hlen. change (2^32) with 4294967296 in Hlen.
  pose proof shipped_wf as W. rewrite forallb_forall in W. specialize (W _ Hin). cbn [snd] in W.
  apply andb_prop in W as [W _]. apply andb_prop in W as [Hwf _].
  destruct (inflate_total prev fs bs Hwf Hbs Hlen) as (H1 & H2 & H3).
  repeat split; try assumption; try (apply (inflate_accepts_iff prev fs bs Hwf Hbs Hlen)).
  intros m E. destruct (inflate_roundtrip prev fs bs m Hwf Hbs Hlen E) as (L & HL & HA & HS).
  exists L. repeat split; try assumption.
  intros Hb. rewrite HS. apply reenc_bools_canonical; [lia|assumption].
Qed.
Print Assumptions c14_shipped_generic.

(* GroupSizeCalculator (block count of the variable group derived from a token count when a
   message is built from text): with fixes/02 it never divides by a zero token count, for any
   descriptor; every shipped variable group has a token per block anyway. *)
Theorem c14_group_size_calculator : 
  (forall tc fs, gcalc tc fs <> GDivZero) /\
  forallb (fun e => gtok_ok (snd e)) PidDescs.all = true.
Proof. split; [exact gcalc_no_divzero|exact shipped_gtok]. Qed.
Print Assumptions c14_group_size_calculator.

(* The exported store is internally consistent: per manufacturer no PID value and no PID name occurs
   twice, no (manufacturer, PID, kind) key occurs twice, and each store's by-value and by-name
   indexes have the same size (no PID lost to a name collision). *)
Theorem c14_store_consistent :
  store_consistent PidDescs.pids (map fst PidDescs.all) PidDescs.store_index_sizes = true /\
  len PidDescs.all = PidDescs.n_descriptors /\ len PidDescs.pids = PidDescs.n_pids.
Proof. exact shipped_store_consistent. Qed.
Print Assumptions c14_store_consistent.

(* The hypotheses are satisfiable / the definitions compute what they should. *)
Example ex_wf : consistent [FInt 2 false false; FString 0 32; FGroup 0 (-1) [FUID; FBool]] = false
             /\ wf_desc [FInt 2 false false; FGroup 0 (-1) [FUID; FBool]] = true
             /\ wf_desc [FGroup 0 (-1) []] = true    (* an empty variable group: decodes only the empty payload *)
             /\ inflate 0 [FGroup 0 (-1) []] [] = Msg [] /\ inflate 0 [FGroup 0 (-1) []] [7] = Null
             /\ wf_desc [FGroup 2 2 [FGroup 30000 30000 [FGroup 30000 30000 [FInt 8 false false]]]] = false.
Proof. vm_compute. repeat split; reflexivity. Qed.
Example ex_roundtrip :
  inflate 7 [FInt 2 false false; FString 0 8; FBool] [1; 2; 104; 105; 0; 33; 1] =
    Msg [MInt 2 false false 258; MStr 0 8 [104; 105]; MBool true] /\
  serialize [MInt 2 false false 258; MStr 0 8 [104; 105]; MBool true] = [1; 2; 104; 105; 1] /\
  layout [FInt 2 false false; FString 0 8; FBool] 7 = Some [AOpaque 2; AStr 4 0; ABool] /\
  bools_canonical [AOpaque 2; AStr 4 0; ABool] [1; 2; 104; 105; 0; 33; 1] = true /\
  reenc_strict [AOpaque 2; AStr 4 0; ABool] [1; 2; 104; 105; 0; 33; 1] = [1; 2; 104; 105; 1].
Proof. vm_compute. repeat split; reflexivity. Qed.
Example ex_group :
  inflate 0 [FInt 1 false false; FGroup 0 (-1) [FInt 2 false true; FBool]] [9; 1; 0; 1; 2; 0; 0] =
    Msg [MInt 1 false false 9; MGroup [MInt 2 false true 1; MBool true];
         MGroup [MInt 2 false true 2; MBool false]] /\
  inflate 0 [FInt 1 false false; FGroup 0 (-1) [FInt 2 false true; FBool]] [9; 1; 0; 1; 2; 0] = Null.
Proof. vm_compute. split; reflexivity. Qed.

(* Store lookups are pure finite-map lookups in the regenerated table: looking up (manufacturer, PID
   value) or (manufacturer, name) returns THE entry of the table with that key -- it is in the
   table, has the key, and no other entry has it -- or none when the table has no such entry.
   RootPidStore::GetDescriptor is modelled by get_by_pid / get_by_name (ESTA store first, then the
   manufacturer's store if it exists), which are compositions of these lookups and therefore depend
   on their arguments only, not on any earlier lookup.  (That the C++ store has no lookup state is
   validated by the harness: histories of ManufacturerStore/GetDescriptor calls, key h.) *)
Theorem c14_store_lookup : forall man pid name,
  match find_pid PidDescs.pids man pid with
  | Some e => In e PidDescs.pids /\ fst (fst e) = man /\ snd (fst e) = pid /\
              forall e', In e' PidDescs.pids -> fst (fst e') = man -> snd (fst e') = pid -> e' = e
  | None => forall e', In e' PidDescs.pids -> ~ (fst (fst e') = man /\ snd (fst e') = pid)
  end /\
  match find_name PidDescs.pids man name with
  | Some e => In e PidDescs.pids /\ fst (fst e) = man /\ snd e = name /\
              forall e', In e' PidDescs.pids -> fst (fst e') = man -> snd e' = name -> e' = e
  | None => forall e', In e' PidDescs.pids -> ~ (fst (fst e') = man /\ snd e' = name)
  end.
Proof.
  intros man pid name. split; [exact (shipped_lookup_pid man pid)|exact (shipped_lookup_name man name)].
Qed.
Print Assumptions c14_store_lookup.

(* Loading with a site overrides.proto: the definitions after loading are exactly the shipped ones
   whose (manufacturer, PID value) is not overridden, plus the override entries -- nothing else
   disappears (in particular not the other PIDs of a manufacturer that has one PID overridden), and
   without overrides the table is the shipped table.  override_descs / override_pids are the
   model of the loaded store that the harness compares every loader entry point with (validate on
   and off, LoadFromDirectory / LoadFromFile / LoadFromStream; op ldo, ldf). *)
Theorem c14_override_semantics : forall tbl ptbl os,
  (forall key fs, In (key, fs) (override_descs tbl os) <->
     (In (key, fs) tbl /\ overridden os (fst (fst key)) (snd (fst key)) = false) \/
     In (key, fs) (ovr_descs os)) /\
  (forall e : pid_entry, In e (override_pids ptbl os) <->
     (In e ptbl /\ overridden os (fst (fst e)) (snd (fst e)) = false) \/
     In e (map (fun o => (ovr_man o, ovr_pid o, snd (fst o))) os)) /\
  override_descs tbl [] = tbl /\ override_pids ptbl [] = ptbl.
Proof.
  intros tbl ptbl os. repeat split; try (apply override_descs_spec); try (apply override_pids_spec);
    apply (override_none tbl ptbl).
Qed.
Print Assumptions c14_override_semantics.

(* What the loader enforces on a store (loader_rules: per manufacturer no PID value / name twice, ESTA
   PID values outside the manufacturer range) makes lookups unambiguous for ANY table that satisfies
   it -- a future data file the loader accepts is covered without re-running a finite check -- and
   the regenerated shipped table satisfies it. *)
Theorem c14_loader_rules :
  (forall lo hi tbl man pid name, loader_rules lo hi tbl = true ->
     match find_pid tbl man pid with
     | Some e => In e tbl /\ fst (fst e) = man /\ snd (fst e) = pid /\
                 forall e', In e' tbl -> fst (fst e') = man -> snd (fst e') = pid -> e' = e
     | None => forall e', In e' tbl -> ~ (fst (fst e') = man /\ snd (fst e') = pid)
     end /\
     match find_name tbl man name with
     | Some e => In e tbl /\ fst (fst e) = man /\ snd e = name /\
                 forall e', In e' tbl -> fst (fst e') = man -> snd e' = name -> e' = e
     | None => forall e', In e' tbl -> ~ (fst (fst e') = man /\ snd e' = name)
     end) /\
  loader_rules PidDescs.MANUFACTURER_PID_MIN PidDescs.MANUFACTURER_PID_MAX PidDescs.pids = true.
Proof.
  split; [|exact shipped_loader_rules].
  intros lo hi tbl man pid name H. destruct (loader_rules_nodup lo hi tbl H) as [Hv Hn].
  split; [exact (lookup_pid_unique tbl man pid Hv)|exact (lookup_name_unique tbl man name Hn)].
Qed.
Print Assumptions c14_loader_rules.

(* Constants the model and the statements above use as literals, regenerated from the headers on
   every run (exporter.cpp): field sizes of max_size, the unlimited-blocks marker -1, the serializer's
   initial buffer, the ESTA manufacturer id 0 of the tables, the manufacturer PID range, and the RDM
   parameter data limit that lies inside the 0-255 payload lengths the check sweeps. *)
Theorem c14_consts :
  (max_size FIPv4, max_size FIPv6, max_size FMAC, max_size FUID) =
  (PidDescs.SIZE_IPV4, PidDescs.SIZE_IPV6, PidDescs.SIZE_MAC, PidDescs.SIZE_UID) /\
  PidDescs.UNLIMITED_BLOCKS = (-1)%Z /\ PidDescs.INITIAL_BUFFER_SIZE = 256 /\
  PidDescs.ESTA_MANUFACTURER_ID = 0 /\
  (PidDescs.MANUFACTURER_PID_MIN, PidDescs.MANUFACTURER_PID_MAX) = (32768, 65504) /\
  PidDescs.MAX_PARAM_DATA_LENGTH = 231 /\
  (* BOOL UINT8 UINT16 UINT32 STRING GROUP INT8 INT16 INT32 IPV4 UID MAC IPV6 UINT64 INT64 of Pids.proto,
     the literals of Loader.conv_field *)
  PidDescs.FIELD_TYPE_CODES = [1; 2; 3; 4; 5; 6; 7; 8; 9; 10; 11; 12; 13; 14; 15].
Proof. repeat split; reflexivity. Qed.
Print Assumptions c14_consts.

(* The loader is modelled (Loader.v: field/frame/PID conversion with the uint8_t/uint16_t/int16_t
   truncations, GetPidList's duplicate and range checks, LoadFromProto, BuildStore without overrides).
   Run on the shipped data files AS THE REAL PROTOBUF TEXT PARSER READS THEM (shipped_proto, regenerated
   every run), the model loads them without error and yields exactly the descriptor and PID tables and
   the set of stores that the real loader built (PidDescs.all / pids / store_index_sizes, regenerated
   every run), with validation on and off. *)
Theorem c14_loader_model_shipped : loader_matches true = true /\ loader_matches false = true.
Proof. exact shipped_loader_matches. Qed.
Print Assumptions c14_loader_model_shipped.

(* For ANY data the loader model accepts: no (manufacturer, PID value) is defined twice, and with
   validation every frame format passes DescriptorConsistencyChecker (hence, by
   c14_consistent_sound, is never refused as MULTIPLE_VARIABLE_FIELDS / NESTED_VARIABLE_GROUPS). *)
Theorem c14_loader_model_rules : forall validate lo hi p L ids,
  load_model validate lo hi p = Some (L, ids) ->
  nodupb keq_value (pids_of L) = true /\
  (validate = true -> forall e fs n, In e L -> In (Some fs) (snd e) ->
     consistent fs = true /\ calc n fs <> MultipleVar /\ calc n fs <> NestedVar).
Proof.
  intros validate lo hi p L ids H. destruct (load_model_rules validate lo hi p L ids H) as [H1 H2].
  split; [assumption|]. intros Hv e fs n Hin Hs. pose proof (H2 Hv e fs Hin Hs) as Hc.
  split; [assumption|]. now apply consistent_sound.
Qed.
Print Assumptions c14_loader_model_rules.

Example ex_loader :
  load_model true 32768 65504
    ([([80], 16, [Some [PF 6 None None [PF 11 None None []]]; None; None; None])],
     [(161, [([81], 32768, [Some [PF 5 (Some 2) (Some 4294967295) []]; None; None; None])])]) =
  Some ([((0, 16), [80], [Some [FGroup 0 (-1) [FUID]]; None; None; None]);
         ((161, 32768), [81], [Some [FString 2 255]; None; None; None])], [0; 161]) /\
  (* a frame format with two variable-size fields is refused when validating, accepted otherwise *)
  load_model true 32768 65504
    ([([80], 16, [Some [PF 5 None (Some 8) []; PF 5 None (Some 8) []]; None; None; None])], []) = None /\
  load_model false 32768 65504
    ([([80], 16, [Some [PF 5 None (Some 8) []; PF 5 None (Some 8) []]; None; None; None])], []) <> None.
Proof. vm_compute. repeat split; try reflexivity. discriminate. Qed.

(* Overrides, derived from the loader model (BuildStore: overrides.proto first, then the main data,
   GetPidList skips a (manufacturer, value) that is already present).  For ANY overrides and main
   data the model accepts: what the overrides defined stays, unchanged, at the front of the result;
   no (manufacturer, value) occurs twice, so an overridden key denotes the override's definition;
   and every definition of the main data has its key present afterwards -- none vanishes, in
   particular not the other PIDs of a manufacturer that has one PID overridden. *)
Theorem c14_loader_merge : forall validate lo hi ovr main Lo io L ids,
  load_proto validate lo hi ovr [] [] = Some (Lo, io) ->
  load_proto validate lo hi main Lo io = Some (L, ids) ->
  load_model_ovr validate lo hi ovr main = Some (L, ids) /\
  (exists ext, L = Lo ++ ext) /\ nodupb keq_value (pids_of L) = true /\
  (forall p, In p (fst main) -> has_key L 0 (pkey16 p) = true) /\
  (forall id blk p, In (id, blk) (snd main) -> In p blk -> has_key L (id mod 65536) (pkey16 p) = true).
Proof.
  intros validate lo hi ovr main Lo io L ids Ho Hm.
  assert (Hn : NoDup (map lkey Lo)).
  { destruct (load_proto_merge validate lo hi ovr [] [] Lo io (NoDup_nil _) Ho) as (_ & H & _). exact H. }
  destruct (load_proto_merge validate lo hi main Lo io L ids Hn Hm) as (H1 & H2 & H3 & H4).
  repeat split; try assumption.
  - unfold load_model_ovr. now rewrite Ho.
  - now apply nodup_keys_value.
Qed.
Print Assumptions c14_loader_merge.

(* ... and on the shipped data with a concrete overrides.proto (an ESTA PID, one of the seven PIDs of
   manufacturer 0x7a70, a manufacturer nobody ships) the loader model yields exactly the tables
   override_descs / override_pids / override_ids of c14_override_semantics, with all seven PIDs of
   0x7a70 still present; validation on and off. *)
Theorem c14_loader_model_overrides_shipped :
  loader_ovr_matches true = true /\ loader_ovr_matches false = true.
Proof. exact shipped_loader_ovr_matches. Qed.
Print Assumptions c14_loader_model_overrides_shipped.

(* Names: a validating load (no overrides) of data that has no manufacturer block numbered 0 modulo
   2^16 gives every store pairwise different PID names.  The side condition is needed, see
   ex_loader_duplicate_names. *)
Theorem c14_loader_model_names : forall lo hi p L ids,
  (forall id blk, In (id, blk) (snd p) -> id mod 65536 <> 0) ->
  load_model true lo hi p = Some (L, ids) -> nodupb keq_name (pids_of L) = true.
Proof. exact load_model_names. Qed.
Print Assumptions c14_loader_model_names.

(* The validating loader ACCEPTS data with two definitions of the same name in one store: a
   manufacturer block with manufacturer_id 0 (or 65536) is merged into the ESTA store, and the
   duplicate-name check only looks at one block at a time.  PidStore then indexes both by value but
   only one by name (std::map: the one with the larger value wins), so LookupPID(name) /
   GetDescriptor(name, id) silently prefer that one; the harness digest flags such a store
   (NAME-INDEX-SIZE).  No shipped file has such a block (c14_loader_rules, c14_store_consistent). *)
Example ex_loader_duplicate_names :
  load_model true 32768 65504
    ([([80], 16, [None; None; None; None])], [(0, [([80], 17, [None; None; None; None])])]) =
  Some ([((0, 16), [80], [None; None; None; None]); ((0, 17), [80], [None; None; None; None])], [0]) /\
  load_model true 32768 65504
    ([([80], 16, [None; None; None; None])], [(65536, [([80], 17, [None; None; None; None])])]) <> None.
Proof. vm_compute. split; [reflexivity|discriminate]. Qed.

(* A load is a function of its inputs only: whatever a long-lived loader was asked before -- loads
   that were refused part-way included -- the outcome of the next load is load_model of that load's
   own input.  (Trivial in the model, where every load starts from an empty map; that the C++
   PidStoreLoader keeps nothing between loads is validated by the `seq` correspondence.) *)
Theorem c14_loader_stateless : forall lo hi before v p,
  run_loads lo hi (before ++ [(v, p)]) = run_loads lo hi before ++ [load_model v lo hi p].
Proof. intros. unfold run_loads. now rewrite map_app. Qed.
Print Assumptions c14_loader_stateless.
