(* C14 — model of common/rdm/PidStoreLoader.cpp: from the protobuf messages (as the text parser
   delivers them) to the descriptor tables of the store.  No proofs here.
     FieldToFieldDescriptor / StringFieldToFieldDescriptor / GroupFieldToFieldDescriptor   conv_field
     FrameFormatToDescriptor (+ DescriptorConsistencyChecker when validating)                conv_frame
     PidToDescriptor                                                                         conv_pid
     GetPidList (duplicate values / names, ESTA value range, "already present" = skip)       get_pid_list
     LoadFromProto (ESTA block, then the manufacturer blocks; duplicate manufacturer ids)    load_proto
     BuildStore without overrides (LoadFromStream; LoadFromDirectory without overrides.proto) load_model *)
From OlaBase Require Import Bytes.
From C14 Require Import Model Spec.
Local Open Scope N_scope.

Inductive pfield : Type := PF (ty : N) (mn mx : option N) (subs : list pfield).
Definition pframe : Type := list pfield.
Definition ppid : Type := (list N * N * list (option pframe))%type.     (* name, value, 4 frame formats *)
Definition pblock : Type := list ppid.
Definition pstore : Type := (pblock * list (N * pblock))%type.           (* ESTA PIDs, manufacturers *)

Definition i16_of_u32 (x : N) : Z :=
  let y := x mod 65536 in if y <? 32768 then Z.of_N y else (Z.of_N y - 65536)%Z.

Fixpoint opt_all {A} (l : list (option A)) : option (list A) :=
  match l with
  | [] => Some []
  | None :: _ => None
  | Some x :: r => match opt_all r with Some r' => Some (x :: r') | None => None end
  end.

(* None = the loader refuses the field (unknown type; string without max_size) *)
Fixpoint conv_field (f : pfield) : option fd :=
  match f with
  | PF ty mn mx subs =>
    match ty with
    | 1 => Some FBool
    | 2 => Some (FInt 1 false false) | 3 => Some (FInt 2 false false)
    | 4 => Some (FInt 4 false false) | 14 => Some (FInt 8 false false)
    | 7 => Some (FInt 1 true false) | 8 => Some (FInt 2 true false)
    | 9 => Some (FInt 4 true false) | 15 => Some (FInt 8 true false)
    | 10 => Some FIPv4 | 13 => Some FIPv6 | 12 => Some FMAC | 11 => Some FUID
    | 5 => match mx with                                   (* uint8_t min, max *)
           | None => None
           | Some m => Some (FString (match mn with Some a => a mod 256 | None => 0 end) (m mod 256))
           end
    | 6 => match opt_all (map conv_field subs) with       (* uint16_t min, int16_t max *)
           | None => None
           | Some fs => Some (FGroup (match mn with Some a => a mod 65536 | None => 0 end)
                                     (match mx with Some m => i16_of_u32 m | None => (-1)%Z end) fs)
           end
    | _ => None
    end
  end.

Definition conv_frame (validate : bool) (fr : pframe) : option (list fd) :=
  match opt_all (map conv_field fr) with
  | None => None
  | Some fs => if validate && negb (consistent fs) then None else Some fs
  end.

(* a loaded definition: (manufacturer, value) , name, the four optional descriptors *)
Definition lentry : Type := ((N * N) * list N * list (option (list fd)))%type.

Fixpoint conv_frames (validate : bool) (l : list (option pframe)) : option (list (option (list fd))) :=
  match l with
  | [] => Some []
  | None :: r => match conv_frames validate r with Some r' => Some (None :: r') | None => None end
  | Some fr :: r =>
    match conv_frame validate fr with
    | None => None
    | Some d => match conv_frames validate r with Some r' => Some (Some d :: r') | None => None end
    end
  end.

Definition has_key (acc : list lentry) (man v : N) : bool :=
  existsb (fun e => (fst (fst (fst e)) =? man) && (snd (fst (fst e)) =? v)) acc.

(* GetPidList; seen_v / seen_n only with validate.  None = load failure. *)
Fixpoint get_pid_list (validate limit : bool) (lo hi : N) (man : N) (blk : pblock)
         (seen_v : list N) (seen_n : list (list N)) (acc : list lentry) : option (list lentry) :=
  match blk with
  | [] => Some acc
  | (name, value, frames) :: r =>
    let v16 := value mod 65536 in                      (* set<uint16_t>, map<uint16_t, ...> *)
    if validate && (existsb (N.eqb v16) seen_v || existsb (list_eqb name) seen_n ||
                    (limit && (lo <? value) && (value <? hi))) then None else
    let seen_v' := if validate then v16 :: seen_v else seen_v in
    let seen_n' := if validate then name :: seen_n else seen_n in
    if has_key acc man v16 then get_pid_list validate limit lo hi man r seen_v' seen_n' acc else
    match conv_frames validate frames with
    | None => None
    | Some ds => get_pid_list validate limit lo hi man r seen_v' seen_n' (acc ++ [((man, v16), name, ds)])
    end
  end.

Fixpoint load_mans (validate : bool) (lo hi : N) (ms : list (N * pblock)) (seen : list N)
         (acc : list lentry) (ids : list N) : option (list lentry * list N) :=
  match ms with
  | [] => Some (acc, ids)
  | (id, blk) :: r =>
    let id16 := id mod 65536 in
    if existsb (N.eqb id16) seen then None else        (* "listed more than once": always fatal *)
    match get_pid_list validate false lo hi id16 blk [] [] acc with
    | None => None
    | Some acc' => load_mans validate lo hi r (id16 :: seen) acc'
                             (if existsb (N.eqb id16) ids then ids else ids ++ [id16])
    end
  end.

(* LoadFromProto on an empty map, then BuildStore's conversion: the entries and the store ids *)
Definition load_model (validate : bool) (lo hi : N) (p : pstore) : option (list lentry * list N) :=
  match get_pid_list validate true lo hi 0 (fst p) [] [] [] with
  | None => None
  | Some acc => load_mans validate lo hi (snd p) [] acc [0]
  end.

(* LoadFromProto on a map that may already hold definitions (acc, ids): ESTA block, then manufacturers *)
Definition load_proto (validate : bool) (lo hi : N) (p : pstore) (acc : list lentry) (ids : list N)
  : option (list lentry * list N) :=
  match get_pid_list validate true lo hi 0 (fst p) [] [] acc with
  | None => None
  | Some acc' => load_mans validate lo hi (snd p) [] acc' (if existsb (N.eqb 0) ids then ids else ids ++ [0])
  end.
(* BuildStore: "Load the overrides first so they get first dibs on each PID", then the main data;
   a (manufacturer, value) that is already present is skipped by GetPidList *)
Definition load_model_ovr (validate : bool) (lo hi : N) (ovr main : pstore) : option (list lentry * list N) :=
  match load_proto validate lo hi ovr [] [] with
  | None => None
  | Some (acc, ids) => load_proto validate lo hi main acc ids
  end.

(* the two tables of a loaded store, as the exporter prints them *)
Definition pids_of (l : list lentry) : list pid_entry :=
  map (fun e => (fst (fst (fst e)), snd (fst (fst e)), snd (fst e))) l.
Definition descs_of (l : list lentry) : list ((N * N * N) * list fd) :=
  flat_map (fun e => kinds_from 0 (snd e) (fst (fst (fst e))) (snd (fst (fst e)))) l.

(* equality of tables up to order (the store keeps maps, the model insertion order) *)
Fixpoint fd_eqb (a b : fd) : bool :=
  match a, b with
  | FBool, FBool | FIPv4, FIPv4 | FIPv6, FIPv6 | FMAC, FMAC | FUID, FUID => true
  | FInt w s l, FInt w' s' l' => (w =? w') && Bool.eqb s s' && Bool.eqb l l'
  | FString a1 a2, FString b1 b2 => (a1 =? b1) && (a2 =? b2)
  | FGroup m x fs, FGroup m' x' fs' =>
    (m =? m') && (x =? x')%Z &&
    (fix go (l l' : list fd) : bool :=
       match l, l' with
       | [], [] => true
       | p :: r, q :: r' => fd_eqb p q && go r r'
       | _, _ => false
       end) fs fs'
  | _, _ => false
  end.
Fixpoint fds_eqb (l l' : list fd) : bool :=
  match l, l' with
  | [], [] => true
  | p :: r, q :: r' => fd_eqb p q && fds_eqb r r'
  | _, _ => false
  end.
Definition same_pids (a b : list pid_entry) : bool :=
  (len a =? len b) &&
  forallb (fun e => existsb (fun e' => keq_value e e' && list_eqb (snd e) (snd e')) b) a.
Definition same_descs (a b : list ((N * N * N) * list fd)) : bool :=
  (len a =? len b) &&
  forallb (fun e => existsb (fun e' =>
     (fst (fst (fst e)) =? fst (fst (fst e'))) && (snd (fst (fst e)) =? snd (fst (fst e'))) &&
     (snd (fst e) =? snd (fst e')) && fds_eqb (snd e) (snd e')) b) a.

(* a long-lived loader object asked for a sequence of loads: every load starts from an empty map
   (BuildStore's pid_data is a local, released on every path) *)
Definition run_loads (lo hi : N) (reqs : list (bool * pstore)) : list (option (list lentry * list N)) :=
  map (fun r => load_model (fst r) lo hi (snd r)) reqs.
