From Coq Require Extraction.
From Coq Require Import ExtrOcamlBasic.
From OlaBase Require Import Bytes.
From C14 Require Import Model PidDescs Spec.
Extraction Language OCaml.
Extraction "model.ml" io_witness N.div_eucl inflate serialize calc consistent wf_desc layout
  bools_canonical reenc reenc_strict int_shown serialize_space serialize_into gcalc get_by_pid get_by_name find_pid find_name has_store store_count PidDescs.store_index_sizes override_descs override_pids override_ids PidDescs.all PidDescs.pids.
