(* C14 proofs, part D: the serializer's buffer (as corrected by fixes/01) is never overrun. *)
From OlaBase Require Import Bytes.
From C14 Require Import Model Spec ProofsA.
Local Open Scope N_scope.

Definition LIM : N := 1073741824.   (* 2^30 *)

Lemma usub32_small a b : b <= a -> a < 4294967296 -> usub32 a b = a - b.
Proof.
  intros H1 H2. unfold usub32, u32. rewrite (N.mod_small b) by lia.
  replace (a + 4294967296 - b) with ((a - b) + 1 * 4294967296) by lia.
  rewrite N.mod_add by lia. apply N.mod_small. lia.
Qed.

(* enough fuel: ns doubles until it exceeds o + req < 2^30 *)
Lemma grow_ok k : forall ns o req,
  o <= ns -> 1 <= ns -> ns <= 2 * (o + req) \/ ns <= 2 * LIM -> o + req < LIM -> ns < 4294967296 ->
  LIM <= ns * 2 ^ N.of_nat k ->
  exists ns', grow (S k) ns o req = Some ns' /\ o + req < ns' /\ ns' < 4294967296 /\
              (ns' = ns \/ ns' <= 2 * (o + req)).
Proof.
  unfold LIM. induction k as [|k IH]; intros ns o req Ho H1 Hb Hlim H32 Hf; cbn [grow].
  - cbn in Hf. rewrite usub32_small by lia.
    destruct (ns - o <=? req) eqn:E; [apply N.leb_le in E; lia|apply N.leb_gt in E].
    exists ns. repeat split; try lia.
  - rewrite usub32_small by lia.
    destruct (ns - o <=? req) eqn:E; [apply N.leb_le in E|apply N.leb_gt in E].
    + assert (u32 (2 * ns) = 2 * ns) as -> by (apply u32_id; lia).
      destruct (IH (2 * ns) o req) as (ns' & G & A & B & C); try lia.
      { rewrite Nat2N.inj_succ, N.pow_succ_r' in Hf. lia. }
      exists ns'. cbn [grow] in G. rewrite G. repeat split; try lia.
    + exists ns. repeat split; try lia.
Qed.

Definition sinv (st : sst) : Prop := soff st <= cap st /\ cap st <= 2 * LIM.

Lemma check_free_ok n st :
  sinv st -> soff st + n < LIM ->
  exists st1, check_free n st = SOk st1 /\ sinv st1 /\ soff st1 = soff st /\ soff st + n < cap st1 + 0 + 1 /\
              soff st + n <= cap st1.
Proof.
  unfold sinv, LIM. intros [H1 H2] Hn. unfold check_free.
  rewrite usub32_small by lia.
  destruct (n <? cap st - soff st) eqn:E; [apply N.ltb_lt in E|apply N.ltb_ge in E].
  - exists st. repeat split; lia.
  - set (ns0 := if cap st =? 0 then 256 else u32 (2 * cap st)).
    assert (Hns0 : soff st <= ns0 /\ 1 <= ns0 /\ (ns0 <= 2 * (soff st + n) \/ ns0 = 256) /\ ns0 < 4294967296).
    { unfold ns0. destruct (cap st =? 0) eqn:Ec; [apply N.eqb_eq in Ec|apply N.eqb_neq in Ec].
      - lia.
      - rewrite u32_id by lia. lia. }
    destruct (grow_ok 39 ns0 (soff st) n) as (ns' & G & A & B & C); unfold LIM; try lia.
    change (S 39) with 40%nat in G. rewrite G.
    destruct (ns' <? soff st) eqn:E2; [apply N.ltb_lt in E2; lia|].
    exists {| cap := ns'; soff := soff st |}. cbn [cap soff]. repeat split; lia.
Qed.

Lemma write_ok n st :
  sinv st -> soff st + n < LIM ->
  exists st1, write n st = SOk st1 /\ sinv st1 /\ soff st1 = soff st + n.
Proof.
  intros Hi Hn. destruct (check_free_ok n st Hi Hn) as (st1 & E & [I1 I2] & Eo & _ & Hc).
  unfold write. rewrite E, Eo.
  destruct (cap st1 <? soff st + n) eqn:E2; [apply N.ltb_lt in E2; lia|].
  unfold LIM in *. rewrite u32_id by lia.
  eexists. split; [reflexivity|]. unfold sinv, LIM. cbn [cap soff]. repeat split; lia.
Qed.

(* induction principle for messages *)
Section MfInd.
  Variable P : mf -> Prop.
  Hypothesis Hleaf : forall m, (forall fs, m <> MGroup fs) -> P m.
  Hypothesis Hgroup : forall fs, Forall P fs -> P (MGroup fs).
  Fixpoint mf_ind' (m : mf) : P m.
  Proof.
    destruct m as [b|w sg le v|v|v|v|man dev|mn mx v|fs];
      try (apply Hleaf; intros fs' E; discriminate).
    apply Hgroup. induction fs as [|x r IH]; [constructor|constructor; [apply mf_ind'|exact IH]].
  Defined.
End MfInd.

Lemma ser_space_ok m : forall st,
  sinv st -> soff st + len (ser m) < LIM ->
  exists st1, ser_space m st = SOk st1 /\ sinv st1 /\ soff st1 = soff st + len (ser m).
Proof.
  induction m as [m Hleaf|fs IH] using mf_ind'; intros st Hi Hn.
  - destruct m; try (now apply write_ok). exfalso. now apply (Hleaf fs).
  - cbn [ser_space]. rewrite ser_group in *.
    revert st Hi Hn. induction IH as [|x r Hx _ IHr]; intros st Hi Hn; cbn [space_list flat_map] in *.
    + exists st. rewrite len_nil, N.add_0_r. repeat split; try assumption; apply Hi.
    + rewrite len_app in Hn.
      destruct (Hx st Hi) as (st1 & E1 & I1 & O1); [lia|]. rewrite E1.
      destruct (IHr st1 I1) as (st2 & E2 & I2 & O2); [lia|].
      exists st2. rewrite len_app. repeat split; try assumption; try apply I2. lia.
Qed.

Lemma serialize_space_ok init m :
  init <= 2 * LIM -> len (serialize m) < LIM ->
  exists st, serialize_space init m = SOk st /\ soff st = len (serialize m) /\ soff st <= cap st.
Proof.
  intros Hi Hn. unfold serialize_space, serialize in *.
  assert (G : forall l st, sinv st -> soff st + len (flat_map ser l) < LIM ->
          exists st1, space_list ser_space l st = SOk st1 /\ sinv st1 /\
                      soff st1 = soff st + len (flat_map ser l)).
  { induction l as [|x r IHr]; intros st Hs Hl; cbn [space_list flat_map] in *.
    - exists st. rewrite len_nil, N.add_0_r. repeat split; try assumption; apply Hs.
    - rewrite len_app in Hl.
      destruct (ser_space_ok x st Hs) as (st1 & E1 & I1 & O1); [lia|]. rewrite E1.
      destruct (IHr st1 I1) as (st2 & E2 & I2 & O2); [lia|].
      exists st2. rewrite len_app. repeat split; try assumption; try apply I2. lia. }
  destruct (G m {| cap := init; soff := 0 |}) as (st & E & [I1 I2] & O).
  - unfold sinv. cbn [cap soff]. lia.
  - cbn [soff]. lia.
  - exists st. cbn [soff] in O. repeat split; try assumption; lia.
Qed.

(* the re-encoding of an accepted payload is never longer than the payload *)
Lemma len_pad_string mn seg : mn <= len seg -> len (pad_string mn seg) <= len seg.
Proof.
  intros H. unfold pad_string. rewrite len_app, len_repeat. pose proof (len_shorten seg). lia.
Qed.

(* ---------------------------------------------------------------- a reused serializer *)
Definition binv (s : list N * N) (acc : list N) : Prop := take (snd s) (fst s) = acc /\ snd s = len acc.

Lemma bwrite_inv bytes s acc : binv s acc -> binv (bwrite bytes s) (acc ++ bytes).
Proof.
  destruct s as [buf o]. unfold binv, bwrite. cbn [fst snd]. intros [H1 H2]. subst o. rewrite H1.
  split; [|now rewrite len_app].
  rewrite <- len_app, app_assoc. apply take_app_exact.
Qed.

Lemma ser_into_inv m : forall s acc, binv s acc -> binv (ser_into m s) (acc ++ ser m).
Proof.
  induction m as [m Hleaf|fs IH] using mf_ind'; intros s acc Hi.
  - destruct m; try (now apply bwrite_inv).
    + cbn [ser_into ser]. rewrite app_assoc. now apply bwrite_inv, bwrite_inv.
    + exfalso. now apply (Hleaf fs).
  - cbn [ser_into]. rewrite ser_group.
    revert s acc Hi. induction IH as [|x r Hx _ IHr]; intros s acc Hi; cbn [into_list flat_map].
    + now rewrite app_nil_r.
    + rewrite app_assoc. apply IHr, Hx, Hi.
Qed.

Lemma serialize_into_eq stale m : serialize_into stale m = serialize m.
Proof.
  unfold serialize_into, serialize.
  assert (G : forall l s acc, binv s acc -> binv (into_list ser_into l s) (acc ++ flat_map ser l)).
  { induction l as [|x r IHr]; intros s acc Hi; cbn [into_list flat_map].
    - now rewrite app_nil_r.
    - rewrite app_assoc. apply IHr, ser_into_inv, Hi. }
  specialize (G m (stale, 0) []). destruct (into_list ser_into m (stale, 0)) as [buf o].
  destruct G as [G _]; [split; reflexivity|]. exact G.
Qed.
