// C14 correspondence harness: the real PID store (RootPidStore::LoadFromDirectory on data/rdm),
// the real MessageDeserializer / MessageSerializer / VariableFieldSizeCalculator /
// DescriptorConsistencyChecker on exact-size heap copies (ASan sees any over-read).
#include <algorithm>
#include <map>
#include <memory>
#include <string>
#include <vector>
#include "ola/Logging.h"
#include "ola/messaging/Descriptor.h"
#include "ola/messaging/Message.h"
#include "ola/rdm/MessageDeserializer.h"
#define private public   // m_buffer_size is compared with the model's buffer capacity
#include "ola/rdm/MessageSerializer.h"
#undef private
#define private public   // the store's maps identify which store / descriptor a lookup returned
#include "ola/rdm/PidStore.h"
#include "ola/rdm/PidStoreHelper.h"
#undef private
#include <pthread.h>
#include "common/rdm/DescriptorConsistencyChecker.h"
#include <dirent.h>
#include <sys/resource.h>
#include <sys/stat.h>
#include "common/rdm/GroupSizeCalculator.h"
#include "common/rdm/PidStoreLoader.h"
#include "common/rdm/VariableFieldSizeCalculator.h"
#include "c14_desc.h"
#include "vh.h"

using ola::messaging::Descriptor;
using ola::messaging::Message;
using ola::rdm::PidDescriptor;
using ola::rdm::PidStore;
using ola::rdm::RootPidStore;
using ola::rdm::VariableFieldSizeCalculator;
using std::string;
using std::vector;

static const RootPidStore *g_store = NULL;
static std::string g_scratch = "/tmp";
// ONE PidStoreHelper for the whole run (its own store, serializer and deserializer): what the
// command line tools and the RDM HTTP/RPC code use.
static ola::rdm::PidStoreHelper *g_helper = NULL;
// ONE serializer for the whole run (as PidStoreHelper keeps one): every case is also re-encoded
// through it, after its buffer has been filled with 0xff by another message.
static ola::rdm::MessageSerializer *g_shared = NULL;

// ONE deserializer for the whole run, used across delete/reload of the PID store: InflateMessage
// must not depend on anything an earlier call (with other, possibly freed, descriptors) left behind.
static ola::rdm::MessageDeserializer *g_des = NULL;

static string describe(const Message *m) {
  if (!m) return "null";
  ola::rdm::MessageSerializer s;
  unsigned int n = 0;
  const uint8_t *out = s.SerializeMessage(m, &n);
  return c14::msg_str(m) + "/" + vh::hex(out, n);
}

// decode with the long-lived deserializer and with a fresh one; "same" or the long-lived result
static string long_lived_decode(const Descriptor *d, const vector<uint8_t> &bytes) {
  if (!g_des) g_des = new ola::rdm::MessageDeserializer();
  vh::Exact e1(bytes), e2(bytes);
  std::auto_ptr<const Message> ml(g_des->InflateMessage(d, e1.p, e1.n));
  ola::rdm::MessageDeserializer fresh;
  std::auto_ptr<const Message> mf(fresh.InflateMessage(d, e2.p, e2.n));
  string a = describe(ml.get()), b = describe(mf.get());
  return a == b ? string("same") : a;
}

// push freed blocks through ASan's quarantine (256 MB FIFO) so that the allocator hands them out again
static void flush_quarantine() {
  for (int i = 0; i < 400; i++) {
    volatile char *p = static_cast<volatile char*>(malloc(1 << 20));
    if (p) { p[0] = 1; p[(1 << 20) - 1] = 1; }
    free(const_cast<char*>(p));
  }
}

struct DescRef { unsigned man, pid, kind; const Descriptor *d; };
static void all_descs_of(const RootPidStore *root, vector<DescRef> *out) {
  vector<std::pair<unsigned, const PidStore*> > stores;
  stores.push_back(std::make_pair(0u, root->m_esta_store.get()));
  RootPidStore::ManufacturerMap::const_iterator mit = root->m_manufacturer_store.begin();
  for (; mit != root->m_manufacturer_store.end(); ++mit)
    stores.push_back(std::make_pair(static_cast<unsigned>(mit->first), mit->second));
  for (size_t i = 0; i < stores.size(); i++) {
    vector<const PidDescriptor*> l;
    stores[i].second->AllPids(&l);
    for (size_t k = 0; k < l.size(); k++) {
      const Descriptor *ds[4] = {l[k]->GetRequest(), l[k]->GetResponse(), l[k]->SetRequest(),
                                 l[k]->SetResponse()};
      for (unsigned j = 0; j < 4; j++) {
        if (!ds[j]) continue;
        DescRef r = {stores[i].first, l[k]->Value(), j, ds[j]};
        out->push_back(r);
      }
    }
  }
}
static void all_descs(vector<DescRef> *out) { all_descs_of(g_store, out); }

// order-independent digest of a store: sum (mod two primes) of polynomial hashes of its entries
//   D:<man>:<pid>:<kind>:<descriptor>   P:<man>:<pid>:<name>   S:<man> (a store exists)
struct Digest {
  unsigned long long s1, s2;
  Digest() : s1(0), s2(0) {}
  void Add(const string &t) {
    unsigned long long h1 = 7, h2 = 11;
    for (size_t i = 0; i < t.size(); i++) {
      unsigned c = static_cast<unsigned char>(t[i]);
      h1 = (h1 * 131 + c) % 1000000007ULL;
      h2 = (h2 * 257 + c) % 998244353ULL;
    }
    s1 = (s1 + h1) % 1000000007ULL;
    s2 = (s2 + h2) % 998244353ULL;
  }
};
static string store_digest(const RootPidStore *root, unsigned *ndesc, unsigned *npids, unsigned *nstores = NULL) {
  Digest dg;
  vector<DescRef> ds;
  all_descs_of(root, &ds);
  for (size_t i = 0; i < ds.size(); i++)
    dg.Add("D:" + vh::str(ds[i].man) + ":" + vh::str(ds[i].pid) + ":" + vh::str(ds[i].kind) + ":" +
           c14::desc_str(ds[i].d));
  *ndesc = ds.size();
  *npids = 0;
  vector<std::pair<unsigned, const PidStore*> > stores;
  if (root->m_esta_store.get()) stores.push_back(std::make_pair(0u, root->m_esta_store.get()));
  RootPidStore::ManufacturerMap::const_iterator mit = root->m_manufacturer_store.begin();
  for (; mit != root->m_manufacturer_store.end(); ++mit)
    stores.push_back(std::make_pair(static_cast<unsigned>(mit->first), mit->second));
  for (size_t i = 0; i < stores.size(); i++) {
    dg.Add("S:" + vh::str(stores[i].first));
    vector<const PidDescriptor*> l;
    stores[i].second->AllPids(&l);
    *npids += l.size();
    for (size_t k = 0; k < l.size(); k++) {
      dg.Add("P:" + vh::str(stores[i].first) + ":" + vh::str(l[k]->Value()) + ":" + l[k]->Name());
      // the by-name index must find the same definition
      if (stores[i].second->LookupPID(l[k]->Name()) != l[k] ||
          stores[i].second->LookupPID(l[k]->Value()) != l[k])
        dg.Add("INDEX-MISMATCH:" + l[k]->Name());
    }
    if (stores[i].second->m_pid_by_name.size() != l.size()) dg.Add("NAME-INDEX-SIZE:" + vh::str(stores[i].first));
  }
  if (nstores) *nstores = stores.size();
  return vh::str(dg.s1) + "." + vh::str(dg.s2);
}
static string digest_line(const RootPidStore *st) {
  if (!st) return "lx=FAILED";
  unsigned nd = 0, np = 0, ns = 0;
  string dg = store_digest(st, &nd, &np, &ns);
  return "lx=ok;ndesc=" + vh::str(nd) + ";npids=" + vh::str(np) + ";nstores=" + vh::str(ns) + ";dg=" + dg;
}

static vector<string> shipped_files() {
  vector<string> out;
  DIR *dp = opendir(PID_DATA_DIR);
  if (!dp) return out;
  while (struct dirent *e = readdir(dp)) {
    string n = e->d_name;
    if (n.size() > 6 && n.substr(n.size() - 6) == ".proto") out.push_back(n);
  }
  closedir(dp);
  std::sort(out.begin(), out.end());
  return out;
}
static string slurp(const string &path) {
  std::ifstream f(path.c_str());
  std::ostringstream o;
  o << f.rdbuf();
  return o.str();
}

// override spec: "none" or entries joined by '+': <man>/<pid>/<NAME>/<d0>/<d1>/<d2>/<d3>, di = descriptor
// text or "~" (absent).  Returns the text of an overrides.proto.
static bool overrides_text(const string &spec, string *out) {
  std::map<unsigned, string> per_man;    // manufacturer id -> pid blocks
  vector<string> es = vh::split(spec, '+');
  static const char *kinds[] = {"get_request", "get_response", "set_request", "set_response"};
  for (size_t i = 0; i < es.size(); i++) {
    vector<string> f = vh::split(es[i], '/');
    if (f.size() != 7) return false;
    std::ostringstream b;
    b << "pid { name: \"" << f[2] << "\" value: " << vh::num(f[1]) << " ";
    for (int k = 0; k < 4; k++) {
      if (f[3 + k] == "~") continue;
      std::auto_ptr<const Descriptor> d(c14::parse_desc(f[3 + k]));
      if (!d.get()) return false;
      b << kinds[k] << " { " << c14::proto_fields(d.get()) << "} ";
    }
    b << "}\n";
    per_man[vh::num(f[0])] += b.str();
  }
  std::ostringstream o;
  o << per_man[0];
  for (std::map<unsigned, string>::iterator it = per_man.begin(); it != per_man.end(); ++it) {
    if (it->first == 0) continue;
    o << "manufacturer { manufacturer_id: " << it->first << " manufacturer_name: \"override\"\n"
      << it->second << "}\n";
  }
  o << "version: 1\n";
  *out = o.str();
  return true;
}

// "ldo <validate> <dir|dirl|stream> <spec>": the shipped files (symlinked into a scratch directory) plus an
// overrides.proto generated from <spec>, through one loader entry point
static string ldo_op(bool validate, const string &entry, const string &spec) {
  vector<string> files = shipped_files();
  if (files.empty()) return "lx=no-shipped-files";
  if (entry == "stream") {
    if (spec != "none") return "lx=bad-args";
    // one stream = the concatenated PID files; the singular `version` field may appear once only
    string all;
    for (size_t i = 0; i < files.size(); i++) {
      if (files[i] == "manufacturer_names.proto" || files[i] == "overrides.proto") continue;
      std::istringstream one(slurp(string(PID_DATA_DIR) + "/" + files[i]));
      string line;
      while (std::getline(one, line))
        if (line.compare(0, 8, "version:") != 0) all += line + "\n";
    }
    all += "version: 1\n";
    std::istringstream in(all);
    ola::rdm::PidStoreLoader loader;
    std::auto_ptr<const RootPidStore> st(loader.LoadFromStream(&in, validate));
    return digest_line(st.get());
  }
  // scratch directory next to the case file (under the check's build directory), private to this process
  string tmpl_s = g_scratch + "/ovr_" + vh::str(static_cast<long>(getpid())) + "_XXXXXX";
  vector<char> tmpl(tmpl_s.begin(), tmpl_s.end());
  tmpl.push_back('\0');
  if (!mkdtemp(&tmpl[0])) return "lx=mkdtemp-failed";
  string dir = &tmpl[0];
  bool ok = true;
  for (size_t i = 0; i < files.size(); i++)
    ok = ok && symlink((string(PID_DATA_DIR) + "/" + files[i]).c_str(), (dir + "/" + files[i]).c_str()) == 0;
  if (spec != "none") {
    string text;
    ok = ok && overrides_text(spec, &text);
    unlink((dir + "/overrides.proto").c_str());
    std::ofstream f((dir + "/overrides.proto").c_str());
    f << text;
  }
  string r = "lx=setup-failed";
  if (ok) {
    std::auto_ptr<const RootPidStore> st;
    if (entry == "dir") {
      st.reset(RootPidStore::LoadFromDirectory(dir, validate));
    } else {
      ola::rdm::PidStoreLoader loader;
      st.reset(loader.LoadFromDirectory(dir + "/", validate));
    }
    r = digest_line(st.get());
  }
  for (size_t i = 0; i < files.size(); i++) unlink((dir + "/" + files[i]).c_str());
  unlink((dir + "/overrides.proto").c_str());
  rmdir(dir.c_str());
  return r;
}

// "ldf <validate> <file|loader|stream> <name> ...": ONE shipped file through LoadFromFile / LoadFromStream
static string ldf_op(bool validate, const string &entry, const string &name) {
  string path = string(PID_DATA_DIR) + "/" + name;
  std::auto_ptr<const RootPidStore> st;
  if (entry == "file") {
    st.reset(RootPidStore::LoadFromFile(path, validate));
  } else if (entry == "loader") {
    ola::rdm::PidStoreLoader loader;
    st.reset(loader.LoadFromFile(path, validate));
  } else {
    std::istringstream in(slurp(path));
    ola::rdm::PidStoreLoader loader;
    st.reset(loader.LoadFromStream(&in, validate));
  }
  return digest_line(st.get());
}

// "load k": the shipped directory through another spelling of its path; every spelling must load,
// and load the same table
static string load_op(unsigned k) {
  string d = PID_DATA_DIR;
  while (d.size() > 1 && d[d.size() - 1] == '/') d.erase(d.size() - 1);
  size_t sl = d.rfind('/');
  string dir = sl == string::npos ? "." : d.substr(0, sl), base = sl == string::npos ? d : d.substr(sl + 1);
  string spelled = d;
  bool relative = false;
  switch (k % 9) {
    case 0: spelled = d; break;
    case 1: spelled = d + "/"; break;
    case 2: spelled = dir + "//" + base; break;
    case 3: spelled = dir + "/./" + base; break;
    case 4: spelled = d + "/."; break;
    case 5: spelled = d + "//"; break;
    case 6: spelled = base; relative = true; break;
    case 7: spelled = "./" + base + "/"; relative = true; break;
    case 8: spelled = ""; break;          // empty: RootPidStore::DataLocation()
  }
  char cwd[4096];
  if (!getcwd(cwd, sizeof(cwd))) return "ld=getcwd-failed";
  if (relative && chdir(dir.c_str()) != 0) return "ld=chdir-failed";
  const RootPidStore *st = RootPidStore::LoadFromDirectory(spelled, true);
  if (relative && chdir(cwd) != 0) return "ld=chdir-back-failed";
  if (!st) return "ld=FAILED:" + spelled;
  unsigned nd = 0, np = 0, ns = 0;
  string dg = store_digest(st, &nd, &np, &ns);
  delete st;
  return "ld=ok;ndesc=" + vh::str(nd) + ";npids=" + vh::str(np) + ";nstores=" + vh::str(ns) + ";dg=" + dg;
}

// decode + re-encode through the long-lived PidStoreHelper; "same" or what the helper produced
static string helper_roundtrip(const Descriptor *d, const vector<uint8_t> &bytes, const string &expect) {
  if (!g_helper) return "no-helper";
  vh::Exact e(bytes);
  std::auto_ptr<const Message> m(g_helper->DeserializeMessage(d, e.p, e.n));
  string got = "null";
  if (m.get()) {
    unsigned int n = 0;
    const uint8_t *out = g_helper->SerializeMessage(m.get(), &n);
    got = c14::msg_str(m.get()) + "/" + vh::hex(out, n);
  }
  return got == expect ? string("same") : got;
}

// "conc T N": T threads, each with its own MessageDeserializer / MessageSerializer, decode and
// re-encode a fixed work list N times; results are compared with the single-threaded answers.
struct ConcItem { const Descriptor *d; vector<uint8_t> bytes; string expect; };
struct ConcArg { const vector<ConcItem> *items; unsigned rounds, start; unsigned long mismatches; };
static void *conc_worker(void *p) {
  ConcArg *a = static_cast<ConcArg*>(p);
  ola::rdm::MessageDeserializer des;
  ola::rdm::MessageSerializer ser;
  const vector<ConcItem> &items = *a->items;
  for (unsigned r = 0; r < a->rounds; r++) {
    for (size_t i = 0; i < items.size(); i++) {
      const ConcItem &it = items[(i + a->start) % items.size()];
      std::auto_ptr<const Message> m(des.InflateMessage(it.d, it.bytes.empty() ? reinterpret_cast<const uint8_t*>("") : &it.bytes[0], it.bytes.size()));
      string got = "null";
      if (m.get()) {
        unsigned int n = 0;
        const uint8_t *out = ser.SerializeMessage(m.get(), &n);
        got = c14::msg_str(m.get()) + "/" + vh::hex(out, n);
      }
      if (got != it.expect) a->mismatches++;
    }
  }
  return NULL;
}
static string conc_op(unsigned threads, unsigned rounds) {
  if (threads < 1 || threads > 8) return "conc=bad-args";
  // work list: one descriptor per distinct shape (at most 40), payload lengths around what it accepts
  vector<DescRef> ds;
  all_descs(&ds);
  vector<ConcItem> items;
  std::vector<string> seen;
  for (size_t i = 0; i < ds.size() && seen.size() < 40; i++) {
    string shape = c14::desc_str(ds[i].d);
    bool dup = false;
    for (size_t j = 0; j < seen.size(); j++) dup = dup || seen[j] == shape;
    if (dup) continue;
    seen.push_back(shape);
    unsigned accepted = 0;
    for (unsigned len = 0; len < 80 && accepted < 3; len++) {
      ConcItem it;
      it.d = ds[i].d;
      for (unsigned b = 0; b < len; b++) it.bytes.push_back(static_cast<uint8_t>(1 + (b * 7 + len) % 250));
      ola::rdm::MessageDeserializer des;
      std::auto_ptr<const Message> m(des.InflateMessage(it.d, it.bytes.empty() ? reinterpret_cast<const uint8_t*>("") : &it.bytes[0], len));
      it.expect = describe(m.get());
      if (m.get()) accepted++;
      if (m.get() || len % 16 == 1) items.push_back(it);
    }
  }
  vector<ConcArg> args(threads);
  vector<pthread_t> tids(threads);
  for (unsigned t = 0; t < threads; t++) {
    args[t].items = &items; args[t].rounds = rounds; args[t].start = t * 17; args[t].mismatches = 0;
    if (pthread_create(&tids[t], NULL, conc_worker, &args[t]) != 0) return "conc=thread-create-failed";
  }
  unsigned long total = 0;
  for (unsigned t = 0; t < threads; t++) { pthread_join(tids[t], NULL); total += args[t].mismatches; }
  return "conc=" + vh::str(total) + ";items=" + vh::str(items.size() > 0 ? 1 : 0);
}

// "reload <k>": let the long-lived deserializer see every descriptor of the current store, delete the
// store, disturb the heap (k-dependent), load the shipped files again and compare the long-lived
// deserializer with a fresh one on every descriptor of the NEW store for payload lengths 0..47.
static string reload_op(unsigned k) {
  if (!g_des) g_des = new ola::rdm::MessageDeserializer();
  vector<DescRef> before;
  all_descs(&before);
  uint8_t one[1] = {1};
  for (size_t i = 0; i < before.size(); i++)
    delete g_des->InflateMessage(before[i].d, one, 0);
  delete g_store;
  g_store = NULL;
  flush_quarantine();
  // disturb the free lists: synthetic descriptors of varying shapes, some kept, some freed
  static const char *shapes[] = {"u8", "b,u16,s0:8,u8", "g0:-1[u16l,b]", "uid,g2:2[u8,g3:3[b]],u8",
                                 "s2:6,b", "g1:3[u8,u16]", "-", "ip4,ip6,mac", "u64,u16,s255:255"};
  vector<const Descriptor*> tmp;
  for (unsigned i = 0; i < 40 + 13 * (k % 7); i++)
    tmp.push_back(c14::parse_desc(shapes[(i * (k + 1)) % 9]));
  for (size_t i = 0; i < tmp.size(); i++)
    if ((i + k) % 3 != 0) delete tmp[i];      // the rest stays allocated
  if (k % 2) {
    // an unvalidated load of the same files, deleted again
    delete RootPidStore::LoadFromDirectory(PID_DATA_DIR, false);
    flush_quarantine();
  }
  g_store = RootPidStore::LoadFromDirectory(PID_DATA_DIR, true);
  if (!g_store) return "load=failed;r=store-load-failed";
  vector<DescRef> after;
  all_descs(&after);
  unsigned reused = 0;
  for (size_t i = 0; i < after.size(); i++)
    for (size_t j = 0; j < before.size(); j++)
      if (after[i].d == before[j].d) { reused++; break; }
  fprintf(stderr, "reload %u: %u of %u descriptor addresses reused\n", k, reused,
          static_cast<unsigned>(after.size()));
  for (size_t i = 0; i < after.size(); i++) {
    for (unsigned len = 0; len < 48; len++) {
      vector<uint8_t> bytes(len, 1);
      string r = long_lived_decode(after[i].d, bytes);
      if (r != "same")
        return "sweep=diff:" + vh::str(after[i].man) + ":" + vh::str(after[i].pid) + ":" +
               vh::str(after[i].kind) + ":len" + vh::str(len) + ":" + c14::desc_str(after[i].d) +
               ":long-lived-deserializer-says:" + r + ";n=" + vh::str(after.size());
    }
  }
  return "sweep=ok;n=" + vh::str(after.size());
}

static string shared_serialize(const Message *m, size_t payload_len) {
  if (!g_shared) g_shared = new ola::rdm::MessageSerializer();
  {
    std::vector<const ola::messaging::FieldDescriptor*> gf, fs;
    gf.push_back(new ola::messaging::UInt8FieldDescriptor("x"));
    fs.push_back(new ola::messaging::FieldDescriptorGroup("g", gf, 0, -1));
    Descriptor dd("", fs);
    vector<uint8_t> ff(payload_len + 64, 0xff);
    vh::Exact fe(ff);
    ola::rdm::MessageDeserializer des;
    std::auto_ptr<const Message> dm(des.InflateMessage(&dd, fe.p, fe.n));
    if (!dm.get()) return "dirty-setup-failed";
    unsigned int dn = 0;
    const uint8_t *dout = g_shared->SerializeMessage(dm.get(), &dn);
    if (dn != ff.size() || memcmp(dout, ff.data(), dn)) return "dirty-setup-mismatch";
  }
  unsigned int n = 0;
  const uint8_t *out = g_shared->SerializeMessage(m, &n);
  return vh::hex(out, n);
}

static const char *state_name(VariableFieldSizeCalculator::calculator_state s) {
  switch (s) {
    case VariableFieldSizeCalculator::TOO_SMALL: return "TOO_SMALL";
    case VariableFieldSizeCalculator::TOO_LARGE: return "TOO_LARGE";
    case VariableFieldSizeCalculator::FIXED_SIZE: return "FIXED_SIZE";
    case VariableFieldSizeCalculator::VARIABLE_STRING: return "VARIABLE_STRING";
    case VariableFieldSizeCalculator::VARIABLE_GROUP: return "VARIABLE_GROUP";
    case VariableFieldSizeCalculator::MULTIPLE_VARIABLE_FIELDS: return "MULTIPLE_VARIABLE_FIELDS";
    case VariableFieldSizeCalculator::NESTED_VARIABLE_GROUPS: return "NESTED_VARIABLE_GROUPS";
    case VariableFieldSizeCalculator::MISMATCHED_SIZE: return "MISMATCHED_SIZE";
  }
  return "?";
}

static string run(const Descriptor *d, unsigned prev, const vector<uint8_t> &bytes) {
  std::ostringstream o;
  ola::rdm::DescriptorConsistencyChecker checker;
  o << "d=" << c14::desc_str(d) << ";cc=" << (checker.CheckConsistency(d) ? 1 : 0);
  {
    VariableFieldSizeCalculator calc;
    unsigned int v = 0;
    VariableFieldSizeCalculator::calculator_state st = calc.CalculateFieldSize(bytes.size(), d, &v);
    o << ";cs=" << state_name(st);
    if (st == VariableFieldSizeCalculator::VARIABLE_STRING || st == VariableFieldSizeCalculator::VARIABLE_GROUP)
      o << ":" << v;
  }
  {
    // GroupSizeCalculator, with the payload length taken as the token count
    ola::rdm::GroupSizeCalculator gcalc;
    unsigned int v = 0;
    static const char *names[] = {"INSUFFICIENT_TOKENS", "EXTRA_TOKENS", "NO_VARIABLE_GROUPS",
                                  "SINGLE_VARIABLE_GROUP", "MULTIPLE_VARIABLE_GROUPS",
                                  "NESTED_VARIABLE_GROUPS", "MISMATCHED_TOKENS"};
    ola::rdm::GroupSizeCalculator::calculator_state st = gcalc.CalculateGroupSize(bytes.size(), d, &v);
    o << ";gs=" << names[st];
    if (st == ola::rdm::GroupSizeCalculator::SINGLE_VARIABLE_GROUP) o << ":" << v;
  }
  ola::rdm::MessageDeserializer deserializer;
  {
    // leave `prev` in m_variable_field_size, as a previous call of the same object would
    std::vector<const ola::messaging::FieldDescriptor*> fs;
    fs.push_back(new ola::messaging::StringFieldDescriptor("p", 0, 255));
    Descriptor pd("", fs);
    vector<uint8_t> junk(prev & 255, 0x41);
    vh::Exact pe(junk);
    std::auto_ptr<const Message> pm(deserializer.InflateMessage(&pd, pe.p, pe.n));
    if (!pm.get()) return o.str() + ";r=prev-setup-failed";
  }
  vh::Exact e(bytes);
  std::auto_ptr<const Message> m(deserializer.InflateMessage(d, e.p, e.n));
  string ldes = ";ldes=" + long_lived_decode(d, bytes);
  ldes += ";helper=" + helper_roundtrip(d, bytes, describe(m.get()));
  if (!m.get()) return o.str() + ";r=null" + ldes;
  ola::rdm::MessageSerializer serializer;
  unsigned int n = 0;
  const uint8_t *out = serializer.SerializeMessage(m.get(), &n);
  vector<uint8_t> outv(out, out + n);
  o << ";r=msg;m=" << c14::msg_str(m.get()) << ";ser=" << vh::hex(outv)
    << ";same=" << (outv == bytes ? 1 : 0);
  unsigned int cap_after = serializer.m_buffer_size;
  // decode the re-encoded bytes again (fresh objects, exact-size copy)
  {
    ola::rdm::MessageDeserializer d2;
    std::vector<const ola::messaging::FieldDescriptor*> fs;
    fs.push_back(new ola::messaging::StringFieldDescriptor("p", 0, 255));
    Descriptor pd("", fs);
    vector<uint8_t> junk(prev & 255, 0x41);
    vh::Exact pe(junk);
    std::auto_ptr<const Message> pm(d2.InflateMessage(&pd, pe.p, pe.n));
    vh::Exact e2(outv);
    std::auto_ptr<const Message> m2(d2.InflateMessage(d, e2.p, e2.n));
    bool again = false;
    if (m2.get()) {
      ola::rdm::MessageSerializer s2;
      unsigned int n2 = 0;
      const uint8_t *o2 = s2.SerializeMessage(m2.get(), &n2);
      again = c14::msg_str(m2.get()) == c14::msg_str(m.get()) && vector<uint8_t>(o2, o2 + n2) == outv;
    }
    o << ";again=" << (again ? 1 : 0) << ";cap=" << cap_after;
    string sh = shared_serialize(m.get(), bytes.size());
    o << ";shared=" << (sh == vh::hex(outv) ? string("same") : sh);
  }
  return o.str() + ldes;
}

// which store does this pointer denote ("-" for NULL, "?" for a pointer that is no store of g_store)
static string store_id(const PidStore *s) {
  if (!s) return "-";
  unsigned id = 0;
  bool found = s == g_store->m_esta_store.get();
  RootPidStore::ManufacturerMap::const_iterator it = g_store->m_manufacturer_store.begin();
  for (; !found && it != g_store->m_manufacturer_store.end(); ++it)
    if (it->second == s) { id = it->first; found = true; }
  if (!found) return "?";
  return vh::str(id) + "#" + vh::str(s->PidCount());
}
static bool store_has(const PidStore *s, const PidDescriptor *d) {
  PidStore::PidMap::const_iterator it = s->m_pid_by_value.begin();
  for (; it != s->m_pid_by_value.end(); ++it)
    if (it->second == d) return true;
  return false;
}
static string desc_id(const PidDescriptor *d, const RootPidStore *root = NULL) {
  if (!d) return "-";
  if (!root) root = g_store;
  string owner = "?";
  if (store_has(root->m_esta_store.get(), d)) owner = "0";
  RootPidStore::ManufacturerMap::const_iterator it = root->m_manufacturer_store.begin();
  for (; owner == "?" && it != root->m_manufacturer_store.end(); ++it)
    if (store_has(it->second, d)) owner = vh::str(static_cast<unsigned>(it->first));
  return owner + ":" + vh::str(d->Value()) + ":" + d->Name();
}
static string unhex_str(const string &h) {
  vector<uint8_t> b = vh::unhex(h);
  return string(b.begin(), b.end());
}
// "look t1,t2,...": a history of lookups on the one long-lived RootPidStore, result after every call
static string look_op(const string &ops) {
  vector<string> ts = vh::split(ops, ',');
  string out = "h=";
  for (size_t i = 0; i < ts.size(); i++) {
    const string &t = ts[i];
    string body = t.substr(1), r = "?";
    vector<string> f = vh::split(body, ':');
    switch (t[0]) {
      case 'E': r = store_id(g_store->EstaStore()); break;
      case 'M': r = store_id(g_store->ManufacturerStore(static_cast<uint16_t>(vh::num(body)))); break;
      case 'V': if (f.size() == 2) r = desc_id(g_store->GetDescriptor(
                    static_cast<uint16_t>(vh::num(f[0])), static_cast<uint16_t>(vh::num(f[1])))); break;
      case 'v': r = desc_id(g_store->GetDescriptor(static_cast<uint16_t>(vh::num(body)))); break;
      case 'N': if (f.size() == 2) r = desc_id(g_store->GetDescriptor(
                    unhex_str(f[0]), static_cast<uint16_t>(vh::num(f[1])))); break;
      case 'n': r = desc_id(g_store->GetDescriptor(unhex_str(body))); break;
      case 'H': {     // the same lookups through the long-lived PidStoreHelper (its own store)
        if (!g_helper || body.empty()) break;
        vector<string> g = vh::split(body.substr(1), ':');
        const RootPidStore *hr = g_helper->m_root_store;
        if (body[0] == 'V' && g.size() == 2)
          r = desc_id(g_helper->GetDescriptor(static_cast<uint16_t>(vh::num(g[0])),
                                              static_cast<uint16_t>(vh::num(g[1]))), hr);
        if (body[0] == 'N' && g.size() == 2)
          r = desc_id(g_helper->GetDescriptor(unhex_str(g[0]), static_cast<uint16_t>(vh::num(g[1]))), hr);
        if (body[0] == 'S' && g.size() == 1) {
          vector<string> names;
          vector<const PidDescriptor*> descs;
          g_helper->SupportedPids(static_cast<uint16_t>(vh::num(g[0])), &names);
          g_helper->SupportedPids(static_cast<uint16_t>(vh::num(g[0])), &descs);
          r = vh::str(names.size()) + "/" + vh::str(descs.size());
        }
        break;
      }
    }
    out += (i ? "|" : "") + r;
  }
  return out;
}

// texts the loader must refuse, each AFTER it has already accepted definitions that clash with shipped ones
static string bad_text(unsigned k) {
  const string esta = "pid { name: \"DEVICE_LABEL\" value: 130 get_request { } "
                      "get_response { field { type: UINT8 name: \"x\" } } }\n";
  const string man = "manufacturer { manufacturer_id: 31344 manufacturer_name: \"m\" "
                     "pid { name: \"SERIAL_NUMBER\" value: 32768 get_request { field { type: BOOL name: \"b\" } } }\n";
  switch (k % 8) {
    case 0: return esta + "pid { name: \"OTHER\" value: 130 get_request { } }\nversion: 1\n";           // value twice
    case 1: return esta + "pid { name: \"DEVICE_LABEL\" value: 131 get_request { } }\nversion: 1\n";    // name twice
    case 2: return esta + "pid { name: \"OUT_OF_RANGE\" value: 36864 get_request { } }\nversion: 1\n"; // ESTA PID in manufacturer range
    case 3: return esta + man + "}\nversion: 1\npid { name: ";                                          // parse error at the end
    case 4: return esta + man + "}\n" + man + "}\nversion: 1\n";                                        // manufacturer twice
    case 5: return esta + "pid { name: \"NO_MAX\" value: 132 get_request { field { type: STRING name: \"s\" } } }\nversion: 1\n";
    case 6: return esta + "pid { name: \"TWO_VAR\" value: 133 get_request { field { type: STRING name: \"a\" max_size: 4 } "
                          "field { type: STRING name: \"b\" max_size: 4 } } }\nversion: 1\n";          // inconsistent frame
    default: return esta + man + "pid { name: \"AGAIN\" value: 32768 get_request { } } }\nversion: 1\n"; // value twice in a manufacturer
  }
}

// "seq s1,s2,...": ONE long-lived PidStoreLoader through a sequence of loads, refused ones included;
// the outcome of every load is reported.  D<v>: the shipped directory (validate v); F<i>:<v>:...: shipped
// file i alone; B<k>: a text that must be refused (odd k through a file, even k through a stream).
static string seq_op(const string &spec) {
  ola::rdm::PidStoreLoader loader;
  vector<string> files = shipped_files();
  vector<string> steps = vh::split(spec, ',');
  string out = "sq=";
  for (size_t i = 0; i < steps.size(); i++) {
    const string &t = steps[i];
    std::auto_ptr<const RootPidStore> st;
    if (t[0] == 'D') {
      st.reset(loader.LoadFromDirectory(PID_DATA_DIR, t.size() > 1 && t[1] == '1'));
    } else if (t[0] == 'F') {
      vector<string> f = vh::split(t.substr(1), ':');
      unsigned idx = vh::num(f[0]);
      if (idx < files.size())
        st.reset(loader.LoadFromFile(string(PID_DATA_DIR) + "/" + files[idx], f.size() > 1 && f[1] == "1"));
    } else if (t[0] == 'B') {
      unsigned k = vh::num(t.substr(1));
      string text = bad_text(k);
      if (k % 2) {
        string path = g_scratch + "/bad_" + vh::str(static_cast<long>(getpid())) + ".proto";
        { std::ofstream f(path.c_str()); f << text; }
        st.reset(loader.LoadFromFile(path, true));
        unlink(path.c_str());
      } else {
        std::istringstream in(text);
        st.reset(loader.LoadFromStream(&in, true));
      }
    }
    string r = digest_line(st.get());
    out += (i ? "|" : "") + (st.get() ? r.substr(3) : string("refused"));
  }
  return out;
}

// number of open file descriptors of this process
static int open_fds() {
  int n = 0;
  DIR *dp = opendir("/proc/self/fd");
  if (!dp) return -1;
  while (readdir(dp)) n++;
  closedir(dp);
  return n - 3;      // ".", "..", and the descriptor of this very opendir
}

// "many N": N rounds of every loader entry point in one process, under a lowered RLIMIT_NOFILE; every
// load must succeed with the same table and the number of open descriptors must stay what it was
static string many_op(unsigned rounds) {
  vector<string> files = shipped_files();
  int base_fds = open_fds();
  struct rlimit old_lim, lim;
  if (getrlimit(RLIMIT_NOFILE, &old_lim) != 0 || base_fds < 0) return "many=setup-failed";
  lim = old_lim;
  lim.rlim_cur = base_fds + 24;      // room for what one load needs at a time, not for a leak
  if (lim.rlim_cur > old_lim.rlim_max) lim.rlim_cur = old_lim.rlim_max;
  setrlimit(RLIMIT_NOFILE, &lim);
  string first, verdict = "ok";
  for (unsigned i = 0; i < rounds && verdict == "ok"; i++) {
    for (int kind = 0; kind < 5 && verdict == "ok"; kind++) {
      std::auto_ptr<const RootPidStore> st;
      ola::rdm::PidStoreHelper *helper = NULL;
      const RootPidStore *root = NULL;
      if (kind == 0) { st.reset(RootPidStore::LoadFromDirectory(PID_DATA_DIR, true)); root = st.get(); }
      if (kind == 1) { st.reset(RootPidStore::LoadFromDirectory(string(PID_DATA_DIR) + "/", false)); root = st.get(); }
      if (kind == 2) { ola::rdm::PidStoreLoader l; st.reset(l.LoadFromDirectory(PID_DATA_DIR, true)); root = st.get(); }
      if (kind == 3) {
        helper = new ola::rdm::PidStoreHelper(PID_DATA_DIR);
        root = helper->Init() ? helper->m_root_store : NULL;
      }
      if (kind == 4) {
        // every file alone, through LoadFromFile; only success and the descriptor count matter here
        for (size_t f = 0; f < files.size(); f++) {
          std::auto_ptr<const RootPidStore> one(RootPidStore::LoadFromFile(string(PID_DATA_DIR) + "/" + files[f], true));
          if (!one.get()) verdict = "FAILED:round" + vh::str(i) + ":file:" + files[f];
        }
      } else if (!root) {
        verdict = "FAILED:round" + vh::str(i) + ":entry" + vh::str(kind);
      } else {
        unsigned nd = 0, np = 0;
        string dg = store_digest(root, &nd, &np);
        if (first.empty()) first = dg;
        if (dg != first) verdict = "DIFFERENT-TABLE:round" + vh::str(i) + ":entry" + vh::str(kind);
      }
      delete helper;
      st.reset();
      int now = open_fds();
      if (verdict == "ok" && now != base_fds)
        verdict = "FD-LEAK:round" + vh::str(i) + ":entry" + vh::str(kind) + ":" + vh::str(base_fds) + "->" + vh::str(now);
    }
  }
  setrlimit(RLIMIT_NOFILE, &old_lim);
  return "many=" + verdict;
}

// "race T R": R rounds; each loads a FRESH store without validation (nothing has touched the lazily
// computed sizes of its group descriptors), then T threads, each with its own deserializer and
// serializer, make the first use of every group-bearing descriptor at the same moment (barrier per
// item).  Answers must equal those obtained single-threaded from the long-lived validated store; after
// the threads the cold store is swept once more single-threaded (a corrupted cache would persist).
struct RaceItem { unsigned man, pid, kind; const Descriptor *cold; vector<uint8_t> bytes; string expect; };
struct RaceArg { vector<RaceItem> *items; pthread_barrier_t *barrier; unsigned long mismatches; };
static string decode_describe(ola::rdm::MessageDeserializer *des, const Descriptor *d, const vector<uint8_t> &b) {
  std::auto_ptr<const Message> m(des->InflateMessage(d, b.empty() ? reinterpret_cast<const uint8_t*>("") : &b[0], b.size()));
  return describe(m.get());
}
static void *race_worker(void *p) {
  RaceArg *a = static_cast<RaceArg*>(p);
  ola::rdm::MessageDeserializer des;
  for (size_t i = 0; i < a->items->size(); i++) {
    const RaceItem &it = (*a->items)[i];
    pthread_barrier_wait(a->barrier);
    if (decode_describe(&des, it.cold, it.bytes) != it.expect) a->mismatches++;
  }
  return NULL;
}
static string race_op(unsigned threads, unsigned rounds) {
  if (threads < 2 || threads > 8) return "race=bad-args";
  // work list from the warm, validated store: every descriptor that contains a group, two payloads each
  vector<DescRef> ds;
  all_descs(&ds);
  vector<RaceItem> items;
  for (size_t i = 0; i < ds.size(); i++) {
    if (c14::desc_str(ds[i].d).find('g') == string::npos) continue;
    unsigned accepted = 0;
    for (unsigned len = 0; len < 120 && accepted < 2; len++) {
      RaceItem it;
      it.man = ds[i].man; it.pid = ds[i].pid; it.kind = ds[i].kind; it.cold = NULL;
      for (unsigned b = 0; b < len; b++) it.bytes.push_back(static_cast<uint8_t>(1 + (b * 11 + len) % 250));
      ola::rdm::MessageDeserializer des;
      it.expect = decode_describe(&des, ds[i].d, it.bytes);
      if (it.expect != "null" && len > 0) { accepted++; items.push_back(it); }
    }
  }
  unsigned long racing = 0, after = 0;
  for (unsigned r = 0; r < rounds; r++) {
    std::auto_ptr<const RootPidStore> cold(RootPidStore::LoadFromDirectory(PID_DATA_DIR, false));
    if (!cold.get()) return "race=load-failed";
    for (size_t i = 0; i < items.size(); i++) {
      const PidStore *st = items[i].man == 0 ? cold->m_esta_store.get() : NULL;
      if (items[i].man != 0) {
        RootPidStore::ManufacturerMap::const_iterator it = cold->m_manufacturer_store.find(items[i].man);
        st = it == cold->m_manufacturer_store.end() ? NULL : it->second;
      }
      const PidDescriptor *pd = st ? st->LookupPID(static_cast<uint16_t>(items[i].pid)) : NULL;
      if (!pd) return "race=missing-descriptor";
      items[i].cold = items[i].kind == 0 ? pd->GetRequest() : items[i].kind == 1 ? pd->GetResponse() :
                      items[i].kind == 2 ? pd->SetRequest() : pd->SetResponse();
      if (!items[i].cold) return "race=missing-descriptor";
    }
    pthread_barrier_t barrier;
    pthread_barrier_init(&barrier, NULL, threads);
    vector<RaceArg> args(threads);
    vector<pthread_t> tids(threads);
    for (unsigned t = 0; t < threads; t++) {
      args[t].items = &items; args[t].barrier = &barrier; args[t].mismatches = 0;
      if (pthread_create(&tids[t], NULL, race_worker, &args[t]) != 0) return "race=thread-create-failed";
    }
    for (unsigned t = 0; t < threads; t++) { pthread_join(tids[t], NULL); racing += args[t].mismatches; }
    pthread_barrier_destroy(&barrier);
    ola::rdm::MessageDeserializer des;
    for (size_t i = 0; i < items.size(); i++)
      if (decode_describe(&des, items[i].cold, items[i].bytes) != items[i].expect) after++;
  }
  return "race=" + vh::str(racing) + ";post=" + vh::str(after);
}

static string handle(const string &p) {
  if (!g_store) return "load=failed;r=store-load-failed";
  vector<string> a = vh::split(p);
  if (a[0] == "p" && a.size() == 7) {
    unsigned man = vh::num(a[1]), pid = vh::num(a[2]), kind = vh::num(a[3]);
    const PidStore *st = man == 0 ? g_store->EstaStore() : g_store->ManufacturerStore(man);
    const PidDescriptor *pd = st ? st->LookupPID(static_cast<uint16_t>(pid)) : NULL;
    if (!pd) return "d=missing";
    const Descriptor *d = kind == 0 ? pd->GetRequest() : kind == 1 ? pd->GetResponse() :
                          kind == 2 ? pd->SetRequest() : pd->SetResponse();
    if (!d) return "d=missing";
    return run(d, vh::num(a[4]), vh::unhex(a[5]));
  }
  if (a[0] == "s" && a.size() == 5) {
    std::auto_ptr<const Descriptor> d(c14::parse_desc(a[1]));
    if (!d.get()) return "d=unparsable";
    return run(d.get(), vh::num(a[2]), vh::unhex(a[3]));
  }
  if (a[0] == "reload" && a.size() == 2) return reload_op(vh::num(a[1]));
  if (a[0] == "look" && a.size() == 2) return look_op(a[1]);
  if (a[0] == "load" && a.size() == 2) return load_op(vh::num(a[1]));
  if (a[0] == "many" && a.size() == 2) return many_op(vh::num(a[1]));
  if (a[0] == "seq" && a.size() == 2) return seq_op(a[1]);
  if (a[0] == "race" && a.size() == 3) return race_op(vh::num(a[1]), vh::num(a[2]));
  if (a[0] == "ldo" && a.size() == 4) return ldo_op(a[1] == "1", a[2], a[3]);
  if (a[0] == "ldf" && a.size() >= 4) return ldf_op(a[1] == "1", a[2], a[3]);
  if (a[0] == "conc" && a.size() == 3) return conc_op(vh::num(a[1]), vh::num(a[2]));
  if (a[0] == "store") {
    // count what the store holds: descriptors and PIDs, as the exporter enumerated them
    unsigned ndesc = 0, npids = 0;
    vector<const PidStore*> stores;
    stores.push_back(g_store->EstaStore());
    for (unsigned man = 1; man < 65536; man++) {
      const PidStore *s = g_store->ManufacturerStore(man);
      if (s) stores.push_back(s);
    }
    for (size_t i = 0; i < stores.size(); i++) {
      vector<const PidDescriptor*> l;
      stores[i]->AllPids(&l);
      npids += l.size();
      for (size_t k = 0; k < l.size(); k++)
        ndesc += (l[k]->GetRequest() ? 1 : 0) + (l[k]->GetResponse() ? 1 : 0) +
                 (l[k]->SetRequest() ? 1 : 0) + (l[k]->SetResponse() ? 1 : 0);
    }
    return "ndesc=" + vh::str(ndesc) + ";npids=" + vh::str(npids);
  }
  return "bad-op";
}

int main(int argc, char **argv) {
  ola::InitLogging(ola::OLA_LOG_NONE, ola::OLA_LOG_NULL);
  if (argc > 1) {
    string f = argv[1];
    size_t sl = f.rfind('/');
    g_scratch = sl == string::npos ? "." : f.substr(0, sl);
  }
  g_store = RootPidStore::LoadFromDirectory(PID_DATA_DIR, true);
  // a load failure is itself a violation: every case then reports load=failed
  if (!g_store) fprintf(stderr, "LOAD-FAILED\n");
  g_helper = new ola::rdm::PidStoreHelper(PID_DATA_DIR);
  if (!g_helper->Init()) { delete g_helper; g_helper = NULL; }
  return vh::run(argc, argv, handle);
}
