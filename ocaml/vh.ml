(* Shared glue for model drivers (prepended to props/<id>/driver.ml at build time).
   Only parsing/printing; all logic is in the extracted Model. *)
open Model

let rec pos_of_int (i : int) : positive =
  if i <= 1 then XH
  else if i land 1 = 0 then XO (pos_of_int (i lsr 1)) else XI (pos_of_int (i lsr 1))
let n_of_int (i : int) : n = if i <= 0 then N0 else Npos (pos_of_int i)
let rec int_of_pos (p : positive) : int =
  match p with XH -> 1 | XO q -> 2 * int_of_pos q | XI q -> 2 * int_of_pos q + 1
let int_of_n (x : n) : int = match x with N0 -> 0 | Npos p -> int_of_pos p
let z_of_int (i : int) : z = if i = 0 then Z0 else if i > 0 then Zpos (pos_of_int i) else Zneg (pos_of_int (- i))
let int_of_z (x : z) : int = match x with Z0 -> 0 | Zpos p -> int_of_pos p | Zneg p -> - (int_of_pos p)
let rec nat_of_int (i : int) : nat = if i <= 0 then O else S (nat_of_int (i - 1))
let rec int_of_nat (x : nat) : int = match x with O -> 0 | S m -> 1 + int_of_nat m

(* decimal strings for values beyond OCaml's 63-bit int (u64): via two halves *)
let n_of_string (s : string) : n =
  (* s is decimal, < 2^126; use arithmetic on the model's N: acc*10+d *)
  let ten = n_of_int 10 in
  let acc = ref N0 in
  String.iter (fun c -> acc := N.add (N.mul !acc ten) (n_of_int (Char.code c - 48))) s;
  !acc
let string_of_n (x : n) : string =
  (* repeated division by 10^9 *)
  let big = n_of_int 1000000000 in
  let rec go x acc =
    let q, r = N.div_eucl x big in
    match q with
    | N0 -> string_of_int (int_of_n r) ^ acc
    | _ -> go q (Printf.sprintf "%09d" (int_of_n r) ^ acc)
  in go x ""

let hexdigit c = match c with
  | '0'..'9' -> Char.code c - 48 | 'a'..'f' -> Char.code c - 87 | 'A'..'F' -> Char.code c - 55 | _ -> 0
let bytes_of_hex (s : string) : n list =
  if s = "-" then [] else begin
    let l = ref [] in
    let len = String.length s / 2 in
    for i = len - 1 downto 0 do
      l := n_of_int (hexdigit s.[2*i] * 16 + hexdigit s.[2*i+1]) :: !l
    done; !l end
let hex_of_bytes (l : n list) : string =
  if l = [] then "-" else begin
    let b = Buffer.create 64 in
    List.iter (fun x -> Buffer.add_string b (Printf.sprintf "%02x" (int_of_n x land 255))) l;
    Buffer.contents b end
let split (s : string) : string list = String.split_on_char ' ' s
let ios = int_of_string
let bool01 b = if b then "1" else "0"

let vh_run (h : string -> string) : unit =
  let ic = open_in Sys.argv.(1) in
  (try
    while true do
      let line = input_line ic in
      if line <> "" then begin
        let id, payload =
          match String.index_opt line ' ' with
          | Some i -> String.sub line 0 i, String.sub line (i+1) (String.length line - i - 1)
          | None -> line, "" in
        print_string ("B " ^ id ^ "\n");
        let r = h payload in
        print_string ("R " ^ id ^ " " ^ r ^ "\n")
      end
    done
  with End_of_file -> ());
  close_in ic
