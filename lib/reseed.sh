#!/bin/bash
# Integrator tool: re-run seedtest for given seeded ids against their scratch checkouts; prints one line per id.
# usage: reseed.sh <atkprefix> <id> ...   e.g. reseed.sh /tmp/atk5 C13e-1 C14e-2   (different properties in parallel)
atkp=$1; shift
cd /verif
declare -A byp
for id in "$@"; do P=${id:0:3}; byp[$P]="${byp[$P]} $id"; done
for P in "${!byp[@]}"; do
  ( for id in ${byp[$P]}; do
      r=$(python3 lib/seedtest.py $P ${atkp}_$P seeded/$id/patch.diff 2>&1 | grep -E "^exit|divergences" | tr '\n' ' ')
      echo "$id $r"
    done ) &
done
wait
