#!/usr/bin/env python3
"""Shared machinery of the OLA Rocq/Coq verification framework (see DESIGN.md §2).

A property lives in props/<ID>/ :
  coq/_CoqProject, coq/*.v       Coq project (depends on coq/Base = OlaBase)
  coq/Properties.v               property theorems only (+ Print Assumptions)
  coq/Extract.v                  Extraction "model.ml" ...  (ExtrOcamlBasic only)
  driver.ml                      OCaml glue: payload string -> result string (uses ocaml/vh.ml)
  harness.cpp                    C++ glue: payload string -> result string (uses harness/vh.h)
  prop.py                        configuration + case generator
Line protocol (both sides): input file has one case per line "<id> <payload>",
output "R <id> <result>"; result is "k=v;k=v;..." .
"""
import concurrent.futures as cf
import glob
import hashlib
import importlib.util
import json
import os
import random
import re
import shutil
import subprocess
import sys
import time

VERIF = os.path.dirname(os.path.dirname(os.path.abspath(__file__)))
REPO = os.environ.get('VERIF_REPO', '/repo')
BUILD = os.path.join(VERIF, 'build')
if REPO != '/repo':
    BUILD = os.path.join(BUILD, 'alt_' + hashlib.sha1(REPO.encode()).hexdigest()[:8])
NCPU = os.cpu_count() or 4
GUARD = 'OLA_VERIF'

os.environ.setdefault('CCACHE_DIR', os.path.join(VERIF, 'build', 'ccache'))
os.environ.setdefault('CCACHE_BASEDIR', '/')
os.environ['ASAN_OPTIONS'] = os.environ.get(
    'ASAN_OPTIONS', 'detect_leaks=0:abort_on_error=0:allocator_may_return_null=1:'
    'detect_stack_use_after_return=0:print_summary=1')
os.environ['UBSAN_OPTIONS'] = os.environ.get(
    'UBSAN_OPTIONS', 'print_stacktrace=1:halt_on_error=1')

BASE_CXXFLAGS = ['-std=gnu++11', '-DHAVE_CONFIG_H', '-D' + GUARD,
                 '-O1', '-g', '-w', '-fno-omit-frame-pointer',
                 '-fsanitize=address,undefined', '-fno-sanitize=alignment,vptr,nonnull-attribute,returns-nonnull-attribute',
                 '-fno-sanitize-recover=undefined',
                 '-DPID_DATA_DIR="%s/data/rdm"' % REPO]
BASE_LIBS = ['-lprotobuf', '-luuid', '-lpthread', '-lresolv']

FORBIDDEN = re.compile(
    r'\b(Admitted|admit|Axiom|Axioms|Parameter|Parameters|Conjecture|Conjectures|'
    r'Admit Obligations)\b|Unset\s+Guard|bypass_check|type-in-type|impredicative-set|'
    r'Unset\s+Positivity|Unset\s+Universe')


def log(*a):
    print(*a, file=sys.stderr, flush=True)


def sh(cmd, timeout=None, cwd=None, env=None, check=False, stdin=None):
    p = subprocess.run(cmd, stdout=subprocess.PIPE, stderr=subprocess.PIPE, cwd=cwd,
                       env=env, timeout=timeout, input=stdin,
                       shell=isinstance(cmd, str))
    if check and p.returncode != 0:
        raise RuntimeError('command failed: %s\n%s\n%s' % (
            cmd, p.stdout.decode(errors='replace')[-3000:], p.stderr.decode(errors='replace')[-3000:]))
    return p


def repo_path(rel):
    """Path of a repository file; generated files missing from an alternative
    worktree (config.h, *.pb.cc) are taken from /repo."""
    p = os.path.join(REPO, rel)
    if os.path.exists(p) or REPO == '/repo':
        return p
    return os.path.join('/repo', rel)


def include_flags():
    fl = ['-I' + REPO, '-I' + REPO + '/include']
    if REPO != '/repo':
        fl += ['-I/repo', '-I/repo/include']
    fl += ['-I' + os.path.join(VERIF, 'harness')]
    return fl


# ---------------------------------------------------------------- source groups
def _glob_rel(pattern):
    out = set()
    for root in {REPO, '/repo'}:
        for p in glob.glob(os.path.join(root, pattern), recursive=True):
            out.add(os.path.relpath(p, root))
    return sorted(out)


def _not_test(p):
    b = os.path.basename(p)
    return not re.search(r'Test|Tester|Mock|Windows|KQueue|-test', b) and '/testing/' not in p


def group_sources(name):
    if name == 'common':
        src = [p for p in _glob_rel('common/**/*.cpp') if _not_test(p)]
        src += [p for p in _glob_rel('common/**/*.pb.cc')]
        return [s for s in src if 'common/http/' not in s]
    if name == 'web':   # part of common in the glob above (common/web), kept for clarity
        return []
    if name == 'plugin_api':
        return [p for p in _glob_rel('olad/plugin_api/*.cpp') if _not_test(p)]
    if name == 'acn':
        return [p for p in _glob_rel('libs/acn/*.cpp') if _not_test(p)
                and not p.endswith('e131_transmit_test.cpp') and not p.endswith('e131_loadtest.cpp')]
    raise KeyError(name)


# ---------------------------------------------------------------- C++ building
def _compile_one(args):
    src, obj, flags = args
    os.makedirs(os.path.dirname(obj), exist_ok=True)
    # compile to a private name and rename: several checks may build the same object concurrently
    tmp = '%s.%d.tmp.o' % (obj, os.getpid())
    cmd = ['ccache', 'g++'] + flags + ['-c', src, '-o', tmp]
    p = subprocess.run(cmd, stdout=subprocess.PIPE, stderr=subprocess.PIPE)
    if p.returncode == 0:
        os.replace(tmp, obj)
    elif os.path.exists(tmp):
        os.unlink(tmp)
    return src, p.returncode, p.stderr.decode(errors='replace')


def build_harness(pid, cfg, extra_defs=()):
    """Compile the listed /repo sources (current working tree) + harness into a binary."""
    t0 = time.time()
    pdir = os.path.join(VERIF, 'props', pid)
    flags = BASE_CXXFLAGS + list(getattr(cfg, 'CXXFLAGS', [])) + list(extra_defs) + include_flags()
    flags += ['-I' + pdir]
    srcs = []
    for g in getattr(cfg, 'GROUPS', []):
        srcs += group_sources(g)
    srcs += list(getattr(cfg, 'CXX_SOURCES', []))
    seen = set()
    jobs = []
    objs = []
    tag = hashlib.sha1(' '.join(flags).encode()).hexdigest()[:10]
    for rel in srcs:
        if rel in seen:
            continue
        seen.add(rel)
        src = repo_path(rel)
        obj = os.path.join(BUILD, 'obj', tag, rel + '.o')
        jobs.append((src, obj, flags))
        objs.append(obj)
    for h in getattr(cfg, 'HARNESS_SOURCES', ['harness.cpp']):
        src = os.path.join(pdir, h)
        obj = os.path.join(BUILD, pid, h + '.o')
        jobs.append((src, obj, flags))
        objs.append(obj)
    errs = []
    with cf.ThreadPoolExecutor(NCPU) as ex:
        for src, rc, err in ex.map(_compile_one, jobs):
            if rc != 0:
                errs.append((src, err))
    if errs:
        return None, 'compile error:\n' + '\n'.join('%s:\n%s' % (s, e[-4000:]) for s, e in errs[:3])
    out = os.path.join(BUILD, pid, 'harness')
    wraps = getattr(cfg, 'WRAP', [])
    ld = ['g++', '-fsanitize=address,undefined', '-o', out] + objs
    if wraps:
        ld += ['-Wl,' + ','.join('--wrap=' + w for w in wraps)]
    ld += list(getattr(cfg, 'LIBS', [])) + BASE_LIBS
    p = subprocess.run(ld, stdout=subprocess.PIPE, stderr=subprocess.PIPE)
    if p.returncode != 0:
        return None, 'link error:\n' + p.stderr.decode(errors='replace')[-6000:]
    log('[%s] harness built in %.1fs (%d objects)' % (pid, time.time() - t0, len(objs)))
    return out, None


# ---------------------------------------------------------------- regenerated constants
def gen_consts_cpp(pid, includes, entries, outfile, prelude='', module_comment='', extra_sources=()):
    """Compile a tiny program against /repo headers that prints Gallina definitions
    of the named C++ constant expressions (all as N). entries: [(coq_name, c_expr)]."""
    os.makedirs(os.path.join(BUILD, pid), exist_ok=True)
    cpp = os.path.join(BUILD, pid, 'genconsts.cpp')
    exe = os.path.join(BUILD, pid, 'genconsts')
    body = ['#include <stdio.h>', '#include <stdint.h>', '#include <stddef.h>',
            '#include <string>', '#include <vector>', '#include <map>', '#include <set>',
            '#include <sstream>', '#include <memory>', '#include <queue>', '#include <deque>',
            '#include <list>', '#include <iostream>', '#include <algorithm>',
            '#define private public', '#define protected public']
    body += ['#include "%s"' % i for i in includes]
    body += [prelude, 'int main() {',
             'printf("(* REGENERATED from the repository headers on every run. Do not edit. %s *)\\n");'
             % module_comment.replace('"', "'"),
             'printf("From Coq Require Import NArith.\\nLocal Open Scope N_scope.\\n");']
    for name, expr in entries:
        body.append('printf("Definition %s : N := %%llu.\\n", (unsigned long long)(%s));' % (name, expr))
    body += ['return 0; }']
    with open(cpp, 'w') as f:
        f.write('\n'.join(body) + '\n')
    flags = ['-std=gnu++11', '-DHAVE_CONFIG_H', '-w', '-DPID_DATA_DIR="x"'] + include_flags()
    p = subprocess.run(['ccache', 'g++'] + flags + [cpp] + [repo_path(x) for x in extra_sources] +
                       ['-o', exe], stdout=subprocess.PIPE, stderr=subprocess.PIPE)
    if p.returncode != 0:
        return 'genconsts compile error:\n' + p.stderr.decode(errors='replace')[-3000:]
    p = subprocess.run([exe], stdout=subprocess.PIPE, stderr=subprocess.PIPE)
    if p.returncode != 0:
        return 'genconsts run error'
    new = p.stdout.decode()
    old = open(outfile).read() if os.path.exists(outfile) else None
    if new != old:
        with open(outfile, 'w') as f:
            f.write(new)
    return None


# ---------------------------------------------------------------- Coq
def _coq_make(cdir, timeout):
    p = sh('coq_makefile -f _CoqProject -o Makefile.coq 2>&1', cwd=cdir)
    if p.returncode != 0:
        return 1, p.stdout.decode(errors='replace')
    try:
        p = sh('make -f Makefile.coq -j%d 2>&1' % NCPU, cwd=cdir, timeout=timeout)
    except subprocess.TimeoutExpired:
        return 124, 'coq make timed out after %ds' % timeout
    return p.returncode, p.stdout.decode(errors='replace')


def build_base():
    import fcntl
    bdir = os.path.join(VERIF, 'coq', 'Base')
    os.makedirs(BUILD, exist_ok=True)
    with open(os.path.join(VERIF, 'build', '.base.lock'), 'w') as lk:
        fcntl.flock(lk, fcntl.LOCK_EX)
        rc, out = _coq_make(bdir, 900)
    return rc, out


def theorem_names(vfile):
    txt = open(vfile).read()
    txt = re.sub(r'\(\*.*?\*\)', '', txt, flags=re.S)
    return re.findall(r'^\s*(?:Theorem|Corollary)\s+([A-Za-z0-9_\']+)', txt, flags=re.M)


def scan_forbidden(dirs):
    bad = []
    for d in dirs:
        for f in sorted(glob.glob(os.path.join(d, '*.v'))):
            txt = open(f).read()
            txt2 = re.sub(r'\(\*.*?\*\)', lambda m: ' ' * len(m.group(0)), txt, flags=re.S)
            for m in FORBIDDEN.finditer(txt2):
                line = txt2.count('\n', 0, m.start()) + 1
                bad.append('%s:%d: %s' % (os.path.relpath(f, VERIF), line, m.group(0)))
    return bad


def coq_check(pid, timeout=1500):
    """Build Base and the property's Coq project.  Returns dict with obligations etc."""
    t0 = time.time()
    res = {'obligations': 0, 'discharged': 0, 'ok': False, 'log': '', 'assumptions': {},
           'theorems': [], 'failed': None, 'forbidden': []}
    cdir = os.path.join(VERIF, 'props', pid, 'coq')
    rc, out = build_base()
    if rc != 0:
        res['log'] = out[-4000:]
        res['failed'] = 'coq/Base'
        return res
    names = theorem_names(os.path.join(cdir, 'Properties.v'))
    res['theorems'] = names
    res['obligations'] = len(names)
    res['forbidden'] = scan_forbidden([os.path.join(VERIF, 'coq', 'Base'), cdir])
    rc, out = _coq_make(cdir, timeout)
    os.makedirs(os.path.join(BUILD, pid), exist_ok=True)
    with open(os.path.join(BUILD, pid, 'coq.log'), 'w') as f:
        f.write(out)
    res['log'] = out[-6000:]
    if rc == 0 and os.path.exists(os.path.join(cdir, 'Properties.vo')):
        # Print Assumptions output comes from compiling Properties.v.  make has just brought every .vo
        # up to date with its sources (so every obligation is re-checked whenever anything it depends on
        # changed); the printed text is cached per compiled Properties.vo and re-used while that .vo is
        # unchanged, otherwise Properties.v is compiled once more to capture it.
        cache = os.path.join(BUILD, pid, 'assumptions.txt')
        vo = os.path.join(cdir, 'Properties.vo')
        pa = None
        if os.path.exists(cache) and os.path.getmtime(cache) >= os.path.getmtime(vo) \
                and os.environ.get('VERIF_NO_PA_CACHE') != '1':
            pa = open(cache).read()
        if pa is None:
            p = sh('coqc $(grep -E "^-[QR]" _CoqProject | tr "\\n" " ") Properties.v 2>&1', cwd=cdir, timeout=timeout)
            pa = p.stdout.decode(errors='replace')
            if p.returncode != 0:
                rc = p.returncode
                out = pa
                pa = None
            else:
                with open(cache, 'w') as f:
                    f.write(pa)
                os.utime(cache, None)
        if pa is not None:
            res['assumptions'] = parse_assumptions(pa, names)
    if rc != 0:
        m = re.search(r'File "\./([^"]+)", line (\d+)', out)
        res['failed'] = '%s line %s' % (m.group(1), m.group(2)) if m else 'coq build'
        # theorems of Properties.v stated before the failing line are discharged
        if m and m.group(1) == 'Properties.v':
            ln = int(m.group(2))
            lines = open(os.path.join(cdir, 'Properties.v')).read().split('\n')[:ln - 1]
            ok = 0
            for i, l in enumerate(lines):
                mm = re.match(r'\s*(?:Theorem|Corollary)\s+([A-Za-z0-9_\']+)', l)
                if mm:
                    ok += 1
            # the failing one is the last started theorem
            res['discharged'] = max(0, ok - 1)
            res['failed_theorem'] = names[ok - 1] if 0 < ok <= len(names) else None
        else:
            res['discharged'] = 0
            res['failed_theorem'] = None
        return res
    if res['forbidden']:
        res['failed'] = 'forbidden construct: ' + '; '.join(res['forbidden'][:5])
        return res
    if not names:
        res['failed'] = 'Properties.v states no theorem'
        return res
    res['discharged'] = len(names)
    res['ok'] = True
    res['wall'] = time.time() - t0
    return res


def parse_assumptions(text, names):
    """Split coqc output of Properties.v into one Print Assumptions block per theorem."""
    blocks = re.split(r'(?m)^(?=Closed under the global context|Axioms:|Section Variables:)', text)
    blocks = [b.strip() for b in blocks if b.strip().startswith(('Closed', 'Axioms', 'Section'))]
    out = {}
    for i, n in enumerate(names):
        if i < len(blocks):
            b = blocks[i]
            out[n] = 'closed' if b.startswith('Closed') else re.sub(r'\s+', ' ', b)[:600]
        else:
            out[n] = 'no Print Assumptions output'
    return out


def build_model_driver(pid):
    """Extraction already happened during make (Extract.v writes model.ml in coq/)."""
    cdir = os.path.join(VERIF, 'props', pid, 'coq')
    pdir = os.path.join(VERIF, 'props', pid)
    bdir = os.path.join(BUILD, pid, 'ml')
    os.makedirs(bdir, exist_ok=True)
    for f in ('model.ml', 'model.mli'):
        if not os.path.exists(os.path.join(cdir, f)):
            return None, 'extraction output %s missing' % f
        shutil.copy(os.path.join(cdir, f), bdir)
    with open(os.path.join(bdir, 'driver.ml'), 'w') as f:
        f.write(open(os.path.join(VERIF, 'ocaml', 'vh.ml')).read())
        f.write('\n# 1 "driver.ml"\n')
        f.write(open(os.path.join(pdir, 'driver.ml')).read())
    out = os.path.join(BUILD, pid, 'model_driver')
    p = sh(['ocamlfind', 'ocamlopt', '-O3', '-w', '-a', '-I', bdir, 'model.mli', 'model.ml',
            'driver.ml', '-o', out], cwd=bdir)
    if p.returncode != 0:
        p = sh(['ocamlfind', 'ocamlopt', '-w', '-a', '-I', bdir, 'model.mli', 'model.ml',
                'driver.ml', '-o', out], cwd=bdir)
    if p.returncode != 0:
        return None, 'ocaml build error:\n' + (p.stdout + p.stderr).decode(errors='replace')[-4000:]
    return out, None


# ---------------------------------------------------------------- running cases
def _classify_crash(err, rc):
    if rc in (-14, 142) or 'ALARM' in err:
        return 'HANG'
    m = re.search(r'ERROR: AddressSanitizer: ([A-Za-z0-9_-]+)', err)
    if m:
        return 'ASAN:' + m.group(1)
    if 'runtime error:' in err:
        m = re.search(r'runtime error: ([^\n]{0,80})', err)
        return 'UBSAN:' + re.sub(r'[^A-Za-z0-9_-]+', '_', m.group(1))[:60]
    if 'stack-overflow' in err:
        return 'ASAN:stack-overflow'
    return 'CRASH:rc=%d' % rc


def _limit_model_memory():
    import resource
    lim = 8 << 30
    resource.setrlimit(resource.RLIMIT_AS, (lim, lim))


def run_binary(binary, cases, workdir, tag, timeout_per_proc=600, env=None):
    """cases: list of (id, payload). Returns dict id -> result (crashes become CRASH...)."""
    os.makedirs(workdir, exist_ok=True)
    results = {}
    crashlogs = {}
    start = 0
    n = len(cases)
    while start < n:
        inp = os.path.join(workdir, '%s.in' % tag)
        with open(inp, 'w') as f:
            for cid, payload in cases[start:]:
                f.write('%s %s\n' % (cid, payload))
        try:
            # the extracted model driver gets an address-space cap (a runaway model must not take the
            # box down); the ASan harness cannot have one (shadow memory)
            pre = _limit_model_memory if os.path.basename(binary) == 'model_driver' else None
            p = subprocess.run([binary, inp], stdout=subprocess.PIPE, stderr=subprocess.PIPE,
                               timeout=timeout_per_proc, env=env, preexec_fn=pre)
            out, err, rc = p.stdout, p.stderr, p.returncode
        except subprocess.TimeoutExpired as e:
            out, err, rc = e.stdout or b'', e.stderr or b'', -14
        out = out.decode(errors='replace')
        err = err.decode(errors='replace')
        current = None
        done = 0
        for line in out.split('\n'):
            if line.startswith('B '):
                current = line[2:].strip()
            elif line.startswith('R '):
                parts = line.split(' ', 2)
                cid = parts[1]
                results[cid] = parts[2] if len(parts) > 2 else ''
                current = None
                done += 1
        if rc == 0 and current is None and start + done >= n:
            break
        # the process died (or stopped early) while running `current`
        if current is None:
            # died outside a case: attribute to next case to guarantee progress
            current = cases[start + done][0] if start + done < n else None
            if current is None:
                break
        kind = _classify_crash(err, rc)
        results[current] = 'crash=' + kind
        crashlogs[current] = err[-3000:]
        idx = next(i for i in range(start, n) if cases[i][0] == current)
        start = idx + 1
    return results, crashlogs


def run_sharded(binary, cases, workdir, tag, shards=None, env=None, timeout_per_proc=900):
    shards = shards or min(NCPU, max(1, len(cases) // 200))
    if shards <= 1:
        return run_binary(binary, cases, workdir, tag, env=env, timeout_per_proc=timeout_per_proc)
    chunks = [cases[i::shards] for i in range(shards)]
    results, crashlogs = {}, {}
    with cf.ThreadPoolExecutor(shards) as ex:
        futs = [ex.submit(run_binary, binary, ch, workdir, '%s.%d' % (tag, i), timeout_per_proc, env)
                for i, ch in enumerate(chunks)]
        for f in futs:
            r, c = f.result()
            results.update(r)
            crashlogs.update(c)
    return results, crashlogs


def parse_kv(line):
    d = {}
    for part in line.split(';'):
        if '=' in part:
            k, v = part.split('=', 1)
            d[k] = v
        elif part:
            d[part] = ''
    return d


# ---------------------------------------------------------------- known findings
def load_known(pid):
    p = os.path.join(VERIF, 'known_findings.json')
    if not os.path.exists(p):
        return []
    d = json.load(open(p))
    out = [f for f in d.get('findings', []) if f.get('property') == pid]
    # builders' test aid only (never set by the registered commands): also read a proposed list
    extra = os.environ.get('VERIF_KNOWN_EXTRA')
    if extra and os.path.exists(extra):
        e = json.load(open(extra))
        e = e.get('findings', []) if isinstance(e, dict) else e
        out += [f for f in e if f.get('property') == pid and f.get('id') not in {x['id'] for x in out}]
    return out


# ---------------------------------------------------------------- evidence / replay
def write_evidence(pid, tier, seed, coverage, assumptions, wall, violations):
    os.makedirs(os.path.join(VERIF, 'evidence'), exist_ok=True)
    ev = {'property_id': pid, 'tier': tier, 'seed': seed, 'level': 'proof',
          'coverage': coverage, 'assumptions': assumptions, 'wall_s': round(wall, 2),
          'violations': violations}
    with open(os.path.join(VERIF, 'evidence', pid + '.json'), 'w') as f:
        json.dump(ev, f, indent=1, sort_keys=True)
        f.write('\n')


def write_replay(pid, obj):
    d = os.path.join(VERIF, 'replays', pid)
    os.makedirs(d, exist_ok=True)
    blob = json.dumps(obj, indent=1, sort_keys=True)
    h = hashlib.sha1(blob.encode()).hexdigest()[:12]
    path = os.path.join(d, h + '.json')
    with open(path, 'w') as f:
        f.write(blob + '\n')
    return path


def load_prop(pid):
    path = os.path.join(VERIF, 'props', pid, 'prop.py')
    spec = importlib.util.spec_from_file_location('prop_' + pid, path)
    mod = importlib.util.module_from_spec(spec)
    spec.loader.exec_module(mod)
    return mod


# ---------------------------------------------------------------- the check
def run_check(pid, tier='quick', replay=None):
    t0 = time.time()
    seed = int(os.environ.get('VERIF_SEED', '1') or 1)
    cfg = load_prop(pid)
    pdir = os.path.join(VERIF, 'props', pid)
    # One invocation per property at a time: the Coq directory (Gen.v), the extracted driver and the
    # case files are shared, and two overlapping runs of the same property once produced spurious
    # divergences (each overwrote the other's case files).  Different properties run in parallel freely.
    import fcntl
    lockdir = os.path.join(VERIF, 'build', 'locks')
    os.makedirs(lockdir, exist_ok=True)
    _lock = open(os.path.join(lockdir, pid + '.lock'), 'w')
    fcntl.flock(_lock, fcntl.LOCK_EX)
    globals()['_held_lock_' + pid] = _lock      # keep it open until the process exits
    wdir = os.path.join(BUILD, pid, 'run')
    os.makedirs(wdir, exist_ok=True)
    violations = []   # list of (replay_path, suffix)
    notes = []

    def violation(kind, detail, found_input=True):
        obj = dict(detail)
        obj['property'] = pid
        obj['kind'] = kind
        obj['replay_cmd'] = './check %s --replay <this file>' % pid
        path = write_replay(pid, obj)
        violations.append((path, '' if found_input else ' no-failing-input-found'))

    # 1. regenerate constants / layouts from /repo, then prove
    if hasattr(cfg, 'gen_consts'):
        err = cfg.gen_consts(sys.modules[__name__])
        if err:
            violation('regeneration-failed', {'what': 'constants could not be regenerated from the '
                      'repository headers: ' + err[-1500:], 'theorem_or_correspondence': 'Gen.v'},
                      found_input=False)
    coq = coq_check(pid, timeout=int(getattr(cfg, 'COQ_TIMEOUT', 1500)))
    driver = None
    if coq['ok'] or os.path.exists(os.path.join(pdir, 'coq', 'model.ml')):
        driver, derr = build_model_driver(pid)
        if driver is None:
            notes.append(derr)
            # the model cannot be run: the correspondence is not established, never report OK
            violation('model-driver-build-failed', {'what': (derr or '')[-3000:],
                      'theorem_or_correspondence': 'extracted model driver of ' + pid}, found_input=False)
    # 2. implementation harness from the current working tree
    harness, herr = build_harness(pid, cfg)
    if harness is None:
        # The tree does not compile with our harness: cannot decide anything.
        violation('harness-build-failed', {'what': herr[-3000:],
                  'theorem_or_correspondence': 'correspondence harness of ' + pid}, found_input=False)

    # 3. cases
    rng = random.Random(seed * 1000003 + (0 if tier == 'quick' else 7))
    if replay:
        rp = json.load(open(replay))
        cases = [(str(i), c) for i, c in enumerate(rp.get('cases', [rp.get('case')] if rp.get('case') else []))]
    else:
        corpus = []
        cpath = os.path.join(pdir, 'corpus.txt')
        if os.path.exists(cpath):
            corpus = [l.rstrip('\n') for l in open(cpath) if l.strip() and not l.startswith('#')]
        gen = list(cfg.gen_cases(rng, tier))
        cases = [('k%d' % i, c) for i, c in enumerate(corpus)] + [('g%d' % i, c) for i, c in enumerate(gen)]
    known = load_known(pid)
    kcases = [('f%d' % i, k['case']) for i, k in enumerate(known) if 'case' in k]
    allcases = kcases + cases

    mres, ires, icrash = {}, {}, {}
    if driver and harness:
        mres, mcrash = run_sharded(driver, allcases, wdir, 'model')
        ires, icrash = run_sharded(harness, allcases, wdir, 'impl',
                                   timeout_per_proc=int(getattr(cfg, 'PROC_TIMEOUT', 900)))

    # 4. compare
    spec_keys = getattr(cfg, 'SPEC_KEYS', None)      # None: every key is property-determined
    ignore_keys = set(getattr(cfg, 'INTERNAL_KEYS', []))
    divergences = []
    known_hit = {}
    ntriv = set()
    dist = {}
    kmap = {('f%d' % i): k for i, k in enumerate(known) if 'case' in k}
    for cid, payload in allcases:
        m = mres.get(cid)
        r = ires.get(cid)
        if m is None or r is None:
            if driver and harness:
                divergences.append((cid, payload, m, r, 'missing-output'))
            continue
        md, rd = parse_kv(m), parse_kv(r)
        cls = md.get('class', rd.get('class', '?'))
        dist[cls] = dist.get(cls, 0) + 1
        # known-finding bookkeeping: the model (faithful to the code) says the property fails here
        if md.get('known'):
            known_hit.setdefault(md['known'], []).append(payload)
        diffkeys = [k for k in sorted(set(md) | set(rd))
                    if md.get(k) != rd.get(k) and k not in ignore_keys
                    and k not in ('known', 'class')]
        if diffkeys:
            divergences.append((cid, payload, m, r, ','.join(diffkeys)))
        else:
            nt = cfg.nontrivial(payload, md) if hasattr(cfg, 'nontrivial') else ('ok' in m)
            if nt:
                ntriv.add(hashlib.sha1(m.encode()).hexdigest())

    # 5. decide
    for kid, k in kmap.items():
        pass
    listed = {k['id'] for k in known}
    for kid in sorted(known_hit):
        if kid in listed:
            k = next(x for x in known if x['id'] == kid)
            print('KNOWN-FINDING: property=%s %s [%s; %d case(s) this run]' % (
                pid, k['what'], kid, len(known_hit[kid])), flush=True)
        else:
            violation('unlisted-finding', {'what': 'model marks cases as finding %r which is not listed in '
                      'known_findings.json' % kid, 'cases': known_hit[kid][:5]})
    for k in known:
        if k['id'] not in known_hit and 'case' in k:
            notes.append('known finding %s no longer reproduces (fixed?)' % k['id'])

    if divergences:
        # group: property-determined keys (or crashes) => a concrete failing input
        shown = 0
        first = {}
        for cid, payload, m, r, keys in divergences:
            ks = keys.split(',')
            crash = r is not None and r.startswith('crash=')
            spec_hit = crash or spec_keys is None or any(k in spec_keys for k in ks) or keys == 'missing-output'
            sig = ('spec' if spec_hit else 'internal', keys if not crash else r)
            if sig in first:
                first[sig][5] += 1
                continue
            first[sig] = [cid, payload, m, r, spec_hit, 1]
        # concrete (property-level / crash) signatures first, internal-only ones last
        ordered = sorted(first.items(), key=lambda kv: (0 if kv[1][4] else 1))
        for sig, (cid, payload, m, r, spec_hit, cnt) in ordered:
            if shown >= 5:
                break
            shown += 1
            detail = {'case': payload, 'model_says': m, 'implementation_says': r,
                      'differing_keys': sig[1], 'same_signature_cases': cnt,
                      'crash_log': icrash.get(cid, '')[-1500:],
                      'theorem_or_correspondence': 'correspondence %s (model vs /repo build)' % pid}
            if spec_hit:
                detail['what'] = ('implementation output differs from the value the proved model fixes '
                                  'for this input (property-determined observable)')
                violation('property-fails-on-input', detail, found_input=True)
            else:
                detail['what'] = ('model and implementation disagree on an internal observable; the '
                                  'property-level observables agree on every explored input')
                violation('correspondence-broken', detail, found_input=False)

    if not coq['ok']:
        # a proof obligation no longer checks; look for a failing input among what we ran
        detail = {'what': 'Coq obligation no longer checks: ' + str(coq.get('failed')),
                  'theorem_or_correspondence': coq.get('failed_theorem') or coq.get('failed'),
                  'coq_log_tail': coq['log'][-2500:]}
        if not any(s == '' for _, s in violations):
            violation('proof-broken', detail, found_input=False)
        else:
            notes.append('proof broken as well: ' + str(coq.get('failed')))

    # 6. evidence
    samples = []
    for cid, payload in (cases[:2] + cases[len(cases) // 2: len(cases) // 2 + 1] + cases[-1:]):
        samples.append({'case': payload[:400], 'model': (mres.get(cid) or '')[:400],
                        'impl': (ires.get(cid) or '')[:400]})
    tb = ['Coq 8.16.1 kernel (coqc, vm_compute; no native_compute)',
          'Coq extraction with ExtrOcamlBasic only; ocamlfind ocamlopt 4.13.1; ocaml/vh.ml + props/%s/driver.ml glue' % pid,
          'correspondence harness props/%s/harness.cpp built from the /repo working tree with g++ ASan/UBSan' % pid,
          'generators in props/%s/prop.py (differential testing bounds, does not prove, model = code)' % pid]
    for n, a in sorted(coq.get('assumptions', {}).items()):
        tb.append('Print Assumptions %s: %s' % (n, a))
    tb += list(getattr(cfg, 'TRUSTED', []))
    coverage = {
        'obligations': coq['obligations'], 'discharged': coq['discharged'],
        'checker_cmd': 'make -f Makefile.coq (coqc 8.16.1) in coq/Base and props/%s/coq; coqc Properties.v' % pid,
        'trusted_base': tb,
        'theorems': coq['theorems'],
        'evaluations': len(allcases), 'distinct_nontrivial': len(ntriv),
        'rule': getattr(cfg, 'RULE', 'generated cases; non-trivial = accepted by the model; distinct = distinct model output line'),
        'samples': samples,
        'traces_validated_against_impl': len([c for c in allcases if c[0] in ires and c[0] in mres]),
        'divergences': len(divergences),
        'input_distribution': dist,
        'known_findings_reproduced': sorted(known_hit),
        'notes': notes,
        'repo': REPO,
    }
    if hasattr(cfg, 'extra_coverage'):
        coverage.update(cfg.extra_coverage())
    write_evidence(pid, tier, seed, coverage, list(getattr(cfg, 'ASSUMPTIONS', [])),
                   time.time() - t0, len(violations))
    for n in notes:
        log('[%s] note: %s' % (pid, n))
    log('[%s] %s: %d/%d obligations, %d cases, %d divergences, %d non-trivial distinct, %.1fs' % (
        pid, tier, coq['discharged'], coq['obligations'], len(allcases), len(divergences),
        len(ntriv), time.time() - t0))
    if violations:
        for path, suffix in violations:
            print('VIOLATION property=%s replay=%s%s' % (pid, path, suffix), flush=True)
        return 1
    print('OK property=%s tier=%s obligations=%d/%d cases=%d' % (
        pid, tier, coq['discharged'], coq['obligations'], len(allcases)), flush=True)
    return 0
