#!/bin/bash
# Integrator tool: run the quick check of each given property against each change an attacker left in
# /tmp/<atkprefix>_<P>/out/{1,2,3}; log to /tmp/<logprefix>_<P>.log (input of lib/record_seed.py).
# usage: runseeds.sh <logprefix> <atkprefix> P1 P2 ...   (properties in parallel, changes of one property in sequence)
logp=$1; atkp=$2; shift 2
cd /verif
for P in "$@"; do
  ( : > ${logp}_$P.log
    for k in 1 2 3; do
      [ -f ${atkp}_$P/out/$k/patch.diff ] || continue
      echo "== $P-$k" >> ${logp}_$P.log
      python3 lib/seedtest.py $P ${atkp}_$P ${atkp}_$P/out/$k/patch.diff >> ${logp}_$P.log 2>&1
    done ) &
done
wait
