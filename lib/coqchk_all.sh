#!/bin/sh
# Integrator tool: re-check every property's compiled theories with the independent checker coqchk
# and list the axioms they depend on.  usage: lib/coqchk_all.sh [Cnn ...]   (several minutes per property)
cd "$(dirname "$0")/.."
props="$@"; [ -z "$props" ] && props=$(ls props)
for p in $props; do
  [ -f props/$p/coq/Properties.vo ] || { echo "$p: no Properties.vo"; continue; }
  echo "== $p"
  ( timeout 3000 coqchk -o -silent -Q coq/Base OlaBase -Q props/$p/coq $p $p.Properties 2>&1 | tail -25 )
done
