#!/usr/bin/env python3
"""Integrator tool: write the prompt for one independent 'breaking change' author (attacker sub-agent).
The prompt holds notes/attacker_brief.md, the text of ONE property from properties.jsonl and one line
(title + clause) per change already kept under seeded/ for that property -- nothing else from /verif.
usage: mkatkprompt.py <prefix e.g. atk5> <Cnn> [...]   -> /tmp/<prefix>_prompt_<Cnn>.txt"""
import glob, json, os, re, sys
V = os.path.dirname(os.path.dirname(os.path.abspath(__file__)))
prefix = sys.argv[1]
props = {json.loads(l)['id']: json.loads(l) for l in open(os.path.join(V, 'properties.jsonl'))}
brief = open(os.path.join(V, 'notes', 'attacker_brief.md')).read()
HINT = ("Earlier waves show that the hardest regressions to detect involve: state carried between calls or between "
        "runs of long-lived objects; configuration/identifier coincidences; scale (many instances); boundary magnitudes "
        "(sizes, times, counts at 8/16/32-bit limits); re-entrancy from callbacks; two cooperating sites that each look "
        "fine alone; behaviour that differs only for one of several equivalent-looking API entry points; rarely used "
        "entry points, classes and code paths named by (or implied by) the property text that ordinary use never reaches; "
        "several live instances (objects, connections, ports, threads, senders) that should be independent but come to share state; "
        "configuration/setter calls between operations on a long-lived object; optional flags, alternative loaders and site-local data; "
        "platform- or allocator-dependent behaviour (address order, fd numbers, hash-table growth); "
        "the real helper classes underneath the anchored ones (clocks, RPC stubs, allocators) that test doubles usually replace; "
        "states reachable only through a valid multi-step protocol sequence (authenticate/lock/configure, then act); "
        "resource exhaustion after many repetitions (descriptors, memory, counters); first-use races on lazily filled caches; "
        "language-level entry points (moves, temporaries, implicit conversions, operator overloads); "
        "public setters/registrations called again in mid-history; process-wide state (log level, locale, environment, resource limits, signal dispositions); "
        "operating-system objects that misbehave legitimately (sends that fail, short writes, EINTR/EAGAIN, refused registrations, ttys); "
        "inputs outside the obvious alphabet (bytes >= 0x80, embedded NUL, structurally different but value-equal data); "
        "arithmetic in helper value types (intervals, sizes, indices) built through their operators rather than their constructors.")
for pid in sys.argv[2:]:
    p = props[pid]
    b = brief.replace('/tmp/atk_<ID>', '/tmp/%s_%s' % (prefix, pid)).replace('<ID>', pid)
    tried = []
    for d in sorted(glob.glob(os.path.join(V, 'seeded', pid + '*', 'meta.json'))):
        m = json.load(open(d))
        tried.append('- %s (clause: %s)' % (re.sub(r'\s+', ' ', m.get('title', '')), re.sub(r'\s+', ' ', m.get('clause', ''))[:140]))
    q = p.get('quantifier'); q = q.get('text') if isinstance(q, dict) else q
    anchors = p.get('anchors') or {}
    flat = anchors.get('files', []) if isinstance(anchors, dict) else list(anchors)
    txt = b + '\n\n## The property (%s): %s\n\nStatement: %s\n\nQuantified over: %s\n\nWhy the existing tests cannot settle it: %s\n\nSource files it is anchored in: %s\n' % (
        pid, p['title'], p.get('statement') or p.get('text'), q, p.get('why_tests_cant'), ', '.join(x for x in flat if x))
    txt += '\n## Already tried by earlier authors (%d changes) — do NOT repeat these or close variants; find DIFFERENT functions, clauses and mechanisms. %s\n%s\n' % (len(tried), HINT, '\n'.join(tried))
    out = '/tmp/%s_prompt_%s.txt' % (prefix, pid)
    open(out, 'w').write(txt)
    print(out, len(txt), 'bytes,', len(tried), 'tried')
