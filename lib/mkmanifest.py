#!/usr/bin/env python3
"""Regenerates MANIFEST.json from props/*/prop.py (claimed) and lib/not_applicable.json (unclaimed)."""
import glob, json, os, sys
sys.path.insert(0, os.path.dirname(os.path.abspath(__file__)))
import vlib
V = vlib.VERIF
ids = [json.loads(l)['id'] for l in open(os.path.join(V, 'properties.jsonl'))]
na_reasons = json.load(open(os.path.join(V, 'lib', 'not_applicable.json')))
checks, na = [], []
for pid in ids:
    p = os.path.join(V, 'props', pid, 'prop.py')
    if os.path.exists(p) and os.path.exists(os.path.join(V, 'props', pid, 'coq', 'Properties.v')) \
            and pid not in na_reasons.get('_disabled', []):
        cfg = vlib.load_prop(pid)
        checks.append({
            'property_id': pid,
            'quick_cmd': './check %s --tier quick' % pid,
            'thorough_cmd': './check %s --tier thorough' % pid,
            'evidence_file': 'evidence/%s.json' % pid,
            'replay_cmd_template': './check %s --replay {path}' % pid,
            'engine': 'rocq+diff',
            'level_claimed': {'category': 'proof', 'text': getattr(cfg, 'LEVEL_TEXT', ''),
                              'design_ref': getattr(cfg, 'DESIGN_REF', 'DESIGN.md §4 ' + pid)},
            'level_note': getattr(cfg, 'LEVEL_NOTE', ''),
            'technique': getattr(cfg, 'TECHNIQUE', 'Coq proof on executable model + differential correspondence'),
        })
    else:
        na.append({'property_id': pid, 'reason': na_reasons.get(pid, 'check not built yet in this round; see DESIGN.md §4 ' + pid)})
hooks = json.load(open(os.path.join(V, 'lib', 'hooks.json')))
m = {'version': 1,
     'setup_cmd': './setup.sh',
     'hooks': hooks,
     'engines': [{'name': 'rocq+diff', 'path': 'lib/vlib.py',
                  'serves_properties': [c['property_id'] for c in checks],
                  'kind_free_text': 'Coq 8.16.1 proofs about hand-written executable models; models extracted to OCaml '
                  'and run against ASan/UBSan builds of the /repo working tree on generated inputs; constants and layouts '
                  'regenerated from /repo headers on every run'}],
     'checks': checks,
     'not_applicable': na,
     'notes': 'See DESIGN.md. known_findings.json lists recorded findings and fixed: entries.'}
json.dump(m, open(os.path.join(V, 'MANIFEST.json'), 'w'), indent=1)
print(len(checks), 'checks;', len(na), 'not claimed')
