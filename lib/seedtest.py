#!/usr/bin/env python3
"""Integrator tool: run a property's check against a scratch checkout with one seeded change applied.
usage: seedtest.py <Cnn> <scratch_checkout> <patch.diff> [tier]
Prints DETECTED/MISSED plus the VIOLATION lines.  The scratch checkout is restored afterwards."""
import os, subprocess, sys, shutil, hashlib
V = os.path.dirname(os.path.dirname(os.path.abspath(__file__)))
pid, wt, patch = sys.argv[1], os.path.abspath(sys.argv[2]), os.path.abspath(sys.argv[3])
tier = sys.argv[4] if len(sys.argv) > 4 else 'quick'
def sh(c, **k):
    return subprocess.run(c, shell=True, stdout=subprocess.PIPE, stderr=subprocess.STDOUT, **k)
st = sh('git -C %s status --porcelain --untracked-files=no' % wt).stdout.decode().strip()
if st:
    sys.exit('scratch checkout not clean:\n' + st)
p = sh('git -C %s apply %s' % (wt, patch))
if p.returncode:
    sys.exit('patch does not apply: ' + p.stdout.decode())
try:
    env = dict(os.environ, VERIF_REPO=wt)
    p = subprocess.run(['./check', pid, '--tier', tier], cwd=V, env=env, stdout=subprocess.PIPE, stderr=subprocess.PIPE)
    out = p.stdout.decode(errors='replace')
    vio = [l for l in out.split('\n') if l.startswith('VIOLATION')]
    print('exit', p.returncode, 'DETECTED' if (p.returncode == 1 and vio) else 'MISSED')
    for l in vio[:6]:
        print(' ', l)
    print(p.stderr.decode(errors='replace')[-600:])
finally:
    sh('git -C %s checkout -- .' % wt)
    alt = os.path.join(V, 'build', 'alt_' + hashlib.sha1(wt.encode()).hexdigest()[:8])
    # evidence file was rewritten by this run against another tree: restore the committed one
    sh('git -C %s checkout -- evidence/%s.json' % (V, pid))
