import json,os,shutil,re,sys
# usage: record_seed.py <logprefix> <atkprefix> <suffix> P1 P2 ...
logp, atkp, suf = sys.argv[1], sys.argv[2], sys.argv[3]
for P in sys.argv[4:]:
    log=open('%s_%s.log'%(logp,P)).read()
    for k in (1,2,3,4):
        m=re.search(r'== %s-%d\n(exit \d \w+)(.*?)(?=\n== |\Z)'%(P,k),log,re.S)
        if not m: print('no result',P,k); continue
        verdict=m.group(1); rest=m.group(2)
        nf = rest.count('no-failing-input-found'); nv=rest.count('VIOLATION')
        summ=re.search(r'quick: .*',rest)
        sid='%s%s-%d'%(P,suf,k)
        d='/verif/seeded/'+sid
        os.makedirs(d,exist_ok=True)
        if not os.path.isdir('%s_%s/out/%d'%(atkp,P,k)): continue
        for f in os.listdir('%s_%s/out/%d'%(atkp,P,k)):
            if f in ('demo','check.log') or f.endswith('.o'): continue
            src='%s_%s/out/%d/%s'%(atkp,P,k,f)
            if os.path.isfile(src) and os.path.getsize(src)<300000: shutil.copy(src,d)
        meta=json.load(open(d+'/meta.json'))
        meta['wave']={'':1,'b':2,'c':3,'d':4,'e':5,'f':6,'g':7,'h':8}.get(suf,9)
        meta['verif_result']='%s by ./check %s --tier quick (%d VIOLATION lines shown, %d of them no-failing-input-found; %s)'%(
            'DETECTED' if 'DETECTED' in verdict else 'MISSED',P,nv,nf,summ.group(0) if summ else '')
        meta['verif_cmd']='python3 lib/seedtest.py %s <scratch checkout at the base commit> seeded/%s/patch.diff'%(P,sid)
        meta['base_commit']=os.popen('git -C %s_%s rev-parse --short HEAD'%(atkp,P)).read().strip()
        json.dump(meta,open(d+'/meta.json','w'),indent=1)
        print(sid, meta['verif_result'][:40])
