#!/usr/bin/env python3
"""Integrator tool (never run by checks): rebuild known_findings.json =
   findings: union of props/*/known_findings.proposed.json for properties listed on the command line
             (or already present), fixed: one line per fix commit in /repo matched by subject to
             props/*/fixes/*.msg."""
import glob, json, os, subprocess, sys
V = os.path.dirname(os.path.dirname(os.path.abspath(__file__)))
kf = json.load(open(os.path.join(V, 'known_findings.json')))
have = {f['id']: f for f in kf.get('findings', [])}
for pid in sys.argv[1:]:
    p = os.path.join(V, 'props', pid, 'known_findings.proposed.json')
    if os.path.exists(p):
        e = json.load(open(p))
        for f in (e.get('findings', []) if isinstance(e, dict) else e):
            have[f['id']] = f
log = subprocess.run(['git', '-C', '/repo', 'log', '--format=%h\t%s'], stdout=subprocess.PIPE).stdout.decode().split('\n')
subj = {}
for l in log:
    if '\t' in l:
        h, s = l.split('\t', 1)
        subj.setdefault(s.strip(), h)
fixed = [x for x in kf.get('fixed', []) if 'c3fc1e6' in x]
for m in sorted(glob.glob(os.path.join(V, 'props', '*', 'fixes', '*.msg'))):
    pid = m.split('/')[-3]
    lines = open(m).read().strip().split('\n')
    s = lines[0].strip()
    if s in subj:
        body = ' '.join(x.strip() for x in lines[1:] if x.strip())[:400]
        line = 'fixed: property=%s %s %s' % (pid, subj[s], s[4:].strip() + (' — ' + body if body else ''))
        fixed.append(line)
kf['findings'] = sorted(have.values(), key=lambda f: f['id'])
kf['fixed'] = fixed
json.dump(kf, open(os.path.join(V, 'known_findings.json'), 'w'), indent=1)
print(len(kf['findings']), 'findings;', len(fixed), 'fixed')
