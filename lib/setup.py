#!/usr/bin/env python3
import os, sys, glob
sys.path.insert(0, os.path.dirname(os.path.abspath(__file__)))
import vlib
rc, out = vlib.build_base()
print('Base', rc)
if rc != 0:
    print(out[-3000:]); sys.exit(1)
bad = 0
only = sys.argv[1:]
for d in sorted(glob.glob(os.path.join(vlib.VERIF, 'props', 'C*'))):
    pid = os.path.basename(d)
    if only and pid not in only:
        continue
    if not os.path.exists(os.path.join(d, 'prop.py')):
        continue
    cfg = vlib.load_prop(pid)
    if hasattr(cfg, 'gen_consts'):
        err = cfg.gen_consts(vlib)
        if err:
            print(pid, 'gen_consts:', err[-500:]); bad += 1
    c = vlib.coq_check(pid, timeout=int(getattr(cfg, 'COQ_TIMEOUT', 1500)))
    drv, derr = vlib.build_model_driver(pid) if c['ok'] else (None, 'coq failed')
    h, herr = vlib.build_harness(pid, cfg)
    print(pid, 'coq', 'ok' if c['ok'] else c['failed'], '| driver', 'ok' if drv else derr[-300:],
          '| harness', 'ok' if h else herr[-300:])
    if not (c['ok'] and drv and h):
        bad += 1
sys.exit(1 if bad else 0)
