#!/usr/bin/env python3
"""setup_cmd: offline build of Base, every property's Coq project, model driver and harness."""
import os, sys, glob, time
import concurrent.futures as cf
sys.path.insert(0, os.path.dirname(os.path.abspath(__file__)))
import vlib
t0 = time.time()
rc, out = vlib.build_base()
print('Base', rc, flush=True)
if rc != 0:
    print(out[-3000:]); sys.exit(1)
only = sys.argv[1:]
pids = []
for d in sorted(glob.glob(os.path.join(vlib.VERIF, 'props', 'C*'))):
    pid = os.path.basename(d)
    if only and pid not in only:
        continue
    if os.path.exists(os.path.join(d, 'prop.py')) and os.path.exists(os.path.join(d, 'coq', 'Properties.v')):
        pids.append(pid)

def one(pid):
    try:
        cfg = vlib.load_prop(pid)
        msg = []
        if hasattr(cfg, 'gen_consts'):
            err = cfg.gen_consts(vlib)
            if err:
                msg.append('gen_consts: ' + err[-500:])
        c = vlib.coq_check(pid, timeout=int(getattr(cfg, 'COQ_TIMEOUT', 1500)))
        drv, derr = vlib.build_model_driver(pid) if c['ok'] else (None, 'coq failed')
        h, herr = vlib.build_harness(pid, cfg)
        ok = c['ok'] and drv and h and not msg
        return pid, ok, '%s coq %s | driver %s | harness %s %s' % (
            pid, 'ok' if c['ok'] else c['failed'], 'ok' if drv else derr[-300:],
            'ok' if h else herr[-300:], ' '.join(msg))
    except Exception as e:
        return pid, False, '%s exception %r' % (pid, e)

bad = 0
with cf.ThreadPoolExecutor(5) as ex:
    for pid, ok, line in ex.map(one, pids):
        print(line, flush=True)
        if not ok:
            bad += 1
print('setup done in %.0fs, %d failing' % (time.time() - t0, bad))
# a property whose build fails here is reported by its own check; setup itself only fails on Base
sys.exit(0)
