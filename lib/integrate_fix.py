#!/usr/bin/env python3
"""Integrator tool: apply props/<ID>/fixes/<name>.diff to /repo, run the repository's unedited test
suite (make check -j8), and commit it as one `fix:` commit if exactly the 84 baseline tests still pass.
usage: integrate_fix.py <ID> <name-without-ext> [--dry]"""
import json, os, re, subprocess, sys
V = os.path.dirname(os.path.dirname(os.path.abspath(__file__)))
pid, name = sys.argv[1], sys.argv[2]
dry = '--dry' in sys.argv
notest = '--no-test' in sys.argv
diff = os.path.join(V, 'props', pid, 'fixes', name + '.diff')
msgf = os.path.join(V, 'props', pid, 'fixes', name + '.msg')
msg = open(msgf).read().strip() if os.path.exists(msgf) else None
if not msg or not msg.startswith('fix:'):
    sys.exit('missing or malformed commit message ' + msgf)
def sh(c, **k):
    return subprocess.run(c, shell=True, stdout=subprocess.PIPE, stderr=subprocess.STDOUT, **k)
st = sh('git -C /repo status --porcelain --untracked-files=no').stdout.decode().strip()
if st:
    sys.exit('/repo has uncommitted changes:\n' + st)
p = sh('git -C /repo apply --check %s' % diff)
if p.returncode:
    sys.exit('does not apply:\n' + p.stdout.decode())
sh('git -C /repo apply %s' % diff)
files = sh('git -C /repo diff --name-only').stdout.decode().split()
print('touches', files)
if any(re.search(r'Test|Tester', f) for f in files):
    sh('git -C /repo checkout -- .')
    sys.exit('fix edits test files; refused')
if notest:
    sh('git -C /repo add -u')
    subprocess.run(['git', '-C', '/repo', 'commit', '-q', '-m', msg])
    print('committed (untested)', sh('git -C /repo rev-parse --short HEAD').stdout.decode().strip())
    sys.exit(0)
p = sh('cd /repo && make check -j8 2>&1 | tail -400', timeout=3600)
out = p.stdout.decode(errors='replace')
base = set(json.load(open('/root/.vp/BASELINE.json'))['stable_pass'])
passed = set(re.findall(r'^PASS: (\S+)', out, flags=re.M))
failed = set(re.findall(r'^(?:FAIL|ERROR): (\S+)', out, flags=re.M))
missing = base - passed
print('passed %d, failed %s, baseline missing %s' % (len(passed), sorted(failed), sorted(missing)))
if missing or not passed:
    print(out[-3000:])
    sh('git -C /repo checkout -- .')
    sys.exit('test suite not green with this fix; reverted')
if dry:
    sh('git -C /repo checkout -- .')
    print('dry run ok'); sys.exit(0)
sh('git -C /repo add -u')
p = subprocess.run(['git', '-C', '/repo', 'commit', '-q', '-m', msg])
h = sh('git -C /repo rev-parse --short HEAD').stdout.decode().strip()
print('committed', h)
