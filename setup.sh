#!/bin/sh
# Offline build of the whole framework from files on disk: Coq base + every property's proofs,
# extracted model drivers, and a warm compiler cache for the correspondence harnesses.
cd "$(dirname "$0")" && exec python3 lib/setup.py "$@"
